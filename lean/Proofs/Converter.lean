import Model.Converter
/-! Lemmas for C30: the converter's recursion scheme (memo table, creation of named types, cycles). -/
namespace Converter

/-- replace every reference to a standard declaration by a reference to a fork declaration -/
def rename (ρ : Nat → Nat) : CTy → CTy
  | .basic k n => .basic k n
  | .named i => .named (ρ i)
  | .typeparam => .typeparam
  | .node l cs => .node l (rename ρ cs)
  | .nil => .nil
  | .cons a b => .cons (rename ρ a) (rename ρ b)

/-- the fork declaration that stands for standard declaration `sid`: found through the fork scope by
    (package path, name) -/
def rho (env : List SDecl) (st : St) (sid : Nat) : Nat :=
  match env[sid]? with
  | some d => (lookup (d.pkg, d.name) st.scope).getD 0
  | none => 0

/-- every type name mentioned by `t` has a fork counterpart in the scope; nothing generic -/
def Closed (env : List SDecl) (st : St) : CTy → Prop
  | .named i => ∃ d, env[i]? = some d ∧ (lookup (d.pkg, d.name) st.scope).isSome = true
  | .typeparam => False
  | .node _ cs => Closed env st cs
  | .cons a b => Closed env st a ∧ Closed env st b
  | _ => True

/-- the scope only grows: an assigned fork object is never replaced -/
def Le (st st' : St) : Prop := ∀ k v, lookup k st.scope = some v → lookup k st'.scope = some v

theorem Le.refl (st : St) : Le st st := fun _ _ h => h
theorem Le.trans {a b c : St} (h1 : Le a b) (h2 : Le b c) : Le a c := fun k v h => h2 k v (h1 k v h)

theorem le_of_scope_eq {st st' : St} (h : st'.scope = st.scope) : Le st st' := by
  intro k v hk; rw [h]; exact hk

theorem rho_le {env : List SDecl} {st st' : St} (h : Le st st') {i : Nat} {d : SDecl} (hd : env[i]? = some d)
    (hs : (lookup (d.pkg, d.name) st.scope).isSome = true) : rho env st' i = rho env st i := by
  cases e : lookup (d.pkg, d.name) st.scope with
  | none => rw [e] at hs; cases hs
  | some v => simp only [rho, hd, h _ _ e, e]

theorem closed_le {env : List SDecl} {st st' : St} (h : Le st st') : ∀ {t : CTy}, Closed env st t →
    Closed env st' t ∧ rename (rho env st') t = rename (rho env st) t
  | .basic _ _, _ => ⟨trivial, rfl⟩
  | .typeparam, hc => by cases hc
  | .nil, _ => ⟨trivial, rfl⟩
  | .named i, hc => by
      obtain ⟨d, hd, hs⟩ := hc
      refine ⟨⟨d, hd, ?_⟩, ?_⟩
      · cases e : lookup (d.pkg, d.name) st.scope with
        | none => rw [e] at hs; cases hs
        | some v => rw [h _ _ e]; rfl
      · simp only [rename]; rw [rho_le h hd hs]
  | .node _ cs, hc => by
      obtain ⟨c1, c2⟩ := closed_le h (t := cs) hc
      exact ⟨c1, by simp only [rename]; rw [c2]⟩
  | .cons a b, hc => by
      obtain ⟨a1, a2⟩ := closed_le h (t := a) hc.1
      obtain ⟨b1, b2⟩ := closed_le h (t := b) hc.2
      exact ⟨⟨a1, b1⟩, by simp only [rename]; rw [a2, b2]⟩

/-- every entry of the memo table is what a conversion in the current state would produce -/
def CacheOK (env : List SDecl) (st : St) : Prop :=
  ∀ a a', (a, a') ∈ st.cache → Closed env st a ∧ a' = rename (rho env st) a

theorem lookup_mem {α β} [DecidableEq α] {k : α} {v : β} : ∀ {l : List (α × β)}, lookup k l = some v → (k, v) ∈ l
  | [], h => by simp [lookup] at h
  | (k', v') :: l, h => by
      simp only [lookup] at h
      split at h
      · rename_i e; cases h; subst e; simp
      · simp [lookup_mem h]

theorem cacheOK_le {env : List SDecl} {st st' : St} (h : Le st st') (hc : CacheOK env st)
    (he : st'.cache = st.cache) : CacheOK env st' := by
  intro a a' hm
  rw [he] at hm
  obtain ⟨c, e⟩ := hc a a' hm
  obtain ⟨c', e'⟩ := closed_le h c
  exact ⟨c', by rw [e, e']⟩

theorem cacheOK_cons {env : List SDecl} {st : St} (hc : CacheOK env st) {t t' : CTy}
    (c : Closed env st t) (e : t' = rename (rho env st) t) {st' : St}
    (hs : st'.scope = st.scope) (hcache : st'.cache = (t, t') :: st.cache) : CacheOK env st' := by
  have hrho : rho env st' = rho env st := by funext i; simp [rho, hs]
  have hcl : ∀ u, Closed env st u → Closed env st' u := fun u hu => (closed_le (le_of_scope_eq hs) hu).1
  intro a a' hm
  rw [hcache] at hm
  simp only [List.mem_cons, Prod.mk.injEq] at hm
  rcases hm with ⟨rfl, rfl⟩ | hm
  · exact ⟨hcl _ c, by rw [hrho]; exact e⟩
  · obtain ⟨c1, e1⟩ := hc a a' hm
    exact ⟨hcl _ c1, by rw [hrho]; exact e1⟩

theorem addCache_scope (st : St) (t t' : CTy) : (addCache st t t').scope = st.scope := rfl
theorem addCache_cache (st : St) (t t' : CTy) : (addCache st t t').cache = (t, t') :: st.cache := rfl
theorem finishNamed_scope (st : St) (fid sid : Nat) (u : CTy) (b : Bool) : (finishNamed st fid sid u b).scope = st.scope := by
  unfold finishNamed addCache; cases b <;> rfl
theorem finishNamed_cache (st : St) (fid sid : Nat) (u : CTy) (b : Bool) :
    (finishNamed st fid sid u b).cache = (.named sid, .named fid) :: st.cache := by
  unfold finishNamed addCache; cases b <;> rfl

theorem rho_scope {env : List SDecl} {st st' : St} (h : st'.scope = st.scope) : rho env st' = rho env st := by
  funext i; simp [rho, h]

theorem cacheOK_add {env : List SDecl} {st : St} (hc : CacheOK env st) {t t' : CTy}
    (c : Closed env st t) (e : t' = rename (rho env st) t) : CacheOK env (addCache st t t') :=
  cacheOK_cons hc c e rfl rfl

/-- `conv_structure`, type part: a successful conversion returns the input with every type name
    replaced by its fork counterpart (so kind, element/key types, lengths, directions, variadic
    flags, names, tags, embedding, method names are those of the input), only extends the scope,
    and keeps the memo table sound.  Holds with and without the memo table. -/
theorem conv_sound (c : Bool) (env : List SDecl) : ∀ (fuel : Nat) (st : St) (t : CTy) (st' : St) (t' : CTy),
    conv c env fuel st t = some (st', t') → CacheOK env st →
    Le st st' ∧ Closed env st' t ∧ t' = rename (rho env st') t ∧ CacheOK env st'
  | 0, _, _, _, _, h, _ => by simp [conv] at h
  | fuel + 1, st, t, st', t', h, hc => by
    cases t with
    | basic k n =>
      simp only [conv, Option.some.injEq, Prod.mk.injEq] at h
      obtain ⟨rfl, rfl⟩ := h
      exact ⟨Le.refl _, trivial, rfl, hc⟩
    | typeparam => simp [conv] at h
    | nil =>
      simp only [conv, Option.some.injEq, Prod.mk.injEq] at h
      obtain ⟨rfl, rfl⟩ := h
      exact ⟨Le.refl _, trivial, rfl, hc⟩
    | cons a b =>
      simp only [conv] at h
      cases ha : conv c env fuel st a with
      | none => rw [ha] at h; cases h
      | some r1 =>
        obtain ⟨st1, a'⟩ := r1
        rw [ha] at h
        simp only at h
        cases hb : conv c env fuel st1 b with
        | none => rw [hb] at h; cases h
        | some r2 =>
          obtain ⟨st2, b'⟩ := r2
          rw [hb] at h
          simp only [Option.some.injEq, Prod.mk.injEq] at h
          obtain ⟨rfl, rfl⟩ := h
          obtain ⟨l1, c1, e1, k1⟩ := conv_sound c env fuel st a st1 a' ha hc
          obtain ⟨l2, c2, e2, k2⟩ := conv_sound c env fuel st1 b st2 b' hb k1
          obtain ⟨c1', e1'⟩ := closed_le l2 c1
          exact ⟨l1.trans l2, ⟨c1', c2⟩, by simp only [rename]; rw [e1', ← e1, ← e2], k2⟩
    | node lab cs =>
      simp only [conv] at h
      cases hl : (if c = true then lookup (CTy.node lab cs) st.cache else none) with
      | some u =>
        rw [hl] at h
        simp only [Option.some.injEq, Prod.mk.injEq] at h
        obtain ⟨rfl, rfl⟩ := h
        have hm : (CTy.node lab cs, u) ∈ st.cache := by
          split at hl
          · exact lookup_mem hl
          · cases hl
        obtain ⟨c1, e1⟩ := hc _ _ hm
        exact ⟨Le.refl _, c1, e1, hc⟩
      | none =>
        rw [hl] at h
        simp only at h
        cases hcs : conv c env fuel st cs with
        | none => rw [hcs] at h; cases h
        | some r1 =>
          obtain ⟨st1, cs'⟩ := r1
          rw [hcs] at h
          simp only [Option.some.injEq, Prod.mk.injEq] at h
          obtain ⟨rfl, rfl⟩ := h
          obtain ⟨l1, c1, e1, k1⟩ := conv_sound c env fuel st cs st1 cs' hcs hc
          have e : CTy.node lab cs' = rename (rho env st1) (CTy.node lab cs) := by simp only [rename]; rw [e1]
          have hs2 := addCache_scope st1 (CTy.node lab cs) (CTy.node lab cs')
          refine ⟨l1.trans (le_of_scope_eq hs2), (closed_le (le_of_scope_eq hs2) (t := CTy.node lab cs) c1).1, ?_, cacheOK_add k1 c1 e⟩
          rw [rho_scope hs2]; exact e
    | named sid =>
      simp only [conv] at h
      cases hl : (if c = true then lookup (CTy.named sid) st.cache else none) with
      | some u =>
        rw [hl] at h
        simp only [Option.some.injEq, Prod.mk.injEq] at h
        obtain ⟨rfl, rfl⟩ := h
        have hm : (CTy.named sid, u) ∈ st.cache := by
          split at hl
          · exact lookup_mem hl
          · cases hl
        obtain ⟨c1, e1⟩ := hc _ _ hm
        exact ⟨Le.refl _, c1, e1, hc⟩
      | none =>
        rw [hl] at h
        simp only at h
        cases hd : env[sid]? with
        | none => rw [hd] at h; cases h
        | some d =>
          rw [hd] at h
          simp only at h
          cases hf : lookup (d.pkg, d.name) st.scope with
          | some fid =>
            rw [hf] at h
            simp only [Option.some.injEq, Prod.mk.injEq] at h
            obtain ⟨rfl, rfl⟩ := h
            have cl : Closed env st (CTy.named sid) := ⟨d, hd, by rw [hf]; rfl⟩
            have e : CTy.named fid = rename (rho env st) (CTy.named sid) := by
              simp only [rename, rho, hd, hf, Option.getD_some]
            have hs2 := addCache_scope st (CTy.named sid) (CTy.named fid)
            refine ⟨le_of_scope_eq hs2, (closed_le (le_of_scope_eq hs2) cl).1, ?_, cacheOK_add hc cl e⟩
            rw [rho_scope hs2]; exact e
          | none =>
            rw [hf] at h
            simp only at h
            have hscope0 : (startNamed st d sid).scope = ((d.pkg, d.name), st.fdecls.length) :: st.scope := rfl
            have hcache0 : (startNamed st d sid).cache = (CTy.named sid, CTy.named st.fdecls.length) :: st.cache := rfl
            have l0 : Le st (startNamed st d sid) := by
              intro k v hk
              rw [hscope0]
              simp only [lookup]
              split
              · rename_i e; subst e; rw [hf] at hk; cases hk
              · exact hk
            have hlk0 : lookup (d.pkg, d.name) (startNamed st d sid).scope = some st.fdecls.length := by
              rw [hscope0]; simp [lookup]
            have k0 : CacheOK env (startNamed st d sid) := by
              intro a a' hm
              rw [hcache0] at hm
              simp only [List.mem_cons, Prod.mk.injEq] at hm
              rcases hm with ⟨rfl, rfl⟩ | hm
              · exact ⟨⟨d, hd, by rw [hlk0]; rfl⟩, by simp only [rename, rho, hd, hlk0, Option.getD_some]⟩
              · obtain ⟨c1, e1⟩ := hc a a' hm
                obtain ⟨c2, e2⟩ := closed_le l0 c1
                exact ⟨c2, by rw [e1, e2]⟩
            cases hu : conv c env fuel (startNamed st d sid) d.under with
            | none => rw [hu] at h; cases h
            | some r1 =>
              obtain ⟨st1, u'⟩ := r1
              rw [hu] at h
              simp only [Option.some.injEq, Prod.mk.injEq] at h
              obtain ⟨rfl, rfl⟩ := h
              obtain ⟨l1, c1, e1, k1⟩ := conv_sound c env fuel (startNamed st d sid) d.under st1 u' hu k0
              have hlk1 : lookup (d.pkg, d.name) st1.scope = some st.fdecls.length := l1 _ _ hlk0
              have hscope2 := finishNamed_scope st1 st.fdecls.length sid u' d.methods.isEmpty
              have hcache2 := finishNamed_cache st1 st.fdecls.length sid u' d.methods.isEmpty
              have l12 : Le st1 (finishNamed st1 st.fdecls.length sid u' d.methods.isEmpty) := le_of_scope_eq hscope2
              have cl1 : Closed env st1 (CTy.named sid) := ⟨d, hd, by rw [hlk1]; rfl⟩
              have e : CTy.named st.fdecls.length = rename (rho env st1) (CTy.named sid) := by
                simp only [rename, rho, hd, hlk1, Option.getD_some]
              refine ⟨(l0.trans l1).trans l12, (closed_le l12 cl1).1, ?_, cacheOK_cons k1 cl1 e hscope2 hcache2⟩
              rw [rho_scope hscope2]; exact e

/-! ## named types: one fork declaration per standard declaration, completed with the converted underlying type -/

/-- a (package path, name) pair denotes one standard type name -/
def NamesUnique (env : List SDecl) : Prop :=
  ∀ (i j : Nat) (d d' : SDecl), env[i]? = some d → env[j]? = some d' → d.pkg = d'.pkg → d.name = d'.name → i = j

/-- `P` = fork declarations whose `SetUnderlying` is still to come (the conversions in progress) -/
structure Inv (env : List SDecl) (P : List Nat) (st : St) : Prop where
  /-- every scope entry points to an allocated fork declaration carrying that package path and name -/
  names : ∀ k v, lookup k st.scope = some v → ∃ fd, st.fdecls[v]? = some fd ∧ (fd.pkg, fd.name) = k
  /-- different names, different fork declarations -/
  inj : ∀ k k' v, lookup k st.scope = some v → lookup k' st.scope = some v → k = k'
  /-- every declaration that is not in progress has the converted underlying type of its original -/
  decl : ∀ (sid : Nat) (d : SDecl) (fid : Nat), env[sid]? = some d → lookup (d.pkg, d.name) st.scope = some fid → fid ∉ P →
    ∃ fd, st.fdecls[fid]? = some fd ∧ fd.under = some (rename (rho env st) d.under) ∧ Closed env st d.under

theorem Inv.bound {env : List SDecl} {P : List Nat} {st : St} (h : Inv env P st) (k : String × String) (v : Nat)
    (hk : lookup k st.scope = some v) : v < st.fdecls.length := by
  obtain ⟨fd, g, _⟩ := h.names k v hk
  exact (List.getElem?_eq_some_iff.mp g).1

theorem inv_of_eq {env : List SDecl} {P : List Nat} {st st' : St} (hs : st'.scope = st.scope) (hf : st'.fdecls = st.fdecls)
    (h : Inv env P st) : Inv env P st' := by
  refine ⟨?_, ?_, ?_⟩
  · intro k v hk; rw [hs] at hk; rw [hf]; exact h.names k v hk
  · intro k k' v h1 h2; rw [hs] at h1 h2; exact h.inj k k' v h1 h2
  · intro sid d fid hd hl hp
    rw [hs] at hl
    obtain ⟨fd, g1, g4, g5⟩ := h.decl sid d fid hd hl hp
    exact ⟨fd, by rw [hf]; exact g1, by rw [rho_scope hs]; exact g4, (closed_le (le_of_scope_eq hs) g5).1⟩

theorem setUnder_length : ∀ (l : List FDecl) (i : Nat) (u : CTy), (setUnder l i u).length = l.length
  | [], _, _ => rfl
  | _ :: _, 0, _ => rfl
  | _ :: l, i + 1, u => by simp [setUnder, setUnder_length l i u]

theorem setUnder_get_ne : ∀ (l : List FDecl) {i j : Nat} (u : CTy), i ≠ j → (setUnder l i u)[j]? = l[j]?
  | [], _, _, _, _ => rfl
  | _ :: _, 0, 0, _, h => absurd rfl h
  | _ :: _, 0, j + 1, _, _ => by simp [setUnder]
  | _ :: _, i + 1, 0, _, _ => by simp [setUnder]
  | _ :: l, i + 1, j + 1, u, h => by
      simp only [setUnder, List.getElem?_cons_succ]
      exact setUnder_get_ne l u (by omega)

theorem setUnder_get_eq : ∀ (l : List FDecl) {i : Nat} {d : FDecl} (u : CTy), l[i]? = some d →
    (setUnder l i u)[i]? = some { d with under := some u }
  | [], _, _, _, h => by simp at h
  | x :: _, 0, d, u, h => by simp at h; subst h; simp [setUnder]
  | _ :: l, i + 1, d, u, h => by
      simp only [List.getElem?_cons_succ] at h
      simp only [setUnder, List.getElem?_cons_succ]
      exact setUnder_get_eq l u h

theorem finishNamed_fdecls (st : St) (fid sid : Nat) (u : CTy) (b : Bool) :
    (finishNamed st fid sid u b).fdecls = setUnder st.fdecls fid u := by
  unfold finishNamed addCache; cases b <;> rfl

/-- `conv_named_once` + the declaration part of `conv_structure`: the invariant is preserved by
    every successful conversion, with the same set of conversions in progress -/
theorem conv_inv (c : Bool) (env : List SDecl) (hu : NamesUnique env) : ∀ (fuel : Nat) (st : St) (t : CTy) (st' : St) (t' : CTy) (P : List Nat),
    conv c env fuel st t = some (st', t') → CacheOK env st → Inv env P st → Inv env P st'
  | 0, _, _, _, _, _, h, _, _ => by simp [conv] at h
  | fuel + 1, st, t, st', t', P, h, hc, hi => by
    cases t with
    | basic k n =>
      simp only [conv, Option.some.injEq, Prod.mk.injEq] at h
      obtain ⟨rfl, rfl⟩ := h; exact hi
    | typeparam => simp [conv] at h
    | nil =>
      simp only [conv, Option.some.injEq, Prod.mk.injEq] at h
      obtain ⟨rfl, rfl⟩ := h; exact hi
    | cons a b =>
      simp only [conv] at h
      cases ha : conv c env fuel st a with
      | none => rw [ha] at h; cases h
      | some r1 =>
        obtain ⟨st1, a'⟩ := r1
        rw [ha] at h
        simp only at h
        cases hb : conv c env fuel st1 b with
        | none => rw [hb] at h; cases h
        | some r2 =>
          obtain ⟨st2, b'⟩ := r2
          rw [hb] at h
          simp only [Option.some.injEq, Prod.mk.injEq] at h
          obtain ⟨rfl, rfl⟩ := h
          have k1 := (conv_sound c env fuel st a st1 a' ha hc).2.2.2
          exact conv_inv c env hu fuel st1 b st2 b' P hb k1 (conv_inv c env hu fuel st a st1 a' P ha hc hi)
    | node lab cs =>
      simp only [conv] at h
      cases hl : (if c = true then lookup (CTy.node lab cs) st.cache else none) with
      | some u =>
        rw [hl] at h
        simp only [Option.some.injEq, Prod.mk.injEq] at h
        obtain ⟨rfl, rfl⟩ := h; exact hi
      | none =>
        rw [hl] at h
        simp only at h
        cases hcs : conv c env fuel st cs with
        | none => rw [hcs] at h; cases h
        | some r1 =>
          obtain ⟨st1, cs'⟩ := r1
          rw [hcs] at h
          simp only [Option.some.injEq, Prod.mk.injEq] at h
          obtain ⟨rfl, rfl⟩ := h
          exact inv_of_eq (st := st1) (st' := addCache st1 _ _) rfl rfl (conv_inv c env hu fuel st cs st1 cs' P hcs hc hi)
    | named sid =>
      simp only [conv] at h
      cases hl : (if c = true then lookup (CTy.named sid) st.cache else none) with
      | some u =>
        rw [hl] at h
        simp only [Option.some.injEq, Prod.mk.injEq] at h
        obtain ⟨rfl, rfl⟩ := h; exact hi
      | none =>
        rw [hl] at h
        simp only at h
        cases hd : env[sid]? with
        | none => rw [hd] at h; cases h
        | some d =>
          rw [hd] at h
          simp only at h
          cases hf : lookup (d.pkg, d.name) st.scope with
          | some fid =>
            rw [hf] at h
            simp only [Option.some.injEq, Prod.mk.injEq] at h
            obtain ⟨rfl, rfl⟩ := h
            exact inv_of_eq (st := st) (st' := addCache st _ _) rfl rfl hi
          | none =>
            rw [hf] at h
            simp only at h
            have hscope0 : (startNamed st d sid).scope = ((d.pkg, d.name), st.fdecls.length) :: st.scope := rfl
            have hfd0 : (startNamed st d sid).fdecls = st.fdecls ++ [⟨d.pkg, d.name, none, []⟩] := rfl
            have hcache0 : (startNamed st d sid).cache = (CTy.named sid, CTy.named st.fdecls.length) :: st.cache := rfl
            have l0 : Le st (startNamed st d sid) := by
              intro k v hk
              rw [hscope0]
              simp only [lookup]
              split
              · rename_i e; subst e; rw [hf] at hk; cases hk
              · exact hk
            have hlk0 : lookup (d.pkg, d.name) (startNamed st d sid).scope = some st.fdecls.length := by
              rw [hscope0]; simp [lookup]
            have k0 : CacheOK env (startNamed st d sid) := by
              intro a a' hm
              rw [hcache0] at hm
              simp only [List.mem_cons, Prod.mk.injEq] at hm
              rcases hm with ⟨rfl, rfl⟩ | hm
              · exact ⟨⟨d, hd, by rw [hlk0]; rfl⟩, by simp only [rename, rho, hd, hlk0, Option.getD_some]⟩
              · obtain ⟨c1, e1⟩ := hc a a' hm
                obtain ⟨c2, e2⟩ := closed_le l0 c1
                exact ⟨c2, by rw [e1, e2]⟩
            -- the invariant with the new declaration in progress
            have i0 : Inv env (st.fdecls.length :: P) (startNamed st d sid) := by
              refine ⟨?_, ?_, ?_⟩
              · intro k v hk
                rw [hscope0] at hk
                rw [hfd0]
                simp only [lookup] at hk
                split at hk
                · rename_i e; cases hk
                  exact ⟨⟨d.pkg, d.name, none, []⟩, by simp, e.symm⟩
                · obtain ⟨fd, g, e⟩ := hi.names k v hk
                  exact ⟨fd, by rw [List.getElem?_append_left (hi.bound k v hk)]; exact g, e⟩
              · intro k k' v h1 h2
                rw [hscope0] at h1 h2
                simp only [lookup] at h1 h2
                split at h1 <;> split at h2
                · rename_i e1 e2; rw [e1, e2]
                · cases h1; have := hi.bound k' _ h2; omega
                · cases h2; have := hi.bound k _ h1; omega
                · exact hi.inj k k' v h1 h2
              · intro sid' d' fid' hd' hl' hp'
                rw [hscope0] at hl'
                simp only [lookup] at hl'
                split at hl'
                · cases hl'; exact absurd (List.mem_cons_self) hp'
                · have hp2 : fid' ∉ P := fun hm => hp' (List.mem_cons_of_mem _ hm)
                  obtain ⟨fd, g1, g4, g5⟩ := hi.decl sid' d' fid' hd' hl' hp2
                  have hb := hi.bound _ _ hl'
                  obtain ⟨c2, e2⟩ := closed_le l0 g5
                  refine ⟨fd, ?_, by rw [e2]; exact g4, c2⟩
                  rw [hfd0, List.getElem?_append_left hb]; exact g1
            cases hu' : conv c env fuel (startNamed st d sid) d.under with
            | none => rw [hu'] at h; cases h
            | some r1 =>
              obtain ⟨st1, u'⟩ := r1
              rw [hu'] at h
              simp only [Option.some.injEq, Prod.mk.injEq] at h
              obtain ⟨rfl, rfl⟩ := h
              obtain ⟨l1, c1, e1, k1⟩ := conv_sound c env fuel (startNamed st d sid) d.under st1 u' hu' k0
              have i1 := conv_inv c env hu fuel (startNamed st d sid) d.under st1 u' (st.fdecls.length :: P) hu' k0 i0
              have hlk1 : lookup (d.pkg, d.name) st1.scope = some st.fdecls.length := l1 _ _ hlk0
              have hscope2 := finishNamed_scope st1 st.fdecls.length sid u' d.methods.isEmpty
              have hfd2 := finishNamed_fdecls st1 st.fdecls.length sid u' d.methods.isEmpty
              refine ⟨?_, ?_, ?_⟩
              · intro k v hk
                rw [hscope2] at hk
                obtain ⟨fd, g, e⟩ := i1.names k v hk
                rw [hfd2]
                by_cases ev : v = st.fdecls.length
                · subst ev
                  exact ⟨{ fd with under := some u' }, setUnder_get_eq _ _ g, e⟩
                · exact ⟨fd, by rw [setUnder_get_ne _ _ (Ne.symm ev)]; exact g, e⟩
              · intro k k' v h1 h2
                rw [hscope2] at h1 h2; exact i1.inj k k' v h1 h2
              · intro sid' d' fid' hd' hl' hp'
                rw [hscope2] at hl'
                by_cases ef : fid' = st.fdecls.length
                · subst ef
                  have ek := i1.inj _ _ _ hl' hlk1
                  simp only [Prod.mk.injEq] at ek
                  have es : sid' = sid := hu sid' sid d' d hd' hd ek.1 ek.2
                  subst es
                  rw [hd] at hd'; cases hd'
                  have hb := i1.bound _ _ hlk1
                  obtain ⟨fd, hfd⟩ : ∃ fd, st1.fdecls[st.fdecls.length]? = some fd := ⟨st1.fdecls[st.fdecls.length], by simp [hb]⟩
                  refine ⟨{ fd with under := some u' }, ?_, ?_, ?_⟩
                  · rw [hfd2]; exact setUnder_get_eq _ _ hfd
                  · simp only; rw [rho_scope hscope2, e1]
                  · exact (closed_le (le_of_scope_eq hscope2) c1).1
                · have hp2 : fid' ∉ st.fdecls.length :: P := by
                    intro hm; simp only [List.mem_cons] at hm
                    rcases hm with hm | hm
                    · exact ef hm
                    · exact hp' hm
                  obtain ⟨fd, g1, g4, g5⟩ := i1.decl sid' d' fid' hd' hl' hp2
                  refine ⟨fd, ?_, by rw [rho_scope hscope2]; exact g4, (closed_le (le_of_scope_eq hscope2) g5).1⟩
                  rw [hfd2, setUnder_get_ne _ _ (Ne.symm ef)]; exact g1

/-! ## the memo table is transparent -/

def size : CTy → Nat
  | .node _ cs => size cs + 1
  | .cons a b => size a + size b + 1
  | _ => 1

/-- converting, WITHOUT memo table, a type all of whose type names are already in the scope returns
    the renamed type and touches neither the scope nor the declarations nor the pending methods -/
theorem conv_closed (env : List SDecl) : ∀ (fuel : Nat) (st : St) (t : CTy), size t ≤ fuel → Closed env st t →
    ∃ st', conv false env fuel st t = some (st', rename (rho env st) t) ∧
      st'.scope = st.scope ∧ st'.fdecls = st.fdecls ∧ st'.toadd = st.toadd
  | 0, _, t, h, _ => by cases t <;> simp [size] at h
  | fuel + 1, st, t, h, hc => by
    cases t with
    | basic k n => exact ⟨st, by simp [conv, rename], rfl, rfl, rfl⟩
    | typeparam => cases hc
    | nil => exact ⟨st, by simp [conv, rename], rfl, rfl, rfl⟩
    | cons a b =>
      simp only [size] at h
      obtain ⟨st1, e1, s1, f1, t1⟩ := conv_closed env fuel st a (by omega) hc.1
      have hb : Closed env st1 b := (closed_le (le_of_scope_eq s1) hc.2).1
      obtain ⟨st2, e2, s2, f2, t2⟩ := conv_closed env fuel st1 b (by omega) hb
      refine ⟨st2, ?_, by rw [s2, s1], by rw [f2, f1], by rw [t2, t1]⟩
      simp only [conv, e1, e2, rename, rho_scope s1]
    | node lab cs =>
      simp only [size] at h
      obtain ⟨st1, e1, s1, f1, t1⟩ := conv_closed env fuel st cs (by omega) hc
      refine ⟨addCache st1 (.node lab cs) (.node lab (rename (rho env st) cs)), ?_, s1, f1, t1⟩
      simp [conv, e1, rename]
    | named sid =>
      obtain ⟨d, hd, hs⟩ := hc
      cases hf : lookup (d.pkg, d.name) st.scope with
      | none => rw [hf] at hs; cases hs
      | some fid =>
        refine ⟨addCache st (.named sid) (.named fid), ?_, rfl, rfl, rfl⟩
        simp [conv, hd, hf, rename, rho]

/-- `conv_memo_transparent`: whatever the memo table answers is exactly what the conversion without
    memo table computes in the same state, and that recomputation has no other effect -/
theorem memo_hit_is_recompute (env : List SDecl) (st : St) (hc : CacheOK env st) (t t' : CTy)
    (h : lookup t st.cache = some t') :
    ∃ st', conv false env (size t) st t = some (st', t') ∧
      st'.scope = st.scope ∧ st'.fdecls = st.fdecls ∧ st'.toadd = st.toadd := by
  obtain ⟨c1, e1⟩ := hc t t' (lookup_mem h)
  obtain ⟨st', e, r⟩ := conv_closed env (size t) st t (Nat.le_refl _) c1
  exact ⟨st', by rw [e, e1], r⟩

/-! ## structure through named types, to any depth -/

/-- a type unfolded through its type names down to a given depth -/
inductive UTree where
  | basic (k : Nat) (n : String)
  | cut (pkg name : String)                    -- a type name at depth 0
  | named (pkg name : String) (under : UTree)
  | bad
  | node (l : Lab) (cs : UTree)
  | nil
  | cons (a b : UTree)
  deriving DecidableEq, Repr

def unfoldWith (f : Nat → UTree) : CTy → UTree
  | .basic k n => .basic k n
  | .named i => f i
  | .typeparam => .bad
  | .node l cs => .node l (unfoldWith f cs)
  | .nil => .nil
  | .cons a b => .cons (unfoldWith f a) (unfoldWith f b)

/-- the standard side -/
def unfoldS (env : List SDecl) : Nat → CTy → UTree
  | 0, t => unfoldWith (fun i => match env[i]? with | some d => .cut d.pkg d.name | none => .bad) t
  | n + 1, t => unfoldWith (fun i => match env[i]? with
      | some d => .named d.pkg d.name (unfoldS env n d.under)
      | none => .bad) t

/-- the fork side -/
def unfoldF (fd : List FDecl) : Nat → CTy → UTree
  | 0, t => unfoldWith (fun i => match fd[i]? with | some d => .cut d.pkg d.name | none => .bad) t
  | n + 1, t => unfoldWith (fun i => match fd[i]? with
      | some d => (match d.under with
          | some u => .named d.pkg d.name (unfoldF fd n u)
          | none => .bad)
      | none => .bad) t

theorem unfoldWith_rename (f : Nat → UTree) (ρ : Nat → Nat) : ∀ t, unfoldWith f (rename ρ t) = unfoldWith (fun i => f (ρ i)) t
  | .basic _ _ => rfl
  | .named _ => rfl
  | .typeparam => rfl
  | .nil => rfl
  | .node l cs => by simp only [rename, unfoldWith]; rw [unfoldWith_rename f ρ cs]
  | .cons a b => by simp only [rename, unfoldWith]; rw [unfoldWith_rename f ρ a, unfoldWith_rename f ρ b]

theorem unfoldWith_congr {env : List SDecl} {st : St} {f g : Nat → UTree}
    (h : ∀ i d, env[i]? = some d → (lookup (d.pkg, d.name) st.scope).isSome = true → f i = g i) :
    ∀ t, Closed env st t → unfoldWith f t = unfoldWith g t
  | .basic _ _, _ => rfl
  | .typeparam, hc => by cases hc
  | .nil, _ => rfl
  | .named i, hc => by obtain ⟨d, hd, hs⟩ := hc; exact h i d hd hs
  | .node l cs, hc => by simp only [unfoldWith]; rw [unfoldWith_congr h cs hc]
  | .cons a b, hc => by simp only [unfoldWith]; rw [unfoldWith_congr h a hc.1, unfoldWith_congr h b hc.2]

/-- `conv_structure` through cycles: when no conversion is in progress, the converted type and the
    original unfold to the same tree at EVERY depth (same constructors, labels, names of the type
    names met on the way) -/
theorem unfold_eq {env : List SDecl} {st : St} (hi : Inv env [] st) : ∀ (n : Nat) (t : CTy), Closed env st t →
    unfoldF st.fdecls n (rename (rho env st) t) = unfoldS env n t
  | 0, t, hc => by
      simp only [unfoldF, unfoldS]
      rw [unfoldWith_rename]
      apply unfoldWith_congr (env := env) (st := st) _ t hc
      intro i d hd hs
      cases hf : lookup (d.pkg, d.name) st.scope with
      | none => rw [hf] at hs; cases hs
      | some fid =>
        obtain ⟨fd, g, e⟩ := hi.names _ _ hf
        simp only [Prod.mk.injEq] at e
        simp only [rho, hd, hf, Option.getD_some, g, e.1, e.2]
  | n + 1, t, hc => by
      simp only [unfoldF, unfoldS]
      rw [unfoldWith_rename]
      apply unfoldWith_congr (env := env) (st := st) _ t hc
      intro i d hd hs
      cases hf : lookup (d.pkg, d.name) st.scope with
      | none => rw [hf] at hs; cases hs
      | some fid =>
        obtain ⟨fd, g, e⟩ := hi.names _ _ hf
        obtain ⟨fd', g', u', cu⟩ := hi.decl i d fid hd hf (by simp)
        rw [g] at g'; cases g'
        simp only [Prod.mk.injEq] at e
        simp only [rho, hd, hf, Option.getD_some, g, u', e.1, e.2]
        rw [unfold_eq hi n d.under cu]

/-! ## methods and the package loop -/

theorem setMethods_get_ne : ∀ (l : List FDecl) {i j : Nat} (ms : List (String × CTy)), i ≠ j → (setMethods l i ms)[j]? = l[j]?
  | [], _, _, _, _ => rfl
  | _ :: _, 0, 0, _, h => absurd rfl h
  | _ :: _, 0, j + 1, _, _ => by simp [setMethods]
  | _ :: _, i + 1, 0, _, _ => by simp [setMethods]
  | _ :: l, i + 1, j + 1, ms, h => by
      simp only [setMethods, List.getElem?_cons_succ]
      exact setMethods_get_ne l ms (by omega)

theorem setMethods_get_eq : ∀ (l : List FDecl) {i : Nat} {d : FDecl} (ms : List (String × CTy)), l[i]? = some d →
    (setMethods l i ms)[i]? = some { d with methods := ms }
  | [], _, _, _, h => by simp at h
  | x :: _, 0, d, ms, h => by simp at h; subst h; simp [setMethods]
  | _ :: l, i + 1, d, ms, h => by
      simp only [List.getElem?_cons_succ] at h
      simp only [setMethods, List.getElem?_cons_succ]
      exact setMethods_get_eq l ms h

/-- `AddMethod` touches neither names nor underlying types -/
theorem inv_setMethods {env : List SDecl} {P : List Nat} {st st' : St} (fid : Nat) (ms : List (String × CTy))
    (hs : st'.scope = st.scope) (hf : st'.fdecls = setMethods st.fdecls fid ms) (h : Inv env P st) : Inv env P st' := by
  have get : ∀ (v : Nat) (fd : FDecl), st.fdecls[v]? = some fd → ∃ fd' : FDecl, st'.fdecls[v]? = some fd' ∧ fd'.pkg = fd.pkg ∧ fd'.name = fd.name ∧ fd'.under = fd.under := by
    intro v fd g
    rw [hf]
    by_cases e : v = fid
    · subst e; exact ⟨_, setMethods_get_eq _ ms g, rfl, rfl, rfl⟩
    · exact ⟨fd, by rw [setMethods_get_ne _ ms (Ne.symm e)]; exact g, rfl, rfl, rfl⟩
  refine ⟨?_, ?_, ?_⟩
  · intro k v hk
    rw [hs] at hk
    obtain ⟨fd, g, e⟩ := h.names k v hk
    obtain ⟨fd', g', e1, e2, _⟩ := get v fd g
    exact ⟨fd', g', by rw [e1, e2]; exact e⟩
  · intro k k' v h1 h2; rw [hs] at h1 h2; exact h.inj k k' v h1 h2
  · intro sid d f hd hl hp
    rw [hs] at hl
    obtain ⟨fd, g1, g4, g5⟩ := h.decl sid d f hd hl hp
    obtain ⟨fd', g', _, _, e3⟩ := get f fd g1
    exact ⟨fd', g', by rw [e3, rho_scope hs]; exact g4, (closed_le (le_of_scope_eq hs) g5).1⟩

/-- the two lists have the same length and related elements at the same positions -/
inductive Rel2 {α β : Type} (R : α → β → Prop) : List α → List β → Prop
  | nil : Rel2 R [] []
  | cons {a b l l'} : R a b → Rel2 R l l' → Rel2 R (a :: l) (b :: l')

/-- `addmethods`: every signature is converted to its renamed original (in the state after the last one) -/
theorem convMethods_sound (c : Bool) (env : List SDecl) (hu : NamesUnique env) (fuel : Nat) :
    ∀ (ms : List (String × CTy)) (st st' : St) (ms' : List (String × CTy)),
      convMethods c env fuel st ms = some (st', ms') → CacheOK env st → Inv env [] st →
      Le st st' ∧ CacheOK env st' ∧ Inv env [] st' ∧
      Rel2 (fun m m' => m'.1 = m.1 ∧ Closed env st' m.2 ∧ m'.2 = rename (rho env st') m.2) ms ms'
  | [], st, st', ms', h, hc, hi => by
      simp only [convMethods, Option.some.injEq, Prod.mk.injEq] at h
      obtain ⟨rfl, rfl⟩ := h
      exact ⟨Le.refl _, hc, hi, .nil⟩
  | (n, sg) :: ms, st, st', ms', h, hc, hi => by
      simp only [convMethods] at h
      cases h1 : conv c env fuel st sg with
      | none => rw [h1] at h; cases h
      | some r1 =>
        obtain ⟨st1, s'⟩ := r1
        rw [h1] at h
        simp only at h
        cases h2 : convMethods c env fuel st1 ms with
        | none => rw [h2] at h; cases h
        | some r2 =>
          obtain ⟨st2, ms2⟩ := r2
          rw [h2] at h
          simp only [Option.some.injEq, Prod.mk.injEq] at h
          obtain ⟨rfl, rfl⟩ := h
          obtain ⟨l1, c1, e1, k1⟩ := conv_sound c env fuel st sg st1 s' h1 hc
          have i1 := conv_inv c env hu fuel st sg st1 s' [] h1 hc hi
          obtain ⟨l2, k2, i2, f2⟩ := convMethods_sound c env hu fuel ms st1 st2 ms2 h2 k1 i1
          obtain ⟨c2, e2⟩ := closed_le l2 c1
          exact ⟨l1.trans l2, k2, i2, .cons ⟨rfl, c2, by rw [e1, e2]⟩ f2⟩

/-- the drained loop over `toaddmethods` keeps the invariants and leaves nothing pending -/
theorem drain_sound (c : Bool) (env : List SDecl) (hu : NamesUnique env) (fuel : Nat) :
    ∀ (n : Nat) (st st' : St), drain c env fuel n st = some st' → CacheOK env st → Inv env [] st →
      Le st st' ∧ CacheOK env st' ∧ Inv env [] st' ∧ st'.toadd = []
  | 0, _, _, h, _, _ => by simp [drain] at h
  | n + 1, st, st', h, hc, hi => by
      simp only [drain] at h
      cases ht : st.toadd with
      | nil =>
        rw [ht] at h
        simp only [Option.some.injEq] at h
        subst h
        exact ⟨Le.refl _, hc, hi, ht⟩
      | cons p rest =>
        obtain ⟨fid, sid⟩ := p
        rw [ht] at h
        simp only at h
        cases hd : env[sid]? with
        | none => rw [hd] at h; cases h
        | some d =>
          rw [hd] at h
          simp only at h
          have hc0 : CacheOK env { st with toadd := rest } :=
            cacheOK_le (st := st) (st' := { st with toadd := rest }) (le_of_scope_eq rfl) hc rfl
          have hi0 : Inv env [] { st with toadd := rest } := inv_of_eq (st := st) (st' := { st with toadd := rest }) rfl rfl hi
          cases hm : convMethods c env fuel { st with toadd := rest } d.methods with
          | none => rw [hm] at h; cases h
          | some r =>
            obtain ⟨st1, ms⟩ := r
            rw [hm] at h
            simp only at h
            obtain ⟨l1, k1, i1, _⟩ := convMethods_sound c env hu fuel d.methods _ st1 ms hm hc0 hi0
            have k2 : CacheOK env { st1 with fdecls := setMethods st1.fdecls fid ms } :=
              cacheOK_le (st := st1) (st' := { st1 with fdecls := setMethods st1.fdecls fid ms }) (le_of_scope_eq rfl) k1 rfl
            have i2 : Inv env [] { st1 with fdecls := setMethods st1.fdecls fid ms } :=
              inv_setMethods (st := st1) (st' := { st1 with fdecls := setMethods st1.fdecls fid ms }) fid ms rfl rfl i1
            obtain ⟨l3, k3, i3, t3⟩ := drain_sound c env hu fuel n _ st' h k2 i2
            exact ⟨((le_of_scope_eq (st := st) (st' := { st with toadd := rest }) rfl).trans l1).trans
              ((le_of_scope_eq (st := st1) (st' := { st1 with fdecls := setMethods st1.fdecls fid ms }) rfl).trans l3), k3, i3, t3⟩

end Converter
