import Model.Classic

/-! Proofs for C38, control flow: the direct evaluator of the classic interpreter (`Classic.exec`, control
    transfers as panics caught by the owning statement) computes the reference semantics `Flow.Ref.exec`
    (= Go's meaning) on every supported program, fuel for fuel. -/

namespace Classic
open Flow

/-- number of `default:` clauses of a clause chain -/
def numDefaults : Stmt → Nat
  | .clause none _ _ rest => 1 + numDefaults rest
  | .clause (some _) _ _ rest => numDefaults rest
  | _ => 0

/-- `Sup false s`: `s` is a statement (list) of the supported fragment — everything except goto, labelled
    non-loop statements and misplaced clauses; `Sup true cls`: `cls` is a well-formed clause chain.
    A switch has at most one `default:` (Go rejects a second one at compile time). -/
def Sup : Bool → Stmt → Bool
  | false, .skip => true
  | false, .seq a b => Sup false a && Sup false b
  | false, .emit _ _ => true
  | false, .assign _ _ => true
  | false, .define _ _ => true
  | false, .block b => Sup false b
  | false, .ite i _ t e => Sup false i && Sup false t && Sup false e
  | false, .for _ i _ p b => Sup false i && Sup false p && Sup false b
  | false, .brk _ => true
  | false, .cont _ => true
  | false, .ret => true
  | false, .range _ _ _ _ _ _ _ b => Sup false b
  | false, .switch _ i _ cls => Sup false i && Sup true cls && decide (numDefaults cls ≤ 1)
  | false, .labeled _ _ => false
  | false, .goto _ => false
  | false, .clause _ _ _ _ => false
  | true, .clause _ _ body rest => Sup false body && Sup true rest
  | true, .skip => true
  | true, _ => false

/-- what `evalCaseBody` makes of a break that reaches the clause body -/
def brkMap (ls : List Label) : XRes → XRes
  | .ok (.brk l) st => if labelIn l ls then .ok .normal st else .ok (.brk l) st
  | r => r

/-! ### clause selection: the two loops of evalSwitch pick the clause Go picks -/

theorem caseMatches_eq (tagv : Int) : ∀ (gs : List Guard) (st : St), caseMatches tagv st gs = evalGuards tagv st gs := by
  intro gs
  induction gs with
  | nil => intro st; rfl
  | cons g r ih =>
    intro st
    cases g with
    | val e =>
      simp only [caseMatches, evalGuard, evalGuards, decide_eq_true_eq]
      split <;> simp_all
    | cond c =>
      simp only [caseMatches, evalGuard, evalGuards]
      split <;> simp_all
    | eff t e =>
      simp only [caseMatches, evalGuard, evalGuards, decide_eq_true_eq]
      split <;> simp_all

theorem pickCase_eq (tagv : Int) : ∀ (cls : Stmt) (st : St), pickCase tagv st cls = selectCaseSt tagv st cls := by
  intro cls
  induction cls with
  | clause g ft body rest _ ih =>
    intro st
    cases g with
    | none => simp only [pickCase, selectCaseSt]; exact ih st
    | some gs => simp only [pickCase, selectCaseSt, caseMatches_eq, ih]
  | _ => intro st; simp [pickCase, selectCaseSt]

theorem pickDefault_none_defaults (acc : Option Stmt) : ∀ cls : Stmt, numDefaults cls = 0 → pickDefault acc cls = acc := by
  intro cls
  induction cls generalizing acc with
  | clause g ft body rest _ ih =>
    cases g with
    | none => intro h; simp only [numDefaults] at h; omega
    | some gs => intro h; simp only [numDefaults] at h; simp only [pickDefault]; exact ih acc h
  | _ => intro _; simp [pickDefault]

theorem pickDefault_eq : ∀ cls : Stmt, numDefaults cls ≤ 1 → pickDefault none cls = selectDefault cls := by
  intro cls
  induction cls with
  | clause g ft body rest _ ih =>
    cases g with
    | none =>
      intro h
      simp only [numDefaults] at h
      simp only [pickDefault, selectDefault]
      exact pickDefault_none_defaults _ rest (by omega)
    | some gs => intro h; simp only [numDefaults] at h; simp only [pickDefault, selectDefault]; exact ih h
  | _ => intro _; simp [pickDefault, selectDefault]

theorem selectCase_sup (tagv : Int) : ∀ (cls c : Stmt) (st : St), Sup true cls = true →
    (selectCaseSt tagv st cls).1 = some c → Sup true c = true := by
  intro cls
  induction cls with
  | clause g ft body rest _ ih =>
    intro c st hs hsel
    cases g with
    | none =>
      simp only [selectCaseSt] at hsel
      simp only [Sup, Bool.and_eq_true] at hs
      exact ih c st hs.2 hsel
    | some gs =>
      simp only [selectCaseSt] at hsel
      split at hsel
      · simp only [Option.some.injEq] at hsel; subst hsel; exact hs
      · simp only [Sup, Bool.and_eq_true] at hs
        exact ih c _ hs.2 hsel
  | _ => intro c st _ hsel; simp [selectCaseSt] at hsel

theorem selectDefault_sup : ∀ cls c : Stmt, Sup true cls = true → selectDefault cls = some c → Sup true c = true := by
  intro cls
  induction cls with
  | clause g ft body rest _ ih =>
    intro c hs hsel
    cases g with
    | none => simp only [selectDefault] at hsel; cases hsel; exact hs
    | some gs =>
      simp only [selectDefault] at hsel
      simp only [Sup, Bool.and_eq_true] at hs
      exact ih c hs.2 hsel
  | _ => intro c _ hsel; simp [selectDefault] at hsel

/-! ### no goto targets in supported programs: `execFrom` is `exec` -/

theorem hasLabel_sup (l : Label) : ∀ s : Stmt, Sup false s = true → hasLabel l s = false := by
  intro s h
  cases s <;> simp_all [hasLabel, Sup]

theorem findLabel_sup (l : Label) : ∀ s : Stmt, Sup false s = true → findLabel l s = none := by
  intro s
  induction s with
  | seq a b _ ihb =>
    intro h
    simp only [Sup, Bool.and_eq_true] at h
    simp only [findLabel, hasLabel_sup l a h.1]
    exact ihb h.2
  | labeled l' s _ => intro h; simp [Sup] at h
  | _ => intro h; simp [findLabel, hasLabel]

theorem execFrom_sup (m : Nat) (b : Stmt) (st : St) (h : Sup false b = true) :
    Ref.execFrom (m + 1) b b st = Ref.exec m b st := by
  simp only [Ref.execFrom]
  split
  · rename_i l st1 hx
    simp only [findLabel_sup l b h]
    exact hx.symm
  · rfl

/-! ### the five claims, by induction on the fuel -/

def E (n : Nat) : Prop := ∀ (s : Stmt) (st : St), Sup false s = true → exec fixedCfg n s st = Ref.exec n s st
def B (n : Nat) : Prop := ∀ (b : Stmt) (st : St), Sup false b = true → execBlock fixedCfg n b st = Ref.execBlock n b st
def L (n : Nat) : Prop := ∀ (ls : List Label) (c : Option Cond) (post body : Stmt) (st : St),
  Sup false post = true → Sup false body = true → execFor fixedCfg n ls c post body st = Ref.execLoop n ls c post body st
def R (n : Nat) : Prop := ∀ (ls : List Label) (key val : Option Var) (keys vals : List Int) (body : Stmt) (i : Nat) (st : St),
  Sup false body = true → execRange fixedCfg n ls key val keys vals body i st = Ref.execRange n ls key val keys vals body i st
def C (n : Nat) : Prop := ∀ (ls : List Label) (cl : Stmt) (st : St),
  Sup true cl = true → execCases fixedCfg n ls cl st = brkMap ls (Ref.execClauses n cl st)

theorem catchLoop_ok (ls : List Label) (o : Outcome) (st1 : St) :
    catchLoop fixedCfg ls (.ok o st1) =
      if loopNext ls o then .next st1
      else if loopExit ls o = .normal then .stop st1 else .raise (.ok (loopExit ls o) st1) := by
  cases o with
  | normal => simp [catchLoop, loopNext]
  | brk l => by_cases h : labelIn l ls = true <;> simp [catchLoop, fixedCfg, loopNext, loopExit, h]
  | cont l => by_cases h : labelIn l ls = true <;> simp [catchLoop, fixedCfg, loopNext, loopExit, h]
  | ret => simp [catchLoop, loopNext, loopExit]
  | goto l => simp [catchLoop, loopNext, loopExit]

theorem catchLoop_timeout (ls : List Label) : catchLoop fixedCfg ls .timeout = .raise .timeout := by
  simp [catchLoop]

theorem E_zero : E 0 := by intro s st _; simp [exec, Ref.exec]
theorem B_zero : B 0 := by intro b st _; simp [execBlock, Ref.execBlock]
theorem L_zero : L 0 := by intro ls c post body st _ _; simp [execFor, Ref.execLoop]
theorem R_zero : R 0 := by intro ls key val keys vals body i st _; simp [execRange, Ref.execRange]
theorem C_zero : C 0 := by intro ls cl st _; simp [execCases, Ref.execClauses, brkMap]

theorem B_one : B 1 := by
  intro b st _
  simp [execBlock, Ref.execBlock, Ref.execFrom]

theorem B_succ {m : Nat} (he : E m) : B (m + 2) := by
  intro b st hb
  simp only [execBlock, Ref.execBlock, execFrom_sup m b _ hb, he b _ hb]
  try rfl

theorem L_succ {n : Nat} (he : E n) (hb : B n) (hl : L n) : L (n + 1) := by
  intro ls c post body st hp hbody
  have ep := fun st => he post st hp
  have el := fun st => hl ls c post body st hp hbody
  have eb := fun st => hb body st hbody
  simp only [execFor, Ref.execLoop, ep, el, eb]
  split
  · cases Ref.execBlock n body st with
    | timeout => simp only [catchLoop_timeout]
    | ok o st1 =>
      simp only [catchLoop_ok]
      by_cases h1 : loopNext ls o = true
      · simp only [h1, if_true]
        try rfl
      · simp only [h1, Bool.false_eq_true, if_false]
        by_cases h2 : loopExit ls o = .normal
        · simp only [h2, if_true]
          try rfl
        · simp only [h2, if_false]
          try rfl
  · rfl

theorem R_succ {n : Nat} (hb : B n) (hr : R n) : R (n + 1) := by
  intro ls key val keys vals body i st hbody
  have er := fun i st => hr ls key val keys vals body i st hbody
  have eb := fun st => hb body st hbody
  simp only [execRange, Ref.execRange, er, eb]
  split
  · cases Ref.execBlock n body _ with
    | timeout => simp only [catchLoop_timeout]
    | ok o st1 =>
      simp only [catchLoop_ok]
      by_cases h1 : loopNext ls o = true
      · simp only [h1, if_true]
        try rfl
      · simp only [h1, Bool.false_eq_true, if_false]
        by_cases h2 : loopExit ls o = .normal
        · simp only [h2, if_true]
          try rfl
        · simp only [h2, if_false]
          try rfl
  · rfl

theorem C_succ {n : Nat} (hb : B n) (hc : C n) : C (n + 1) := by
  intro ls cl st hcl
  cases cl with
  | clause g ft body rest =>
    simp only [Sup, Bool.and_eq_true] at hcl
    simp only [execCases, Ref.execClauses, hb body st hcl.1]
    cases Ref.execBlock n body st with
    | timeout => simp [brkMap]
    | ok o st1 =>
      cases o with
      | normal =>
        simp only
        cases ft with
        | true => simp only [if_true]; exact hc ls rest st1 hcl.2
        | false => simp [brkMap]
      | brk l =>
        simp only [fixedCfg, Bool.not_true, Bool.false_or, brkMap]
      | cont l => simp [brkMap]
      | ret => simp [brkMap]
      | goto l => simp [brkMap]
  | skip => simp [execCases, Ref.execClauses, brkMap]
  | _ => simp [Sup] at hcl

theorem sw_tail {n : Nat} (hc : C n) (ls : List Label) (c : Stmt) (st2 : St) (loc : Bool) (hc' : Sup true c = true) :
    (match execCases fixedCfg n ls c st2 with
      | .ok o st3 => XRes.ok o (st3.popIf loc)
      | .timeout => .timeout) =
    (match Ref.execClauses n c st2 with
      | .ok o st3 =>
        let o' := match o with
          | .brk l => if labelIn l ls then Outcome.normal else o
          | _ => o
        XRes.ok o' (st3.popIf loc)
      | .timeout => .timeout) := by
  rw [hc ls c st2 hc']
  cases Ref.execClauses n c st2 with
  | timeout => simp [brkMap]
  | ok o st3 =>
    cases o with
    | brk l => by_cases h : labelIn l ls = true <;> simp [brkMap, h]
    | normal => simp [brkMap]
    | cont l => simp [brkMap]
    | ret => simp [brkMap]
    | goto l => simp [brkMap]

theorem E_succ {n : Nat} (he : E n) (hb : B n) (hl : L n) (hr : R n) (hc : C n) : E (n + 1) := by
  intro s st hs
  cases s with
  | skip => simp [exec, Ref.exec]
  | emit t e => simp [exec, Ref.exec]
  | assign x e => simp [exec, Ref.exec]
  | define x e => simp [exec, Ref.exec]
  | brk l => simp [exec, Ref.exec]
  | cont l => simp [exec, Ref.exec]
  | ret => simp [exec, Ref.exec]
  | labeled l s => simp [Sup] at hs
  | goto l => simp [Sup] at hs
  | clause g ft body rest => simp [Sup] at hs
  | seq a b =>
    simp only [Sup, Bool.and_eq_true] at hs
    have ea := fun st => he a st hs.1
    have eb := fun st => he b st hs.2
    simp only [exec, Ref.exec, ea, eb]
    try rfl
  | block b =>
    simp only [Sup] at hs
    simp only [exec, Ref.exec, hb b st hs]
  | ite init cnd thn els =>
    simp only [Sup, Bool.and_eq_true] at hs
    have ei := fun st => he init st hs.1.1
    have et := fun st => hb thn st hs.1.2
    have ee := fun st => he els st hs.2
    simp only [exec, Ref.exec, ei, et, ee]
    try rfl
  | «for» ls init cnd post body =>
    simp only [Sup, Bool.and_eq_true] at hs
    have ei := fun st => he init st hs.1.1
    have el := fun st => hl ls cnd post body st hs.1.2 hs.2
    have hl1 : fixedCfg.labels = true := rfl
    simp only [exec, Ref.exec, ei, el, hl1, Bool.not_true, Bool.false_and, Bool.false_eq_true, if_false]
    try rfl
  | range ls str dfn key val keys vals body =>
    simp only [Sup] at hs
    have er := fun i st => hr ls key val keys vals body i st hs
    have hl1 : fixedCfg.labels = true := rfl
    have hr1 : fixedCfg.rangeNoVars = true := rfl
    simp only [exec, Ref.exec, er, hl1, hr1, Bool.not_true, Bool.false_and, Bool.false_eq_true, if_false]
    try rfl
  | switch ls init tag cls =>
    simp only [Sup, Bool.and_eq_true, decide_eq_true_eq] at hs
    obtain ⟨⟨hi, hcls⟩, hnd⟩ := hs
    have ei := fun st => he init st hi
    have hl1 : fixedCfg.labels = true := rfl
    simp only [exec, Ref.exec, ei, hl1, Bool.not_true, Bool.false_and, Bool.false_eq_true, if_false,
      pickCase_eq, pickDefault_eq cls hnd]
    cases hx : Ref.exec n init (st.pushIf (hasDefs init)) with
    | timeout => rfl
    | ok o st2 =>
      cases o with
      | normal =>
        cases tag with
        | none =>
          cases hsc : selectCaseSt 0 st2 cls with
          | mk o1 st3 =>
            cases o1 with
            | some c1 =>
              simp only [hsc]
              exact sw_tail hc ls c1 st3 _ (selectCase_sup 0 cls c1 st2 hcls (by rw [hsc]))
            | none =>
              cases hsd : selectDefault cls with
              | none => simp only [hsc]
              | some c1 =>
                simp only [hsc]
                exact sw_tail hc ls c1 st3 _ (selectDefault_sup cls c1 hcls hsd)
        | some e =>
          cases hsc : selectCaseSt (e.eval st2.stack) st2 cls with
          | mk o1 st3 =>
            cases o1 with
            | some c1 =>
              simp only [hsc]
              exact sw_tail hc ls c1 st3 _ (selectCase_sup _ cls c1 st2 hcls (by rw [hsc]))
            | none =>
              cases hsd : selectDefault cls with
              | none => simp only [hsc]
              | some c1 =>
                simp only [hsc]
                exact sw_tail hc ls c1 st3 _ (selectDefault_sup cls c1 hcls hsd)
      | brk l => rfl
      | cont l => rfl
      | ret => rfl
      | goto l => rfl

theorem all_claims : ∀ n : Nat, E n ∧ B n ∧ L n ∧ R n ∧ C n := by
  intro n
  induction n using Nat.strongRecOn with
  | _ n ih =>
    cases n with
    | zero => exact ⟨E_zero, B_zero, L_zero, R_zero, C_zero⟩
    | succ k =>
      have hk := ih k (Nat.lt_succ_self k)
      have hB : B (k + 1) := by
        cases k with
        | zero => exact B_one
        | succ m => exact B_succ (ih m (by omega)).1
      exact ⟨E_succ hk.1 hk.2.1 hk.2.2.1 hk.2.2.2.1 hk.2.2.2.2, hB, L_succ hk.1 hk.2.1 hk.2.2.1,
        R_succ hk.2.1 hk.2.2.2.1, C_succ hk.2.1 hk.2.2.2.2⟩

end Classic
