import Model.ParseExpr
import Gen.ParseDispatch
/-! The operator tables of the real parsers / printer, read from Gen/ParseDispatch.lean (shared by C24 and C25). -/
namespace ParseTop
open Gen.ParseDispatch

/-- the reference table: go/token's `Precedence` switch as source text -/
def stdPrecOf (name : String) : Nat :=
  match stdPrecArms.find? (·.1 == name) with
  | some a => a.2
  | none => if stdPrecDefault == "LowestPrec" then lowestPrec else 99

/-- the fork's table: evaluated through the function tokPrec calls -/
def forkPrecOf (v : Nat) : Nat :=
  match forkPrecEval.find? (·.1 == v) with
  | some a => a.2
  | none =>
    match forkExtTokens.find? (·.2.1 == v) with
    | some a => a.2.2
    | none => 0

end ParseTop

namespace ParseExpr
open Gen.ParseDispatch

def tokValue (name : String) : Nat := (tokNames.idxOf name)

/-- the tables of the real parsers -/
def goTables : Tables :=
  { binPrec := ParseTop.forkPrecOf
    isUnary := fun o => forkUnaryArms.flatten.any fun n => tokValue n == o }

theorem find_le5 (l : List (Nat × Nat)) (h : l.all (fun p => p.2 ≤ 5) = true) (v : Nat) (a : Nat × Nat)
    (hf : l.find? (·.1 == v) = some a) : a.2 ≤ 5 := by
  have := List.mem_of_find?_eq_some hf
  have := List.all_eq_true.mp h a this
  simpa using this

theorem goTables_le5 : ∀ o, goTables.binPrec o ≤ 5 := by
  intro o
  show ParseTop.forkPrecOf o ≤ 5
  unfold ParseTop.forkPrecOf
  split
  · rename_i a hf; exact find_le5 forkPrecEval (by decide) o a hf
  · split
    · rename_i a hf
      have := List.mem_of_find?_eq_some hf
      have h2 : forkExtTokens.all (fun e => e.2.2 ≤ 5) = true := by decide
      have := List.all_eq_true.mp h2 a this
      simpa using this
    · omega

end ParseExpr
