import Model.Pow2
/-! Correctness of the power-of-two rewrites of fast/binary_ops.go, for every width `w`, every
    operand `x : BitVec w` and every exponent, proved at the `Int`/`Nat` level
    (`BitVec.toInt_sdiv`, `toInt_srem`, `toInt_sshiftRight`, `toNat_udiv` ... + linear arithmetic). -/
namespace Pow2
variable {w : Nat}

/-! ### integer division facts -/

theorem tdiv_pos (a p : Int) (hp : 0 < p) :
    a.tdiv p = if a < 0 then (a + (p - 1)) / p else a / p := by
  split
  · rename_i ha
    have h1 : a.tdiv p = -((-a).tdiv p) := by rw [Int.neg_tdiv]; omega
    rw [h1, Int.tdiv_eq_ediv_of_nonneg (by omega)]
    have hq := Int.emod_add_mul_ediv (-a) p
    have hr0 := Int.emod_nonneg (-a) (by omega : p ≠ 0)
    have hr1 := Int.emod_lt_of_pos (-a) hp
    have : (a + (p - 1)) / p = -((-a) / p) ∧ (a + (p - 1)) % p = p - 1 - (-a) % p := by
      rw [Int.ediv_emod_unique hp]
      refine ⟨?_, by omega, by omega⟩
      rw [Int.mul_neg]; omega
    omega
  · rename_i ha
    exact Int.tdiv_eq_ediv_of_nonneg (by omega)

/-- width facts: `2^w = 2 * 2^(w-1)`, `0 < 2^k ≤ 2^(w-1)` for `k < w` -/
theorem pow_facts (w k : Nat) (hk : k < w) :
    ((2 ^ w : Nat) : Int) = 2 * ((2 ^ (w - 1) : Nat) : Int) ∧ (0 : Int) < ((2 ^ k : Nat) : Int) ∧
    ((2 ^ k : Nat) : Int) ≤ ((2 ^ (w - 1) : Nat) : Int) := by
  have h1 : 2 ^ w = 2 * 2 ^ (w - 1) := by
    have : w = (w - 1) + 1 := by omega
    conv => lhs; rw [this, Nat.pow_succ]
    omega
  have h2 : 0 < 2 ^ k := Nat.two_pow_pos k
  have h3 : 2 ^ k ≤ 2 ^ (w - 1) := Nat.pow_le_pow_right (by omega) (by omega)
  omega

theorem toInt_bounds (x : BitVec w) :
    -((2 ^ (w - 1) : Nat) : Int) ≤ x.toInt ∧ x.toInt < ((2 ^ (w - 1) : Nat) : Int) := by
  have h1 := BitVec.le_toInt x
  have h2 := @BitVec.toInt_lt w x
  simp only [Int.natCast_pow] at *
  exact ⟨h1, h2⟩

/-- `T(y - 1)` for `y = 2^k`: the mask / rounding addend has value `2^k - 1`, also for `k = w-1`
    (where `2^k` itself is `MinInt`) -/
theorem toInt_twoPow_sub_one (k : Nat) (hk : k < w) :
    (BitVec.twoPow w k - 1#w).toInt = ((2 ^ k : Nat) : Int) - 1 := by
  obtain ⟨h2w, hM0, hMP⟩ := pow_facts w k hk
  by_cases hlast : k + 1 = w
  · have : BitVec.twoPow w k - 1#w = BitVec.intMax w := by
      unfold BitVec.intMax; congr; omega
    rw [this, BitVec.toInt_intMax]
    have : w - 1 = k := by omega
    rw [this]; simp [Int.natCast_pow]
  · have htp : (BitVec.twoPow w k).toInt = ((2 ^ k : Nat) : Int) := by
      rw [BitVec.toInt_twoPow]
      simp [show ¬ w ≤ k by omega, hlast]
    have hone : (1#w).toInt = 1 := BitVec.toInt_one (by omega)
    have hM2 : 2 * ((2 ^ k : Nat) : Int) ≤ ((2 ^ (w - 1) : Nat) : Int) := by
      have e : (2 ^ (w - 1) : Nat) = 2 * 2 ^ (w - 1 - 1) := by
        have : w - 1 = (w - 1 - 1) + 1 := by omega
        conv => lhs; rw [this, Nat.pow_succ]
        omega
      have : 2 ^ k ≤ 2 ^ (w - 1 - 1) := Nat.pow_le_pow_right (by omega) (by omega)
      omega
    rw [BitVec.toInt_sub, htp, hone]
    apply Int.bmod_eq_of_le_mul_two <;> omega

theorem slt_zero (x : BitVec w) : x.slt 0#w = decide (x.toInt < 0) := by
  rw [BitVec.slt_eq_decide]; simp

/-- the shifted, rounded dividend of `quoPow2` is the truncated quotient by `2^k` -/
theorem quoPow2_shift_toInt (x : BitVec w) (k : Nat) (hk : k < w) :
    ((if x.slt 0#w then x + (BitVec.twoPow w k - 1#w) else x).sshiftRight k).toInt
      = x.toInt.tdiv ((2 ^ k : Nat) : Int) := by
  obtain ⟨h2w, hM0, hMP⟩ := pow_facts w k hk
  obtain ⟨hx0, hx1⟩ := toInt_bounds x
  have hy1 := toInt_twoPow_sub_one (w := w) k hk
  rw [BitVec.toInt_sshiftRight, Int.shiftRight_eq_div_pow, tdiv_pos _ _ hM0, slt_zero]
  by_cases hneg : x.toInt < 0
  · simp only [hneg, decide_true, if_true]
    rw [BitVec.toInt_add, hy1]
    rw [Int.bmod_eq_of_le_mul_two (by omega) (by omega)]
  · simp [hneg]

theorem bmod_toInt_eq (v : Int) (x : BitVec w) (h : x.toInt = v) : v.bmod (2 ^ w) = v := by
  obtain ⟨h0, h1⟩ := toInt_bounds x
  by_cases hw : w = 0
  · subst hw
    have : x.toInt = 0 := by simp [BitVec.toInt_of_zero_length]
    rw [← h, this]; rfl
  · obtain ⟨h2w, _, _⟩ := pow_facts w 0 (by omega)
    apply Int.bmod_eq_of_le_mul_two <;> omega

/-- **quoPow2, positive divisor** `2^k` (`k ≤ w-2`, i.e. every positive power of two of the type):
    add `2^k - 1` to a negative dividend, then shift arithmetically = Go's truncated `/` -/
theorem quoPow2_correct (x : BitVec w) (k : Nat) (hk : k + 1 < w) :
    quoPow2 x (BitVec.twoPow w k - 1#w) k true = x.sdiv (BitVec.twoPow w k) := by
  apply BitVec.toInt_inj.mp
  have hs := quoPow2_shift_toInt x k (by omega)
  unfold quoPow2
  simp only [if_true]
  rw [hs, BitVec.toInt_sdiv]
  have htp : (BitVec.twoPow w k).toInt = ((2 ^ k : Nat) : Int) := by
    rw [BitVec.toInt_twoPow]
    simp [show ¬ w ≤ k by omega, show ¬ k + 1 = w by omega]
  rw [htp]
  exact (bmod_toInt_eq _ _ hs).symm

/-- value of the negated power of two `-(2^k)`, including `k = w-1` where it is `MinInt` again -/
theorem toInt_neg_twoPow (k : Nat) (hk : k < w) :
    (-(BitVec.twoPow w k)).toInt = -((2 ^ k : Nat) : Int) := by
  obtain ⟨h2w, hM0, hMP⟩ := pow_facts w k hk
  by_cases hlast : k + 1 = w
  · have e : BitVec.twoPow w k = BitVec.intMin w := by
      unfold BitVec.intMin; congr; omega
    rw [e, BitVec.neg_intMin, BitVec.toInt_intMin_of_pos (by omega)]
    have : w - 1 = k := by omega
    rw [this]; simp [Int.natCast_pow]
  · have htp : (BitVec.twoPow w k).toInt = ((2 ^ k : Nat) : Int) := by
      rw [BitVec.toInt_twoPow]
      simp [show ¬ w ≤ k by omega, hlast]
    rw [BitVec.toInt_neg, htp]
    apply Int.bmod_eq_of_le_mul_two <;> omega

/-- **quoPow2, negative divisor** `-(2^k)` for every `k < w` — including the divisor `MinInt`
    (`k = w-1`, where `uint64(-sy)` wraps to `2^(w-1)` and `y_1 = MaxInt`) -/
theorem quoPow2_neg_correct (x : BitVec w) (k : Nat) (hk : k < w) :
    quoPow2 x (BitVec.twoPow w k - 1#w) k false = x.sdiv (-(BitVec.twoPow w k)) := by
  apply BitVec.toInt_inj.mp
  have hs := quoPow2_shift_toInt x k hk
  unfold quoPow2
  simp only [Bool.false_eq_true, if_false]
  rw [BitVec.toInt_neg, hs, BitVec.toInt_sdiv, toInt_neg_twoPow k hk, Int.tdiv_neg]

/-- unsigned: `x >> k = x / 2^k` -/
theorem quoPow2U_correct (x : BitVec w) (k : Nat) (hk : k < w) :
    quoPow2U x k = x / BitVec.twoPow w k := by
  apply BitVec.eq_of_toNat_eq
  unfold quoPow2U
  rw [BitVec.toNat_ushiftRight, BitVec.toNat_udiv, BitVec.toNat_twoPow_of_lt hk, Nat.shiftRight_eq_div_pow]

/-- **mulPow2**: `x << k = x * 2^k`, `-(x << k) = x * -(2^k)` (wrap-around, every `k`) -/
theorem mulPow2_correct (x : BitVec w) (k : Nat) :
    mulPow2 x k true = x * BitVec.twoPow w k ∧ mulPow2 x k false = x * -(BitVec.twoPow w k) := by
  unfold mulPow2
  simp only [if_true, Bool.false_eq_true, if_false]
  rw [BitVec.shiftLeft_eq_mul_twoPow, BitVec.mul_neg]
  exact ⟨rfl, rfl⟩

/-- unsigned remainder: `x & (2^k - 1) = x % 2^k` -/
theorem remPow2U_correct (x : BitVec w) (k : Nat) (hk : k < w) :
    remPow2U x (BitVec.twoPow w k - 1#w) = x % BitVec.twoPow w k := by
  apply BitVec.eq_of_toNat_eq
  unfold remPow2U
  have hlt : 2 ^ k < 2 ^ w := Nat.pow_lt_pow_right (by omega) hk
  have hpos : 0 < 2 ^ k := Nat.two_pow_pos k
  have hm : (BitVec.twoPow w k - 1#w).toNat = 2 ^ k - 1 := by
    rw [BitVec.toNat_sub, BitVec.toNat_twoPow_of_lt hk]
    have h1 : (1#w).toNat = 1 := by
      rw [BitVec.toNat_ofNat]; exact Nat.mod_eq_of_lt (by omega)
    rw [h1]
    have : 2 ^ w - 1 + 2 ^ k = (2 ^ k - 1) + 2 ^ w := by omega
    rw [this, Nat.add_mod_right, Nat.mod_eq_of_lt (by omega)]
  rw [BitVec.toNat_and, hm, BitVec.toNat_umod, BitVec.toNat_twoPow_of_lt hk, Nat.and_two_pow_sub_one_eq_mod]

theorem twoPow_sub_one_toNat (k : Nat) (hk : k < w) : (BitVec.twoPow w k - 1#w).toNat = 2 ^ k - 1 := by
  have hlt : 2 ^ k < 2 ^ w := Nat.pow_lt_pow_right (by omega) hk
  have hpos : 0 < 2 ^ k := Nat.two_pow_pos k
  rw [BitVec.toNat_sub, BitVec.toNat_twoPow_of_lt hk]
  have h1 : (1#w).toNat = 1 := by
    rw [BitVec.toNat_ofNat]; exact Nat.mod_eq_of_lt (by omega)
  rw [h1]
  have : 2 ^ w - 1 + 2 ^ k = (2 ^ k - 1) + 2 ^ w := by omega
  rw [this, Nat.add_mod_right, Nat.mod_eq_of_lt (by omega)]

/-- value of a masked natural number -/
theorem and_mask_toInt (z : BitVec w) (k : Nat) (hk : k < w) :
    (z &&& (BitVec.twoPow w k - 1#w)).toInt = ((z.toNat % 2 ^ k : Nat) : Int) := by
  have hm := twoPow_sub_one_toNat (w := w) k hk
  have hn : (z &&& (BitVec.twoPow w k - 1#w)).toNat = z.toNat % 2 ^ k := by
    rw [BitVec.toNat_and, hm, Nat.and_two_pow_sub_one_eq_mod]
  have hpos : 0 < 2 ^ k := Nat.two_pow_pos k
  have hlt : z.toNat % 2 ^ k < 2 ^ k := Nat.mod_lt _ hpos
  have hle : 2 ^ k ≤ 2 ^ (w - 1) := Nat.pow_le_pow_right (by omega) (by omega)
  have h2w : 2 ^ w = 2 * 2 ^ (w - 1) := by
    have : w = (w - 1) + 1 := by omega
    conv => lhs; rw [this, Nat.pow_succ]
    omega
  rw [BitVec.toInt_eq_toNat_of_lt (by omega), hn]

theorem remPow2_toInt (x : BitVec w) (k : Nat) (hk : k < w) :
    (remPow2 x (BitVec.twoPow w k - 1#w)).toInt = x.toInt.tmod ((2 ^ k : Nat) : Int) := by
  obtain ⟨h2w, hM0, hMP⟩ := pow_facts w k hk
  obtain ⟨hx0, hx1⟩ := toInt_bounds x
  unfold remPow2
  rw [slt_zero]
  have hpos : 0 < 2 ^ k := Nat.two_pow_pos k
  by_cases hneg : x.toInt < 0
  · simp only [hneg, decide_true, if_true]
    have hm := and_mask_toInt (-x) k hk
    have hlt : (-x).toNat % 2 ^ k < 2 ^ k := Nat.mod_lt _ hpos
    rw [BitVec.toInt_neg, hm]
    rw [Int.bmod_eq_of_le_mul_two (by omega) (by omega)]
    -- (-x).toNat = -x.toInt
    have hxn : ((-x).toNat : Int) = -x.toInt := by
      have hc := BitVec.toInt_eq_toNat_cond x
      have hlt' := x.isLt
      have hx0' : x.toNat ≠ 0 := by
        intro h0
        rw [h0] at hc
        simp at hc
        omega
      rw [BitVec.toNat_neg, Nat.mod_eq_of_lt (by omega)]
      split at hc <;> omega
    have : x.toInt.tmod ((2 ^ k : Nat) : Int) = -((-x.toInt).tmod ((2 ^ k : Nat) : Int)) := by
      rw [Int.neg_tmod]; omega
    rw [this, Int.tmod_eq_emod_of_nonneg (by omega), ← hxn, Int.natCast_emod]
  · simp only [hneg, decide_false, Bool.false_eq_true, if_false]
    rw [and_mask_toInt x k hk, Int.tmod_eq_emod_of_nonneg (by omega)]
    have hc := BitVec.toInt_eq_toNat_cond x
    have : x.toInt = (x.toNat : Int) := by
      split at hc
      · exact hc
      · have := x.isLt; omega
    rw [this, Int.natCast_emod]

/-- **remPow2**: mask for a non-negative dividend, negate-mask-negate for a negative one = Go's `%`
    (sign of the dividend) for the divisors `2^k` and `-(2^k)`, every `k < w` — including the
    dividend `MinInt` and the divisor `MinInt` -/
theorem remPow2_correct (x : BitVec w) (k : Nat) (hk : k < w) :
    remPow2 x (BitVec.twoPow w k - 1#w) = x.srem (BitVec.twoPow w k) ∧
    remPow2 x (BitVec.twoPow w k - 1#w) = x.srem (-(BitVec.twoPow w k)) := by
  have hr := remPow2_toInt x k hk
  constructor
  · apply BitVec.toInt_inj.mp
    rw [hr, BitVec.toInt_srem, BitVec.toInt_twoPow]
    simp only [show ¬ w ≤ k by omega, if_false]
    split
    · rw [Int.tmod_neg]
    · rfl
  · apply BitVec.toInt_inj.mp
    rw [hr, BitVec.toInt_srem, toInt_neg_twoPow k hk, Int.tmod_neg]

theorem pow2_of_and_pred (n : Nat) (h0 : n ≠ 0) (h : n &&& (n - 1) = 0) : ∃ k, n = 2 ^ k := by
  induction n using Nat.strongRecOn with
  | _ n ih =>
    have hd : (n &&& (n - 1)) / 2 = n / 2 &&& (n - 1) / 2 := Nat.and_div_two
    rw [h] at hd
    by_cases hodd : n % 2 = 1
    · have : (n - 1) / 2 = n / 2 := by omega
      rw [this, Nat.and_self] at hd
      exact ⟨0, by omega⟩
    · have e : (n - 1) / 2 = n / 2 - 1 := by omega
      rw [e] at hd
      obtain ⟨j, hj⟩ := ih (n / 2) (by omega) (by omega) (by omega)
      exact ⟨j + 1, by rw [Nat.pow_succ]; omega⟩

theorem integerLen_twoPow : ∀ k : Fin 64, integerLen (BitVec.twoPow 64 k.val) = k.val + 1 := by
  decide

theorem isPowerOfTwo_spec (n : BitVec 64) (h : isPowerOfTwo n = true) :
    ∃ k, k < 64 ∧ n = BitVec.twoPow 64 k ∧ integerLen n = k + 1 := by
  unfold isPowerOfTwo at h
  simp only [Bool.and_eq_true, bne_iff_ne, ne_eq, beq_iff_eq] at h
  obtain ⟨hn0, hand⟩ := h
  have hn0' : n.toNat ≠ 0 := by
    intro h0; apply hn0; apply BitVec.eq_of_toNat_eq; simpa using h0
  have hsub : (n - 1#64).toNat = n.toNat - 1 := by
    rw [BitVec.toNat_sub]
    have := n.isLt
    simp
    omega
  have hand' : n.toNat &&& (n.toNat - 1) = 0 := by
    have := congrArg BitVec.toNat hand
    rw [BitVec.toNat_and, hsub] at this
    simpa using this
  obtain ⟨k, hk⟩ := pow2_of_and_pred n.toNat hn0' hand'
  have hk64 : k < 64 := by
    have := n.isLt
    rw [hk] at this
    exact (Nat.pow_lt_pow_iff_right (by omega)).mp this
  have hn : n = BitVec.twoPow 64 k := by
    apply BitVec.eq_of_toNat_eq
    rw [BitVec.toNat_twoPow_of_lt hk64, hk]
  refine ⟨k, hk64, hn, ?_⟩
  rw [hn]
  exact integerLen_twoPow ⟨k, hk64⟩

end Pow2
