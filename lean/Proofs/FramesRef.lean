import Model.Frames
import Proofs.Frames

/-! Refinement PoolMachine ⊑ FreshMachine: the relation `Rel p f` between a PoolMachine state
    `p` and the FreshMachine state `f` reached by the same operations, through the ghost serial
    numbers (`Frame.lid`, `Arr.lid`): the live part of `p` is an image of `f`, slot by slot,
    wherever `f`'s slot was written since its allocation. -/
namespace Frames

def getA (arrs : List Arr) (a : Nat) : Arr := arrs.getD a default

theorem getA_eq (arrs : List Arr) (a : Nat) : getA arrs a = (arrs[a]?).getD default := by
  simp [getA, List.getD_eq_getElem?_getD]

theorem getA_ge {arrs : List Arr} {a : Nat} (h : arrs.length ≤ a) : getA arrs a = default := by
  simp [getA_eq, List.getElem?_eq_none h]

theorem getA_set (arrs : List Arr) (a x : Nat) (v : Arr) :
    getA (arrs.set a v) x = if x = a ∧ a < arrs.length then v else getA arrs x := by
  simp only [getA_eq, List.getElem?_set]
  by_cases hx : a = x
  · subst hx
    by_cases hl : a < arrs.length
    · simp [hl]
    · simp [hl]
  · have : ¬ (x = a) := fun h => hx h.symm
    simp [hx, this]

theorem getA_append (arrs : List Arr) (v : Arr) (x : Nat) :
    getA (arrs ++ [v]) x = if x = arrs.length then v else getA arrs x := by
  by_cases hx : x = arrs.length
  · subst hx; simp [getA_eq]
  · simp only [hx, if_false]
    by_cases hl : x < arrs.length
    · simp [getA_eq, List.getElem?_append_left hl]
    · have h1 : arrs.length ≤ x := Nat.le_of_not_lt hl
      have h2 : (arrs ++ [v]).length ≤ x := by simp; omega
      rw [getA_ge h1, getA_ge h2]

abbrev lidOf (p : State) (x : Nat) : Nat := (getF p.heap x).lid
abbrev alidOf (p : State) (a : Nat) : Nat := (getA p.arrs a).lid

/-- live frames of the PoolMachine: on the interpreted stack, or marked -/
def Live (p : State) (x : Nat) : Prop := x ∈ p.stack.flatten ∨ (getF p.heap x).used = true

/-- `cp` refines `cf`: at least as long, and equal wherever `cf` holds a written value -/
def CellsRef (cf cp : List Slot) : Prop :=
  cf.length ≤ cp.length ∧ ∀ (i : Nat) (v : Int), cf[i]? = some (some v) → cp[i]? = some (some v)

/-- stated over the components, so that states differing in other fields share the relation -/
structure ArrRelH (pa fa : List Arr) (a : Nat) : Prop where
  lt_p : a < pa.length
  lt_f : (getA pa a).lid < fa.length
  cells : CellsRef (getA fa (getA pa a).lid).cells (getA pa a).cells

abbrev ArrRel (p f : State) (a : Nat) : Prop := ArrRelH p.arrs f.arrs a

structure FrameRelH (ph : List Frame) (pa : List Arr) (fh : List Frame) (fa : List Arr) (x : Nat) : Prop where
  nb : (getF fh (getF ph x).lid).nb = (getF ph x).nb
  ni : (getF fh (getF ph x).lid).ni = (getF ph x).ni
  outer : (getF fh (getF ph x).lid).outer = (getF ph x).outer.map (fun o => (getF ph o).lid)
  vals_len : (getF ph x).nb ≤ (getF fh (getF ph x).lid).vals.length
  vals : CellsRef (getF fh (getF ph x).lid).vals (getF ph x).vals
  ints : 0 < (getF ph x).ni → ∃ a, (getF ph x).ints = some a ∧
          (getF fh (getF ph x).lid).ints = some (getA pa a).lid ∧
          (getF ph x).ni ≤ (getA fa (getA pa a).lid).cells.length ∧ ArrRelH pa fa a

abbrev FrameRel (p f : State) (x : Nat) : Prop := FrameRelH p.heap p.arrs f.heap f.arrs x

structure Rel (p f : State) : Prop where
  invp : Inv p
  stack : f.stack = p.stack.map (List.map (lidOf p))
  clos : f.clos = p.clos.map (lidOf p)
  ptrs : f.ptrs = p.ptrs.map (fun q => (alidOf p q.1, q.2))
  nlid : p.nlid = f.heap.length
  nalid : p.nalid = f.arrs.length
  lid_lt : ∀ x, x < p.heap.length → lidOf p x < p.nlid
  lid_inj : ∀ x y, x < p.heap.length → y < p.heap.length → lidOf p x = lidOf p y → x = y
  alid_lt : ∀ a, a < p.arrs.length → alidOf p a < p.nalid
  alid_inj : ∀ a b, a < p.arrs.length → b < p.arrs.length → alidOf p a = alidOf p b → a = b
  frames : ∀ x, Live p x → FrameRel p f x
  parrs : ∀ q ∈ p.ptrs, ArrRel p f q.1

theorem live_lt {p : State} (hi : Inv p) {x : Nat} (hl : Live p x) : x < p.heap.length := by
  rcases hl with h | h
  · exact hi.stack_lt x h
  · rcases Nat.lt_or_ge x p.heap.length with h1 | h1
    · exact h1
    · rw [getF_ge h1] at h; cases h

theorem live_outer {p : State} (hi : Inv p) {x o : Nat} (hl : Live p x)
    (ho : (getF p.heap x).outer = some o) : Live p o := by
  rcases hl with h | h
  · obtain ⟨a, ha, hxa⟩ := List.mem_flatten.1 h
    rcases act_closed (hi.acts a ha) hi.up_closed x o (Or.inl hxa) ho with h2 | h2
    · left; exact List.mem_flatten.2 ⟨a, ha, h2⟩
    · right; exact h2
  · right; exact hi.up_closed x o h ho

theorem live_not_pool {p : State} (hi : Inv p) {x : Nat} (hl : Live p x) : x ∉ p.pool := by
  intro hp
  rcases hl with h | h
  · exact (List.nodup_append.1 hi.nodup).2.2 x hp x h rfl
  · rw [hi.pool_unused x hp] at h; cases h

theorem cur_rel {p f : State} (hr : Rel p f) {cf : Nat} (hc : cur f = some cf) :
    ∃ c, cur p = some c ∧ cf = lidOf p c ∧ Live p c := by
  unfold cur at hc
  rw [hr.stack] at hc
  cases hst : p.stack with
  | nil => simp [hst] at hc
  | cons a rest =>
    cases a with
    | nil => simp [hst] at hc
    | cons c fs =>
      simp [hst] at hc
      refine ⟨c, by simp [cur, hst], hc.symm, Or.inl (by rw [hst]; simp)⟩

/-- walking `Outer` in the FreshMachine from the image of a live frame is the image of the walk
    in the PoolMachine -/
theorem walk_rel {p f : State} (hr : Rel p f) (up : Nat) :
    ∀ c ef, Live p c → walkUp f.heap up (lidOf p c) = some ef →
      ∃ e, walkUp p.heap up c = some e ∧ Live p e ∧ ef = lidOf p e := by
  induction up with
  | zero =>
    intro c ef hl hw
    simp only [walkUp] at hw
    split at hw
    · simp at hw
      exact ⟨c, by simp [walkUp, live_lt hr.invp hl], hl, hw.symm⟩
    · simp at hw
  | succ n ih =>
    intro c ef hl hw
    simp only [walkUp] at hw
    split at hw
    · simp at hw
    · rename_i frf hfrf
      split at hw
      · simp at hw
      · rename_i of hof
        have hfr := hr.frames c hl
        have h1 : (getF f.heap (lidOf p c)).outer = some of := by rw [getF_of_getElem? hfrf]; exact hof
        rw [hfr.outer] at h1
        cases hpo : (getF p.heap c).outer with
        | none => rw [hpo] at h1; simp at h1
        | some o =>
          rw [hpo] at h1; simp at h1
          have hlo : Live p o := live_outer hr.invp hl hpo
          subst h1
          obtain ⟨e, he1, he2, he3⟩ := ih o ef hlo hw
          refine ⟨e, ?_, he2, he3⟩
          simp only [walkUp, getElem?_of_lt (live_lt hr.invp hl), hpo]
          exact he1


/-- relation between the value read by the FreshMachine and the one read by the PoolMachine:
    both read or neither; where the FreshMachine reads a written value the PoolMachine reads the same -/
def OutRef : Option Slot → Option Slot → Prop
  | none, none => True
  | some a, some b => ∀ w, a = some w → b = some w
  | _, _ => False

theorem cellsRef_get {cf cp : List Slot} (h : CellsRef cf cp) {i : Nat} {v : Slot} (hv : cf[i]? = some v) :
    ∃ v', cp[i]? = some v' ∧ ∀ w, v = some w → v' = some w := by
  have hi : i < cf.length := by
    rcases Nat.lt_or_ge i cf.length with h1 | h1
    · exact h1
    · rw [List.getElem?_eq_none h1] at hv; cases hv
  have hi' : i < cp.length := Nat.lt_of_lt_of_le hi h.1
  refine ⟨cp[i], List.getElem?_eq_getElem hi', ?_⟩
  intro w hw
  subst hw
  have := h.2 i w hv
  rw [List.getElem?_eq_getElem hi'] at this
  simpa using this

theorem cellsRef_set {cf cp : List Slot} (h : CellsRef cf cp) (i : Nat) (v : Slot) :
    CellsRef (cf.set i v) (cp.set i v) := by
  refine ⟨by simpa using h.1, ?_⟩
  intro j w hj
  rw [List.getElem?_set] at hj ⊢
  by_cases hij : i = j
  · subst hij
    have hi : i < cf.length := by
      rcases Nat.lt_or_ge i cf.length with h1 | h1
      · exact h1
      · simp [Nat.not_lt.2 h1] at hj
    have hi' : i < cp.length := Nat.lt_of_lt_of_le hi h.1
    simp [hi] at hj
    simp [hi', hj]
  · simp [hij] at hj ⊢
    exact h.2 j w hj

/-- reading: no state change -/
theorem sim_read {p f : State} (hr : Rel p f) {up i : Nat} {isInt : Bool} {f' : State} {of : Option Slot}
    (hf : step false f (.read up isInt i) = some (f', of)) :
    ∃ p' op', step true p (.read up isInt i) = some (p', op') ∧ Rel p' f' ∧ OutRef of op' := by
  simp only [step] at hf
  split at hf
  · simp at hf
  · rename_i cf hcf
    obtain ⟨c, hc, hcl, hlc⟩ := cur_rel hr hcf
    split at hf
    · simp at hf
    · rename_i ef hwf
      rw [hcl] at hwf
      obtain ⟨e, hw, hle, hel⟩ := walk_rel hr up c ef hlc hwf
      have hfr := hr.frames e hle
      subst hel
      simp only [step, hc, hw]
      cases isInt with
      | true =>
        simp only [if_true] at hf ⊢
        split at hf
        · simp at hf
        · rename_i b hb
          split at hf
          · rename_i hin
            split at hf
            · simp at hf
            · rename_i v hv
              simp at hf
              obtain ⟨hf1, hf2⟩ := hf
              subst hf1; subst hf2
              rw [hfr.ni] at hin
              obtain ⟨a, ha1, ha2, _, ha4⟩ := hfr.ints (by omega)
              rw [ha2] at hb; simp at hb; subst hb
              obtain ⟨v', hv1, hv2⟩ := cellsRef_get ha4.cells (i := i) (v := v) hv
              refine ⟨p, some v', ?_, hr, hv2⟩
              simp only [ha1, hin, if_true]
              have : (p.arrs.getD a default).cells[i]? = some v' := hv1
              rw [this]
          · simp at hf
      | false =>
        simp only [Bool.false_eq_true, if_false] at hf ⊢
        split at hf
        · rename_i hin
          split at hf
          · simp at hf
          · rename_i v hv
            simp at hf
            obtain ⟨hf1, hf2⟩ := hf
            subst hf1; subst hf2
            rw [hfr.nb] at hin
            obtain ⟨v', hv1, hv2⟩ := cellsRef_get hfr.vals (i := i) (v := v) hv
            refine ⟨p, some v', ?_, hr, hv2⟩
            simp only [hin, if_true]
            rw [hv1]
        · simp at hf

theorem sim_readPtr {p f : State} (hr : Rel p f) {k : Nat} {f' : State} {of : Option Slot}
    (hf : step false f (.readPtr k) = some (f', of)) :
    ∃ p' op', step true p (.readPtr k) = some (p', op') ∧ Rel p' f' ∧ OutRef of op' := by
  simp only [step] at hf
  split at hf
  · simp at hf
  · rename_i b i hk
    rw [hr.ptrs] at hk
    simp only [List.getElem?_map] at hk
    cases hq : p.ptrs[k]? with
    | none => rw [hq] at hk; simp at hk
    | some q =>
      rw [hq] at hk; simp at hk
      obtain ⟨hk1, hk2⟩ := hk
      have har := hr.parrs q (List.mem_of_getElem? hq)
      split at hf
      · simp at hf
      · rename_i v hv
        simp at hf
        obtain ⟨hf1, hf2⟩ := hf
        subst hf1; subst hf2
        subst hk1; subst hk2
        obtain ⟨v', hv1, hv2⟩ := cellsRef_get har.cells (i := q.2) (v := v) hv
        refine ⟨p, some v', ?_, hr, hv2⟩
        simp only [step, hq]
        have : (p.arrs.getD q.1 default).cells[q.2]? = some v' := hv1
        rw [this]


theorem rel_stack {p f : State} (hr : Rel p f) (stk' : List (List Nat))
    (hinv : Inv { p with stack := stk' }) (hsub : ∀ x ∈ stk'.flatten, x ∈ p.stack.flatten) :
    Rel { p with stack := stk' } { f with stack := stk'.map (List.map (lidOf p)) } :=
  { invp := hinv
    stack := rfl
    clos := hr.clos
    ptrs := hr.ptrs
    nlid := hr.nlid
    nalid := hr.nalid
    lid_lt := hr.lid_lt
    lid_inj := hr.lid_inj
    alid_lt := hr.alid_lt
    alid_inj := hr.alid_inj
    frames := by
      intro x hl
      have hl' : Live p x := by
        rcases hl with h | h
        · left; exact hsub x h
        · right; exact h
      exact hr.frames x hl'
    parrs := hr.parrs }

theorem sim_jumpOut {p f : State} (hr : Rel p f) {n : Nat} {f' : State} {of : Option Slot}
    (hf : step false f (.jumpOut n) = some (f', of)) :
    ∃ p' op', step true p (.jumpOut n) = some (p', op') ∧ Rel p' f' ∧ OutRef of op' := by
  have hstk := hr.stack
  simp only [step] at hf
  split at hf
  · rename_i a' rest' hst'
    split at hf
    · rename_i hn
      simp at hf
      obtain ⟨hf1, hf2⟩ := hf
      subst hf1; subst hf2
      cases hst : p.stack with
      | nil => rw [hst, hst'] at hstk; simp at hstk
      | cons a rest =>
        rw [hst, hst'] at hstk
        simp at hstk
        obtain ⟨h1, h2⟩ := hstk
        subst h1; subst h2
        simp at hn
        have hstep : step true p (.jumpOut n) = some ({ p with stack := a.drop n :: rest }, none) := by
          simp [step, hst, hn]
        refine ⟨_, none, hstep, ?_, trivial⟩
        have hinv := inv_step true hr.invp hstep
        have := rel_stack hr (a.drop n :: rest) hinv (by
          intro x hx; rw [hst]
          simp only [List.flatten_cons, List.mem_append] at hx ⊢
          rcases hx with h | h
          · left; exact List.mem_of_mem_drop h
          · right; exact h)
        simpa [List.map_drop] using this
    · simp at hf
  · simp at hf

theorem sim_panicUnwind {p f : State} (hr : Rel p f) {n : Nat} {f' : State} {of : Option Slot}
    (hf : step false f (.panicUnwind n) = some (f', of)) :
    ∃ p' op', step true p (.panicUnwind n) = some (p', op') ∧ Rel p' f' ∧ OutRef of op' := by
  simp only [step] at hf
  split at hf
  · rename_i hn
    simp at hf
    obtain ⟨hf1, hf2⟩ := hf
    subst hf1; subst hf2
    rw [hr.stack] at hn
    simp at hn
    have hstep : step true p (.panicUnwind n) = some ({ p with stack := p.stack.drop n }, none) := by
      simp [step, hn]
    refine ⟨_, none, hstep, ?_, trivial⟩
    have hinv := inv_step true hr.invp hstep
    have := rel_stack hr (p.stack.drop n) hinv (fun x hx => (flatten_drop_sublist _ _).mem hx)
    simpa [hr.stack, List.map_drop] using this
  · simp at hf


/-! ### updates of one live frame on both sides -/

theorem rel_set_frames {p f : State} (hr : Rel p f) {e : Nat} (hl : Live p e) (fp' ff' : Frame)
    (hp_lid : fp'.lid = (getF p.heap e).lid) (hp_nb : fp'.nb = (getF p.heap e).nb)
    (hp_ni : fp'.ni = (getF p.heap e).ni) (hp_outer : fp'.outer = (getF p.heap e).outer)
    (hp_ints : fp'.ints = (getF p.heap e).ints) (hp_used : fp'.used = (getF p.heap e).used)
    (hp_addr : fp'.addr = (getF p.heap e).addr ∨ fp'.addr = true)
    (hf_nb : ff'.nb = (getF f.heap (lidOf p e)).nb) (hf_ni : ff'.ni = (getF f.heap (lidOf p e)).ni)
    (hf_outer : ff'.outer = (getF f.heap (lidOf p e)).outer) (hf_ints : ff'.ints = (getF f.heap (lidOf p e)).ints)
    (hvals : CellsRef ff'.vals fp'.vals) (hvlen : fp'.nb ≤ ff'.vals.length) :
    Rel { p with heap := p.heap.set e fp' } { f with heap := f.heap.set (lidOf p e) ff' } := by
  have hel : e < p.heap.length := live_lt hr.invp hl
  have hlidl : lidOf p e < f.heap.length := by rw [← hr.nlid]; exact hr.lid_lt e hel
  have hlid : ∀ x, (getF (p.heap.set e fp') x).lid = (getF p.heap x).lid := by
    intro x; rw [getF_set]; split
    · rename_i h; rw [h.1]; exact hp_lid
    · rfl
  have hused : ∀ x, (getF (p.heap.set e fp') x).used = (getF p.heap x).used := by
    intro x; rw [getF_set]; split
    · rename_i h; rw [h.1]; exact hp_used
    · rfl
  have hinv : Inv { p with heap := p.heap.set e fp' } :=
    inv_set_frame hr.invp hp_outer hp_used hp_ints (by
      rcases hp_addr with h | h
      · left; exact h
      · right; exact ⟨h, live_not_pool hr.invp hl⟩)
  refine { invp := hinv, stack := ?_, clos := ?_, ptrs := hr.ptrs, nlid := by simpa using hr.nlid, nalid := hr.nalid,
           lid_lt := ?_, lid_inj := ?_, alid_lt := hr.alid_lt, alid_inj := hr.alid_inj, frames := ?_, parrs := hr.parrs }
  · show f.stack = p.stack.map (List.map (fun x => (getF (p.heap.set e fp') x).lid))
    simp only [hlid]; exact hr.stack
  · show f.clos = p.clos.map (fun x => (getF (p.heap.set e fp') x).lid)
    simp only [hlid]; exact hr.clos
  · intro x hx
    show (getF (p.heap.set e fp') x).lid < p.nlid
    rw [hlid]; exact hr.lid_lt x (by simpa using hx)
  · intro x y hx hy hxy
    have : (getF (p.heap.set e fp') x).lid = (getF (p.heap.set e fp') y).lid := hxy
    rw [hlid, hlid] at this
    exact hr.lid_inj x y (by simpa using hx) (by simpa using hy) this
  · intro x hlx
    have hlx' : Live p x := by
      rcases hlx with h | h
      · left; exact h
      · right; have : (getF (p.heap.set e fp') x).used = true := h
        rw [hused] at this; exact this
    have hxl : x < p.heap.length := live_lt hr.invp hlx'
    have hfr := hr.frames x hlx'
    show FrameRelH (p.heap.set e fp') p.arrs (f.heap.set (lidOf p e) ff') f.arrs x
    by_cases hxe : x = e
    · subst hxe
      have h1 : getF (p.heap.set x fp') x = fp' := getF_set_eq _ hel
      have h2 : getF (f.heap.set (lidOf p x) ff') fp'.lid = ff' := by rw [hp_lid]; exact getF_set_eq _ hlidl
      refine { nb := ?_, ni := ?_, outer := ?_, vals_len := ?_, vals := ?_, ints := ?_ }
      · rw [h1, h2, hf_nb, hp_nb]; exact hfr.nb
      · rw [h1, h2, hf_ni, hp_ni]; exact hfr.ni
      · rw [h1, h2, hf_outer, hp_outer]; simp only [hlid]; exact hfr.outer
      · rw [h1, h2]; exact hvlen
      · rw [h1, h2]; exact hvals
      · rw [h1, h2, hp_ni, hp_ints, hf_ints]; exact hfr.ints
    · have h1 : getF (p.heap.set e fp') x = getF p.heap x := getF_set_ne _ hxe
      have hne : (getF p.heap x).lid ≠ lidOf p e := fun h => hxe (hr.lid_inj x e hxl hel h)
      have h2 : getF (f.heap.set (lidOf p e) ff') (getF p.heap x).lid = getF f.heap (getF p.heap x).lid :=
        getF_set_ne _ hne
      refine { nb := ?_, ni := ?_, outer := ?_, vals_len := ?_, vals := ?_, ints := ?_ }
      · rw [h1, h2]; exact hfr.nb
      · rw [h1, h2]; exact hfr.ni
      · rw [h1, h2]; simp only [hlid]; exact hfr.outer
      · rw [h1, h2]; exact hfr.vals_len
      · rw [h1, h2]; exact hfr.vals
      · rw [h1, h2]; exact hfr.ints

theorem arrRel_write {pa fa : List Arr} {a a0 i : Nat} {v : Slot} (h0 : ArrRelH pa fa a0)
    (ha : a < pa.length)
    (hinj : (getA pa a0).lid = (getA pa a).lid → a0 = a) :
    ArrRelH (pa.set a { getA pa a with cells := (getA pa a).cells.set i v })
            (fa.set (getA pa a).lid { getA fa (getA pa a).lid with cells := (getA fa (getA pa a).lid).cells.set i v }) a0 := by
  have hlid : ∀ x, (getA (pa.set a { getA pa a with cells := (getA pa a).cells.set i v }) x).lid = (getA pa x).lid := by
    intro x; rw [getA_set]; split
    · rename_i h; rw [h.1]
    · rfl
  refine { lt_p := by simpa using h0.lt_p, lt_f := by rw [hlid]; simpa using h0.lt_f, cells := ?_ }
  rw [hlid]
  by_cases h : a0 = a
  · subst h
    rw [getA_set, getA_set]
    simp only [ha, h0.lt_f, and_self, if_true]
    exact cellsRef_set h0.cells i v
  · have hne : (getA pa a0).lid ≠ (getA pa a).lid := fun hh => h (hinj hh)
    rw [getA_set, getA_set]
    simp only [h, hne, false_and, if_false]
    exact h0.cells

theorem rel_write_arr {p f : State} (hr : Rel p f) {a i : Nat} {v : Slot} (ha : a < p.arrs.length) :
    Rel { p with arrs := p.arrs.set a { getA p.arrs a with cells := (getA p.arrs a).cells.set i v } }
        { f with arrs := f.arrs.set (alidOf p a) { getA f.arrs (alidOf p a) with cells := (getA f.arrs (alidOf p a)).cells.set i v } } := by
  have hlid : ∀ x, (getA (p.arrs.set a { getA p.arrs a with cells := (getA p.arrs a).cells.set i v }) x).lid = (getA p.arrs x).lid := by
    intro x; rw [getA_set]; split
    · rename_i h; rw [h.1]
    · rfl
  have hw : ∀ a0, ArrRelH p.arrs f.arrs a0 → ArrRelH (p.arrs.set a { getA p.arrs a with cells := (getA p.arrs a).cells.set i v })
      (f.arrs.set (alidOf p a) { getA f.arrs (alidOf p a) with cells := (getA f.arrs (alidOf p a)).cells.set i v }) a0 :=
    fun a0 h0 => arrRel_write h0 ha (fun hh => hr.alid_inj a0 a h0.lt_p ha hh)
  refine { invp := inv_arrs hr.invp (by simp), stack := hr.stack, clos := hr.clos, ptrs := ?_, nlid := hr.nlid,
           nalid := by simpa using hr.nalid, lid_lt := hr.lid_lt, lid_inj := hr.lid_inj, alid_lt := ?_, alid_inj := ?_,
           frames := ?_, parrs := ?_ }
  · show f.ptrs = p.ptrs.map (fun q => ((getA (p.arrs.set a { getA p.arrs a with cells := (getA p.arrs a).cells.set i v }) q.1).lid, q.2))
    simp only [hlid]; exact hr.ptrs
  · intro x hx
    show (getA (p.arrs.set a _) x).lid < p.nalid
    rw [hlid]; exact hr.alid_lt x (by simpa using hx)
  · intro x y hx hy hxy
    have : (getA (p.arrs.set a { getA p.arrs a with cells := (getA p.arrs a).cells.set i v }) x).lid =
           (getA (p.arrs.set a { getA p.arrs a with cells := (getA p.arrs a).cells.set i v }) y).lid := hxy
    rw [hlid, hlid] at this
    exact hr.alid_inj x y (by simpa using hx) (by simpa using hy) this
  · intro x hlx
    have hfr := hr.frames x hlx
    show FrameRelH p.heap (p.arrs.set a _) f.heap (f.arrs.set (alidOf p a) _) x
    refine { nb := hfr.nb, ni := hfr.ni, outer := hfr.outer, vals_len := hfr.vals_len, vals := hfr.vals, ints := ?_ }
    intro hni
    obtain ⟨a0, h1, h2, h3, h4⟩ := hfr.ints hni
    refine ⟨a0, h1, by rw [hlid]; exact h2, ?_, hw a0 h4⟩
    rw [hlid]
    have := (hw a0 h4).cells.1
    rw [hlid] at this
    -- the length of the FreshMachine array is unchanged by `set`
    rw [getA_set]
    split
    · rename_i h; simp only [List.length_set]; rw [← h.1]; exact h3
    · exact h3
  · intro q hq
    exact hw q.1 (hr.parrs q hq)

theorem rel_add_ptr {p f : State} (hr : Rel p f) {e a i : Nat}
    (hn : (getF p.heap e).ints = some a) (had : (getF p.heap e).addr = true) (har : ArrRel p f a) :
    Rel { p with ptrs := p.ptrs ++ [(a, i)] } { f with ptrs := f.ptrs ++ [(alidOf p a, i)] } :=
  { invp := inv_add_ptr (e := e) hr.invp hn had
    stack := hr.stack
    clos := hr.clos
    ptrs := by
      show f.ptrs ++ [(alidOf p a, i)] = (p.ptrs ++ [(a, i)]).map (fun q => (alidOf p q.1, q.2))
      rw [hr.ptrs]; simp
    nlid := hr.nlid
    nalid := hr.nalid
    lid_lt := hr.lid_lt
    lid_inj := hr.lid_inj
    alid_lt := hr.alid_lt
    alid_inj := hr.alid_inj
    frames := hr.frames
    parrs := by
      intro q hq
      rcases List.mem_append.1 hq with h | h
      · exact hr.parrs q h
      · simp at h; subst h; exact har }


theorem sim_write {p f : State} (hr : Rel p f) {up i : Nat} {isInt : Bool} {v : Int} {f' : State} {of : Option Slot}
    (hf : step false f (.write up isInt i v) = some (f', of)) :
    ∃ p' op', step true p (.write up isInt i v) = some (p', op') ∧ Rel p' f' ∧ OutRef of op' := by
  simp only [step] at hf
  split at hf
  · simp at hf
  · rename_i cf hcf
    obtain ⟨c, hc, hcl, hlc⟩ := cur_rel hr hcf
    split at hf
    · simp at hf
    · rename_i ef hwf
      rw [hcl] at hwf
      obtain ⟨e, hw, hle, hel⟩ := walk_rel hr up c ef hlc hwf
      have hfr := hr.frames e hle
      subst hel
      simp only [step, hc, hw]
      cases isInt with
      | true =>
        simp only [if_true] at hf ⊢
        split at hf
        · simp at hf
        · rename_i b hb
          split at hf
          · rename_i hin
            split at hf
            · rename_i hlen
              simp at hf
              obtain ⟨hf1, hf2⟩ := hf
              subst hf1; subst hf2
              rw [hfr.ni] at hin
              obtain ⟨a, ha1, ha2, _, ha4⟩ := hfr.ints (by omega)
              rw [ha2] at hb; simp at hb; subst hb
              have hlenp : i < (p.arrs.getD a default).cells.length := Nat.lt_of_lt_of_le hlen ha4.cells.1
              refine ⟨_, none, ?_, rel_write_arr (i := i) (v := some v) hr ha4.lt_p, trivial⟩
              simp only [ha1, hin, hlenp, if_true]
              rfl
            · simp at hf
          · simp at hf
      | false =>
        simp only [Bool.false_eq_true, if_false] at hf ⊢
        split at hf
        · rename_i hin
          simp at hf
          obtain ⟨hf1, hf2⟩ := hf
          subst hf1; subst hf2
          rw [hfr.nb] at hin
          have hlenp : i < (getF p.heap e).vals.length := Nat.lt_of_lt_of_le hin.2 hfr.vals.1
          refine ⟨_, none, ?_, rel_set_frames hr hle
            { getF p.heap e with vals := (getF p.heap e).vals.set i (some v) }
            { getF f.heap (lidOf p e) with vals := (getF f.heap (lidOf p e)).vals.set i (some v) }
            rfl rfl rfl rfl rfl rfl (Or.inl rfl) rfl rfl rfl rfl (cellsRef_set hfr.vals i (some v))
            (by simpa using hfr.vals_len), trivial⟩
          simp only [hin.1, hlenp, and_self, if_true]
        · simp at hf

theorem sim_writePtr {p f : State} (hr : Rel p f) {k : Nat} {v : Int} {f' : State} {of : Option Slot}
    (hf : step false f (.writePtr k v) = some (f', of)) :
    ∃ p' op', step true p (.writePtr k v) = some (p', op') ∧ Rel p' f' ∧ OutRef of op' := by
  simp only [step] at hf
  split at hf
  · simp at hf
  · rename_i b i hk
    rw [hr.ptrs] at hk
    simp only [List.getElem?_map] at hk
    cases hq : p.ptrs[k]? with
    | none => rw [hq] at hk; simp at hk
    | some q =>
      rw [hq] at hk; simp at hk
      obtain ⟨hk1, hk2⟩ := hk
      have har := hr.parrs q (List.mem_of_getElem? hq)
      split at hf
      · rename_i hlen
        simp at hf
        obtain ⟨hf1, hf2⟩ := hf
        subst hf1; subst hf2
        subst hk1; subst hk2
        have hlenp : q.2 < (p.arrs.getD q.1 default).cells.length := Nat.lt_of_lt_of_le hlen har.cells.1
        refine ⟨_, none, ?_, rel_write_arr (i := q.2) (v := some v) hr har.lt_p, trivial⟩
        simp only [step, hq, hlenp, if_true]
        rfl
      · simp at hf

theorem sim_takeAddr {p f : State} (hr : Rel p f) {up i : Nat} {f' : State} {of : Option Slot}
    (hf : step false f (.takeAddr up i) = some (f', of)) :
    ∃ p' op', step true p (.takeAddr up i) = some (p', op') ∧ Rel p' f' ∧ OutRef of op' := by
  simp only [step] at hf
  split at hf
  · simp at hf
  · rename_i cf hcf
    obtain ⟨c, hc, hcl, hlc⟩ := cur_rel hr hcf
    split at hf
    · simp at hf
    · rename_i ef hwf
      rw [hcl] at hwf
      obtain ⟨e, hw, hle, hel⟩ := walk_rel hr up c ef hlc hwf
      have hfr := hr.frames e hle
      subst hel
      simp only [step, hc, hw]
      split at hf
      · simp at hf
      · rename_i b hb
        split at hf
        · rename_i hin
          simp at hf
          obtain ⟨hf1, hf2⟩ := hf
          subst hf1; subst hf2
          rw [hfr.ni] at hin
          obtain ⟨a, ha1, ha2, _, ha4⟩ := hfr.ints (by omega)
          rw [ha2] at hb; simp at hb; subst hb
          have hel : e < p.heap.length := live_lt hr.invp hle
          have h1 := rel_set_frames hr hle { getF p.heap e with addr := true } { getF f.heap (lidOf p e) with addr := true }
            rfl rfl rfl rfl rfl rfl (Or.inr rfl) rfl rfl rfl rfl hfr.vals hfr.vals_len
          have h2 := rel_add_ptr (e := e) (a := a) (i := i) h1 (by simp [getF_set_eq _ hel]; exact ha1)
            (by simp [getF_set_eq _ hel]) ha4
          refine ⟨_, none, ?_, h2, trivial⟩
          simp only [ha1, hin, if_true]
        · simp at hf


/-! ### makeClosure -/

theorem mark_fields (h : List Frame) (c x : Nat) :
    (getF (mark h c) x).lid = (getF h x).lid ∧ (getF (mark h c) x).nb = (getF h x).nb ∧
    (getF (mark h c) x).ni = (getF h x).ni ∧ (getF (mark h c) x).outer = (getF h x).outer ∧
    (getF (mark h c) x).vals = (getF h x).vals ∧ (getF (mark h c) x).ints = (getF h x).ints := by
  have := (markLoop_frame (h.length + 1) h (some c) x).1
  unfold mark
  rw [this]
  exact ⟨rfl, rfl, rfl, rfl, rfl, rfl⟩

theorem mark_within_live {p : State} (hi : Inv p) {c : Nat} (hc : Live p c) (x : Nat)
    (hx : (getF (mark p.heap c) x).used = true) : Live p x := by
  rcases markLoop_within (Live p) _ p.heap (some c) (fun y o hy ho => live_outer hi hy ho)
    (by intro y hy; simp at hy; subst hy; exact hc) x hx with h | h
  · right; exact h
  · exact h

theorem sim_makeClosure {p f : State} (hr : Rel p f) {f' : State} {of : Option Slot}
    (hf : step false f .makeClosure = some (f', of)) :
    ∃ p' op', step true p .makeClosure = some (p', op') ∧ Rel p' f' ∧ OutRef of op' := by
  simp only [step] at hf
  split at hf
  · simp at hf
  · rename_i cf hcf
    obtain ⟨c, hc, hcl, hlc⟩ := cur_rel hr hcf
    simp at hf
    obtain ⟨hf1, hf2⟩ := hf
    subst hf1; subst hf2; subst hcl
    have hstep : step true p .makeClosure = some ({ p with heap := mark p.heap c, clos := p.clos ++ [c] }, none) := by
      simp [step, hc]
    refine ⟨_, none, hstep, ?_, trivial⟩
    have hinv := inv_step true hr.invp hstep
    have hlid : ∀ x, (getF (mark p.heap c) x).lid = (getF p.heap x).lid := fun x => (mark_fields p.heap c x).1
    have hlen : (mark p.heap c).length = p.heap.length := markLoop_length _ _ _
    refine { invp := hinv, stack := ?_, clos := ?_, ptrs := hr.ptrs, nlid := ?_, nalid := hr.nalid,
             lid_lt := ?_, lid_inj := ?_, alid_lt := hr.alid_lt, alid_inj := hr.alid_inj, frames := ?_, parrs := hr.parrs }
    · show f.stack = p.stack.map (List.map (fun x => (getF (mark p.heap c) x).lid))
      simp only [hlid]; exact hr.stack
    · show f.clos ++ [lidOf p c] = (p.clos ++ [c]).map (fun x => (getF (mark p.heap c) x).lid)
      simp only [hlid]; rw [hr.clos]; simp
    · show p.nlid = (mark f.heap (lidOf p c)).length
      rw [show (mark f.heap (lidOf p c)).length = f.heap.length from markLoop_length _ _ _]; exact hr.nlid
    · intro x hx
      show (getF (mark p.heap c) x).lid < p.nlid
      rw [hlid]; exact hr.lid_lt x (by rw [← hlen]; exact hx)
    · intro x y hx hy hxy
      have : (getF (mark p.heap c) x).lid = (getF (mark p.heap c) y).lid := hxy
      rw [hlid, hlid] at this
      exact hr.lid_inj x y (by rw [← hlen]; exact hx) (by rw [← hlen]; exact hy) this
    · intro x hlx
      have hlx' : Live p x := by
        rcases hlx with h | h
        · left; exact h
        · exact mark_within_live hr.invp hlc x h
      have hfr := hr.frames x hlx'
      show FrameRelH (mark p.heap c) p.arrs (mark f.heap (lidOf p c)) f.arrs x
      obtain ⟨p1, p2, p3, p4, p5, p6⟩ := mark_fields p.heap c x
      obtain ⟨_, q2, q3, q4, q5, q6⟩ := mark_fields f.heap (lidOf p c) (getF p.heap x).lid
      refine { nb := ?_, ni := ?_, outer := ?_, vals_len := ?_, vals := ?_, ints := ?_ }
      · rw [p1, p2, q2]; exact hfr.nb
      · rw [p1, p3, q3]; exact hfr.ni
      · rw [p1, p4, q4]; simp only [hlid]; exact hfr.outer
      · rw [p1, p2, q5]; exact hfr.vals_len
      · rw [p1, p5, q5]; exact hfr.vals
      · rw [p1, p3, p6, q6]; exact hfr.ints


/-! ### release of a frame -/

theorem free_false (s : State) (e : Nat) : free false s e = s := by
  unfold free
  by_cases h1 : (getF s.heap e).used = true
  · simp [h1]
  · by_cases h2 : poolCap ≤ s.pool.length
    · simp [h1, h2]
    · simp [h1, h2]

theorem rel_free {p f : State} (hr : Rel p f) {e : Nat} (he : e ∈ p.stack.flatten)
    (stk' : List (List Nat)) (hsub : stk'.flatten.Sublist p.stack.flatten) (hne : e ∉ stk'.flatten)
    (hacts : ∀ a ∈ stk', ActOK p.heap a) :
    Rel { free true p e with stack := stk' } { f with stack := stk'.map (List.map (lidOf p)) } := by
  have hinv : Inv { free true p e with stack := stk' } := inv_free_core hr.invp he stk' hsub hne hacts
  rcases free_cases true p e with h | ⟨hu, _, h⟩
  · rw [h] at hinv ⊢
    exact rel_stack hr stk' hinv (fun x hx => hsub.mem hx)
  · rw [h] at hinv ⊢
    have hel : e < p.heap.length := hr.invp.stack_lt e he
    have hnew := getF_set_eq (h := p.heap) { (if (getF p.heap e).addr then { getF p.heap e with ints := none, addr := false } else getF p.heap e) with outer := none } hel
    have hother : ∀ x, x ≠ e → getF (p.heap.set e { (if (getF p.heap e).addr then { getF p.heap e with ints := none, addr := false } else getF p.heap e) with outer := none }) x = getF p.heap x :=
      fun x hx => getF_set_ne _ hx
    have hlid : ∀ x, (getF (p.heap.set e { (if (getF p.heap e).addr then { getF p.heap e with ints := none, addr := false } else getF p.heap e) with outer := none }) x).lid = (getF p.heap x).lid := by
      intro x
      by_cases hx : x = e
      · subst hx; rw [hnew]; split <;> rfl
      · rw [hother x hx]
    have hused : ∀ x, (getF (p.heap.set e { (if (getF p.heap e).addr then { getF p.heap e with ints := none, addr := false } else getF p.heap e) with outer := none }) x).used = (getF p.heap x).used := by
      intro x
      by_cases hx : x = e
      · subst hx; rw [hnew]; split <;> rfl
      · rw [hother x hx]
    refine { invp := hinv, stack := ?_, clos := ?_, ptrs := hr.ptrs, nlid := hr.nlid, nalid := hr.nalid,
             lid_lt := ?_, lid_inj := ?_, alid_lt := hr.alid_lt, alid_inj := hr.alid_inj, frames := ?_, parrs := hr.parrs }
    · show stk'.map (List.map (lidOf p)) = stk'.map (List.map (fun x => (getF (p.heap.set e _) x).lid))
      simp only [hlid]
    · show f.clos = p.clos.map (fun x => (getF (p.heap.set e _) x).lid)
      simp only [hlid]; exact hr.clos
    · intro x hx
      show (getF (p.heap.set e _) x).lid < p.nlid
      rw [hlid]; exact hr.lid_lt x (by simpa using hx)
    · intro x y hx hy hxy
      have : (getF (p.heap.set e { (if (getF p.heap e).addr then { getF p.heap e with ints := none, addr := false } else getF p.heap e) with outer := none }) x).lid =
             (getF (p.heap.set e { (if (getF p.heap e).addr then { getF p.heap e with ints := none, addr := false } else getF p.heap e) with outer := none }) y).lid := hxy
      rw [hlid, hlid] at this
      exact hr.lid_inj x y (by simpa using hx) (by simpa using hy) this
    · intro x hlx
      have hxe : x ≠ e := by
        intro hxe; subst hxe
        rcases hlx with h1 | h1
        · exact hne h1
        · have : (getF (p.heap.set x _) x).used = true := h1
          rw [hused, hu] at this; cases this
      have hlx' : Live p x := by
        rcases hlx with h1 | h1
        · left; exact hsub.mem h1
        · right
          have : (getF (p.heap.set e _) x).used = true := h1
          rw [hused] at this; exact this
      have hfr := hr.frames x hlx'
      show FrameRelH (p.heap.set e _) p.arrs f.heap f.arrs x
      have h1 := hother x hxe
      refine { nb := ?_, ni := ?_, outer := ?_, vals_len := ?_, vals := ?_, ints := ?_ }
      · rw [h1]; exact hfr.nb
      · rw [h1]; exact hfr.ni
      · rw [h1]; simp only [hlid]; exact hfr.outer
      · rw [h1]; exact hfr.vals_len
      · rw [h1]; exact hfr.vals
      · rw [h1]; exact hfr.ints

theorem sim_ret {p f : State} (hr : Rel p f) {f' : State} {of : Option Slot}
    (hf : step false f .ret = some (f', of)) :
    ∃ p' op', step true p .ret = some (p', op') ∧ Rel p' f' ∧ OutRef of op' := by
  have hstk := hr.stack
  simp only [step] at hf
  split at hf
  · simp at hf
  · rename_i a' rest' hst'
    split at hf
    · simp at hf
    · rename_i ff hff
      simp at hf
      obtain ⟨hf1, hf2⟩ := hf
      subst hf1; subst hf2
      cases hst : p.stack with
      | nil => rw [hst, hst'] at hstk; simp at hstk
      | cons a rest =>
        rw [hst, hst'] at hstk
        simp at hstk
        obtain ⟨h1, h2⟩ := hstk
        subst h1; subst h2
        rw [List.getLast?_map] at hff
        cases hl : a.getLast? with
        | none => rw [hl] at hff; simp at hff
        | some fr =>
          have hstep : step true p .ret = some ({ free true p fr with stack := rest }, none) := by
            simp [step, hst, hl]
          refine ⟨_, none, hstep, ?_, trivial⟩
          have hfa : fr ∈ a := List.mem_of_getLast? hl
          have hfl : p.stack.flatten = a ++ rest.flatten := by rw [hst]; simp
          have := rel_free hr (e := fr) (by rw [hfl]; exact List.mem_append.2 (Or.inl hfa)) rest
            (by rw [hfl]; exact List.sublist_append_right _ _)
            (by
              intro hmem
              have hnd := (List.nodup_append.1 hr.invp.nodup).2.1
              rw [hfl] at hnd
              exact (List.nodup_append.1 hnd).2.2 fr hfa fr hmem rfl)
            (fun b hb => hr.invp.acts b (by rw [hst]; exact List.mem_cons_of_mem _ hb))
          rw [free_false]
          exact this

theorem sim_blockExit {p f : State} (hr : Rel p f) {f' : State} {of : Option Slot}
    (hf : step false f .blockExit = some (f', of)) :
    ∃ p' op', step true p .blockExit = some (p', op') ∧ Rel p' f' ∧ OutRef of op' := by
  have hstk := hr.stack
  simp only [step] at hf
  split at hf
  · rename_i b' c' fs' rest' hst'
    simp at hf
    obtain ⟨hf1, hf2⟩ := hf
    subst hf1; subst hf2
    cases hst : p.stack with
    | nil => rw [hst, hst'] at hstk; simp at hstk
    | cons a rest =>
      rw [hst, hst'] at hstk
      simp at hstk
      obtain ⟨h1, h2⟩ := hstk
      cases a with
      | nil => simp at h1
      | cons b t =>
        cases t with
        | nil => simp at h1
        | cons c fs =>
          simp at h1
          obtain ⟨hb, hc, hfs⟩ := h1
          subst hb; subst hc; subst hfs; subst h2
          have hstep : step true p .blockExit = some ({ free true p b with stack := (c :: fs) :: rest }, none) := by
            simp [step, hst]
          refine ⟨_, none, hstep, ?_, trivial⟩
          have hfl : p.stack.flatten = b :: (c :: fs ++ rest.flatten) := by rw [hst]; simp
          have := rel_free hr (e := b) (by rw [hfl]; simp) ((c :: fs) :: rest)
            (by rw [hfl]; simp)
            (by
              intro hmem
              have hnd := (List.nodup_append.1 hr.invp.nodup).2.1
              rw [hfl] at hnd
              exact (List.nodup_cons.1 hnd).1 (by simpa using hmem))
            (by
              intro a ha
              rcases List.mem_cons.1 ha with h1 | h1
              · subst h1; exact ActOK_tail (hr.invp.acts (b :: c :: fs) (by rw [hst]; simp))
              · exact hr.invp.acts a (by rw [hst]; exact List.mem_cons_of_mem _ h1))
          rw [free_false]
          simpa using this
  · simp at hf


/-! ### allocation -/

theorem resizeVals_len (fr : Frame) (nb : Nat) : nb ≤ (resizeVals fr nb).length := by
  unfold resizeVals; split
  · assumption
  · simp

/-- what the new array state looks like -/
structure ArrsDetail (arrs : List Arr) (old : Option Nat) (nalid ni : Nat) (arrs1 : List Arr) (ints1 : Option Nat) : Prop where
  zero : ni = 0 → arrs1 = arrs
  pos : 0 < ni → ∃ a, ints1 = some a ∧ a < arrs1.length ∧ ni ≤ (getA arrs1 a).cells.length ∧
        (getA arrs1 a).lid = nalid ∧ (∀ a', a' ≠ a → getA arrs1 a' = getA arrs a') ∧
        ((a = arrs.length ∧ arrs1.length = arrs.length + 1 ∧ (getA arrs1 a).cells = List.replicate ni none) ∨
         (old = some a ∧ a < arrs.length ∧ arrs1.length = arrs.length ∧ (getA arrs1 a).cells = (getA arrs a).cells))

theorem arrs_detail (arrs : List Arr) (fr : Frame) (nalid ni : Nat)
    (hil : ∀ a, fr.ints = some a → a < arrs.length) :
    ArrsDetail arrs fr.ints nalid ni (relabel (resizeInts arrs fr ni).2 (resizeInts arrs fr ni).1 ni nalid) (resizeInts arrs fr ni).1 := by
  constructor
  · intro h0
    subst h0
    simp [relabel, resizeInts]
  · intro hpos
    unfold resizeInts
    by_cases hcap : ni ≤ intsCap arrs fr
    · simp only [hcap, if_true]
      cases hfi : fr.ints with
      | none => simp [intsCap, hfi] at hcap; omega
      | some a =>
        have ha : a < arrs.length := hil a hfi
        simp only [intsCap, hfi] at hcap
        refine ⟨a, rfl, ?_, ?_, ?_, ?_, Or.inr ⟨rfl, ha, ?_, ?_⟩⟩
        · simp [relabel, hpos, ha]
        · simp only [relabel, hpos, if_true, getA_set, ha, and_self]; exact hcap
        · simp only [relabel, hpos, if_true, getA_set, ha, and_self]
        · intro a' ha'; simp only [relabel, hpos, if_true, getA_set, ha', false_and, if_false]
        · simp [relabel, hpos]
        · simp only [relabel, hpos, if_true, getA_set, ha, and_self]; rfl
    · simp only [hcap, if_false]
      have hlt : arrs.length < (arrs ++ [({ cells := List.replicate ni none } : Arr)]).length := by simp
      refine ⟨arrs.length, rfl, ?_, ?_, ?_, ?_, Or.inl ⟨rfl, ?_, ?_⟩⟩
      · simp [relabel, hpos]
      · simp only [relabel, hpos, if_true, getA_set, hlt, and_self]
        simp [getA_append]
      · simp only [relabel, hpos, if_true, getA_set, hlt, and_self]
      · intro a' ha'
        simp only [relabel, hpos, if_true, getA_set, ha', false_and, if_false, getA_append]
      · simp [relabel, hpos]
      · simp only [relabel, hpos, if_true, getA_set, hlt, and_self]
        simp [getA_append]

structure AllocDetail (s : State) (nb ni : Nat) (s1 : State) (e : Nat) : Prop where
  e_lid : (getF s1.heap e).lid = s.nlid
  s_nlid : s1.nlid = s.nlid + 1
  s_nalid : s1.nalid = if 0 < ni then s.nalid + 1 else s.nalid
  e_nb : (getF s1.heap e).nb = nb
  e_ni : (getF s1.heap e).ni = ni
  vals_len : nb ≤ (getF s1.heap e).vals.length
  arrsd : ArrsDetail s.arrs (getF s.heap e).ints s.nalid ni s1.arrs (getF s1.heap e).ints

theorem alloc_detail (reuse : Bool) (s : State) (o nb ni : Nat)
    (hpl : reuse = true → ∀ p ∈ s.pool, p < s.heap.length)
    (hil : reuse = true → ∀ x a, (getF s.heap x).ints = some a → a < s.arrs.length) :
    AllocDetail s nb ni (alloc reuse s o nb ni).1 (alloc reuse s o nb ni).2 := by
  unfold alloc
  rcases pick_cases reuse s with ⟨p, rest, hre, hpool, hpk⟩ | hpk
  · rw [hpk]
    have hp : p < s.heap.length := hpl hre p (by rw [hpool]; simp)
    refine { e_lid := ?_, s_nlid := rfl, s_nalid := rfl, e_nb := ?_, e_ni := ?_, vals_len := ?_, arrsd := ?_ }
    · simp only [getF_set_eq _ hp]
    · simp only [getF_set_eq _ hp]
    · simp only [getF_set_eq _ hp]
    · simp only [getF_set_eq _ hp]; exact resizeVals_len _ _
    · simp only [getF_set_eq _ hp]
      exact arrs_detail s.arrs (getF s.heap p) s.nalid ni (hil hre p)
  · rw [hpk]
    have hset : ∀ f : Frame, (s.heap ++ [({} : Frame)]).set s.heap.length f = s.heap ++ [f] := by
      intro f; simp
    have hd : getF s.heap s.heap.length = default := getF_ge (Nat.le_refl _)
    refine { e_lid := ?_, s_nlid := rfl, s_nalid := rfl, e_nb := ?_, e_ni := ?_, vals_len := ?_, arrsd := ?_ }
    · simp only [hset, getF_append_eq]
    · simp only [hset, getF_append_eq]
    · simp only [hset, getF_append_eq]
    · simp only [hset, getF_append_eq]; exact resizeVals_len _ _
    · simp only [hset, getF_append_eq, hd]
      exact arrs_detail s.arrs ({} : Frame) s.nalid ni (by intro a ha; cases ha)


theorem alloc_false_fresh (s : State) (o nb ni : Nat) :
    (alloc false s o nb ni).2 = s.heap.length ∧ (alloc false s o nb ni).1.heap.length = s.heap.length + 1 ∧
    (∀ (i : Nat) (v : Int), (getF (alloc false s o nb ni).1.heap s.heap.length).vals[i]? ≠ some (some v)) ∧
    (getF (alloc false s o nb ni).1.heap s.heap.length).vals.length ≤ nb := by
  have hpk : pick false s = (s.heap.length, ({} : Frame), s.pool, s.heap ++ [({} : Frame)]) := by simp [pick]
  unfold alloc
  rw [hpk]
  have hset : ∀ f : Frame, (s.heap ++ [({} : Frame)]).set s.heap.length f = s.heap ++ [f] := by
    intro f; simp
  refine ⟨rfl, by simp, ?_, ?_⟩
  · intro i v
    simp only [hset, getF_append_eq]
    unfold resizeVals
    split
    · simp
    · intro h
      rw [List.getElem?_replicate] at h
      split at h <;> simp at h
  · simp only [hset, getF_append_eq]
    unfold resizeVals
    split
    · simp
    · simp

theorem arrRel_keep {pa fa pa1 fa1 : List Arr} {a0 : Nat} (h0 : ArrRelH pa fa a0)
    (hP : getA pa1 a0 = getA pa a0) (hF : getA fa1 (getA pa a0).lid = getA fa (getA pa a0).lid)
    (hlP : pa.length ≤ pa1.length) (hlF : fa.length ≤ fa1.length) : ArrRelH pa1 fa1 a0 := by
  refine { lt_p := Nat.lt_of_lt_of_le h0.lt_p hlP, lt_f := ?_, cells := ?_ }
  · rw [hP]; exact Nat.lt_of_lt_of_le h0.lt_f hlF
  · rw [hP, hF]; exact h0.cells


theorem rel_alloc_core {p f s1 t1 : State} {o e ef nb ni : Nat} (hr : Rel p f) (ho : Live p o)
    (hsP : AllocSpec p o s1 e) (hdP : AllocDetail p nb ni s1 e)
    (hsF : AllocSpec f (lidOf p o) t1 ef) (hdF : AllocDetail f nb ni t1 ef)
    (hef : ef = f.heap.length) (hfl : t1.heap.length = f.heap.length + 1)
    (hvF : ∀ (i : Nat) (v : Int), (getF t1.heap ef).vals[i]? ≠ some (some v))
    (hvFlen : (getF t1.heap ef).vals.length ≤ nb)
    (stk' : List (List Nat)) (hstk : ∀ x ∈ stk'.flatten, x = e ∨ x ∈ p.stack.flatten)
    (hinv : Inv { s1 with stack := stk' }) :
    Rel { s1 with stack := stk' } { t1 with stack := stk'.map (List.map (lidOf s1)) } := by
  have hi := hr.invp
  have he_nl : ¬ Live p e := by
    rcases hsP.pool with ⟨hp, _⟩ | ⟨he, _, _⟩
    · exact fun hl => live_not_pool hi hl (by rw [hp]; simp)
    · exact fun hl => by have := live_lt hi hl; omega
  have hoe : o ≠ e := fun h => he_nl (h ▸ ho)
  have hlid_ne : ∀ x, x ≠ e → lidOf s1 x = lidOf p x := by
    intro x hx; show (getF s1.heap x).lid = _; rw [hsP.other x hx]
  have hlid_live : ∀ x, Live p x → lidOf s1 x = lidOf p x :=
    fun x hl => hlid_ne x (fun h => he_nl (h ▸ hl))
  have hlid_e : lidOf s1 e = p.nlid := hdP.e_lid
  have hx_cases : ∀ x, x < s1.heap.length → x = e ∨ (x ≠ e ∧ x < p.heap.length) := by
    intro x hx
    by_cases hxe : x = e
    · left; exact hxe
    · right; refine ⟨hxe, ?_⟩
      rcases hsP.pool with ⟨_, hl⟩ | ⟨he, _, hl⟩ <;> omega
  have he_old : (getF p.heap e).used = false ∧ (getF p.heap e).addr = false := by
    rcases hsP.pool with ⟨hp, _⟩ | ⟨he, _, _⟩
    · exact ⟨hi.pool_unused e (by rw [hp]; simp), hi.pool_noaddr e (by rw [hp]; simp)⟩
    · rw [getF_ge (by omega)]; exact ⟨rfl, rfl⟩
  have hFother : ∀ y, y < f.heap.length → getF t1.heap y = getF f.heap y :=
    fun y hy => hsF.other y (by omega)
  have hFold : (getF f.heap ef).ints = none := by rw [hef, getF_ge (Nat.le_refl _)]; rfl
  -- arrays untouched by the allocation
  have hPA : ∀ a0, (∀ a, 0 < ni → (getF s1.heap e).ints = some a → a0 ≠ a) → getA s1.arrs a0 = getA p.arrs a0 := by
    intro a0 hg
    rcases Nat.eq_zero_or_pos ni with h0 | hpos
    · rw [hdP.arrsd.zero h0]
    · obtain ⟨a, ha1, _, _, _, ha5, _⟩ := hdP.arrsd.pos hpos
      exact ha5 a0 (hg a hpos ha1)
  have hFA : ∀ b, b < f.arrs.length → getA t1.arrs b = getA f.arrs b := by
    intro b hb
    rcases Nat.eq_zero_or_pos ni with h0 | hpos
    · rw [hdF.arrsd.zero h0]
    · obtain ⟨a, _, _, _, _, ha5, ha6⟩ := hdF.arrsd.pos hpos
      rcases ha6 with ⟨h1, _⟩ | ⟨h1, _⟩
      · exact ha5 b (by omega)
      · rw [hFold] at h1; cases h1
  have hlPA : p.arrs.length ≤ s1.arrs.length := hsP.arrs_len
  have hlFA : f.arrs.length ≤ t1.arrs.length := hsF.arrs_len
  have hgood_frame : ∀ x, Live p x → ∀ a0, (getF p.heap x).ints = some a0 →
      ∀ a, 0 < ni → (getF s1.heap e).ints = some a → a0 ≠ a := by
    intro x hl a0 hx a hpos ha heq
    subst heq
    obtain ⟨a', ha1, _, _, _, _, ha6⟩ := hdP.arrsd.pos hpos
    rw [ha] at ha1; simp at ha1; subst ha1
    rcases ha6 with ⟨h1, _⟩ | ⟨h1, _⟩
    · have := hi.ints_lt x a0 hx; omega
    · exact he_nl ((hi.ints_inj x e a0 hx h1) ▸ hl)
  have hgood_ptr : ∀ q ∈ p.ptrs, ∀ a, 0 < ni → (getF s1.heap e).ints = some a → q.1 ≠ a := by
    intro q hq a hpos ha heq
    obtain ⟨a', ha1, _, _, _, _, ha6⟩ := hdP.arrsd.pos hpos
    rw [ha] at ha1; simp at ha1; subst ha1
    rcases ha6 with ⟨h1, _⟩ | ⟨h1, _⟩
    · have := hi.ptr_lt q hq; omega
    · have := hi.ptr_addr q hq e (by rw [heq]; exact h1)
      rw [he_old.2] at this; cases this
  have hkeep : ∀ a0, ArrRelH p.arrs f.arrs a0 → (∀ a, 0 < ni → (getF s1.heap e).ints = some a → a0 ≠ a) →
      ArrRelH s1.arrs t1.arrs a0 :=
    fun a0 h0 hg => arrRel_keep h0 (hPA a0 hg) (hFA _ h0.lt_f) hlPA hlFA
  have hlive_new : ∀ x, Live { s1 with stack := stk' } x → x = e ∨ (x ≠ e ∧ Live p x) := by
    intro x hl
    by_cases hxe : x = e
    · left; exact hxe
    · right; refine ⟨hxe, ?_⟩
      rcases hl with h | h
      · rcases hstk x h with h1 | h1
        · exact (hxe h1).elim
        · left; exact h1
      · right
        have : (getF s1.heap x).used = true := h
        rw [hsP.other x hxe] at this; exact this
  refine { invp := hinv, stack := rfl, clos := ?_, ptrs := ?_, nlid := ?_, nalid := ?_, lid_lt := ?_, lid_inj := ?_,
           alid_lt := ?_, alid_inj := ?_, frames := ?_, parrs := ?_ }
  · -- clos
    show t1.clos = s1.clos.map (lidOf s1)
    rw [hsF.clos, hsP.clos, hr.clos]
    apply List.map_congr_left
    intro c hc
    exact (hlid_live c (Or.inr (hi.clos_used c hc))).symm
  · -- ptrs
    show t1.ptrs = s1.ptrs.map (fun q => (alidOf s1 q.1, q.2))
    rw [hsF.ptrs, hsP.ptrs, hr.ptrs]
    apply List.map_congr_left
    intro q hq
    show (alidOf p q.1, q.2) = ((getA s1.arrs q.1).lid, q.2)
    rw [hPA q.1 (hgood_ptr q hq)]
  · show s1.nlid = t1.heap.length
    rw [hdP.s_nlid, hfl, hr.nlid]
  · show s1.nalid = t1.arrs.length
    rw [hdP.s_nalid]
    rcases Nat.eq_zero_or_pos ni with h0 | hpos
    · rw [hdF.arrsd.zero h0]; simp [h0]; exact hr.nalid
    · obtain ⟨a, _, _, _, _, _, ha6⟩ := hdF.arrsd.pos hpos
      rcases ha6 with ⟨_, h2, _⟩ | ⟨h1, _⟩
      · simp [hpos, h2]; exact hr.nalid
      · rw [hFold] at h1; cases h1
  · -- lid_lt
    intro x hx
    show lidOf s1 x < s1.nlid
    rw [hdP.s_nlid]
    rcases hx_cases x hx with h | ⟨h1, h2⟩
    · subst h; rw [hlid_e]; omega
    · rw [hlid_ne x h1]; have := hr.lid_lt x h2; omega
  · -- lid_inj
    intro x y hx hy hxy
    have hxy' : lidOf s1 x = lidOf s1 y := hxy
    rcases hx_cases x hx with h | ⟨h1, h2⟩ <;> rcases hx_cases y hy with h' | ⟨h1', h2'⟩
    · rw [h, h']
    · subst h; rw [hlid_e, hlid_ne y h1'] at hxy'; have := hr.lid_lt y h2'; omega
    · subst h'; rw [hlid_e, hlid_ne x h1] at hxy'; have := hr.lid_lt x h2; omega
    · rw [hlid_ne x h1, hlid_ne y h1'] at hxy'; exact hr.lid_inj x y h2 h2' hxy'
  · -- alid_lt
    intro a ha
    have ha : a < s1.arrs.length := ha
    show (getA s1.arrs a).lid < s1.nalid
    rw [hdP.s_nalid]
    rcases Nat.eq_zero_or_pos ni with h0 | hpos
    · have h1 := hdP.arrsd.zero h0
      rw [h1] at ha ⊢
      simp [h0]; exact hr.alid_lt a ha
    · obtain ⟨a1, _, _, _, ha4, ha5, ha6⟩ := hdP.arrsd.pos hpos
      simp only [hpos, if_true]
      by_cases haa : a = a1
      · subst haa; rw [ha4]; omega
      · rw [ha5 a haa]
        have : a < p.arrs.length := by
          rcases ha6 with ⟨h1, h2, _⟩ | ⟨_, _, h2, _⟩ <;> omega
        have h3 : (getA p.arrs a).lid < p.nalid := hr.alid_lt a this
        omega
  · -- alid_inj
    intro a b ha hb hab
    have ha : a < s1.arrs.length := ha
    have hb : b < s1.arrs.length := hb
    have hab' : (getA s1.arrs a).lid = (getA s1.arrs b).lid := hab
    rcases Nat.eq_zero_or_pos ni with h0 | hpos
    · have h1 := hdP.arrsd.zero h0
      rw [h1] at ha hb hab'
      exact hr.alid_inj a b ha hb hab'
    · obtain ⟨a1, _, _, _, ha4, ha5, ha6⟩ := hdP.arrsd.pos hpos
      have hlt : ∀ c, c < s1.arrs.length → c ≠ a1 → c < p.arrs.length := by
        intro c hc hca
        rcases ha6 with ⟨h1, h2, _⟩ | ⟨_, _, h2, _⟩ <;> omega
      by_cases haa : a = a1 <;> by_cases hba : b = a1
      · rw [haa, hba]
      · subst haa; rw [ha4, ha5 b hba] at hab'
        have h3 : (getA p.arrs b).lid < p.nalid := hr.alid_lt b (hlt b hb hba)
        omega
      · subst hba; rw [ha4, ha5 a haa] at hab'
        have h3 : (getA p.arrs a).lid < p.nalid := hr.alid_lt a (hlt a ha haa)
        omega
      · rw [ha5 a haa, ha5 b hba] at hab'
        exact hr.alid_inj a b (hlt a ha haa) (hlt b hb hba) hab'
  · -- frames
    intro x hlx
    show FrameRelH s1.heap s1.arrs t1.heap t1.arrs x
    rcases hlive_new x hlx with hxe | ⟨hxe, hl⟩
    · subst hxe
      have hle : (getF s1.heap x).lid = ef := by rw [hef, ← hr.nlid]; exact hlid_e
      refine { nb := ?_, ni := ?_, outer := ?_, vals_len := ?_, vals := ?_, ints := ?_ }
      · rw [hle, hdF.e_nb, hdP.e_nb]
      · rw [hle, hdF.e_ni, hdP.e_ni]
      · rw [hle, hsF.new_outer, hsP.new_outer]
        simp only [Option.map_some]
        congr 1
        exact (hlid_ne o hoe).symm
      · rw [hle, hdP.e_nb]; exact hdF.vals_len
      · rw [hle]
        refine ⟨?_, fun i v hv => (hvF i v hv).elim⟩
        have := hdP.vals_len; omega
      · rw [hdP.e_ni]
        intro hpos
        obtain ⟨a1, ha1, ha2, ha3, ha4, _, _⟩ := hdP.arrsd.pos hpos
        obtain ⟨b1, hb1, hb2, hb3, _, _, hb6⟩ := hdF.arrsd.pos hpos
        have hb : b1 = f.arrs.length ∧ (getA t1.arrs b1).cells = List.replicate ni none := by
          rcases hb6 with ⟨h1, _, h3⟩ | ⟨h1, _⟩
          · exact ⟨h1, h3⟩
          · rw [hFold] at h1; cases h1
        have hal : (getA s1.arrs a1).lid = b1 := by rw [ha4, hb.1]; exact hr.nalid
        refine ⟨a1, ha1, by rw [hle, hb1, hal], by rw [hal]; exact hb3, ?_⟩
        refine { lt_p := ha2, lt_f := by rw [hal]; exact hb2, cells := ?_ }
        rw [hal, hb.2]
        refine ⟨by simpa using ha3, ?_⟩
        intro i v hv
        rw [List.getElem?_replicate] at hv
        split at hv <;> simp at hv
    · have hfr := hr.frames x hl
      have hxl : x < p.heap.length := live_lt hi hl
      have h1 : getF s1.heap x = getF p.heap x := hsP.other x hxe
      have h2 : getF t1.heap (getF p.heap x).lid = getF f.heap (getF p.heap x).lid :=
        hFother _ (by rw [← hr.nlid]; exact hr.lid_lt x hxl)
      refine { nb := ?_, ni := ?_, outer := ?_, vals_len := ?_, vals := ?_, ints := ?_ }
      · rw [h1, h2]; exact hfr.nb
      · rw [h1, h2]; exact hfr.ni
      · rw [h1, h2, hfr.outer]
        cases hpo : (getF p.heap x).outer with
        | none => rfl
        | some o' =>
          simp only [Option.map_some]
          congr 1
          exact (hlid_live o' (live_outer hi hl hpo)).symm
      · rw [h1, h2]; exact hfr.vals_len
      · rw [h1, h2]; exact hfr.vals
      · rw [h1, h2]
        intro hpos
        obtain ⟨a0, g1, g2, g3, g4⟩ := hfr.ints hpos
        have hg := hgood_frame x hl a0 g1
        have hA : getA s1.arrs a0 = getA p.arrs a0 := hPA a0 hg
        refine ⟨a0, g1, by rw [hA]; exact g2, ?_, hkeep a0 g4 hg⟩
        rw [hA, hFA _ g4.lt_f]; exact g3
  · -- parrs
    intro q hq
    have hq' : q ∈ p.ptrs := by rw [← hsP.ptrs]; exact hq
    exact hkeep q.1 (hr.parrs q hq') (hgood_ptr q hq')


/-- the two allocations, packaged for `call` and `blockEnter` -/
theorem rel_alloc {p f : State} (hr : Rel p f) {o nb ni : Nat} (ho : Live p o)
    (stk' : List (List Nat))
    (hstk : ∀ x ∈ stk'.flatten, x = (alloc true p o nb ni).2 ∨ x ∈ p.stack.flatten)
    (hinv : Inv { (alloc true p o nb ni).1 with stack := stk' }) :
    Rel { (alloc true p o nb ni).1 with stack := stk' }
        { (alloc false f (lidOf p o) nb ni).1 with stack := stk'.map (List.map (lidOf (alloc true p o nb ni).1)) } ∧
    (alloc false f (lidOf p o) nb ni).2 = lidOf (alloc true p o nb ni).1 (alloc true p o nb ni).2 ∧
    (∀ x, Live p x → lidOf (alloc true p o nb ni).1 x = lidOf p x) := by
  have hi := hr.invp
  have hsP := alloc_spec true p o nb ni (fun _ => hi.pool_lt)
  have hdP := alloc_detail true p o nb ni (fun _ => hi.pool_lt) (fun _ => hi.ints_lt)
  have hsF := alloc_spec false f (lidOf p o) nb ni (fun h => by cases h)
  have hdF := alloc_detail false f (lidOf p o) nb ni (fun h => by cases h) (fun h => by cases h)
  obtain ⟨hef, hfl, hvF, hvFlen⟩ := alloc_false_fresh f (lidOf p o) nb ni
  refine ⟨rel_alloc_core hr ho hsP hdP hsF hdF hef hfl (by rw [hef]; exact hvF) (by rw [hef]; exact hvFlen) stk' hstk hinv, ?_, ?_⟩
  · rw [hef, ← hr.nlid]; exact hdP.e_lid.symm
  · intro x hl
    have hxe : x ≠ (alloc true p o nb ni).2 := by
      intro h
      rcases hsP.pool with ⟨hp, _⟩ | ⟨he, _, _⟩
      · exact live_not_pool hi hl (by rw [hp, ← h]; simp)
      · have := live_lt hi hl; omega
    show (getF (alloc true p o nb ni).1.heap x).lid = _
    rw [hsP.other x hxe]

theorem sim_call {p f : State} (hr : Rel p f) {k nb ni : Nat} {f' : State} {of : Option Slot}
    (hf : step false f (.call k nb ni) = some (f', of)) :
    ∃ p' op', step true p (.call k nb ni) = some (p', op') ∧ Rel p' f' ∧ OutRef of op' := by
  simp only [step] at hf
  split at hf
  · simp at hf
  · rename_i cf hcf
    rw [hr.clos] at hcf
    simp only [List.getElem?_map] at hcf
    cases hk : p.clos[k]? with
    | none => rw [hk] at hcf; simp at hcf
    | some c =>
      rw [hk] at hcf; simp at hcf
      subst hcf
      simp at hf
      obtain ⟨hf1, hf2⟩ := hf
      subst hf1; subst hf2
      have hc : c ∈ p.clos := List.mem_of_getElem? hk
      have hlc : Live p c := Or.inr (hr.invp.clos_used c hc)
      have hsP := alloc_spec true p c nb ni (fun _ => hr.invp.pool_lt)
      have hsF := alloc_spec false f (lidOf p c) nb ni (fun h => by cases h)
      have hstep : step true p (.call k nb ni) = some ({ (alloc true p c nb ni).1 with stack := [(alloc true p c nb ni).2] :: (alloc true p c nb ni).1.stack }, none) := by
        simp [step, hk]
      refine ⟨_, none, hstep, ?_, trivial⟩
      obtain ⟨h1, h2, h3⟩ := rel_alloc hr (o := c) (nb := nb) (ni := ni) hlc
        ([(alloc true p c nb ni).2] :: (alloc true p c nb ni).1.stack)
        (by intro x hx; rw [hsP.stack] at hx; simpa using hx)
        (inv_call hr.invp hc)
      have hstk : [(alloc false f (lidOf p c) nb ni).2] :: (alloc false f (lidOf p c) nb ni).1.stack =
          ([(alloc true p c nb ni).2] :: (alloc true p c nb ni).1.stack).map (List.map (lidOf (alloc true p c nb ni).1)) := by
        simp only [List.map_cons, List.map_nil]
        rw [h2, hsF.stack, hsP.stack, hr.stack]
        congr 1
        apply List.map_congr_left
        intro a ha
        apply List.map_congr_left
        intro x hx
        exact (h3 x (Or.inl (List.mem_flatten.2 ⟨a, ha, hx⟩))).symm
      rw [hstk]
      exact h1

theorem sim_blockEnter {p f : State} (hr : Rel p f) {nb ni : Nat} {f' : State} {of : Option Slot}
    (hf : step false f (.blockEnter nb ni) = some (f', of)) :
    ∃ p' op', step true p (.blockEnter nb ni) = some (p', op') ∧ Rel p' f' ∧ OutRef of op' := by
  have hstk0 := hr.stack
  simp only [step] at hf
  split at hf
  · rename_i c' fs' rest' hst'
    simp at hf
    obtain ⟨hf1, hf2⟩ := hf
    subst hf1; subst hf2
    cases hst : p.stack with
    | nil => rw [hst, hst'] at hstk0; simp at hstk0
    | cons a rest =>
      rw [hst, hst'] at hstk0
      simp at hstk0
      obtain ⟨h1, h2⟩ := hstk0
      cases a with
      | nil => simp at h1
      | cons c fs =>
        simp at h1
        obtain ⟨hc, hfs⟩ := h1
        subst hc; subst hfs; subst h2
        have hlc : Live p c := Or.inl (by rw [hst]; simp)
        have hsP := alloc_spec true p c nb ni (fun _ => hr.invp.pool_lt)
        have hstep : step true p (.blockEnter nb ni) = some ({ (alloc true p c nb ni).1 with stack := ((alloc true p c nb ni).2 :: c :: fs) :: rest }, none) := by
          simp [step, hst]
        refine ⟨_, none, hstep, ?_, trivial⟩
        obtain ⟨g1, g2, g3⟩ := rel_alloc hr (o := c) (nb := nb) (ni := ni) hlc
          (((alloc true p c nb ni).2 :: c :: fs) :: rest)
          (by intro x hx; rw [hst]; simpa using hx)
          (inv_block hr.invp hst)
        have hstk : ((alloc false f (lidOf p c) nb ni).2 :: lidOf p c :: fs.map (lidOf p)) :: rest.map (List.map (lidOf p)) =
            (((alloc true p c nb ni).2 :: c :: fs) :: rest).map (List.map (lidOf (alloc true p c nb ni).1)) := by
          simp only [List.map_cons]
          rw [g2, g3 c hlc]
          congr 1
          · congr 2
            apply List.map_congr_left
            intro x hx
            exact (g3 x (Or.inl (by rw [hst]; simp [hx]))).symm
          · apply List.map_congr_left
            intro a ha
            apply List.map_congr_left
            intro x hx
            exact (g3 x (Or.inl (by rw [hst]; simp only [List.flatten_cons, List.mem_append]; right; exact List.mem_flatten.2 ⟨a, ha, hx⟩))).symm
        rw [hstk]
        exact g1
  · simp at hf


/-! ### simulation of every step and of whole runs -/

theorem sim_step {p f : State} (hr : Rel p f) {op : Op} {f' : State} {of : Option Slot}
    (hf : step false f op = some (f', of)) :
    ∃ p' op', step true p op = some (p', op') ∧ Rel p' f' ∧ OutRef of op' := by
  cases op with
  | call k nb ni => exact sim_call hr hf
  | ret => exact sim_ret hr hf
  | blockEnter nb ni => exact sim_blockEnter hr hf
  | blockExit => exact sim_blockExit hr hf
  | jumpOut n => exact sim_jumpOut hr hf
  | makeClosure => exact sim_makeClosure hr hf
  | takeAddr up i => exact sim_takeAddr hr hf
  | read up isInt i => exact sim_read hr hf
  | write up isInt i v => exact sim_write hr hf
  | readPtr k => exact sim_readPtr hr hf
  | writePtr k v => exact sim_writePtr hr hf
  | panicUnwind n => exact sim_panicUnwind hr hf

theorem rel_init : Rel init init := by
  have hlid : ∀ x, lidOf init x = if x = 0 then 0 else if x = 1 then 1 else 0 := by
    intro x
    match x with
    | 0 => rfl
    | 1 => rfl
    | n + 2 => simp [lidOf, init, getF]; rfl
  refine { invp := inv_init, stack := by decide, clos := rfl, ptrs := rfl, nlid := rfl, nalid := rfl,
           lid_lt := ?_, lid_inj := ?_, alid_lt := by intro a ha; simp [init] at ha,
           alid_inj := by intro a b ha; simp [init] at ha, frames := ?_, parrs := by intro q hq; simp [init] at hq }
  · intro x hx
    have : x < 2 := by simpa [init] using hx
    rw [hlid]; show _ < 2
    split
    · omega
    · split <;> omega
  · intro x y hx hy hxy
    have hx2 : x < 2 := by simpa [init] using hx
    have hy2 : y < 2 := by simpa [init] using hy
    rw [hlid, hlid] at hxy
    rcases (by omega : x = 0 ∨ x = 1) with h | h <;> rcases (by omega : y = 0 ∨ y = 1) with h' | h' <;>
      subst h <;> subst h' <;> simp at hxy ⊢
  · intro x hl
    have hx2 : x < 2 := by
      have := live_lt inv_init hl
      simpa [init] using this
    rcases (by omega : x = 0 ∨ x = 1) with h | h <;> subst h
    · exact { nb := rfl, ni := rfl, outer := rfl, vals_len := by decide, vals := ⟨by decide, by intro i v h; exact h⟩,
              ints := by intro h; exact absurd h (by decide) }
    · exact { nb := rfl, ni := rfl, outer := rfl, vals_len := by decide, vals := ⟨by decide, by intro i v h; exact h⟩,
              ints := by intro h; exact absurd h (by decide) }

/-- pointwise relation between the reads of the two machines -/
def OutsRef : List Slot → List Slot → Prop
  | [], [] => True
  | a :: as, b :: bs => (∀ w, a = some w → b = some w) ∧ OutsRef as bs
  | _, _ => False

theorem outsRef_eq {as bs : List Slot} (h : OutsRef as bs) (hdef : ∀ a ∈ as, a ≠ none) : bs = as := by
  induction as generalizing bs with
  | nil => cases bs with
    | nil => rfl
    | cons b t => exact h.elim
  | cons a t ih =>
    cases bs with
    | nil => exact h.elim
    | cons b u =>
      obtain ⟨h1, h2⟩ := h
      have ha : a ≠ none := hdef a (by simp)
      cases a with
      | none => exact (ha rfl).elim
      | some w =>
        rw [h1 w rfl, ih h2 (fun x hx => hdef x (by simp [hx]))]

theorem sim_run {p f : State} (hr : Rel p f) {ops : List Op} {f' : State} {outsf : List Slot}
    (hf : run false f ops = some (f', outsf)) :
    ∃ p' outsp, run true p ops = some (p', outsp) ∧ Rel p' f' ∧ OutsRef outsf outsp := by
  induction ops generalizing p f outsf with
  | nil =>
    simp [run] at hf
    obtain ⟨h1, h2⟩ := hf
    subst h1; subst h2
    exact ⟨p, [], by simp [run], hr, trivial⟩
  | cons op ops ih =>
    simp only [run] at hf
    split at hf
    · simp at hf
    · rename_i f1 o1 hstep
      split at hf
      · simp at hf
      · rename_i f2 os hrest
        simp at hf
        obtain ⟨h1, h2⟩ := hf
        subst h1; subst h2
        obtain ⟨p1, o1', hs1, hr1, ho1⟩ := sim_step hr hstep
        obtain ⟨p2, os', hs2, hr2, ho2⟩ := ih hr1 hrest
        cases o1' with
        | none =>
          refine ⟨p2, os', by simp [run, hs1, hs2], hr2, ?_⟩
          cases o1 with
          | none => simpa using ho2
          | some v => exact ho1.elim
        | some v' =>
          refine ⟨p2, v' :: os', by simp [run, hs1, hs2], hr2, ?_⟩
          cases o1 with
          | none => exact ho1.elim
          | some v => exact ⟨ho1, ho2⟩

end Frames
