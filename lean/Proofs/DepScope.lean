import Model.DepScope
/-! The identifier walk with the scope chain computes the free names of lexical scoping. -/
namespace DepScope

/-- lexical environment of the specification: the names bound by enclosing local constructs;
    `loc = false` at package level, where declaring a name binds nothing locally -/
structure Env where
  bound : List Name
  loc : Bool
  deriving Repr

def Env.push (e : Env) : Env := { e with loc := true }
def Env.declare (ns : List Name) (e : Env) : Env := if e.loc then { e with bound := ns ++ e.bound } else e
def Env.has (e : Env) (n : Name) : Bool := e.bound.contains n

mutual
/-- reference analysis: free names of a node under lexical scoping (sequential declarations in a
    block, parameters and results bound in the function body, `:=`/range variables bound after
    their right side, labels and the blank identifier are not references, selectors refer to
    their left side only) and the environment for the following sibling -/
def free : Node → Env → List Name × Env
  | .ident n, e => (if n != "_" && !e.has n then [n] else [], e)
  | .sel x s, e =>
    ((match x with
      | .ident t => if !(free x e).2.has t then (free x e).1 ++ [t ++ "." ++ s] else (free x e).1
      | _ => (free x e).1), (free x e).2)
  | .kv key val, e =>
    let r1 := (match key with
      | .ident _ => (([] : List Name), e)
      | _ => free key e)
    (r1.1 ++ (free val r1.2).1, (free val r1.2).2)
  | .funcLit ps rs body, e =>
    ((freeList ps e.push).1 ++ (freeList rs (freeList ps e.push).2).1 ++
      (freeList body (e.push.declare (fieldNames ps ++ fieldNames rs))).1, e)
  | .funcType ps rs, e => ((freeList ps e.push).1 ++ (freeList rs (freeList ps e.push).2).1, e)
  | .structType fs, e => ((freeList fs e.push).1, e)
  | .field names t, e => ((free t e).1, (free t e).2.declare names)
  | .scope cs, e => ((freeList cs e.push).1, e)
  | .localVar names ty vals, e =>
    ((freeList ty e).1 ++ (freeList vals (freeList ty e).2).1, (freeList vals (freeList ty e).2).2.declare names)
  | .localType n t, e => ((free t e).1, (free t e).2.declare [n])
  | .define lhs rhs, e => ((freeList rhs e).1, (freeList rhs e).2.declare (identNames lhs))
  | .range isDef key val x body, e =>
    if isDef then
      ((free x e.push).1 ++ (freeList body ((free x e.push).2.declare (identNames key ++ identNames val))).1, e)
    else
      let r1 := freeList key e.push
      let r2 := freeList val r1.2
      let r3 := free x r2.2
      (r1.1 ++ r2.1 ++ r3.1 ++ (freeList body r3.2.push).1, e)
  | .labeled _ s, e => free s e
  | .branch _, e => ([], e)
  | .other cs, e => freeList cs e

def freeList : List Node → Env → List Name × Env
  | [], e => ([], e)
  | c :: cs, e => ((free c e).1 ++ (freeList cs (free c e).2).1, (freeList cs (free c e).2).2)
end

/-- the environment a scope chain stands for: the names of all frames but the top-level one -/
def abs (st : Stack) : Env := { bound := st.dropLast.flatten, loc := decide (st.length ≥ 2) }

theorem isLocal_abs (n : Name) (st : Stack) : isLocal n st = (abs st).has n := by
  induction st with
  | nil => simp [isLocal, abs, Env.has]
  | cons f r ih =>
    cases r with
    | nil => simp [isLocal, abs, Env.has]
    | cons g r' =>
      simp only [isLocal, ih]
      simp [abs, Env.has, List.dropLast]

theorem abs_push {st : Stack} (h : st ≠ []) : abs ([] :: st) = (abs st).push := by
  cases st with
  | nil => exact absurd rfl h
  | cons f r => simp [abs, Env.push, List.dropLast]

theorem abs_declare (ns : List Name) {st : Stack} (h : st ≠ []) : abs (declare ns st) = (abs st).declare ns := by
  cases st with
  | nil => exact absurd rfl h
  | cons f r =>
    cases r with
    | nil => simp [abs, declare, Env.declare]
    | cons g r' => simp [abs, declare, Env.declare, List.dropLast]

theorem declare_ne_nil (ns : List Name) {st : Stack} (h : st ≠ []) : declare ns st ≠ [] := by
  cases st with
  | nil => exact absurd rfl h
  | cons f r => simp [declare]

/-- the walk and the reference analysis agree: same dependencies, corresponding environments -/
def Agree (p : List Name × Stack) (q : List Name × Env) : Prop := p.1 = q.1 ∧ abs p.2 = q.2 ∧ p.2 ≠ []

theorem Agree.mk' {p : List Name × Stack} {q : List Name × Env} (h1 : p.1 = q.1) (h2 : abs p.2 = q.2)
    (h3 : p.2 ≠ []) : Agree p q := ⟨h1, h2, h3⟩

mutual
theorem walk_free : ∀ (n : Node) (st : Stack), st ≠ [] → Agree (walk n st) (free n (abs st))
  | .ident n, st, h => by
    simp only [walk, free, isLocal_abs]
    exact ⟨rfl, rfl, h⟩
  | .sel x s, st, h => by
    have ih := walk_free x st h
    simp only [walk, free]
    obtain ⟨h1, h2, h3⟩ := ih
    refine ⟨?_, h2, h3⟩
    cases x <;> simp only [h1, isLocal_abs, h2]
  | .kv key val, st, h => by
    have ihk := walk_free key st h
    simp only [walk, free]
    cases key with
    | ident k =>
      have ihv := walk_free val st h
      exact ⟨by simp [ihv.1], ihv.2.1, ihv.2.2⟩
    | _ =>
      obtain ⟨h1, h2, h3⟩ := ihk
      have ihv := walk_free val _ h3
      rw [h2] at ihv
      exact ⟨by simp only [h1, ihv.1], ihv.2.1, ihv.2.2⟩
  | .funcLit ps rs body, st, h => by
    have ih1 := walkList_free ps ([] :: st) (by simp)
    rw [abs_push h] at ih1
    have ih2 := walkList_free rs _ ih1.2.2
    rw [ih1.2.1] at ih2
    have ih3 := walkList_free body (declare (fieldNames ps ++ fieldNames rs) ([] :: st)) (declare_ne_nil _ (by simp))
    rw [abs_declare _ (by simp), abs_push h] at ih3
    simp only [walk, free]
    exact ⟨by rw [ih1.1, ih2.1, ih3.1], rfl, h⟩
  | .funcType ps rs, st, h => by
    have ih1 := walkList_free ps ([] :: st) (by simp)
    rw [abs_push h] at ih1
    have ih2 := walkList_free rs _ ih1.2.2
    rw [ih1.2.1] at ih2
    simp only [walk, free]
    exact ⟨by rw [ih1.1, ih2.1], rfl, h⟩
  | .structType fs, st, h => by
    have ih1 := walkList_free fs ([] :: st) (by simp)
    rw [abs_push h] at ih1
    simp only [walk, free]
    exact ⟨ih1.1, rfl, h⟩
  | .field names t, st, h => by
    have ih := walk_free t st h
    simp only [walk, free]
    exact ⟨ih.1, by rw [abs_declare _ ih.2.2, ih.2.1], declare_ne_nil _ ih.2.2⟩
  | .scope cs, st, h => by
    have ih1 := walkList_free cs ([] :: st) (by simp)
    rw [abs_push h] at ih1
    simp only [walk, free]
    exact ⟨ih1.1, rfl, h⟩
  | .localVar names ty vals, st, h => by
    have ih1 := walkList_free ty st h
    have ih2 := walkList_free vals _ ih1.2.2
    rw [ih1.2.1] at ih2
    simp only [walk, free]
    exact ⟨by rw [ih1.1, ih2.1], by rw [abs_declare _ ih2.2.2, ih2.2.1], declare_ne_nil _ ih2.2.2⟩
  | .localType n t, st, h => by
    have ih := walk_free t st h
    simp only [walk, free]
    exact ⟨ih.1, by rw [abs_declare _ ih.2.2, ih.2.1], declare_ne_nil _ ih.2.2⟩
  | .define lhs rhs, st, h => by
    have ih := walkList_free rhs st h
    simp only [walk, free]
    exact ⟨ih.1, by rw [abs_declare _ ih.2.2, ih.2.1], declare_ne_nil _ ih.2.2⟩
  | .range isDef key val x body, st, h => by
    cases isDef with
    | true =>
      have ih1 := walk_free x ([] :: st) (by simp)
      rw [abs_push h] at ih1
      have ih2 := walkList_free body (declare (identNames key ++ identNames val) (walk x ([] :: st)).2)
        (declare_ne_nil _ ih1.2.2)
      rw [abs_declare _ ih1.2.2, ih1.2.1] at ih2
      simp only [walk, free, if_true]
      exact ⟨by rw [ih1.1, ih2.1], rfl, h⟩
    | false =>
      have ih1 := walkList_free key ([] :: st) (by simp)
      rw [abs_push h] at ih1
      have ih2 := walkList_free val _ ih1.2.2
      rw [ih1.2.1] at ih2
      have ih3 := walk_free x _ ih2.2.2
      rw [ih2.2.1] at ih3
      have ih4 := walkList_free body ([] :: (walk x (walkList val (walkList key ([] :: st)).2).2).2) (by simp)
      rw [abs_push ih3.2.2, ih3.2.1] at ih4
      simp only [walk, free, Bool.false_eq_true, if_false]
      exact ⟨by rw [ih1.1, ih2.1, ih3.1, ih4.1], rfl, h⟩
  | .labeled _ s, st, h => by
    have ih := walk_free s st h
    simp only [walk, free]
    exact ih
  | .branch _, st, h => by
    simp only [walk, free]
    exact ⟨rfl, rfl, h⟩
  | .other cs, st, h => by
    have ih := walkList_free cs st h
    simp only [walk, free]
    exact ih

theorem walkList_free : ∀ (l : List Node) (st : Stack), st ≠ [] → Agree (walkList l st) (freeList l (abs st))
  | [], st, h => by
    simp only [walkList, freeList]
    exact ⟨rfl, rfl, h⟩
  | c :: cs, st, h => by
    have ih1 := walk_free c st h
    have ih2 := walkList_free cs _ ih1.2.2
    rw [ih1.2.1] at ih2
    simp only [walkList, freeList]
    exact ⟨by rw [ih1.1, ih2.1], ih2.2.1, ih2.2.2⟩
end

end DepScope
