import Proofs.Eval
import Props.C17
/-! The order returned by the sorter model lists dependencies first (link between C17 and C16). -/
namespace Eval
open DepScope (Name Kind Decl)
open Dep

variable {V : Type}

/-- the abstract declaration a sorted `Decl` stands for; `sem n` = how the value of `n` is computed -/
def toA (sem : Name → (Name → Option V) → V) (d : Decl) : ADecl V := ⟨d.name, d.deps, sem d.name⟩

theorem mem_addEdges {n : Name} (ds es : List Name) : n ∈ addEdges es ds ↔ n ∈ es ∨ n ∈ ds := by
  induction ds generalizing es with
  | nil => simp [addEdges]
  | cons d r ih =>
    simp only [addEdges, ih]
    split
    · rename_i hc
      have : d ∈ es := by simpa using hc
      constructor
      · rintro (h | h)
        · exact Or.inl h
        · exact Or.inr (List.mem_cons_of_mem _ h)
      · rintro (h | h)
        · exact Or.inl h
        · rcases List.mem_cons.mp h with h | h
          · left; rw [h]; exact this
          · exact Or.inr h
    · constructor
      · rintro (h | h)
        · rcases List.mem_append.mp h with h | h
          · exact Or.inl h
          · have : n = d := by simpa using h
            rw [this]; exact Or.inr List.mem_cons_self
        · exact Or.inr (List.mem_cons_of_mem _ h)
      · rintro (h | h)
        · exact Or.inl (List.mem_append_left _ h)
        · rcases List.mem_cons.mp h with h | h
          · exact Or.inl (List.mem_append_right _ (by simp [h]))
          · exact Or.inr h

/-- every dependency of a declaration is an edge of its entry -/
def EdgesCover (g : Graph) : Prop := ∀ e ∈ g, ∀ d ∈ e.decls, ∀ n ∈ d.deps, n ∈ e.edges

theorem EdgesCover.addDecl {g : Graph} (h : EdgesCover g) (d : Decl) : EdgesCover (Dep.addDecl d g) := by
  intro e' he' x hx n hn
  rcases mem_addDecl he' with h1 | ⟨e, he, _, rfl⟩ | rfl
  · exact h e' h1 x hx n hn
  · simp only at hx ⊢
    rw [mem_addEdges]
    rcases List.mem_append.mp hx with hx | hx
    · exact Or.inl (h e he x hx n hn)
    · have : x = d := by simpa using hx
      rw [this] at hn; exact Or.inr hn
  · simp only at hx ⊢
    have : x = d := by simpa using hx
    rw [this] at hn
    rw [mem_addEdges]; exact Or.inr hn

theorem edgesCover_build (ds : List Decl) : EdgesCover (build ds) := by
  unfold build
  have : ∀ (l : List Decl) (g : Graph), EdgesCover g → EdgesCover (l.foldl (fun g d => Dep.addDecl d g) g) := by
    intro l
    induction l with
    | nil => intro g h; exact h
    | cons d r ih => intro g h; exact ih _ (h.addDecl d)
  exact this ds [] (by intro e he; cases he)

/-- **sorted_order_is_topological**: in the order the sorter returns for an acyclic declaration set
    (no forward declaration was needed), every declared dependency of a declaration comes earlier. -/
theorem sorted_order_is_topological (sem : Name → (Name → Option V) → V) (ord : Ord) (hord : ord.OK)
    (ds out : List Decl) (hds : GoodDecls ds) (hk : ∀ d ∈ ds, d.kind ≠ Kind.typeFwd)
    (h : sortDecls ord ds = some out) (hnofwd : ∀ d ∈ out, d.kind ≠ Kind.typeFwd) :
    TopoOn (ds.map (·.name)) (out.map (toA sem)) := by
  intro pre' a post' hsplit n hn hN
  obtain ⟨pre, rest, hout, hpre, hrest⟩ := List.map_eq_append_iff.mp hsplit
  obtain ⟨d, post, hrest', ha, _⟩ := List.map_eq_cons_iff.mp hrest
  subst hrest'
  subst hpre
  subst ha
  have hdout : d ∈ out := by rw [hout]; simp
  obtain ⟨g, hg⟩ : ∃ g, g = build (resolve ds) := ⟨_, rfl⟩
  have h' : sortGraph ord g = some out := by rw [hg]; exact h
  have hwf : WF g := by rw [hg]; exact build_wf hds
  have hpermg : (allDecls g).Perm (resolve ds) := by rw [hg]; exact allDecls_build (resolve ds)
  have hnf : NoFwd g := fun x hx => resolve_kinds hk x (hpermg.mem_iff.mp hx)
  have hsp := sort_perm ord hord ds out hds hk h
  have hfilter : out.filter notFwd = out := List.filter_eq_self.mpr (fun x hx => by simp [notFwd, hnofwd x hx])
  rw [hfilter] at hsp
  -- the entry of d
  have hdall : d ∈ allDecls g := hpermg.mem_iff.mpr (hsp.mem_iff.mp hdout)
  obtain ⟨e, he, hde⟩ := mem_allDecls.mp hdall
  have hne : n ∈ e.edges := by
    have hc := edgesCover_build (resolve ds)
    rw [← hg] at hc
    exact hc e he d hde n hn
  -- n is declared: there is an entry named n
  obtain ⟨dn, hdn, hdnn⟩ := List.mem_map.mp hN
  have hdn' : ({ dn with deps := dn.deps.filter (declared ds) } : Decl) ∈ resolve ds :=
    List.mem_map.mpr ⟨dn, hdn, rfl⟩
  obtain ⟨en, hen, hdnen⟩ := mem_allDecls.mp (hpermg.mem_iff.mpr hdn')
  have henn : en.name = n := by
    rw [← hwf.decl_name en hen _ hdnen]; exact hdnn
  have hnode : hasNode g n = true := hasNode_iff.mpr (List.mem_map.mpr ⟨en, hen, henn⟩)
  -- the corresponding entries of removeUnresolvable g
  let e0 : Entry := { e with edges := e.edges.filter (hasNode g) }
  have he0 : e0 ∈ removeUnresolvable g := List.mem_map.mpr ⟨e, he, rfl⟩
  have hn0 : n ∈ e0.edges := List.mem_filter.mpr ⟨hne, hnode⟩
  let en0 : Entry := { en with edges := en.edges.filter (hasNode g) }
  have hen0 : en0 ∈ removeUnresolvable g := List.mem_map.mpr ⟨en, hen, rfl⟩
  have htopo := sort_topological ord hord g hwf hnf out pre post d h' hout (hnofwd d hdout) e0 he0 hde n hn0
  rcases htopo with hall | ⟨_, hfwd⟩
  · have := hall en0 hen0 henn _ hdnen
    exact List.mem_map.mpr ⟨_, List.mem_map.mpr ⟨_, this, rfl⟩, hdnn⟩
  · exfalso
    unfold fwdIn at hfwd
    obtain ⟨x, hx, hxk⟩ := List.any_eq_true.mp hfwd
    have hxout : x ∈ out := by rw [hout]; simp [hx]
    have := hnofwd x hxout
    simp [this] at hxk

end Eval
