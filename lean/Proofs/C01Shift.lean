import Proofs.C01Sound
/-! Shift arms (binary_shifts.go) and the count closure of `Expr.AsUint64` (util.go). -/
namespace C01Shift
open ClosureIR GoSpec C01Arms GoSpec.Outcome C01Sound

/-- what the closure returned by `Expr.AsUint64` computes from the count operand's result -/
def countOutcome (ry : Outcome Val) : Option (Outcome Val) :=
  match ry with
  | .panic p => some (.panic p)
  | .ok (.int ic c) =>
    if ic.signed && c.msb then some (.panic .negShift)
    else some (.ok (.int ⟨64, false⟩ (I.conv ic.signed c 64)))
  | _ => none

theorem asUint64_signed_sound (F : FloatOps) (kc : Kind) (ic : IKind) (hk : kc.ikind? = some ic) (hs : ic.signed = true)
    (ry : Outcome Val) (hty : ∀ v, ry = .ok v → ∃ c, v = .int ic c) (ρ : Store)
    (hf : lookup ρ "e.Fun" = some (.closure kc ry))
    (herr : lookup ρ "negativeShiftAmount" = some .negShiftErr) :
    evalArm F ρ (asUint64Signed kc).arm = countOutcome ry := by
  cases ry with
  | panic p =>
    simp [asUint64Signed, evalArm, evalBinds, evalE, fieldKey, lookup, update, hf, okV, execBody, execS, countOutcome]
  | ok v =>
    obtain ⟨c, rfl⟩ := hty v rfl
    simp [asUint64Signed, panicNeg, evalArm, evalBinds, evalE, fieldKey, lookup, update, hf, herr, okV, okVal, execBody, execS,
      countOutcome, evalBin, BinOp.isShift, coerce, binop, intBin, I.lt, hs, BitVec.slt_zero_eq_msb]
    cases hm : c.msb <;>
      simp [execBody, execS, evalE, lookup, update, okV, evalCall1, evalConv, convVal, Kind.ikind?, okVal, retVal, hs]

theorem asUint64_unsigned_sound (F : FloatOps) (kc : Kind) (ic : IKind) (hk : kc.ikind? = some ic) (hs : ic.signed = false)
    (ry : Outcome Val) (hty : ∀ v, ry = .ok v → ∃ c, v = .int ic c) (ρ : Store)
    (hf : lookup ρ "e.Fun" = some (.closure kc ry)) :
    evalArm F ρ (asUint64Unsigned kc).arm = countOutcome ry := by
  cases ry with
  | panic p =>
    simp [asUint64Unsigned, evalArm, evalBinds, evalE, fieldKey, lookup, update, hf, okV, execBody, execS, countOutcome]
  | ok v =>
    obtain ⟨c, rfl⟩ := hty v rfl
    simp [asUint64Unsigned, evalArm, evalBinds, evalE, fieldKey, lookup, update, hf, okV, okVal, execBody, execS,
      countOutcome, evalConv, convVal, Kind.ikind?, retVal, hs]

theorem conv64_toNat (ic : IKind) (hw : ic.w ≤ 64) (c : BitVec ic.w) (h : (ic.signed && c.msb) = false) :
    (I.conv ic.signed c 64).toNat = c.toNat := by
  have hlt : c.toNat < 2 ^ 64 := Nat.lt_of_lt_of_le c.isLt (Nat.pow_le_pow_right (by omega) hw)
  unfold I.conv
  cases hs : ic.signed
  · simp [Nat.mod_eq_of_lt hlt]
  · simp [hs] at h
    simp [BitVec.signExtend_eq_setWidth_of_msb_false h, Nat.mod_eq_of_lt hlt]

/-- **shiftCount_correct**: the count closure built by `Expr.AsUint64` panics exactly when Go's shift
    panics (count of signed type and negative), and otherwise yields the count's value -/
theorem shiftCount_correct (ic : IKind) (hw : ic.w ≤ 64) (c : BitVec ic.w) :
    countOutcome (.ok (.int ic c)) =
      some ((I.shiftCount ic.signed c).map (fun n => Val.int ⟨64, false⟩ (BitVec.ofNat 64 n))) := by
  unfold countOutcome I.shiftCount
  cases h : (ic.signed && c.msb)
  · have h' : ¬ (ic.signed = true ∧ c.msb = true) := by
      intro ⟨a, b⟩; simp [a, b] at h
    have hlt : c.toNat < 2 ^ 64 := Nat.lt_of_lt_of_le c.isLt (Nat.pow_le_pow_right (by omega) hw)
    have e : I.conv ic.signed c 64 = BitVec.ofNat 64 c.toNat := by
      apply BitVec.eq_of_toNat_eq
      rw [conv64_toNat ic hw c h]
      simp [Nat.mod_eq_of_lt hlt]
    simp [Outcome.map, h', e]
  · have h' : ic.signed = true ∧ c.msb = true := by simpa using h
    simp [Outcome.map, h']

theorem shift_vv_sound (F : FloatOps) (op : BinOp) (hop : op = .shl ∨ op = .shr) (k : Kind) (ik : IKind) (hk : k.ikind? = some ik)
    (ic : IKind) (hw : ic.w ≤ 64) (rx ry : Outcome Val)
    (htx : ∀ v, rx = .ok v → ∃ x, v = .int ik x) (hty : ∀ v, ry = .ok v → ∃ c, v = .int ic c)
    (rc : Outcome Val) (hrc : countOutcome ry = some rc) (ρ : Store)
    (hx : lookup ρ "xe.Fun" = some (.closure k rx)) (hy : lookup ρ "ye.AsUint64()" = some (.closure .uint64 rc)) :
    evalArm F ρ (shiftArm op .vv k) = seq2 rx ry (binop F op) := by
  rcases hop with rfl | rfl <;>
  · cases rx with
    | panic p =>
      simp [shiftArm, xFun, yAsUint64, xAssert, xApp, yApp, evalArm, evalBinds, evalE, fieldKey, methKey, isCompileTimeGetter,
        lookup, update, hx, hy, okV, execBody, execS, seq2]
    | ok vx =>
      obtain ⟨x, rfl⟩ := htx vx rfl
      cases ry with
      | panic p =>
        simp [countOutcome] at hrc; subst hrc
        simp [shiftArm, xFun, yAsUint64, xAssert, xApp, yApp, evalArm, evalBinds, evalE, fieldKey, methKey, isCompileTimeGetter,
          lookup, update, hx, hy, okV, execBody, execS, seq2]
      | ok vy =>
        obtain ⟨c, rfl⟩ := hty vy rfl
        rw [shiftCount_correct ic hw c] at hrc
        simp at hrc; subst hrc
        cases h : (ic.signed && c.msb) <;>
        simp [shiftArm, xFun, yAsUint64, xAssert, xApp, yApp, evalArm, evalBinds, evalE, fieldKey, methKey, isCompileTimeGetter,
          lookup, update, hx, hy, okV, execBody, execS, seq2, Outcome.map, binop, BinOp.isShift, intShift, I.shiftCount, h, retVal]
        have hlt : c.toNat < 2 ^ 64 := Nat.lt_of_lt_of_le c.isLt (Nat.pow_le_pow_right (by omega) hw)
        simp [Nat.mod_eq_of_lt hlt]

/-- shift by a constant count (`constAsUint64` accepted it: non-negative) -/
theorem shift_vc_sound (F : FloatOps) (op : BinOp) (hop : op = .shl ∨ op = .shr) (k : Kind) (ik : IKind)
    (ic : IKind) (hw : ic.w ≤ 64) (rx : Outcome Val) (c : BitVec ic.w) (hc : (ic.signed && c.msb) = false)
    (htx : ∀ v, rx = .ok v → ∃ x, v = .int ik x) (ρ : Store)
    (hx : lookup ρ "xe.Fun" = some (.closure k rx)) (hy : lookup ρ "ye.Value" = some (.iface (.int ic c))) :
    evalArm F ρ (shiftArm op .vc k) = seq2 rx (.ok (.int ic c)) (binop F op) := by
  have hlt : c.toNat < 2 ^ 64 := Nat.lt_of_lt_of_le c.isLt (Nat.pow_le_pow_right (by omega) hw)
  have hn := conv64_toNat ic hw c hc
  have hc' : ¬ (ic.signed = true ∧ c.msb = true) := by
    intro ⟨a, b⟩; simp [a, b] at hc
  rcases hop with rfl | rfl <;>
  · cases rx with
    | panic p =>
      simp [shiftArm, xFun, xAssert, xApp, evalArm, evalBinds, evalE, fieldKey, lookup, update, hx, hy, okV, execBody, execS, seq2,
        evalCall1, hc, hc']
    | ok vx =>
      obtain ⟨x, rfl⟩ := htx vx rfl
      simp [shiftArm, xFun, xAssert, xApp, evalArm, evalBinds, evalE, fieldKey, lookup, update, hx, hy, okV, execBody, execS, seq2,
        evalCall1, hc, hc', binop, BinOp.isShift, intShift, I.shiftCount, Outcome.map, retVal, hn]

theorem shift_cv_sound (F : FloatOps) (hF : FloatRoundTrip F) (op : BinOp) (hop : op = .shl ∨ op = .shr) (k : Kind) (ik : IKind)
    (hk : k.ikind? = some ik) (ic : IKind) (hw : ic.w ≤ 64) (x : BitVec ik.w) (ry : Outcome Val)
    (hty : ∀ v, ry = .ok v → ∃ c, v = .int ic c)
    (rc : Outcome Val) (hrc : countOutcome ry = some rc) (ρ : Store)
    (hx : lookup ρ "xe.Value" = some (.iface (.int ik x))) (hy : lookup ρ "ye.AsUint64()" = some (.closure .uint64 rc)) :
    evalArm F ρ (shiftArm op .cv k) = seq2 (.ok (.int ik x)) ry (binop F op) := by
  have hkind : (Val.int ik x).hasKind k = true := by simp [Val.hasKind, hk]
  rcases hop with rfl | rfl <;>
  · cases ry with
    | panic p =>
      simp [countOutcome] at hrc; subst hrc
      simp [shiftArm, yAsUint64, yApp, evalArm, evalBinds, evalBinds_constOf, evalE, fieldKey, methKey, isCompileTimeGetter,
        lookup, update, hx, hy, okV, okVal, execBody, execS, seq2, evalCall1, constOf_var F hF _ k _ _ hkind]
    | ok vy =>
      obtain ⟨c, rfl⟩ := hty vy rfl
      rw [shiftCount_correct ic hw c] at hrc
      simp at hrc; subst hrc
      have hlt : c.toNat < 2 ^ 64 := Nat.lt_of_lt_of_le c.isLt (Nat.pow_le_pow_right (by omega) hw)
      cases h : (ic.signed && c.msb) <;>
      simp [shiftArm, yAsUint64, yApp, evalArm, evalBinds, evalBinds_constOf, evalE, fieldKey, methKey, isCompileTimeGetter,
        lookup, update, hx, hy, okV, okVal, execBody, execS, seq2, evalCall1, constOf_var F hF _ k _ _ hkind,
        Outcome.map, binop, BinOp.isShift, intShift, I.shiftCount, h, retVal, Nat.mod_eq_of_lt hlt]

end C01Shift
