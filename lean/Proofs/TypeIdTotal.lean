import Proofs.TypeId
namespace TypeId

@[simp] theorem andThen_ok_ok (b b' : Bool) : (Res.ok b).andThen (fun _ => Res.ok b') = Res.ok (b && b') := by
  cases b <;> rfl

theorem identFs_length {c} : ∀ {xs ys : List Field}, identFs c xs ys = true → xs.length = ys.length
  | [], [], _ => rfl
  | [], _ :: _, h => by simp [identFs] at h
  | _ :: _, [], h => by simp [identFs] at h
  | .mk .. :: xs, .mk .. :: ys, h => by
      simp only [identFs, Bool.and_eq_true] at h
      simp [identFs_length h.2]

theorem identMs_length {c} : ∀ {xs ys : List Method}, identMs c xs ys = true → xs.length = ys.length
  | [], [], _ => rfl
  | [], _ :: _, h => by simp [identMs] at h
  | _ :: _, [], h => by simp [identMs] at h
  | .mk .. :: xs, .mk .. :: ys, h => by
      simp only [identMs, Bool.and_eq_true] at h
      simp [identMs_length h.2]

/-- a length guard in front of a loop: the loop is entered only with equal lengths -/
theorem guardL {c} {xs ys : List Ty} (ih : xs.length = ys.length → identList c xs ys = .ok (identL c xs ys)) :
    (if xs.length == ys.length then identList c xs ys else .ok false) = .ok (identL c xs ys) := by
  by_cases h : xs.length = ys.length
  · simp [h, ih h]
  · have : identL c xs ys = false := by
      cases e : identL c xs ys with
      | false => rfl
      | true => exact absurd (identL_length e) h
    simp [h, this]

theorem guardFs {c} {xs ys : List Field} (ih : xs.length = ys.length → identFields c xs ys = .ok (identFs c xs ys)) :
    (if xs.length == ys.length then identFields c xs ys else .ok false) = .ok (identFs c xs ys) := by
  by_cases h : xs.length = ys.length
  · simp [h, ih h]
  · have : identFs c xs ys = false := by
      cases e : identFs c xs ys with
      | false => rfl
      | true => exact absurd (identFs_length e) h
    simp [h, this]

theorem embLoop_eq : ∀ (xs ys : List Nat), xs.length = ys.length → embLoop xs ys = .ok (xs == ys)
  | [], [], _ => by simp [embLoop]
  | [], _ :: _, h => by simp at h
  | _ :: _, [], h => by simp at h
  | e :: es, f :: fs, h => by
      have ih := embLoop_eq es fs (by simpa using h)
      by_cases ef : e = f
      · subst ef; simp [embLoop, ih]
      · simp [embLoop, ef]

mutual
theorem identR_eq (c : Bool) : ∀ x y, identR c x y = .ok (ident c x y)
  | .basic k, y => by cases y <;> simp [identR, ident]
  | .array n e, y => by
      cases y with
      | array n' e' =>
          by_cases h : n = n'
          · simp [identR, ident, h, identR_eq c e e']
          · simp [identR, ident, h]
      | _ => simp [identR, ident]
  | .slice e, y => by
      cases y with
      | slice e' => simp [identR, ident, identR_eq c e e']
      | _ => simp [identR, ident]
  | .struct fs, y => by
      cases y with
      | struct gs => simp only [identR, ident]; exact guardFs (identFields_eq c fs gs)
      | _ => simp [identR, ident]
  | .pointer e, y => by
      cases y with
      | pointer e' => simp [identR, ident, identR_eq c e e']
      | _ => simp [identR, ident]
  | .tuple ts, y => by
      cases y with
      | tuple us => simp only [identR, ident]; exact guardL (identList_eq c ts us)
      | _ => simp [identR, ident]
  | .sig v r ps rs, y => by
      cases y with
      | sig v' r' ps' rs' =>
          simp only [identR, ident, guardL (identList_eq c ps ps'), guardL (identList_eq c rs rs'), identOpt_eq c r r']
          cases v <;> cases v' <;> simp [Bool.and_assoc]
      | _ => simp [identR, ident]
  | .iface xa _ xe, y => by
      cases y with
      | iface ya _ ye =>
          simp only [identR, ident]
          by_cases h1 : xa.length = ya.length
          · by_cases h2 : xe.length = ye.length
            · simp [h1, h2, identMethods_eq c xa ya h1, embLoop_eq xe ye h2]
            · have : (xe == ye) = false := by
                cases e : xe == ye with
                | false => rfl
                | true => exact absurd (by rw [eq_of_beq e]) h2
              simp [h1, h2, this]
          · have : identMs c xa ya = false := by
              cases e : identMs c xa ya with
              | false => rfl
              | true => exact absurd (identMs_length e) h1
            simp [h1, this]
      | _ => simp [identR, ident]
  | .map k e, y => by
      cases y with
      | map k' e' => simp [identR, ident, identR_eq c k k', identR_eq c e e']
      | _ => simp [identR, ident]
  | .chan d e, y => by
      cases y with
      | chan d' e' =>
          by_cases h : d = d'
          · simp [identR, ident, h, identR_eq c e e']
          · simp [identR, ident, h]
      | _ => simp [identR, ident]
  | .named i, y => by cases y <;> simp [identR, ident]
  | .nil, y => by cases y <;> simp [identR, ident]
theorem identOpt_eq (c : Bool) : ∀ x y, identOpt c x y = .ok (identO c x y)
  | none, none => by simp [identOpt, identO]
  | none, some _ => by simp [identOpt, identO]
  | some _, none => by simp [identOpt, identO]
  | some a, some b => by simp [identOpt, identO, identR_eq c a b]
theorem identList_eq (c : Bool) : ∀ xs ys, xs.length = ys.length → identList c xs ys = .ok (identL c xs ys)
  | [], [], _ => by simp [identList, identL]
  | [], _ :: _, h => by simp at h
  | _ :: _, [], h => by simp at h
  | t :: ts, u :: us, h => by
      simp [identList, identL, identR_eq c t u, identList_eq c ts us (by simpa using h)]
theorem identFields_eq (c : Bool) : ∀ xs ys, xs.length = ys.length → identFields c xs ys = .ok (identFs c xs ys)
  | [], [], _ => by simp [identFields, identFs]
  | [], _ :: _, h => by simp at h
  | _ :: _, [], h => by simp at h
  | .mk n p a tg t :: fs, .mk n' p' a' tg' t' :: gs, h => by
      simp only [identFields, identFs, identR_eq c t t', identFields_eq c fs gs (by simpa using h)]
      by_cases htg : tg = tg' <;> cases a <;> cases a' <;> cases c <;> cases sameName n p n' p' <;> simp [htg, Bool.and_assoc]
theorem identMethods_eq (c : Bool) : ∀ xs ys, xs.length = ys.length → identMethods c xs ys = .ok (identMs c xs ys)
  | [], [], _ => by simp [identMethods, identMs]
  | [], _ :: _, h => by simp at h
  | _ :: _, [], h => by simp at h
  | .mk n p v r ps rs :: ms, .mk n' p' v' r' ps' rs' :: ms', h => by
      simp only [identMethods, identMs, identRecv_eq c r r', guardL (identList_eq c ps ps'), guardL (identList_eq c rs rs'),
        identMethods_eq c ms ms' (by simpa using h)]
      cases v <;> cases v' <;> cases sameName n p n' p' <;> simp [Bool.and_assoc]
theorem identRecv_eq (c : Bool) : ∀ x y, identRecv c x y = .ok (identRv c x y)
  | .none, y => by cases y <;> simp [identRecv, identRv]
  | .self, y => by cases y <;> simp [identRecv, identRv]
  | .ty a, y => by
      cases y with
      | ty b => simp [identRecv, identRv, identR_eq c a b]
      | _ => simp [identRecv, identRv]
end

end TypeId
