import Model.FileSet
/-! Lemmas for C27: binary search, line tables, file-set lookup. -/
namespace FileSet

/-! ## the binary search loop -/

theorem bsearch_spec (go : Nat → Bool) (n : Nat)
    (hmono : ∀ a b, a ≤ b → b < n → go b = true → go a = true) :
    ∀ fuel i j, i ≤ j → j ≤ n → j - i ≤ fuel →
      (∀ k, k < i → go k = true) → (∀ k, j ≤ k → k < n → go k = false) →
      i ≤ bsearch go fuel i j ∧ bsearch go fuel i j ≤ j ∧
      (∀ k, k < bsearch go fuel i j → go k = true) ∧
      (∀ k, bsearch go fuel i j ≤ k → k < n → go k = false) := by
  intro fuel
  induction fuel with
  | zero =>
    intro i j hij _ hf hl hr
    have : i = j := by omega
    subst this
    simp only [bsearch]
    exact ⟨Nat.le_refl _, Nat.le_refl _, hl, hr⟩
  | succ fuel ih =>
    intro i j hij hjn hf hl hr
    unfold bsearch
    by_cases hlt : i < j
    · simp only [hlt, if_true]
      have hh1 : i ≤ (i + j) / 2 := by omega
      have hh2 : (i + j) / 2 < j := by omega
      cases hg : go ((i + j) / 2) with
      | true =>
        simp only [if_true]
        have := ih ((i + j) / 2 + 1) j (by omega) hjn (by omega)
          (fun k hk => hmono k ((i + j) / 2) (by omega) (by omega) hg) hr
        exact ⟨by omega, this.2.1, this.2.2.1, this.2.2.2⟩
      | false =>
        simp only [Bool.false_eq_true, if_false]
        have := ih i ((i + j) / 2) hh1 (by omega) (by omega) hl
          (fun k hk hkn => by
            cases hgk : go k with
            | false => rfl
            | true => have := hmono ((i + j) / 2) k hk hkn hgk; rw [hg] at this; cases this)
        exact ⟨this.1, by omega, this.2.2.1, this.2.2.2⟩
    · simp only [hlt, if_false]
      have : i = j := by omega
      subst this
      exact ⟨Nat.le_refl _, Nat.le_refl _, hl, hr⟩

/-- strictly increasing -/
def Sorted (l : List Nat) : Prop := l.Pairwise (· < ·)

theorem Sorted.lt {l : List Nat} (h : Sorted l) {i j : Nat} (hij : i < j) (hj : j < l.length) :
    l.getD i 0 < l.getD j 0 := by
  have hi : i < l.length := by omega
  have := (List.pairwise_iff_getElem.mp h) i j hi hj hij
  simpa [List.getD, List.getElem?_eq_getElem hi, List.getElem?_eq_getElem hj] using this

theorem Sorted.le {l : List Nat} (h : Sorted l) {i j : Nat} (hij : i ≤ j) (hj : j < l.length) :
    l.getD i 0 ≤ l.getD j 0 := by
  rcases Nat.lt_or_ge i j with h1 | h1
  · exact Nat.le_of_lt (h.lt h1 hj)
  · have : i = j := by omega
    subst this; exact Nat.le_refl _

/-- partition point of `x` in `l`: everything before `r` is `≤ x`, everything from `r` on is `> x` -/
def PP (l : List Nat) (x r : Nat) : Prop :=
  r ≤ l.length ∧ (∀ k, k < r → l.getD k 0 ≤ x) ∧ (∀ k, r ≤ k → k < l.length → x < l.getD k 0)

theorem PP.unique {l : List Nat} {x r r' : Nat} (h : PP l x r) (h' : PP l x r') : r = r' := by
  rcases Nat.lt_trichotomy r r' with hlt | heq | hgt
  · have h1 := h'.2.1 r hlt
    have h2 := h.2.2 r (Nat.le_refl _) (by have := h'.1; omega)
    omega
  · exact heq
  · have h1 := h.2.1 r' hgt
    have h2 := h'.2.2 r' (Nat.le_refl _) (by have := h.1; omega)
    omega

/-- the loop of `searchInts` finds the partition point -/
def searchIdx (a : List Nat) (x : Nat) : Nat :=
  bsearch (fun h => decide (a.getD h 0 ≤ x)) a.length 0 a.length

theorem searchInts_eq (a : List Nat) (x : Nat) : searchInts a x = (searchIdx a x : Int) - 1 := rfl

theorem searchIdx_PP {a : List Nat} (hs : Sorted a) (x : Nat) : PP a x (searchIdx a x) := by
  have := bsearch_spec (fun h => decide (a.getD h 0 ≤ x)) a.length
    (by
      intro i j hij hj hg
      simp only [decide_eq_true_eq] at hg ⊢
      exact Nat.le_trans (hs.le hij hj) hg)
    a.length 0 a.length (Nat.zero_le _) (Nat.le_refl _) (by omega)
    (by intro k hk; omega) (by intro k hk hk'; omega)
  refine ⟨this.2.1, ?_, ?_⟩
  · intro k hk
    have := this.2.2.1 k hk
    simpa using this
  · intro k hk hkn
    have := this.2.2.2 k hk hkn
    simp only [decide_eq_false_iff_not, Nat.not_le] at this
    exact this

/-! ## line tables -/

/-- `l` is the table of line starts of `t`: 0 and every offset `< |t|` that follows a newline -/
structure LineTable (t : Bytes) (l : List Nat) : Prop where
  sorted : Sorted l
  mem : ∀ x, x ∈ l ↔ (x = 0 ∨ (1 ≤ x ∧ x < t.length ∧ t.getD (x - 1) 0 = 10))

def lcStep (s : Nat × Nat) (b : Nat) : Nat × Nat := if b = 10 then (s.1 + 1, 1) else (s.1, s.2 + 1)

theorem lineCol_go_foldl (xs : Bytes) (l c : Nat) : lineCol.go xs l c = xs.foldl lcStep (l, c) := by
  induction xs generalizing l c with
  | nil => rfl
  | cons x xs ih =>
    simp only [lineCol.go, List.foldl_cons, lcStep]
    split <;> exact ih _ _

theorem lineCol_eq (t : Bytes) (o : Nat) : lineCol t o = (t.take o).foldl lcStep (1, 1) :=
  lineCol_go_foldl _ _ _

theorem lineCol_zero (t : Bytes) : lineCol t 0 = (1, 1) := by simp [lineCol_eq]

theorem take_succ_getD (t : Bytes) (o : Nat) (h : o < t.length) : t.take (o + 1) = t.take o ++ [t.getD o 0] := by
  rw [List.take_add_one]
  simp [List.getD, List.getElem?_eq_getElem h]

theorem lineCol_succ (t : Bytes) (o : Nat) (h : o < t.length) :
    lineCol t (o + 1) = lcStep (lineCol t o) (t.getD o 0) := by
  rw [lineCol_eq, lineCol_eq, take_succ_getD t o h, List.foldl_append]
  rfl

theorem mem_iff_getD {l : List Nat} {x : Nat} : x ∈ l ↔ ∃ k, k < l.length ∧ l.getD k 0 = x := by
  constructor
  · intro h
    obtain ⟨k, hk, he⟩ := List.mem_iff_getElem.mp h
    exact ⟨k, hk, by simp [List.getD, List.getElem?_eq_getElem hk, he]⟩
  · rintro ⟨k, hk, he⟩
    rw [← he]
    simp [List.getD, List.getElem?_eq_getElem hk]

/-- the heart of `position` exactness: with the partition point `r` of `o`, the line is `r` and the
    line starts at `l[r-1]` -/
theorem pp_lineCol {t : Bytes} {l : List Nat} (hl : LineTable t l) :
    ∀ o, o < t.length → ∃ r, PP l o r ∧ 1 ≤ r ∧
      (lineCol t o).1 = r ∧ (lineCol t o).2 + l.getD (r - 1) 0 = o + 1 := by
  have h0 : (0 : Nat) ∈ l := (hl.mem 0).mpr (Or.inl rfl)
  obtain ⟨k0, hk0, hk0e⟩ := mem_iff_getD.mp h0
  have hk00 : k0 = 0 := by
    rcases Nat.eq_zero_or_pos k0 with h | h
    · exact h
    · have := hl.sorted.lt h hk0
      omega
  subst hk00
  intro o
  induction o with
  | zero =>
    intro _
    refine ⟨1, ⟨by omega, ?_, ?_⟩, Nat.le_refl _, by rw [lineCol_zero], by rw [lineCol_zero]; show 1 + l.getD 0 0 = 0 + 1; rw [hk0e]⟩
    · intro k hk
      have : k = 0 := by omega
      subst this; omega
    · intro k hk hkn
      have := hl.sorted.lt (show 0 < k by omega) hkn
      omega
  | succ o ih =>
    intro ho
    obtain ⟨r, hpp, hr1, hline, hcol⟩ := ih (by omega)
    rw [lineCol_succ t o (by omega)]
    by_cases hnl : t.getD o 0 = 10
    · -- o+1 starts a line: it is l[r]
      have hm : o + 1 ∈ l := (hl.mem (o + 1)).mpr (Or.inr ⟨by omega, ho, by simpa using hnl⟩)
      obtain ⟨k, hk, hke⟩ := mem_iff_getD.mp hm
      have hkr : k = r := by
        rcases Nat.lt_trichotomy k r with h | h | h
        · have := hpp.2.1 k h; omega
        · exact h
        · have h1 := hpp.2.2 r (Nat.le_refl _) (by omega)
          have h2 := hl.sorted.lt h hk
          omega
      subst hkr
      refine ⟨k + 1, ⟨by omega, ?_, ?_⟩, by omega, ?_, ?_⟩
      · intro j hj
        have := hl.sorted.le (show j ≤ k by omega) hk
        omega
      · intro j hj hjn
        have := hl.sorted.lt (show k < j by omega) hjn
        omega
      · rw [lcStep, if_pos hnl, hline]
      · rw [lcStep, if_pos hnl]
        show 1 + l.getD (k + 1 - 1) 0 = o + 1 + 1
        rw [Nat.add_sub_cancel, hke]; omega
    · -- same line
      have hm : o + 1 ∉ l := by
        intro hm
        rcases (hl.mem (o + 1)).mp hm with h | h
        · omega
        · exact hnl (by simpa using h.2.2)
      refine ⟨r, ⟨hpp.1, ?_, ?_⟩, hr1, ?_, ?_⟩
      · intro j hj
        have := hpp.2.1 j hj; omega
      · intro j hj hjn
        have h1 := hpp.2.2 j hj hjn
        have : l.getD j 0 ≠ o + 1 := by
          intro he
          exact hm (mem_iff_getD.mpr ⟨j, hjn, he⟩)
        omega
      · rw [lcStep, if_neg hnl, hline]
      · rw [lcStep, if_neg hnl]
        show (lineCol t o).2 + 1 + l.getD (r - 1) 0 = o + 1 + 1
        omega

/-- `File.unpack` on a correct line table returns the true line and column of every offset
    inside the text -/
theorem unpack_exact {t : Bytes} {f : File} (hl : LineTable t f.lines) (o : Nat) (ho : o < t.length) :
    f.unpack o = (((lineCol t o).1 : Int), ((lineCol t o).2 : Int)) := by
  obtain ⟨r, hpp, hr1, hline, hcol⟩ := pp_lineCol hl o ho
  have hr : searchIdx f.lines o = r := (searchIdx_PP hl.sorted o).unique hpp
  unfold File.unpack
  simp only [searchInts_eq, hr]
  have h1 : ((r : Int) - 1) ≥ 0 := by omega
  simp only [h1, if_true]
  have h2 : ((r : Int) - 1).toNat = r - 1 := by omega
  rw [h2]
  refine Prod.ext ?_ ?_
  · simp only; omega
  · simp only; omega

/-! ## the scanner builds the line table -/

theorem addLine_fields (f : File) (o : Int) :
    (f.addLine o).name = f.name ∧ (f.addLine o).base = f.base ∧ (f.addLine o).size = f.size ∧
    (f.addLine o).line = f.line ∧ (f.addLine o).source = f.source := by
  unfold File.addLine
  simp only
  split <;> simp

theorem scanFrom_fields : ∀ (rest : Bytes) (f : File) (i : Nat),
    (scanFrom f rest i).name = f.name ∧ (scanFrom f rest i).base = f.base ∧ (scanFrom f rest i).size = f.size ∧
    (scanFrom f rest i).line = f.line ∧ (scanFrom f rest i).source = f.source := by
  intro rest
  induction rest with
  | nil => intro f i; simp [scanFrom]
  | cons b bs ih =>
    intro f i
    simp only [scanFrom]
    have h := ih (if b = 10 then f.addLine ((i : Int) + 1) else f) (i + 1)
    have h2 := addLine_fields f ((i : Int) + 1)
    split at h <;> simp_all

/-- invariant of the scanner after `i` bytes of `t` -/
structure ScanInv (t : Bytes) (f : File) (i : Nat) : Prop where
  size : f.size = t.length
  sorted : Sorted f.lines
  mem : ∀ x, x ∈ f.lines ↔ (x = 0 ∨ (1 ≤ x ∧ x ≤ i ∧ x < t.length ∧ t.getD (x - 1) 0 = 10))

theorem getD_last_mem {l : List Nat} (h : l ≠ []) : l.getD (l.length - 1) 0 ∈ l := by
  have : l.length - 1 < l.length := by
    cases l with
    | nil => exact absurd rfl h
    | cons a as => simp
  exact mem_iff_getD.mpr ⟨_, this, rfl⟩

theorem scanInv_step {t : Bytes} {f : File} {i : Nat} (hi : i < t.length) (h : ScanInv t f i) :
    ScanInv t (if t.getD i 0 = 10 then f.addLine ((i : Int) + 1) else f) (i + 1) := by
  by_cases hb : t.getD i 0 = 10
  · rw [if_pos hb]
    have h0 : (0 : Nat) ∈ f.lines := (h.mem 0).mpr (Or.inl rfl)
    have hne : f.lines ≠ [] := by intro he; rw [he] at h0; cases h0
    have hlen : f.lines.length ≠ 0 := by
      intro he; exact hne (List.length_eq_zero_iff.mp he)
    have hlast : f.lines.getD (f.lines.length - 1) 0 ≤ i := by
      rcases (h.mem _).mp (getD_last_mem hne) with h1 | h1
      · omega
      · omega
    unfold File.addLine
    simp only
    by_cases hsz : i + 1 < t.length
    · have hc : (f.lines.length = 0 ∨ ((f.lines.getD (f.lines.length - 1) 0 : Nat) : Int) < (i : Int) + 1) ∧
          (i : Int) + 1 < (f.size : Nat) := by
        refine ⟨Or.inr (by omega), ?_⟩
        rw [h.size]; omega
      rw [if_pos hc]
      have htn : ((i : Int) + 1).toNat = i + 1 := by omega
      refine ⟨h.size, ?_, ?_⟩
      · show Sorted (f.lines ++ [((i : Int) + 1).toNat])
        rw [htn]
        unfold Sorted
        rw [List.pairwise_append]
        refine ⟨h.sorted, List.pairwise_singleton _ _, ?_⟩
        intro a ha b hb'
        simp only [List.mem_singleton] at hb'
        subst hb'
        rcases (h.mem a).mp ha with h1 | h1 <;> omega
      · intro x
        show x ∈ f.lines ++ [((i : Int) + 1).toNat] ↔ _
        rw [htn, List.mem_append, List.mem_singleton, h.mem x]
        constructor
        · rintro (h1 | h1)
          · rcases h1 with h1 | h1
            · exact Or.inl h1
            · exact Or.inr ⟨h1.1, by omega, h1.2.2.1, h1.2.2.2⟩
          · subst h1
            exact Or.inr ⟨by omega, Nat.le_refl _, hsz, by simpa using hb⟩
        · rintro (h1 | h1)
          · exact Or.inl (Or.inl h1)
          · by_cases hx : x = i + 1
            · exact Or.inr hx
            · exact Or.inl (Or.inr ⟨h1.1, by omega, h1.2.2.1, h1.2.2.2⟩)
    · have hc : ¬ ((f.lines.length = 0 ∨ ((f.lines.getD (f.lines.length - 1) 0 : Nat) : Int) < (i : Int) + 1) ∧
          (i : Int) + 1 < (f.size : Nat)) := by
        rw [h.size]; omega
      rw [if_neg hc]
      refine ⟨h.size, h.sorted, ?_⟩
      intro x
      rw [h.mem x]
      constructor
      · rintro (h1 | h1)
        · exact Or.inl h1
        · exact Or.inr ⟨h1.1, by omega, h1.2.2.1, h1.2.2.2⟩
      · rintro (h1 | h1)
        · exact Or.inl h1
        · exact Or.inr ⟨h1.1, by omega, h1.2.2.1, h1.2.2.2⟩
  · rw [if_neg hb]
    refine ⟨h.size, h.sorted, ?_⟩
    intro x
    rw [h.mem x]
    constructor
    · rintro (h1 | h1)
      · exact Or.inl h1
      · exact Or.inr ⟨h1.1, by omega, h1.2.2.1, h1.2.2.2⟩
    · rintro (h1 | h1)
      · exact Or.inl h1
      · refine Or.inr ⟨h1.1, ?_, h1.2.2.1, h1.2.2.2⟩
        by_cases hx : x = i + 1
        · subst hx
          exact absurd (by simpa using h1.2.2.2) hb
        · omega

theorem scanFrom_inv (t : Bytes) : ∀ (rest : Bytes) (i : Nat) (f : File),
    t.drop i = rest → ScanInv t f i → ScanInv t (scanFrom f rest i) t.length := by
  intro rest
  induction rest with
  | nil =>
    intro i f hd h
    have hi : t.length ≤ i := by
      have := congrArg List.length hd
      simp at this; omega
    simp only [scanFrom]
    refine ⟨h.size, h.sorted, ?_⟩
    intro x
    rw [h.mem x]
    constructor
    · rintro (h1 | h1)
      · exact Or.inl h1
      · exact Or.inr ⟨h1.1, by omega, h1.2.2.1, h1.2.2.2⟩
    · rintro (h1 | h1)
      · exact Or.inl h1
      · exact Or.inr ⟨h1.1, by omega, h1.2.2.1, h1.2.2.2⟩
  | cons b bs ih =>
    intro i f hd h
    have hi : i < t.length := by
      have := congrArg List.length hd
      simp at this; omega
    have hb : t.getD i 0 = b := by
      have := List.drop_eq_getElem_cons hi
      rw [this] at hd
      simp [List.getD, List.getElem?_eq_getElem hi]
      exact (List.cons.inj hd).1
    have hd' : t.drop (i + 1) = bs := by
      have := List.drop_eq_getElem_cons hi
      rw [this] at hd
      exact (List.cons.inj hd).2
    simp only [scanFrom]
    rw [← hb]
    exact ih (i + 1) _ hd' (scanInv_step hi h)

theorem scan_lineTable (t : Bytes) (f : File) (hsz : f.size = t.length) (hl : f.lines = [0]) :
    LineTable t (f.scan t).lines := by
  have h0 : ScanInv t f 0 := by
    refine ⟨hsz, by rw [hl]; exact List.pairwise_singleton _ _, ?_⟩
    intro x
    rw [hl]
    simp only [List.mem_singleton]
    constructor
    · intro h; exact Or.inl h
    · rintro (h | h)
      · exact h
      · omega
  have := scanFrom_inv t t 0 f (by simp) h0
  refine ⟨this.sorted, ?_⟩
  intro x
  show x ∈ (scanFrom f t 0).lines ↔ _
  rw [this.mem x]
  constructor
  · rintro (h | h)
    · exact Or.inl h
    · exact Or.inr ⟨h.1, h.2.2.1, h.2.2.2⟩
  · rintro (h | h)
    · exact Or.inl h
    · exact Or.inr ⟨h.1, by omega, h.2.1, h.2.2⟩

/-! ## positions in one file -/

theorem fixOffset_in (f : File) (o : Nat) (h : o ≤ f.size) : f.fixOffset ((f.base : Int) + o - f.base) = o := by
  unfold File.fixOffset
  have h1 : ¬ ((f.base : Int) + o - f.base < 0) := by omega
  have h2 : ¬ ((f.base : Int) + o - f.base > f.size) := by omega
  rw [if_neg h1, if_neg h2]
  omega

/-- a file whose line table is the table of `t` reports the true line (shifted by its starting
    line) and column of every byte of `t` -/
theorem file_position_exact {t : Bytes} {f : File} (hl : LineTable t f.lines) (hsz : f.size = t.length)
    (hb : 1 ≤ f.base) (o : Nat) (ho : o < t.length) :
    f.positionFor ((f.base : Int) + o) =
      ⟨f.name, o, ((lineCol t o).1 : Int) + f.line, ((lineCol t o).2 : Int)⟩ := by
  have hp : ((f.base : Int) + o) ≠ 0 := by omega
  have hstd : f.stdPositionFor ((f.base : Int) + o) = ⟨f.name, o, ((lineCol t o).1 : Int), ((lineCol t o).2 : Int)⟩ := by
    unfold File.stdPositionFor File.stdPosition
    rw [if_pos hp, fixOffset_in f o (by omega)]
    simp only [unpack_exact hl o ho]
  unfold File.positionFor
  rw [hstd]
  have h1 : (lineCol t o).1 ≥ 1 := by
    obtain ⟨r, _, hr1, hline, _⟩ := pp_lineCol hl o ho
    omega
  have hv : Position.isValid ⟨f.name, o, ((lineCol t o).1 : Int), ((lineCol t o).2 : Int)⟩ = true := by
    simp only [Position.isValid, decide_eq_true_eq]; omega
  simp only [hv, if_true]

/-! ## the file set -/

structure FSet.WF (s : FSet) : Prop where
  disj : s.files.Pairwise (fun a b => a.base + a.size < b.base)
  bound : ∀ f ∈ s.files, 1 ≤ f.base ∧ f.base + f.size < s.base
  last : ∀ li, s.last = some li → li < s.files.length

theorem FSet.WF.empty : FSet.empty.WF :=
  ⟨List.Pairwise.nil, fun f hf => by simp [FSet.empty] at hf, fun li h => by simp [FSet.empty] at h⟩

theorem baseAt_eq {a : List File} {h : Nat} (hh : h < a.length) : baseAt a h = (a[h]'hh).base := by
  simp [baseAt, List.getElem?_eq_getElem hh]

theorem disj_lt {a : List File} (hd : a.Pairwise (fun a b => a.base + a.size < b.base))
    {i j : Nat} (hij : i < j) (hj : j < a.length) :
    (a[i]'(by omega)).base + (a[i]'(by omega)).size < (a[j]'hj).base :=
  (List.pairwise_iff_getElem.mp hd) i j (by omega) hj hij

/-- partition point of `searchFiles`: bases before `r` are `< x`, from `r` on `≥ x` -/
theorem searchFiles_pp {a : List File} (hd : a.Pairwise (fun a b => a.base + a.size < b.base)) (x : Int) :
    let r := bsearch (fun h => decide ((baseAt a h : Int) < x)) a.length 0 a.length
    r ≤ a.length ∧ (∀ k, k < r → (baseAt a k : Int) < x) ∧ (∀ k, r ≤ k → k < a.length → x ≤ (baseAt a k : Int)) := by
  have := bsearch_spec (fun h => decide ((baseAt a h : Int) < x)) a.length
    (by
      intro i j hij hj hg
      simp only [decide_eq_true_eq] at hg ⊢
      rcases Nat.lt_or_ge i j with h1 | h1
      · have := disj_lt hd h1 hj
        rw [baseAt_eq hj] at hg
        rw [baseAt_eq (by omega : i < a.length)]
        omega
      · have : i = j := by omega
        subst this; exact hg)
    a.length 0 a.length (Nat.zero_le _) (Nat.le_refl _) (by omega)
    (by intro k hk; omega) (by intro k hk hk'; omega)
  refine ⟨this.2.1, ?_, ?_⟩
  · intro k hk
    have := this.2.2.1 k hk
    simpa using this
  · intro k hk hkn
    have := this.2.2.2 k hk hkn
    simp only [decide_eq_false_iff_not, Int.not_lt] at this
    exact this

theorem inFile_iff (f : File) (p : Int) : inFile f p = true ↔ ((f.base : Int) ≤ p ∧ p ≤ (f.base : Int) + f.size) := by
  simp [inFile]

theorem searchFiles_complete {a : List File} (hd : a.Pairwise (fun a b => a.base + a.size < b.base))
    {i : Nat} (hi : i < a.length) {p : Int} (hin : inFile (a[i]'hi) p = true) : searchFiles a p = i := by
  obtain ⟨hb1, hb2⟩ := (inFile_iff _ _).mp hin
  obtain ⟨hrn, hlo, hhi⟩ := searchFiles_pp hd p
  unfold searchFiles
  generalize bsearch (fun h => decide ((baseAt a h : Int) < p)) a.length 0 a.length = r at hrn hlo hhi
  simp only
  by_cases heq : ((a[i]'hi).base : Int) = p
  · -- r = i and found
    have hri : r = i := by
      rcases Nat.lt_trichotomy r i with h | h | h
      · have h1 := hhi r (Nat.le_refl _) (by omega)
        have h2 := disj_lt hd h hi
        rw [baseAt_eq (by omega : r < a.length)] at h1
        omega
      · exact h
      · have := hlo i h
        rw [baseAt_eq hi] at this
        omega
    subst hri
    have : r < a.length ∧ (baseAt a r : Int) = p := ⟨hi, by rw [baseAt_eq hi]; exact heq⟩
    rw [if_pos this]
  · have hlt : ((a[i]'hi).base : Int) < p := by omega
    have hir : i < r := by
      rcases Nat.lt_or_ge i r with h | h
      · exact h
      · have := hhi i h hi
        rw [baseAt_eq hi] at this
        omega
    have hri : r = i + 1 := by
      rcases Nat.lt_or_ge (i + 1) r with h | h
      · have h1 := hlo (i + 1) h
        have h2 := disj_lt hd (by omega : i < i + 1) (by omega : i + 1 < a.length)
        rw [baseAt_eq (by omega : i + 1 < a.length)] at h1
        omega
      · omega
    subst hri
    have : ¬ (i + 1 < a.length ∧ (baseAt a (i + 1) : Int) = p) := by
      rintro ⟨h1, h2⟩
      have h3 := disj_lt hd (by omega : i < i + 1) h1
      rw [baseAt_eq h1] at h2
      omega
    rw [if_neg this]
    omega

theorem searchFiles_sound {a : List File} (hd : a.Pairwise (fun a b => a.base + a.size < b.base))
    {p : Int} (h0 : searchFiles a p ≥ 0) :
    (searchFiles a p).toNat < a.length ∧ (baseAt a (searchFiles a p).toNat : Int) ≤ p := by
  obtain ⟨hrn, hlo, hhi⟩ := searchFiles_pp hd p
  unfold searchFiles at h0 ⊢
  generalize bsearch (fun h => decide ((baseAt a h : Int) < p)) a.length 0 a.length = r at hrn hlo hhi h0
  simp only at h0 ⊢
  by_cases hf : r < a.length ∧ (baseAt a r : Int) = p
  · rw [if_pos hf]
    simp only [Int.toNat_natCast]
    exact ⟨hf.1, by omega⟩
  · rw [if_neg hf] at h0 ⊢
    have hr1 : 1 ≤ r := by omega
    have : ((r : Int) - 1).toNat = r - 1 := by omega
    rw [this]
    exact ⟨by omega, by have := hlo (r - 1) (by omega); omega⟩

theorem contain_unique {a : List File} (hd : a.Pairwise (fun a b => a.base + a.size < b.base))
    {i j : Nat} (hi : i < a.length) (hj : j < a.length) {p : Int}
    (h1 : inFile (a[i]'hi) p = true) (h2 : inFile (a[j]'hj) p = true) : i = j := by
  rw [inFile_iff] at h1 h2
  rcases Nat.lt_trichotomy i j with h | h | h
  · have := disj_lt hd h hj; omega
  · exact h
  · have := disj_lt hd h hi; omega

theorem fileSlow_files (s : FSet) (p : Int) : (s.fileSlow p).2.files = s.files := by
  unfold FSet.fileSlow
  simp only
  split
  · split
    · split <;> rfl
    · rfl
  · rfl

theorem fileSlow_complete {s : FSet} (hwf : s.WF) {i : Nat} (hi : i < s.files.length) {p : Int}
    (hin : inFile (s.files[i]'hi) p = true) : (s.fileSlow p).1 = some i := by
  have hs := searchFiles_complete hwf.disj hi hin
  unfold FSet.fileSlow
  simp only [hs]
  have h0 : ((i : Int) ≥ 0) := by omega
  rw [if_pos h0]
  simp only [Int.toNat_natCast, List.getElem?_eq_getElem hi]
  have := ((inFile_iff _ _).mp hin).2
  rw [if_pos this]

theorem fileSlow_sound {s : FSet} (hwf : s.WF) {p : Int} {i : Nat} (h : (s.fileSlow p).1 = some i) :
    ∃ hi : i < s.files.length, inFile (s.files[i]'hi) p = true := by
  unfold FSet.fileSlow at h
  simp only at h
  by_cases h0 : searchFiles s.files p ≥ 0
  · rw [if_pos h0] at h
    obtain ⟨hlt, hb⟩ := searchFiles_sound hwf.disj h0
    rw [List.getElem?_eq_getElem hlt] at h
    simp only at h
    by_cases hp : p ≤ ((s.files[(searchFiles s.files p).toNat]'hlt).base : Int) + (s.files[(searchFiles s.files p).toNat]'hlt).size
    · rw [if_pos hp] at h
      simp only [Option.some.injEq] at h
      subst h
      refine ⟨hlt, ?_⟩
      rw [inFile_iff]
      rw [baseAt_eq hlt] at hb
      exact ⟨hb, hp⟩
    · rw [if_neg hp] at h; cases h
  · rw [if_neg h0] at h; cases h

theorem file_files (s : FSet) (p : Int) : (s.file p).2.files = s.files := by
  unfold FSet.file
  split
  · split
    · split
      · rfl
      · exact fileSlow_files s p
    · exact fileSlow_files s p
  · exact fileSlow_files s p

theorem file_sound {s : FSet} (hwf : s.WF) {p : Int} {i : Nat} (h : (s.file p).1 = some i) :
    ∃ hi : i < s.files.length, inFile (s.files[i]'hi) p = true := by
  unfold FSet.file at h
  split at h
  · rename_i li hl
    split at h
    · rename_i f hf
      split at h
      · rename_i hin
        simp only [Option.some.injEq] at h
        subst h
        have hlt := hwf.last _ hl
        rw [List.getElem?_eq_getElem hlt] at hf
        simp only [Option.some.injEq] at hf
        exact ⟨hlt, by rw [hf]; exact hin⟩
      · exact fileSlow_sound hwf h
    · exact fileSlow_sound hwf h
  · exact fileSlow_sound hwf h

theorem file_complete {s : FSet} (hwf : s.WF) {i : Nat} (hi : i < s.files.length) {p : Int}
    (hin : inFile (s.files[i]'hi) p = true) : (s.file p).1 = some i := by
  cases hr : (s.file p).1 with
  | some j =>
    obtain ⟨hj, hjin⟩ := file_sound hwf hr
    rw [contain_unique hwf.disj hi hj hin hjin]
  | none =>
    exfalso
    unfold FSet.file at hr
    have hc := fileSlow_complete hwf hi hin
    split at hr
    · split at hr
      · split at hr
        · cases hr
        · rw [hc] at hr; cases hr
      · rw [hc] at hr; cases hr
    · rw [hc] at hr; cases hr

theorem file_none {s : FSet} (hwf : s.WF) {p : Int}
    (hno : ∀ f ∈ s.files, inFile f p = false) : (s.file p).1 = none := by
  cases hr : (s.file p).1 with
  | none => rfl
  | some j =>
    obtain ⟨hj, hjin⟩ := file_sound hwf hr
    rw [hno _ (List.getElem_mem hj)] at hjin
    cases hjin

theorem fileSlow_wf {s : FSet} (hwf : s.WF) (p : Int) : (s.fileSlow p).2.WF := by
  have hf := fileSlow_files s p
  refine ⟨by rw [hf]; exact hwf.disj, ?_, ?_⟩
  · intro f hfm
    rw [hf] at hfm
    have := hwf.bound f hfm
    unfold FSet.fileSlow
    simp only
    split
    · split
      · split <;> exact this
      · exact this
    · exact this
  · intro li hl
    rw [hf]
    unfold FSet.fileSlow at hl
    simp only at hl
    by_cases h0 : searchFiles s.files p ≥ 0
    · rw [if_pos h0] at hl
      obtain ⟨hlt, _⟩ := searchFiles_sound hwf.disj h0
      rw [List.getElem?_eq_getElem hlt] at hl
      simp only at hl
      split at hl
      · simp only [Option.some.injEq] at hl
        omega
      · exact hwf.last _ hl
    · rw [if_neg h0] at hl
      exact hwf.last _ hl

theorem file_wf {s : FSet} (hwf : s.WF) (p : Int) : (s.file p).2.WF := by
  unfold FSet.file
  split
  · split
    · split
      · exact hwf
      · exact fileSlow_wf hwf p
    · exact fileSlow_wf hwf p
  · exact fileSlow_wf hwf p

theorem fileOf_files (s : FSet) (p : Int) : (s.fileOf p).2.files = s.files := by
  unfold FSet.fileOf
  split
  · exact file_files s p
  · rfl

theorem fileOf_wf {s : FSet} (hwf : s.WF) (p : Int) : (s.fileOf p).2.WF := by
  unfold FSet.fileOf
  split
  · exact file_wf hwf p
  · exact hwf

theorem fileOf_complete {s : FSet} (hwf : s.WF) {i : Nat} (hi : i < s.files.length) {p : Int}
    (hin : inFile (s.files[i]'hi) p = true) : (s.fileOf p).1 = some i := by
  have hb := (hwf.bound _ (List.getElem_mem hi)).1
  have hp : p ≠ 0 := by
    have := ((inFile_iff _ _).mp hin).1
    omega
  unfold FSet.fileOf
  rw [if_pos hp]
  exact file_complete hwf hi hin

theorem fileOf_none {s : FSet} (hwf : s.WF) {p : Int}
    (hno : ∀ f ∈ s.files, inFile f p = false) : (s.fileOf p).1 = none := by
  unfold FSet.fileOf
  split
  · exact file_none hwf hno
  · rfl

/-- a `Pos` inside an added file is answered by that file, whatever the `last` cache holds -/
theorem positionFor_in {s : FSet} (hwf : s.WF) {i : Nat} (hi : i < s.files.length) {p : Int}
    (hin : inFile (s.files[i]'hi) p = true) : (s.positionFor p).1 = (s.files[i]'hi).positionFor p := by
  have h1 := fileOf_complete hwf hi hin
  have h2 := fileOf_files s p
  unfold FSet.positionFor
  generalize s.fileOf p = r at h1 h2
  obtain ⟨a, s'⟩ := r
  simp only at h1 h2
  subst h1
  simp only [h2, List.getElem?_eq_getElem hi]

theorem sourceAt_in {s : FSet} (hwf : s.WF) {i : Nat} (hi : i < s.files.length) {p : Int}
    (hin : inFile (s.files[i]'hi) p = true) : (s.sourceAt p).1 = (s.files[i]'hi).sourceAt p := by
  have h1 := fileOf_complete hwf hi hin
  have h2 := fileOf_files s p
  unfold FSet.sourceAt
  generalize s.fileOf p = r at h1 h2
  obtain ⟨a, s'⟩ := r
  simp only at h1 h2
  subst h1
  simp only [h2, List.getElem?_eq_getElem hi]

/-! ### adding and updating files keeps the set well formed -/

theorem addFileAuto_eq (s : FSet) (name : String) (size : Nat) (line : Int) :
    s.addFile name (-1) size line = some (s.addFileAuto name size line) := by
  unfold FSet.addFile FSet.addFileAuto
  simp

theorem addFile_wf {s : FSet} (hwf : s.WF) (hb1 : 1 ≤ s.base) {name : String} {base size line : Int} {f : File} {s' : FSet}
    (h : s.addFile name base size line = some (f, s')) :
    s'.WF ∧ 1 ≤ s'.base ∧ s'.files = s.files ++ [f] ∧ f.lines = [0] ∧ f.line = line ∧ f.name = name ∧
    (f.size : Int) = size ∧ s.base ≤ f.base := by
  unfold FSet.addFile at h
  simp only at h
  generalize hb' : (if base < 0 then (s.base : Int) else base) = b at h
  by_cases h1 : b < s.base
  · rw [if_pos h1] at h; cases h
  · rw [if_neg h1] at h
    by_cases h2 : size < 0
    · rw [if_pos h2] at h; cases h
    · rw [if_neg h2] at h
      simp only [Option.some.injEq, Prod.mk.injEq] at h
      obtain ⟨hf, hs'⟩ := h
      subst hf hs'
      simp only
      refine ⟨⟨?_, ?_, ?_⟩, by omega, by simp, by simp, by simp, by simp, by omega, by omega⟩
      · rw [List.pairwise_append]
        refine ⟨hwf.disj, List.pairwise_singleton _ _, ?_⟩
        intro a ha b' hb''
        simp only [List.mem_singleton] at hb''
        subst hb''
        have := (hwf.bound a ha).2
        simp only
        omega
      · intro g hg
        simp only [List.mem_append, List.mem_singleton] at hg
        rcases hg with hg | hg
        · have := hwf.bound g hg
          refine ⟨this.1, ?_⟩
          simp only
          omega
        · subst hg
          simp only
          exact ⟨by omega, by omega⟩
      · intro li hl
        simp only [Option.some.injEq] at hl
        subst hl
        simp

theorem setFile_wf {s : FSet} (hwf : s.WF) {idx : Nat} (hi : idx < s.files.length) {f : File}
    (hb : f.base = (s.files[idx]'hi).base) (hs : f.size = (s.files[idx]'hi).size) : (s.setFile idx f).WF := by
  unfold FSet.setFile
  refine ⟨?_, ?_, ?_⟩
  · simp only
    rw [List.pairwise_iff_getElem]
    intro i j hi' hj' hij
    simp only [List.length_set] at hi' hj'
    have := disj_lt hwf.disj hij hj'
    simp only [List.getElem_set]
    split <;> split <;> simp_all <;> omega
  · intro g hg
    simp only at hg ⊢
    rcases List.mem_or_eq_of_mem_set hg with h | h
    · exact hwf.bound g h
    · subst h
      have := hwf.bound _ (List.getElem_mem hi)
      rw [hb, hs]; exact this
  · intro li hl
    simp only [List.length_set]
    exact hwf.last li hl

end FileSet
