import Model.Imports

/-! Lemmas about `Model/Imports.lean`: the `Str` encoding is injective, what `fileOk` means entry by
    entry, and the proxy forwarding theorem (any well-formed proxy declaration forwards a method call
    to the func field of the same name with the object prepended and the arguments in order). -/
namespace Imports

/-! ## `Str`: byte strings as naturals -/

namespace Str

/-- value of the reversed digit list -/
def ofRev : List Nat → Nat
  | [] => 1
  | b :: r => ofRev r * 256 + b

theorem ofRev_pos : ∀ r, 1 ≤ ofRev r
  | [] => Nat.le_refl 1
  | b :: r => by
    have := ofRev_pos r
    simp only [ofRev]; omega

theorem foldl_eq_ofRev (l : List Nat) : ∀ acc r, acc = ofRev r →
    l.foldl (fun acc b => acc * 256 + b) acc = ofRev (l.reverse ++ r) := by
  induction l with
  | nil => intro acc r h; simpa using h
  | cons b l ih =>
    intro acc r h
    simp only [List.foldl_cons, List.reverse_cons, List.append_assoc, List.singleton_append]
    exact ih _ (b :: r) (by simp [ofRev, h])

theorem ofBytes_eq_ofRev (l : List Nat) : ofBytes l = ofRev l.reverse := by
  have := foldl_eq_ofRev l 1 [] rfl
  simpa [ofBytes] using this

theorem revBytesAux_ofRev : ∀ (r : List Nat) (fuel : Nat), (∀ b ∈ r, b < 256) → ofRev r ≤ fuel →
    revBytesAux fuel (ofRev r) = r
  | [], fuel, _, h => by
    cases fuel with
    | zero => simp [revBytesAux]
    | succ n => simp [revBytesAux, ofRev]
  | b :: r, fuel, hb, h => by
    have hpos := ofRev_pos r
    have hb0 : b < 256 := hb b (by simp)
    cases fuel with
    | zero => simp only [ofRev] at h; omega
    | succ n =>
      have hn : ofRev r ≤ n := by simp only [ofRev] at h; omega
      have ih := revBytesAux_ofRev r n (fun x hx => hb x (by simp [hx])) hn
      have h1 : ¬ (ofRev r * 256 + b ≤ 1) := by omega
      have h2 : (ofRev r * 256 + b) % 256 = b := by omega
      have h3 : (ofRev r * 256 + b) / 256 = ofRev r := by omega
      simp only [revBytesAux, ofRev, h1, if_false, h2, h3, ih]

/-- decoding inverts encoding: equality of `Str` values is equality of byte strings -/
theorem bytes_ofBytes (l : List Nat) (h : ∀ b ∈ l, b < 256) : bytes (ofBytes l) = l := by
  unfold bytes
  rw [ofBytes_eq_ofRev, revBytesAux_ofRev l.reverse _ (by simpa using h) (Nat.le_refl _)]
  simp

theorem ofBytes_injective (l₁ l₂ : List Nat) (h₁ : ∀ b ∈ l₁, b < 256) (h₂ : ∀ b ∈ l₂, b < 256)
    (h : ofBytes l₁ = ofBytes l₂) : l₁ = l₂ := by
  rw [← bytes_ofBytes l₁ h₁, ← bytes_ofBytes l₂ h₂, h]

end Str

/-! ## What `target` accepts -/

theorem lookupAlias_mem (f : FileTbl) (a p : Str) (h : lookupAlias f a = some p) : (a, p) ∈ f.aliases := by
  unfold lookupAlias at h
  cases hf : f.aliases.find? (fun q => q.1 == a) with
  | none => simp [hf] at h
  | some q =>
    simp [hf] at h
    have hm := List.mem_of_find?_eq_some hf
    have hq := List.find?_some hf
    simp at hq
    cases q with
    | mk q1 q2 => simp at h hq; subst h; subst hq; exact hm

/-- a value entry is accepted only in the recognised shapes, its selector name is the symbol and its
    package alias is mapped by the file's import clause to the package path (or the file is part of
    the package itself) -/
theorem valTarget_spec (f : FileTbl) (form : ValForm) (p s : Str) (h : form.target f = some (p, s)) :
    (∃ a, (form = .plain a s ∨ form = .addr a s ∨ ∃ t, form = .conv t a s ∧ basicConvTypes.contains t = true)
        ∧ lookupAlias f a = some p) ∨
    (f.kind = .inception ∧ p = f.ownPath ∧
      (form = .localPlain s ∨ form = .localAddr s ∨ ∃ t, form = .localConv t s ∧ basicConvTypes.contains t = true)) := by
  cases form with
  | plain a s' =>
    simp only [ValForm.target, Option.map_eq_some_iff] at h
    obtain ⟨q, hq, he⟩ := h
    simp at he; obtain ⟨rfl, rfl⟩ := he
    exact Or.inl ⟨a, Or.inl rfl, hq⟩
  | addr a s' =>
    simp only [ValForm.target, Option.map_eq_some_iff] at h
    obtain ⟨q, hq, he⟩ := h
    simp at he; obtain ⟨rfl, rfl⟩ := he
    exact Or.inl ⟨a, Or.inr (Or.inl rfl), hq⟩
  | conv t a s' =>
    simp only [ValForm.target] at h
    split at h
    · rename_i ht
      simp only [Option.map_eq_some_iff] at h
      obtain ⟨q, hq, he⟩ := h
      simp at he; obtain ⟨rfl, rfl⟩ := he
      exact Or.inl ⟨a, Or.inr (Or.inr ⟨t, rfl, ht⟩), hq⟩
    · simp at h
  | localPlain s' =>
    simp only [ValForm.target] at h
    split at h
    · rename_i hk
      simp at h; obtain ⟨rfl, rfl⟩ := h
      exact Or.inr ⟨by simpa using hk, rfl, Or.inl rfl⟩
    · simp at h
  | localAddr s' =>
    simp only [ValForm.target] at h
    split at h
    · rename_i hk
      simp at h; obtain ⟨rfl, rfl⟩ := h
      exact Or.inr ⟨by simpa using hk, rfl, Or.inr (Or.inl rfl)⟩
    · simp at h
  | localConv t s' =>
    simp only [ValForm.target] at h
    split at h
    · rename_i hk
      simp at h; obtain ⟨rfl, rfl⟩ := h
      simp only [Bool.and_eq_true] at hk
      exact Or.inr ⟨by simpa using hk.1, rfl, Or.inr (Or.inr ⟨t, rfl, hk.2⟩)⟩
    · simp at h
  | opaq => simp [ValForm.target] at h

theorem typeTarget_spec (f : FileTbl) (form : TypeForm) (p s : Str) (h : form.target f = some (p, s)) :
    (∃ a, form = .named a s ∧ lookupAlias f a = some p) ∨
    (f.kind = .inception ∧ p = f.ownPath ∧ form = .localNamed s) := by
  cases form with
  | named a s' =>
    simp only [TypeForm.target, Option.map_eq_some_iff] at h
    obtain ⟨q, hq, he⟩ := h
    simp at he; obtain ⟨rfl, rfl⟩ := he
    exact Or.inl ⟨a, rfl, hq⟩
  | localNamed s' =>
    simp only [TypeForm.target] at h
    split at h
    · rename_i hk
      simp at h; obtain ⟨rfl, rfl⟩ := h
      exact Or.inr ⟨by simpa using hk, rfl, rfl⟩
    · simp at h
  | opaq => simp [TypeForm.target] at h

/-! ## Unpacking `fileOk` -/

structure FileSpec (f : FileTbl) : Prop where
  aliases : aliasesOk f = true
  binds : ∀ ch ∈ f.binds, ∀ e ∈ ch, declaresPkg f e.path = true ∧ e.form.target f = some (e.path, e.key)
  types : ∀ ch ∈ f.types, ∀ e ∈ ch, declaresPkg f e.path = true ∧ e.form.target f = some (e.path, e.key)
  proxies : ∀ ch ∈ f.proxies, ∀ e ∈ ch, declaresPkg f e.path = true ∧ proxyEntryOk f e = true
  untypeds : ∀ ch ∈ f.untypeds, ∀ e ∈ ch, declaresPkg f e.path = true ∧ untypedOk e = true
  untypedsBound : untypedsBound f = true
  wrappers : ∀ ch ∈ f.wrappers, ∀ e ∈ ch, declaresPkg f e.path = true ∧ wrapperOk f e = true
  decls : ∀ d ∈ f.decls, proxyOk d = true
  declNames : (f.decls.map (·.name)).Nodup

theorem fileOk_spec (f : FileTbl) (h : fileOk f = true) : FileSpec f := by
  simp only [fileOk, Bool.and_eq_true, List.all_eq_true, decide_eq_true_eq] at h
  obtain ⟨⟨⟨⟨⟨⟨⟨⟨h1, h2⟩, h3⟩, h4⟩, h5⟩, h5b⟩, h6⟩, h7⟩, h8⟩ := h
  refine ⟨h1, ?_, ?_, h4, h5, h5b, h6, h7, h8⟩
  · intro ch hch e he
    have := h2 ch hch e he
    exact ⟨this.1, by simpa [bindOk] using this.2⟩
  · intro ch hch e he
    have := h3 ch hch e he
    exact ⟨this.1, by simpa [typeOk] using this.2⟩

theorem subseqKeys_mem : ∀ (bs us : List (Str × Str)), subseqKeys bs us = true → ∀ u ∈ us, u ∈ bs
  | _, [], _, u, hu => by simp at hu
  | [], _ :: _, h, _, _ => by simp [subseqKeys] at h
  | b :: bs, x :: us, h, u, hu => by
    simp only [subseqKeys] at h
    split at h
    · rename_i hbx
      have hbx' : b = x := by simpa using hbx
      rcases List.mem_cons.mp hu with rfl | hu'
      · simp [hbx']
      · exact List.mem_cons_of_mem _ (subseqKeys_mem bs us h u hu')
    · exact List.mem_cons_of_mem _ (subseqKeys_mem bs (x :: us) h u hu)

/-! ## Proxy forwarding -/

section Forwarding
variable {V σ : Type}

theorem lookupVar_bindParams : ∀ (ps : List Param) (as : List V), ps.length = as.length →
    (paramNames ps).Nodup → ∀ i (hi : i < ps.length) (hi' : i < as.length),
    lookupVar (bindParams ps as) (ps[i]).name = some as[i]
  | [], _, _, _, i, hi, _ => by simp at hi
  | p :: ps, [], h, _, _, _, _ => by simp at h
  | p :: ps, a :: as, h, hn, i, hi, hi' => by
    cases i with
    | zero => simp [lookupVar, bindParams]
    | succ j =>
      simp only [paramNames, List.map_cons, List.nodup_cons] at hn
      have hj : j < ps.length := by simpa using hi
      have hne : ¬ (p.name == (ps[j]).name) = true := by
        intro he
        have : (ps[j]).name ∈ ps.map (·.name) := List.mem_map.mpr ⟨ps[j], List.getElem_mem hj, rfl⟩
        have he' : p.name = (ps[j]).name := by simpa using he
        exact hn.1 (he' ▸ this)
      have ih := lookupVar_bindParams ps as (by simpa using h) hn.2 j hj (by simpa using hi')
      simp only [List.getElem_cons_succ]
      simp only [lookupVar, bindParams, List.find?_cons, hne] at ih ⊢
      exact ih

theorem evalArgs_idents (recv : Str) (p : Proxy V σ) (env : List (Str × V)) :
    ∀ (ps : List Param) (as : List V), ps.length = as.length →
    (∀ i (hi : i < ps.length) (hi' : i < as.length), lookupVar env (ps[i]).name = some as[i]) →
    evalArgs recv p env (ps.map (fun q => Arg.ident q.name q.variadic)) = some as
  | [], [], _, _ => by simp [evalArgs]
  | [], _ :: _, h, _ => by simp at h
  | _ :: _, [], h, _ => by simp at h
  | q :: ps, a :: as, h, hl => by
    have h0 := hl 0 (by simp) (by simp)
    have ih := evalArgs_idents recv p env ps as (by simpa using h)
      (fun i hi hi' => by
        have := hl (i + 1) (by simpa using hi) (by simpa using hi')
        simpa using this)
    simp only [List.getElem_cons_zero] at h0
    simp [evalArgs, evalArg, h0, ih]

theorem find?_of_nodup_names (ms : List MethodDecl) (m : MethodDecl) (hm : m ∈ ms)
    (hn : (ms.map (·.name)).Nodup) : ms.find? (fun x => x.name == m.name) = some m := by
  induction ms with
  | nil => simp at hm
  | cons x xs ih =>
    simp only [List.map_cons, List.nodup_cons] at hn
    rcases List.mem_cons.mp hm with rfl | hm'
    · simp
    · have hne : ¬ (x.name == m.name) = true := by
        intro he
        have he' : x.name = m.name := by simpa using he
        exact hn.1 (he' ▸ List.mem_map.mpr ⟨m, hm', rfl⟩)
      simp only [List.find?_cons, hne]
      exact ih hm' hn.2

/-- what `methodOk` says about the body -/
theorem methodOk_body (d : ProxyDecl) (m : MethodDecl) (h : methodOk d m = true) :
    (paramNames m.params).Nodup ∧
    ((m.results.isEmpty = false ∧
        m.body = .ret ⟨m.recvName, Str.underscore m.name, expectedArgs m.recvName m.params⟩) ∨
     (m.results.isEmpty = true ∧
        m.body = .expr ⟨m.recvName, Str.underscore m.name, expectedArgs m.recvName m.params⟩)) := by
  simp only [methodOk, Bool.and_eq_true, decide_eq_true_eq] at h
  obtain ⟨⟨⟨⟨⟨_, hn⟩, _⟩, _⟩, _⟩, hb⟩ := h
  refine ⟨hn, ?_⟩
  cases hbody : m.body with
  | ret c =>
    rw [hbody] at hb
    simp only [Bool.and_eq_true, Bool.not_eq_true', beq_iff_eq] at hb
    obtain ⟨⟨⟨h1, h2⟩, h3⟩, h4⟩ := hb
    left
    refine ⟨h1, ?_⟩
    cases c with
    | mk r fl ar => simp at h2 h3 h4; simp [h2, h3, h4]
  | expr c =>
    rw [hbody] at hb
    simp only [Bool.and_eq_true, beq_iff_eq] at hb
    obtain ⟨⟨⟨h1, h2⟩, h3⟩, h4⟩ := hb
    right
    refine ⟨h1, ?_⟩
    cases c with
    | mk r fl ar => simp at h2 h3 h4; simp [h2, h3, h4]
  | opaq => rw [hbody] at hb; simp at hb

theorem evalCall_expected (m : MethodDecl) (p : Proxy V σ) (args : List V) (s : σ)
    (fn : List V → σ → List V × σ) (hl : args.length = m.params.length)
    (hn : (paramNames m.params).Nodup) (hf : p.field (Str.underscore m.name) = some fn) :
    evalCall m p (bindParams m.params args)
      ⟨m.recvName, Str.underscore m.name, expectedArgs m.recvName m.params⟩ s
      = some (fn (p.object :: args) s) := by
  have hargs : evalArgs m.recvName p (bindParams m.params args) (expectedArgs m.recvName m.params)
      = some (p.object :: args) := by
    have := evalArgs_idents m.recvName p (bindParams m.params args) m.params args hl.symm
      (fun i hi hi' => lookupVar_bindParams m.params args hl.symm hn i hi hi')
    simp [expectedArgs, evalArgs, evalArg, this]
  simp [evalCall, hf, hargs]

/-- **Proxy forwarding.**  For every proxy declaration accepted by `proxyOk`, calling method `m`
    with `args` through the proxy runs exactly the func field `m_` once, on `object :: args`, in the
    same state, and returns all its results in order (no results for a method without results). -/
theorem proxy_forwarding_gen (d : ProxyDecl) (hd : proxyOk d = true) (m : MethodDecl) (hm : m ∈ d.methods)
    (p : Proxy V σ) (args : List V) (s : σ) (fn : List V → σ → List V × σ)
    (hl : args.length = m.params.length) (hf : p.field (Str.underscore m.name) = some fn) :
    callMethod d p m.name args s =
      some (if m.results.isEmpty then ([], (fn (p.object :: args) s).2) else fn (p.object :: args) s) := by
  simp only [proxyOk, Bool.and_eq_true, List.all_eq_true, decide_eq_true_eq] at hd
  obtain ⟨⟨_, hnames⟩, hall⟩ := hd
  have hfind : findMethod d m.name = some m := find?_of_nodup_names d.methods m hm hnames
  obtain ⟨hn, hbody⟩ := methodOk_body d m (hall m hm)
  have hlen : (args.length != m.params.length) = false := by simp [hl]
  rcases hbody with ⟨hres, hb⟩ | ⟨hres, hb⟩
  · simp only [callMethod, hfind, runMethod, hlen, hb, hres]
    simpa using evalCall_expected m p args s fn hl hn hf
  · simp only [callMethod, hfind, runMethod, hlen, hb, hres]
    simp [evalCall_expected m p args s fn hl hn hf]

/-- the func field of a well-formed proxy method has the method's signature with the object first -/
theorem proxy_field_signature (d : ProxyDecl) (hd : proxyOk d = true) (m : MethodDecl) (hm : m ∈ d.methods) :
    ∃ fd p0 rest, fd ∈ d.fields ∧ fd.name = Str.underscore m.name ∧ fd.isFunc = true ∧
      fd.params = p0 :: rest ∧ p0.ty = interfaceEmpty ∧
      paramTypes rest = paramTypes m.params ∧ paramTypes fd.results = paramTypes m.results := by
  simp only [proxyOk, Bool.and_eq_true, List.all_eq_true, decide_eq_true_eq] at hd
  obtain ⟨_, hall⟩ := hd
  have h := hall m hm
  simp only [methodOk, Bool.and_eq_true, decide_eq_true_eq] at h
  obtain ⟨⟨_, hfld⟩, _⟩ := h
  cases hf : d.fields.find? (fun fd => fd.name == Str.underscore m.name) with
  | none => simp [hf] at hfld
  | some fd =>
    rw [hf] at hfld
    simp only [Bool.and_eq_true] at hfld
    obtain ⟨⟨hfunc, hpar⟩, hres⟩ := hfld
    cases hp : fd.params with
    | nil => simp [hp] at hpar
    | cons p0 rest =>
      rw [hp] at hpar
      simp only [Bool.and_eq_true, beq_iff_eq, Bool.not_eq_true'] at hpar
      have hname := List.find?_some hf
      exact ⟨fd, p0, rest, List.mem_of_find?_eq_some hf, by simpa using hname, hfunc, hp, hpar.1.1,
        hpar.2, by simpa using hres⟩

end Forwarding

end Imports
