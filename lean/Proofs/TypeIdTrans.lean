import Proofs.TypeId
namespace TypeId

private theorem beq_trans_nat {a b c : Nat} (h1 : (a == b) = true) (h2 : (b == c) = true) : (a == c) = true := by
  simp at *; omega
private theorem beq_trans' {α} [BEq α] [LawfulBEq α] {a b c : α} (h1 : (a == b) = true) (h2 : (b == c) = true) : (a == c) = true := by
  have := eq_of_beq h1; have := eq_of_beq h2; subst_vars; simp

mutual
theorem ident_trans (c : Bool) : ∀ x y z, ident c x y = true → ident c y z = true → ident c x z = true
  | .basic k, y, z, h1, h2 => by
      cases y with
      | basic k' => cases z with
        | basic k'' => simp only [ident] at *; exact beq_trans' h1 h2
        | _ => simp [ident] at h2
      | _ => simp [ident] at h1
  | .array n e, y, z, h1, h2 => by
      cases y with
      | array n' e' => cases z with
        | array n'' e'' =>
            simp only [ident, Bool.and_eq_true] at *
            exact ⟨beq_trans' h1.1 h2.1, ident_trans c e e' e'' h1.2 h2.2⟩
        | _ => simp [ident] at h2
      | _ => simp [ident] at h1
  | .slice e, y, z, h1, h2 => by
      cases y with
      | slice e' => cases z with
        | slice e'' => simp only [ident] at *; exact ident_trans c e e' e'' h1 h2
        | _ => simp [ident] at h2
      | _ => simp [ident] at h1
  | .struct fs, y, z, h1, h2 => by
      cases y with
      | struct gs => cases z with
        | struct hs => simp only [ident] at *; exact identFs_trans c fs gs hs h1 h2
        | _ => simp [ident] at h2
      | _ => simp [ident] at h1
  | .pointer e, y, z, h1, h2 => by
      cases y with
      | pointer e' => cases z with
        | pointer e'' => simp only [ident] at *; exact ident_trans c e e' e'' h1 h2
        | _ => simp [ident] at h2
      | _ => simp [ident] at h1
  | .tuple ts, y, z, h1, h2 => by
      cases y with
      | tuple us => cases z with
        | tuple ws => simp only [ident] at *; exact identL_trans c ts us ws h1 h2
        | _ => simp [ident] at h2
      | _ => simp [ident] at h1
  | .sig v r ps rs, y, z, h1, h2 => by
      cases y with
      | sig v' r' ps' rs' => cases z with
        | sig v'' r'' ps'' rs'' =>
            simp only [ident, Bool.and_eq_true] at *
            obtain ⟨⟨⟨a1, a2⟩, a3⟩, a4⟩ := h1
            obtain ⟨⟨⟨b1, b2⟩, b3⟩, b4⟩ := h2
            exact ⟨⟨⟨beq_trans' a1 b1, identO_trans c r r' r'' a2 b2⟩, identL_trans c ps ps' ps'' a3 b3⟩,
              identL_trans c rs rs' rs'' a4 b4⟩
        | _ => simp [ident] at h2
      | _ => simp [ident] at h1
  | .iface xa _ xe, y, z, h1, h2 => by
      cases y with
      | iface ya _ ye => cases z with
        | iface za _ ze =>
            simp only [ident, Bool.and_eq_true] at *
            exact ⟨identMs_trans c xa ya za h1.1 h2.1, beq_trans' h1.2 h2.2⟩
        | _ => simp [ident] at h2
      | _ => simp [ident] at h1
  | .map k e, y, z, h1, h2 => by
      cases y with
      | map k' e' => cases z with
        | map k'' e'' =>
            simp only [ident, Bool.and_eq_true] at *
            exact ⟨ident_trans c k k' k'' h1.1 h2.1, ident_trans c e e' e'' h1.2 h2.2⟩
        | _ => simp [ident] at h2
      | _ => simp [ident] at h1
  | .chan d e, y, z, h1, h2 => by
      cases y with
      | chan d' e' => cases z with
        | chan d'' e'' =>
            simp only [ident, Bool.and_eq_true] at *
            exact ⟨beq_trans' h1.1 h2.1, ident_trans c e e' e'' h1.2 h2.2⟩
        | _ => simp [ident] at h2
      | _ => simp [ident] at h1
  | .named i, y, z, h1, h2 => by
      cases y with
      | named j => cases z with
        | named l => simp only [ident] at *; exact beq_trans' h1 h2
        | _ => simp [ident] at h2
      | _ => simp [ident] at h1
  | .nil, y, z, h1, h2 => by
      cases y with
      | nil => exact h2
      | _ => simp [ident] at h1
theorem identO_trans (c : Bool) : ∀ x y z, identO c x y = true → identO c y z = true → identO c x z = true
  | none, none, z, _, h2 => h2
  | none, some _, _, h1, _ => by simp [identO] at h1
  | some _, none, _, h1, _ => by simp [identO] at h1
  | some _, some _, none, _, h2 => by simp [identO] at h2
  | some a, some b, some d, h1, h2 => by simp only [identO] at *; exact ident_trans c a b d h1 h2
theorem identL_trans (c : Bool) : ∀ xs ys zs, identL c xs ys = true → identL c ys zs = true → identL c xs zs = true
  | [], [], _, _, h2 => h2
  | [], _ :: _, _, h1, _ => by simp [identL] at h1
  | _ :: _, [], _, h1, _ => by simp [identL] at h1
  | _ :: _, _ :: _, [], _, h2 => by simp [identL] at h2
  | t :: ts, u :: us, w :: ws, h1, h2 => by
      simp only [identL, Bool.and_eq_true] at *
      exact ⟨ident_trans c t u w h1.1 h2.1, identL_trans c ts us ws h1.2 h2.2⟩
theorem identFs_trans (c : Bool) : ∀ xs ys zs, identFs c xs ys = true → identFs c ys zs = true → identFs c xs zs = true
  | [], [], _, _, h2 => h2
  | [], _ :: _, _, h1, _ => by simp [identFs] at h1
  | _ :: _, [], _, h1, _ => by simp [identFs] at h1
  | _ :: _, _ :: _, [], _, h2 => by simp [identFs] at h2
  | .mk n p a tg t :: fs, .mk n' p' a' tg' t' :: gs, .mk n'' p'' a'' tg'' t'' :: hs, h1, h2 => by
      simp only [identFs, Bool.and_eq_true] at *
      obtain ⟨⟨⟨⟨a1, a2⟩, a3⟩, a4⟩, a5⟩ := h1
      obtain ⟨⟨⟨⟨b1, b2⟩, b3⟩, b4⟩, b5⟩ := h2
      refine ⟨⟨⟨⟨beq_trans' a1 b1, ?_⟩, sameName_trans a3 b3⟩, ident_trans c t t' t'' a4 b4⟩, identFs_trans c fs gs hs a5 b5⟩
      cases c
      · simp
      · simp at a2 b2 ⊢; exact a2.trans b2
theorem identMs_trans (c : Bool) : ∀ xs ys zs, identMs c xs ys = true → identMs c ys zs = true → identMs c xs zs = true
  | [], [], _, _, h2 => h2
  | [], _ :: _, _, h1, _ => by simp [identMs] at h1
  | _ :: _, [], _, h1, _ => by simp [identMs] at h1
  | _ :: _, _ :: _, [], _, h2 => by simp [identMs] at h2
  | .mk n p v r ps rs :: ms, .mk n' p' v' r' ps' rs' :: ms', .mk n'' p'' v'' r'' ps'' rs'' :: ms'', h1, h2 => by
      simp only [identMs, Bool.and_eq_true] at *
      obtain ⟨⟨⟨⟨⟨a1, a2⟩, a3⟩, a4⟩, a5⟩, a6⟩ := h1
      obtain ⟨⟨⟨⟨⟨b1, b2⟩, b3⟩, b4⟩, b5⟩, b6⟩ := h2
      exact ⟨⟨⟨⟨⟨sameName_trans a1 b1, beq_trans' a2 b2⟩, identRv_trans c r r' r'' a3 b3⟩, identL_trans c ps ps' ps'' a4 b4⟩,
        identL_trans c rs rs' rs'' a5 b5⟩, identMs_trans c ms ms' ms'' a6 b6⟩
theorem identRv_trans (c : Bool) : ∀ x y z, identRv c x y = true → identRv c y z = true → identRv c x z = true
  | .none, y, z, h1, h2 => by
      cases y with
      | none => exact h2
      | _ => simp [identRv] at h1
  | .self, y, z, h1, h2 => by
      cases y with
      | self => exact h2
      | _ => simp [identRv] at h1
  | .ty a, y, z, h1, h2 => by
      cases y with
      | ty b => cases z with
        | ty d => simp only [identRv] at *; exact ident_trans c a b d h1 h2
        | _ => simp [identRv] at h2
      | _ => simp [identRv] at h1
end

end TypeId
