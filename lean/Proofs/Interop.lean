import Model.Interop

/-! Lemmas for C11: `declParams` puts argument `i` into the bind of parameter `i` and nowhere else. -/
namespace Interop

variable {V : Type}

theorem declParams_length : ∀ (ps : List (Option Nat)) (as fr : List V),
    (declParams ps as fr).length = fr.length
  | [], _, _ => by simp [declParams]
  | some k :: ps, [], fr => by simp [declParams]
  | none :: ps, [], fr => by simp [declParams]
  | some k :: ps, a :: as, fr => by
    simp only [declParams]
    rw [declParams_length ps as (fr.set k a)]; simp
  | none :: ps, a :: as, fr => by
    simp only [declParams]
    exact declParams_length ps as fr

/-- a slot that is no parameter bind keeps its (recycled) content -/
theorem declParams_untouched : ∀ (ps : List (Option Nat)) (as fr : List V) (k : Nat),
    k ∉ ps.filterMap id → (declParams ps as fr)[k]? = fr[k]?
  | [], _, _, _, _ => by simp [declParams]
  | some k0 :: ps, [], fr, k, _ => by simp [declParams]
  | none :: ps, [], fr, k, _ => by simp [declParams]
  | some k0 :: ps, a :: as, fr, k, h => by
    simp only [List.filterMap_cons, id, List.mem_cons, not_or] at h
    simp only [declParams]
    rw [declParams_untouched ps as (fr.set k0 a) k h.2]
    exact List.getElem?_set_ne (Ne.symm h.1)
  | none :: ps, a :: as, fr, k, h => by
    simp only [List.filterMap_cons, id] at h
    simp only [declParams]
    exact declParams_untouched ps as fr k h

theorem declParams_holds : ∀ (ps : List (Option Nat)) (as fr : List V),
    (ps.filterMap id).Nodup → (∀ k ∈ ps.filterMap id, k < fr.length) → as.length = ps.length →
    ∀ (i k : Nat), ps[i]? = some (some k) → ∃ a, as[i]? = some a ∧ (declParams ps as fr)[k]? = some a
  | [], _, _, _, _, _, i, k, h => by simp at h
  | some k0 :: ps, [], fr, _, _, hl, _, _, _ => by simp at hl
  | none :: ps, [], fr, _, _, hl, _, _, _ => by simp at hl
  | some k0 :: ps, a :: as, fr, hn, hb, hl, i, k, h => by
    simp only [List.filterMap_cons, id, List.nodup_cons] at hn
    have hb0 : k0 < fr.length := hb k0 (by simp)
    cases i with
    | zero =>
      simp only [List.getElem?_cons_zero, Option.some.injEq] at h
      subst h
      refine ⟨a, by simp, ?_⟩
      simp only [declParams]
      rw [declParams_untouched ps as (fr.set k0 a) k0 hn.1]
      simp [hb0]
    | succ j =>
      simp only [List.getElem?_cons_succ] at h
      simp only [declParams, List.getElem?_cons_succ]
      exact declParams_holds ps as (fr.set k0 a) hn.2
        (fun k hk => by simpa using hb k (by simp [hk])) (by simpa using hl) j k h
  | none :: ps, a :: as, fr, hn, hb, hl, i, k, h => by
    simp only [List.filterMap_cons, id] at hn hb
    cases i with
    | zero => simp at h
    | succ j =>
      simp only [List.getElem?_cons_succ] at h
      simp only [declParams, List.getElem?_cons_succ]
      exact declParams_holds ps as fr hn hb (by simpa using hl) j k h

end Interop
