import Model.Places
/-! # C02Multi — `Comp.assign2` / `Comp.assignMulti` implement Go's two-phase assignment -/

namespace C02Multi
open Places GoSpec

theorem resolve_var (s : PS) (n : Nat) : resolve s (.var n) = .ok (.var n, s) := rfl
theorem resolve_blank (s : PS) : resolve s .blank = .ok (.blank, s) := rfl

/-- evaluating the operands of a variable or of `_` has no effect -/
theorem resolve_pure (s : PS) (c : Cell) (h : (isVarCell c || c == .blank) = true) :
    ∃ l, resolve s c = .ok (l, s) := by
  cases c <;> simp [isVarCell] at h <;> first | exact ⟨_, rfl⟩ | skip
  all_goals simp_all

theorem multiLhs_eq (s : PS) (cs : List Cell) : multiLhs s cs = resolveAll s cs := by
  induction cs generalizing s with
  | nil => rfl
  | cons c rest ih =>
    unfold multiLhs resolveAll
    by_cases h : (isVarCell c || c == .blank) = true
    · obtain ⟨l, hl⟩ := resolve_pure s c h
      simp only [h, if_true, hl, ih]
      rfl
    · simp only [h, placefun, ih]
      rfl

theorem multiRhs_eq (s : PS) (rs : List Rhs) : multiRhs s rs = evalAll s rs := by
  induction rs generalizing s with
  | nil => rfl
  | cons r rest ih =>
    unfold multiRhs evalAll
    simp only [ih]

theorem store_blank (s : PS) (v : Val) : store s .blank v = s := rfl

theorem multiStore_eq (s : PS) (ls : List Loc) (vs : List Val) : multiStore s ls vs = storeAll s ls vs := by
  induction ls generalizing s vs with
  | nil => cases vs <;> rfl
  | cons l rest ih =>
    cases vs with
    | nil => rfl
    | cons v vs' =>
      cases l <;> simp [multiStore, storeAll, ih, store_blank]

/-- `assignMulti` (three loops over the `assign` array, variables and `_` skipped in the first and
    `_` in the third) = phase 1 (place operands left to right, right-hand sides left to right),
    phase 2 (assignments left to right): for every number of places -/
theorem assignMulti_eq_go (s : PS) (lhs : List Cell) (rhs : List Rhs) :
    assignMulti s lhs rhs = goAssign s lhs rhs := by
  unfold assignMulti goAssign
  simp only [multiLhs_eq, multiRhs_eq, multiStore_eq]

set_option linter.unusedSimpArgs false in
/-- `assign2` (the four variable/place combinations of the source, for two places that are neither
    map elements nor `_`) = the same two phases -/
theorem assign2_eq_go (s : PS) (c0 c1 : Cell) (r0 r1 : Rhs) :
    assign2 s c0 c1 r0 r1 = goAssign s [c0, c1] [r0, r1] := by
  unfold assign2 goAssign
  simp only [resolveAll, evalAll, placefun]
  cases c0 <;> cases c1 <;>
    simp only [isVarCell, resolve_var, bind, Except.bind, pure, Except.pure, storeAll]
  all_goals repeat' split
  all_goals try subst_vars
  all_goals try simp_all [storeAll]
  all_goals try rfl
  all_goals (rename_i h; cases h; rfl)


end C02Multi
