import Model.ScanDelta
/-! Lemmas for C23: the patched arms coincide with the unpatched ones off the extension characters;
    properties of `semiBack`. -/
namespace ScanDelta

/-! ## the three patch points -/

theorem etokenLookup_of_not_ext (c : Cfg) (std : String → Tok) (lit : String)
    (h : isExtWord c lit = false) : etokenLookup c.genericsV1 std lit = std lit := by
  unfold isExtWord at h
  simp only [Bool.or_eq_false_iff] at h
  obtain ⟨⟨h1, h2⟩, h3⟩ := h
  unfold etokenLookup
  simp [h1, h2, h3]

theorem r_slash_ne_hash : (r '/' == r '#') = false := by decide
theorem r_slash_ne_bang : r '/' ≠ r '!' := by decide
theorem r_star_ne_bang : r '*' ≠ r '!' := by decide

/-- on the character '/', the patched arm `case '/', '#'` is the go1.13 arm `case '/'` -/
theorem forkSlashArm_slash (B : Base) (c : Cfg) (pos : Nat) (s : St) :
    forkSlashArm B c (r '/') pos s = baseSlashArm B c (r '/') pos s := by
  unfold forkSlashArm baseSlashArm
  simp only [beq_self_eq_true, r_slash_ne_hash, Bool.true_and, Bool.false_and, Bool.or_false]
  by_cases h : (s.ch == r '/' || s.ch == r '*') = true
  · have hb : (s.ch == r '!') = false := by
      simp only [Bool.or_eq_true, beq_iff_eq] at h
      rcases h with h | h
      · rw [h]; exact beq_eq_false_iff_ne.mpr r_slash_ne_bang
      · rw [h]; exact beq_eq_false_iff_ne.mpr r_star_ne_bang
    simp [h, hb]
  · simp [h]

theorem forkExtra_none (B : Base) (c : Cfg) (ch : Int) (pos : Nat) (s : St) (h : ch ≠ c.macroChar) :
    (forkPatch B c).extraArm ch pos s = none := by
  simp [forkPatch, h]

/-! ## one call of Scan -/

theorem scanFork_eq_scanBase (B : Base) (c : Cfg) :
    ∀ (fuel : Nat) (s : St), safeScan B c fuel s = true → scanFork B c fuel s = scanBase B c fuel s := by
  intro fuel
  induction fuel with
  | zero => intro s _; rfl
  | succ fuel ih =>
    intro s0 hsafe
    simp only [safeScan, Bool.and_eq_true] at hsafe
    obtain ⟨hat, hagain⟩ := hsafe
    unfold scanFork scanBase
    unfold scan
    simp only []
    by_cases hl : B.isLetter (B.skipWhitespace s0).ch = true
    · -- identifier arm: only the keyword lookup differs
      simp only [hl, if_true]
      have hw : isExtWord c (B.scanIdentifier (B.skipWhitespace s0)).1 = false := by
        simpa [safeAt, hl] using hat
      have hlk : (forkPatch B c).lookup (B.scanIdentifier (B.skipWhitespace s0)).1
          = (basePatch B c).lookup (B.scanIdentifier (B.skipWhitespace s0)).1 :=
        etokenLookup_of_not_ext c B.lookup _ hw
      rw [hlk]
    · simp only [hl, if_false, Bool.false_eq_true]
      by_cases hn : B.isNumberStart (B.skipWhitespace s0) = true
      · simp only [hn, if_true]
      · simp only [hn, if_false, Bool.false_eq_true]
        by_cases he : ((B.skipWhitespace s0).ch == -1) = true
        · simp only [he, if_true]
        · simp only [he, if_false, Bool.false_eq_true]
          by_cases hnl : ((B.skipWhitespace s0).ch == r '\n') = true
          · simp only [hnl, if_true]
          · simp only [hnl, if_false, Bool.false_eq_true]
            -- the character is neither '#' nor an unshadowed macro character
            have hat' : ((B.skipWhitespace s0).ch != r '#' &&
                ((B.skipWhitespace s0).ch != c.macroChar ||
                  shadowed B (B.skipWhitespace s0).ch (B.next (B.skipWhitespace s0)))) = true := by
              simpa [safeAt, hl, hn] using hat
            simp only [Bool.and_eq_true, bne_iff_ne, ne_eq, Bool.or_eq_true] at hat'
            obtain ⟨hhash, hmc⟩ := hat'
            have hhash' : ((B.skipWhitespace s0).ch == r '#') = false := beq_eq_false_iff_ne.mpr hhash
            by_cases hs : ((B.skipWhitespace s0).ch == r '/') = true
            · -- the '/' arm
              have hch : (B.skipWhitespace s0).ch = r '/' := by simpa using hs
              have harm : (forkPatch B c).slashArm (B.skipWhitespace s0).ch (B.skipWhitespace s0).off (B.next (B.skipWhitespace s0))
                  = (basePatch B c).slashArm (B.skipWhitespace s0).ch (B.skipWhitespace s0).off (B.next (B.skipWhitespace s0)) := by
                simp only [forkPatch, basePatch, hch]
                exact forkSlashArm_slash B c _ _
              simp only [forkPatch, basePatch, hs, hhash', Bool.or_false, if_true] at harm ⊢
              rw [harm]
              -- restart after a skipped comment
              cases harm' : baseSlashArm B c (B.skipWhitespace s0).ch (B.skipWhitespace s0).off (B.next (B.skipWhitespace s0)) with
              | ret tok lit s => rfl
              | tok tok lit ins s => rfl
              | again s' =>
                simp only []
                have hl' : B.isLetter (B.skipWhitespace s0).ch = false := by simpa using hl
                have hn' : B.isNumberStart (B.skipWhitespace s0) = false := by simpa using hn
                have he' : ((B.skipWhitespace s0).ch == -1) = false := by simpa using he
                have hnl' : ((B.skipWhitespace s0).ch == r '\n') = false := by simpa using hnl
                have htgt : againTarget B c s0 = some s' := by
                  unfold againTarget
                  simp only [hl', hn', he', hnl', bne, hs, Bool.not_true, Bool.or_self, Bool.false_eq_true, if_false, harm']
                rw [htgt] at hagain
                exact ih s' hagain
            · -- not '/', not '#': plain arms, then the macro arm only if the character is the macro character
              simp only [forkPatch, basePatch, hs, hhash', Bool.or_false, if_false, Bool.false_eq_true]
              cases hp : B.plainArm (B.skipWhitespace s0).ch (B.next (B.skipWhitespace s0)) with
              | some v => rfl
              | none =>
                have hne : (B.skipWhitespace s0).ch ≠ c.macroChar := by
                  rcases hmc with h | h
                  · exact h
                  · exfalso
                    simp only [shadowed, he, hnl, hs, hp, Option.isSome_none, Bool.or_false] at h
                    exact absurd h (by decide)
                have hne' : ((B.skipWhitespace s0).ch == c.macroChar) = false := beq_eq_false_iff_ne.mpr hne
                simp only [hne', Bool.false_eq_true, if_false]
                cases hlate : B.lateArm (B.skipWhitespace s0).ch (B.next (B.skipWhitespace s0)) with
                | some v => obtain ⟨t, l, i, s⟩ := v; rfl
                | none => rfl

/-! ## token streams -/

theorem run_fork_eq_base (B : Base) (c : Cfg) (fuel : Nat) :
    ∀ (n : Nat) (s : St), safeRun B c fuel n s = true →
      run (scanFork B c) fuel n s = run (scanBase B c) fuel n s := by
  intro n
  induction n with
  | zero => intro s _; rfl
  | succ n ih =>
    intro s h
    simp only [safeRun, Bool.and_eq_true] at h
    obtain ⟨h1, h2⟩ := h
    simp only [run]
    rw [scanFork_eq_scanBase B c fuel s h1, ih _ h2]

/-- an invariant of the unpatched run that implies `safeScan` gives `safeRun` for every length -/
theorem safeRun_of_invariant (B : Base) (c : Cfg) (fuel : Nat) (Inv : St → Prop)
    (hsafe : ∀ s, Inv s → safeScan B c fuel s = true)
    (hstep : ∀ s, Inv s → Inv (scanBase B c fuel s).st) :
    ∀ (n : Nat) (s : St), Inv s → safeRun B c fuel n s = true := by
  intro n
  induction n with
  | zero => intro s _; rfl
  | succ n ih =>
    intro s hs
    simp only [safeRun, Bool.and_eq_true]
    exact ⟨hsafe s hs, ih _ (hstep s hs)⟩

/-! ## etoken.Lookup as an if-chain over a table -/

/-- `etoken.Lookup` evaluated over the regenerated if-chain `(word, token, needs GENERICS_V1_CXX)` -/
def lookupChain (arms : List (String × Tok × Bool)) (genericsV1 : Bool) (std : String → Tok) (lit : String) : Tok :=
  match arms with
  | [] => std lit
  | (w, t, g) :: rest => if (!g || genericsV1) && lit == w then t else lookupChain rest genericsV1 std lit

theorem lookupChain_of_not_mem (arms : List (String × Tok × Bool)) (g : Bool) (std : String → Tok) (lit : String)
    (h : lit ∉ arms.map (·.1)) : lookupChain arms g std lit = std lit := by
  induction arms with
  | nil => rfl
  | cons a rest ih =>
    obtain ⟨w, t, gg⟩ := a
    simp only [List.map_cons, List.mem_cons, not_or] at h
    simp only [lookupChain]
    have : (lit == w) = false := beq_eq_false_iff_ne.mpr h.1
    simp [this, ih h.2]

/-! ## semiBack -/

def allComments (l : List Tk) : Prop := ∀ t ∈ l, t.kind = .comment

theorem dropComments_of_allComments {l : List Tk} (h : allComments l) : dropComments l = [] := by
  unfold dropComments
  rw [List.filter_eq_nil_iff]
  intro t ht
  simp [h t ht]

theorem comments_of_allComments {l : List Tk} (h : allComments l) : comments l = l := by
  unfold comments
  rw [List.filter_eq_self]
  intro t ht
  simp [h t ht]

theorem allComments_snoc {l : List Tk} {t : Tk} (h : allComments l) (ht : t.kind = .comment) :
    allComments (l ++ [t]) := by
  intro x hx
  rcases List.mem_append.mp hx with hx | hx
  · exact h x hx
  · simp at hx; rw [hx]; exact ht

theorem dropComments_append (a b : List Tk) : dropComments (a ++ b) = dropComments a ++ dropComments b := by
  simp [dropComments, List.filter_append]

theorem comments_append (a b : List Tk) : comments (a ++ b) = comments a ++ comments b := by
  simp [comments, List.filter_append]

theorem dropComments_cons_comment {t : Tk} (l : List Tk) (h : t.kind = .comment) : dropComments (t :: l) = dropComments l := by
  simp [dropComments, h]

theorem dropComments_cons_other {t : Tk} (l : List Tk) (h : t.kind ≠ .comment) : dropComments (t :: l) = t :: dropComments l := by
  simp [dropComments, h]

theorem comments_cons_comment {t : Tk} (l : List Tk) (h : t.kind = .comment) : comments (t :: l) = t :: comments l := by
  simp [comments, h]

theorem comments_cons_other {t : Tk} (l : List Tk) (h : t.kind ≠ .comment) : comments (t :: l) = comments l := by
  simp [comments, h]

theorem allComments_nil : allComments [] := by intro x hx; cases hx

/-- the comment-free stream is unchanged by `semiBack` up to the position of automatic semicolons -/
theorem semiBackAux_dropComments (l : List Tk) :
    ∀ pend, allComments pend →
      (dropComments (semiBackAux l pend)).map erasePos = (dropComments l).map erasePos := by
  induction l with
  | nil =>
    intro pend hp
    simp only [semiBackAux]
    rw [dropComments_of_allComments hp]; rfl
  | cons t rest ih =>
    intro pend hp
    cases hk : t.kind with
    | comment =>
      simp only [semiBackAux, hk]
      rw [ih _ (allComments_snoc hp hk), dropComments_cons_comment _ hk]
    | autoSemi =>
      have hne : t.kind ≠ .comment := by rw [hk]; decide
      cases pend with
      | nil =>
        simp only [semiBackAux, hk]
        rw [dropComments_cons_other _ hne, dropComments_cons_other _ hne, List.map_cons, List.map_cons, ih [] allComments_nil]
      | cons cm pend' =>
        simp only [semiBackAux, hk]
        have hne' : ({ kind := Kind.autoSemi, pos := cm.pos } : Tk).kind ≠ .comment := by simp
        rw [dropComments_cons_other _ hne', dropComments_cons_other _ hne, List.map_cons, List.map_cons, ih _ hp]
        simp [erasePos, hk]
    | tok =>
      have hne : t.kind ≠ .comment := by rw [hk]; decide
      simp only [semiBackAux, hk]
      rw [dropComments_append, dropComments_of_allComments hp, List.nil_append, dropComments_cons_other _ hne,
        dropComments_cons_other _ hne, List.map_cons, List.map_cons, ih [] allComments_nil]
    | semi =>
      have hne : t.kind ≠ .comment := by rw [hk]; decide
      simp only [semiBackAux, hk]
      rw [dropComments_append, dropComments_of_allComments hp, List.nil_append, dropComments_cons_other _ hne,
        dropComments_cons_other _ hne, List.map_cons, List.map_cons, ih [] allComments_nil]

/-- the comments are unchanged (same comments, same order, same positions) -/
theorem semiBackAux_comments (l : List Tk) :
    ∀ pend, allComments pend → comments (semiBackAux l pend) = pend ++ comments l := by
  induction l with
  | nil =>
    intro pend hp
    simp only [semiBackAux]
    rw [comments_of_allComments hp]; simp [comments]
  | cons t rest ih =>
    intro pend hp
    cases hk : t.kind with
    | comment =>
      simp only [semiBackAux, hk]
      rw [ih _ (allComments_snoc hp hk), comments_cons_comment _ hk]
      simp
    | autoSemi =>
      have hne : t.kind ≠ .comment := by rw [hk]; decide
      cases pend with
      | nil =>
        simp only [semiBackAux, hk]
        rw [comments_cons_other _ hne, comments_cons_other _ hne, ih [] allComments_nil]
      | cons cm pend' =>
        simp only [semiBackAux, hk]
        have hne' : ({ kind := Kind.autoSemi, pos := cm.pos } : Tk).kind ≠ .comment := by simp
        rw [comments_cons_other _ hne', comments_cons_other _ hne, ih _ hp]
    | tok =>
      have hne : t.kind ≠ .comment := by rw [hk]; decide
      simp only [semiBackAux, hk]
      rw [comments_append, comments_of_allComments hp, comments_cons_other _ hne, comments_cons_other _ hne,
        ih [] allComments_nil, List.nil_append]
    | semi =>
      have hne : t.kind ≠ .comment := by rw [hk]; decide
      simp only [semiBackAux, hk]
      rw [comments_append, comments_of_allComments hp, comments_cons_other _ hne, comments_cons_other _ hne,
        ih [] allComments_nil, List.nil_append]

/-- no automatic semicolon directly follows a comment (`prev` = the previous token is a comment) -/
def noCommentBeforeAuto : Bool → List Tk → Bool
  | _, [] => true
  | prev, t :: rest =>
    match t.kind with
    | .comment => noCommentBeforeAuto true rest
    | .autoSemi => !prev && noCommentBeforeAuto false rest
    | _ => noCommentBeforeAuto false rest

/-- `semiBack` is the identity on streams in which no automatic semicolon directly follows a comment -/
theorem semiBackAux_id (l : List Tk) :
    ∀ pend, allComments pend → noCommentBeforeAuto (!pend.isEmpty) l = true → semiBackAux l pend = pend ++ l := by
  induction l with
  | nil => intro pend _ _; simp [semiBackAux]
  | cons t rest ih =>
    intro pend hp h
    cases hk : t.kind with
    | comment =>
      simp only [semiBackAux, hk]
      simp only [noCommentBeforeAuto, hk] at h
      have hne : (!(pend ++ [t]).isEmpty) = true := by simp
      rw [ih _ (allComments_snoc hp hk) (by rw [hne]; exact h)]
      simp
    | autoSemi =>
      simp only [noCommentBeforeAuto, hk, Bool.and_eq_true, Bool.not_eq_true', Bool.not_eq_false'] at h
      obtain ⟨hpe, hrest⟩ := h
      have : pend = [] := by simpa using hpe
      subst this
      simp only [semiBackAux, hk]
      rw [ih [] allComments_nil (by simpa using hrest)]
      simp
    | tok =>
      simp only [semiBackAux, hk]
      simp only [noCommentBeforeAuto, hk] at h
      rw [ih [] allComments_nil (by simpa using h)]
      simp
    | semi =>
      simp only [semiBackAux, hk]
      simp only [noCommentBeforeAuto, hk] at h
      rw [ih [] allComments_nil (by simpa using h)]
      simp

end ScanDelta
