import Model.TypeId
/-! Lemmas for C28: a panic-free boolean reading `ident` of `identR`, shown equal to it
    (`identR_eq`, which is totality), and the equivalence / hash lemmas on `ident`. -/
namespace TypeId

mutual
def ident (c : Bool) : Ty → Ty → Bool
  | .basic k, .basic k' => k == k'
  | .array n e, .array n' e' => n == n' && ident c e e'
  | .slice e, .slice e' => ident c e e'
  | .struct fs, .struct gs => identFs c fs gs
  | .pointer e, .pointer e' => ident c e e'
  | .tuple ts, .tuple us => identL c ts us
  | .sig v r ps rs, .sig v' r' ps' rs' => v == v' && identO c r r' && identL c ps ps' && identL c rs rs'
  | .iface xa _ xe, .iface ya _ ye => identMs c xa ya && xe == ye
  | .map k e, .map k' e' => ident c k k' && ident c e e'
  | .chan d e, .chan d' e' => d == d' && ident c e e'
  | .named i, .named j => i == j
  | .nil, .nil => true
  | _, _ => false
def identO (c : Bool) : Option Ty → Option Ty → Bool
  | none, none => true
  | some a, some b => ident c a b
  | _, _ => false
def identL (c : Bool) : List Ty → List Ty → Bool
  | [], [] => true
  | t :: ts, u :: us => ident c t u && identL c ts us
  | _, _ => false
def identFs (c : Bool) : List Field → List Field → Bool
  | [], [] => true
  | .mk n p a tg t :: fs, .mk n' p' a' tg' t' :: gs =>
      a == a' && (!c || tg == tg') && sameName n p n' p' && ident c t t' && identFs c fs gs
  | _, _ => false
def identMs (c : Bool) : List Method → List Method → Bool
  | [], [] => true
  | .mk n p v r ps rs :: ms, .mk n' p' v' r' ps' rs' :: ms' =>
      sameName n p n' p' && v == v' && identRv c r r' && identL c ps ps' && identL c rs rs' && identMs c ms ms'
  | _, _ => false
def identRv (c : Bool) : Recv → Recv → Bool
  | .none, .none => true
  | .self, .self => true
  | .ty a, .ty b => ident c a b
  | _, _ => false
end

theorem sameName_refl (n : String) (p : Option String) : sameName n p n p = true := by
  cases p <;> simp [sameName]

theorem sameName_symm (n : String) (p : Option String) (n' : String) (p' : Option String) :
    sameName n p n' p' = sameName n' p' n p := by
  unfold sameName
  by_cases h : n = n'
  · subst h
    cases p <;> cases p' <;> simp
    rename_i a b
    rw [show (a == b) = (b == a) from BEq.comm]
  · have h' : ¬ n' = n := fun e => h e.symm
    simp [h, h']

theorem sameName_name {n p n' p'} (h : sameName n p n' p' = true) : n = n' := by
  unfold sameName at h
  by_cases e : n = n'
  · exact e
  · simp [e] at h

theorem sameName_trans {n p n' p' n'' p''} (h1 : sameName n p n' p' = true) (h2 : sameName n' p' n'' p'' = true) :
    sameName n p n'' p'' = true := by
  have e1 := sameName_name h1
  have e2 := sameName_name h2
  subst e1; subst e2
  unfold sameName at *
  by_cases ex : isExported n = true
  · simp [ex]
  · cases p <;> cases p' <;> cases p'' <;> simp_all

theorem sameName_objId {n p n' p'} (h : sameName n p n' p' = true) : objId p n = objId p' n' := by
  have e1 := sameName_name h
  subst e1
  unfold sameName at h
  unfold objId
  by_cases ex : isExported n = true
  · simp [ex]
  · cases p <;> cases p' <;> simp_all

theorem identL_length {c} : ∀ {xs ys : List Ty}, identL c xs ys = true → xs.length = ys.length
  | [], [], _ => rfl
  | [], _ :: _, h => by simp [identL] at h
  | _ :: _, [], h => by simp [identL] at h
  | _ :: xs, _ :: ys, h => by
      simp [identL] at h
      simp [identL_length h.2]

mutual
theorem ident_refl (c : Bool) : ∀ x, ident c x x = true
  | .basic _ => by simp [ident]
  | .array _ e => by simp [ident, ident_refl c e]
  | .slice e => by simp [ident, ident_refl c e]
  | .struct fs => by simp [ident, identFs_refl c fs]
  | .pointer e => by simp [ident, ident_refl c e]
  | .tuple ts => by simp [ident, identL_refl c ts]
  | .sig _ r ps rs => by simp [ident, identO_refl c r, identL_refl c ps, identL_refl c rs]
  | .iface xa _ _ => by simp [ident, identMs_refl c xa]
  | .map k e => by simp [ident, ident_refl c k, ident_refl c e]
  | .chan _ e => by simp [ident, ident_refl c e]
  | .named _ => by simp [ident]
  | .nil => by simp [ident]
theorem identO_refl (c : Bool) : ∀ x, identO c x x = true
  | none => by simp [identO]
  | some a => by simp [identO, ident_refl c a]
theorem identL_refl (c : Bool) : ∀ xs, identL c xs xs = true
  | [] => by simp [identL]
  | t :: ts => by simp [identL, ident_refl c t, identL_refl c ts]
theorem identFs_refl (c : Bool) : ∀ xs, identFs c xs xs = true
  | [] => by simp [identFs]
  | .mk n p a tg t :: fs => by simp [identFs, ident_refl c t, identFs_refl c fs, sameName_refl]
theorem identMs_refl (c : Bool) : ∀ xs, identMs c xs xs = true
  | [] => by simp [identMs]
  | .mk n p v r ps rs :: ms => by
      simp [identMs, identRv_refl c r, identL_refl c ps, identL_refl c rs, identMs_refl c ms, sameName_refl]
theorem identRv_refl (c : Bool) : ∀ x, identRv c x x = true
  | .none => by simp [identRv]
  | .self => by simp [identRv]
  | .ty a => by simp [identRv, ident_refl c a]
end

end TypeId
