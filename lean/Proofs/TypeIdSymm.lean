import Proofs.TypeId
namespace TypeId

private theorem nbeq_comm (a b : Nat) : (a == b) = (b == a) := BEq.comm
private theorem bbeq_comm (a b : Bool) : (a == b) = (b == a) := by cases a <;> cases b <;> rfl
private theorem sbeq_comm (a b : String) : (a == b) = (b == a) := BEq.comm
private theorem lbeq_comm (a b : List Nat) : (a == b) = (b == a) := BEq.comm

mutual
theorem ident_symm (c : Bool) : ∀ x y, ident c x y = ident c y x
  | .basic k, y => by
      cases y with
      | basic k' => simp only [ident]; exact nbeq_comm _ _
      | _ => simp [ident]
  | .array n e, y => by
      cases y with
      | array n' e' => simp only [ident, ident_symm c e e', nbeq_comm n n']
      | _ => simp [ident]
  | .slice e, y => by
      cases y with
      | slice e' => simp only [ident, ident_symm c e e']
      | _ => simp [ident]
  | .struct fs, y => by
      cases y with
      | struct gs => simp only [ident, identFs_symm c fs gs]
      | _ => simp [ident]
  | .pointer e, y => by
      cases y with
      | pointer e' => simp only [ident, ident_symm c e e']
      | _ => simp [ident]
  | .tuple ts, y => by
      cases y with
      | tuple us => simp only [ident, identL_symm c ts us]
      | _ => simp [ident]
  | .sig v r ps rs, y => by
      cases y with
      | sig v' r' ps' rs' =>
          simp only [ident, identO_symm c r r', identL_symm c ps ps', identL_symm c rs rs', bbeq_comm v v']
      | _ => simp [ident]
  | .iface xa _ xe, y => by
      cases y with
      | iface ya _ ye => simp only [ident, identMs_symm c xa ya, lbeq_comm xe ye]
      | _ => simp [ident]
  | .map k e, y => by
      cases y with
      | map k' e' => simp only [ident, ident_symm c k k', ident_symm c e e']
      | _ => simp [ident]
  | .chan d e, y => by
      cases y with
      | chan d' e' => simp only [ident, ident_symm c e e', nbeq_comm d d']
      | _ => simp [ident]
  | .named i, y => by
      cases y with
      | named j => simp only [ident]; exact nbeq_comm _ _
      | _ => simp [ident]
  | .nil, y => by cases y <;> simp [ident]
theorem identO_symm (c : Bool) : ∀ x y, identO c x y = identO c y x
  | none, none => rfl
  | none, some _ => by simp [identO]
  | some _, none => by simp [identO]
  | some a, some b => by simp only [identO, ident_symm c a b]
theorem identL_symm (c : Bool) : ∀ xs ys, identL c xs ys = identL c ys xs
  | [], [] => rfl
  | [], _ :: _ => by simp [identL]
  | _ :: _, [] => by simp [identL]
  | t :: ts, u :: us => by simp only [identL, ident_symm c t u, identL_symm c ts us]
theorem identFs_symm (c : Bool) : ∀ xs ys, identFs c xs ys = identFs c ys xs
  | [], [] => rfl
  | [], _ :: _ => by simp [identFs]
  | _ :: _, [] => by simp [identFs]
  | .mk n p a tg t :: fs, .mk n' p' a' tg' t' :: gs => by
      simp only [identFs, ident_symm c t t', identFs_symm c fs gs, sameName_symm n p n' p', bbeq_comm a a', sbeq_comm tg tg']
theorem identMs_symm (c : Bool) : ∀ xs ys, identMs c xs ys = identMs c ys xs
  | [], [] => rfl
  | [], _ :: _ => by simp [identMs]
  | _ :: _, [] => by simp [identMs]
  | .mk n p v r ps rs :: ms, .mk n' p' v' r' ps' rs' :: ms' => by
      simp only [identMs, identRv_symm c r r', identL_symm c ps ps', identL_symm c rs rs', identMs_symm c ms ms',
        sameName_symm n p n' p', bbeq_comm v v']
theorem identRv_symm (c : Bool) : ∀ x y, identRv c x y = identRv c y x
  | .none, y => by cases y <;> simp [identRv]
  | .self, y => by cases y <;> simp [identRv]
  | .ty a, y => by
      cases y with
      | ty b => simp only [identRv, ident_symm c a b]
      | _ => simp [identRv]
end

end TypeId
