import Model.Dispatch
import Proofs.Pow2
import Proofs.C01Misc
/-! End-to-end correctness of the power-of-two shortcuts: from the constant operand through the
    prologue of mulPow2/quoPow2/remPow2 (`y = |c|`, guard `isPowerOfTwo(y)`, `shift = integerLen(y)-1`,
    `y_1 = T(y-1)`) to the selected arm's IR: the result is Go's `x / c`, `x % c`, `x * c`. -/
namespace C01Pow2
open GoSpec Pow2

theorem mask_setWidth (w j : Nat) (hj : j < w) (hw : w ≤ 64) :
    (BitVec.twoPow 64 j - 1#64).setWidth w = BitVec.twoPow w j - 1#w := by
  apply BitVec.eq_of_toNat_eq
  rw [BitVec.toNat_setWidth, twoPow_sub_one_toNat (w := 64) j (by omega), twoPow_sub_one_toNat (w := w) j hj]
  have h1 : 2 ^ j < 2 ^ w := Nat.pow_lt_pow_right (by omega) hj
  have h0 : 0 < 2 ^ j := Nat.two_pow_pos j
  exact Nat.mod_eq_of_lt (by omega)

theorem twoPow_of_toInt_pos (w j : Nat) (c : BitVec w) (h : c.toInt = ((2 ^ j : Nat) : Int)) :
    j + 1 < w ∧ c = BitVec.twoPow w j := by
  have hb := toInt_bounds c
  have hlt : 2 ^ j < 2 ^ (w - 1) := by omega
  have hj : j < w - 1 := (Nat.pow_lt_pow_iff_right (by omega)).mp hlt
  refine ⟨by omega, ?_⟩
  apply BitVec.toInt_inj.mp
  rw [h, BitVec.toInt_twoPow]
  simp [show ¬ w ≤ j by omega, show ¬ j + 1 = w by omega]

theorem negTwoPow_of_toInt (w j : Nat) (c : BitVec w) (hw : 0 < w) (h : c.toInt = -((2 ^ j : Nat) : Int)) :
    j < w ∧ c = -(BitVec.twoPow w j) := by
  have hb := toInt_bounds c
  have hle : 2 ^ j ≤ 2 ^ (w - 1) := by omega
  have hj : j ≤ w - 1 := (Nat.pow_le_pow_iff_right (by omega)).mp hle
  refine ⟨by omega, ?_⟩
  apply BitVec.toInt_inj.mp
  rw [h, toInt_neg_twoPow j (by omega)]

/-- the prologue of mulPow2/quoPow2/remPow2: if the guard `isPowerOfTwo(y)` holds, then the constant
    is `±2^j`, `shift = j`, and `T(y-1)` is the mask `2^j - 1` at the operand width -/
theorem pow2Prologue_spec (ik : IKind) (hw0 : 0 < ik.w) (hw : ik.w ≤ 64) (c : BitVec ik.w) (p : Dispatch.Pow2Info)
    (hp : Dispatch.pow2Prologue (.int ik c) = some p) (hpow : isPowerOfTwo p.y = true) :
    ∃ j, j < ik.w ∧ p.y = BitVec.twoPow 64 j ∧ integerLen p.y = j + 1 ∧
      (p.y - 1#64).setWidth ik.w = BitVec.twoPow ik.w j - 1#ik.w ∧
      (if ik.signed then (if p.ypositive then c = BitVec.twoPow ik.w j ∧ j + 1 < ik.w else c = -(BitVec.twoPow ik.w j))
       else (p.ypositive = true ∧ c = BitVec.twoPow ik.w j)) := by
  obtain ⟨j, hj64, hy, hlen⟩ := isPowerOfTwo_spec p.y hpow
  unfold Dispatch.pow2Prologue at hp
  cases hs : ik.signed
  · -- unsigned: y = zero extension of c
    simp [hs, I.conv] at hp
    subst hp
    simp only at hy hlen ⊢
    have hn : c.toNat = 2 ^ j := by
      have := congrArg BitVec.toNat hy
      rw [BitVec.toNat_setWidth, BitVec.toNat_twoPow_of_lt hj64] at this
      have hlt : c.toNat < 2 ^ 64 := Nat.lt_of_lt_of_le c.isLt (Nat.pow_le_pow_right (by omega) hw)
      rwa [Nat.mod_eq_of_lt hlt] at this
    have hjw : j < ik.w := by
      have := c.isLt
      rw [hn] at this
      exact (Nat.pow_lt_pow_iff_right (by omega)).mp this
    refine ⟨j, hjw, hy, hlen, ?_, ?_⟩
    · rw [hy]; exact mask_setWidth ik.w j hjw hw
    · simp
      apply BitVec.eq_of_toNat_eq
      rw [hn, BitVec.toNat_twoPow_of_lt hjw]
  · simp [hs, I.conv] at hp
    have hsx : (c.signExtend 64).toInt = c.toInt := BitVec.toInt_signExtend_of_le hw
    by_cases hneg : (c.signExtend 64).slt 0#64 = true
    · simp [hneg] at hp
      subst hp
      simp only at hy hlen ⊢
      -- -sy = 2^j  ⇒  sy = -(2^j)
      have hsy : c.signExtend 64 = -(BitVec.twoPow 64 j) := by
        rw [← hy]; simp
      have hci : c.toInt = -((2 ^ j : Nat) : Int) := by
        rw [← hsx, hsy, toInt_neg_twoPow j hj64]
      obtain ⟨hjw, hc⟩ := negTwoPow_of_toInt ik.w j c hw0 hci
      refine ⟨j, hjw, hy, hlen, ?_, ?_⟩
      · rw [hy]; exact mask_setWidth ik.w j hjw hw
      · simp [hc]
    · simp [hneg] at hp
      subst hp
      simp only at hy hlen ⊢
      have hnn : ¬ (c.signExtend 64).toInt < 0 := by
        intro h
        apply hneg
        rw [slt_zero]; simp [h]
      have hj63 : j + 1 ≠ 64 := by
        intro h63
        apply hnn
        rw [hy, BitVec.toInt_twoPow]
        simp [show ¬ 64 ≤ j by omega, h63]
        have h2 : (0 : Int) < (2 : Int) ^ j := Int.pow_pos (by omega)
        omega
      have hci : c.toInt = ((2 ^ j : Nat) : Int) := by
        rw [← hsx, hy, BitVec.toInt_twoPow]
        simp [show ¬ 64 ≤ j by omega, hj63]
      obtain ⟨hjw, hc⟩ := twoPow_of_toInt_pos ik.w j c hci
      refine ⟨j, by omega, hy, hlen, ?_, ?_⟩
      · rw [hy]; exact mask_setWidth ik.w j (by omega) hw
      · simp [hc, hjw]

open ClosureIR C01Arms GoSpec.Outcome in
/-- **End to end for the power-of-two shortcuts.**  Let `c` be a constant of a signed/unsigned integer
    kind for which the prologue's guard `isPowerOfTwo(y)` holds.  Then the arm selected by `ypositive`,
    run with the prologue's captured `y`, `integerLen(y)`, computes Go's `x / c`, `x % c`, `x * c`
    for every `x`. -/
theorem pow2_const_sound (F : FloatOps) (k : Kind) (ik : IKind) (hk : k.ikind? = some ik) (hw0 : 0 < ik.w) (hw : ik.w ≤ 64)
    (c x : BitVec ik.w) (p : Dispatch.Pow2Info) (hp : Dispatch.pow2Prologue (.int ik c) = some p)
    (hpow : isPowerOfTwo p.y = true) (ρ : Store)
    (h : C01Misc.pow2Ctx ρ k (.ok (.int ik x)) p.y (BitVec.ofNat 8 (integerLen p.y))) :
    (ik.signed = true →
      evalArm F ρ ((quoPow2Signed k).getD (if p.ypositive then 0 else 1) default).arm = some (.ok (.int ik (x.sdiv c))) ∧
      evalArm F ρ (remPow2Signed k).arm = some (.ok (.int ik (x.srem c))) ∧
      (p.ypositive = true → ∀ sub, evalArm F ρ (mulPow2Default k sub).arm = some (.ok (.int ik (x * c)))) ∧
      (p.ypositive = false → evalArm F ρ (mulPow2Neg k).arm = some (.ok (.int ik (x * c))))) ∧
    (ik.signed = false →
      evalArm F ρ (quoPow2Unsigned k).arm = some (.ok (.int ik (x / c))) ∧
      evalArm F ρ (remPow2Unsigned k).arm = some (.ok (.int ik (x % c))) ∧
      (∀ sub, evalArm F ρ (mulPow2Default k sub).arm = some (.ok (.int ik (x * c))))) := by
  obtain ⟨j, hjw, hy, hlen, hmask, hc⟩ := pow2Prologue_spec ik hw0 hw c p hp hpow
  have hL : (BitVec.ofNat 8 (integerLen p.y) - 1).toNat = j := by
    rw [hlen]
    have : BitVec.ofNat 8 (j + 1) - 1 = BitVec.ofNat 8 j := by
      apply BitVec.eq_of_toNat_eq
      simp [BitVec.toNat_sub, BitVec.toNat_ofNat]
      omega
    rw [this, BitVec.toNat_ofNat]
    exact Nat.mod_eq_of_lt (by omega)
  constructor
  · intro hs
    simp only [hs, if_true] at hc
    have hq := C01Misc.quoPow2_eval F k ik hk hs x p.y _ ρ h (!p.ypositive)
    have hr := C01Misc.remPow2_eval F k ik hk hs x p.y ρ h.1 h.2.1
    have hm := C01Misc.mulPow2_default_eval F k ik
    rw [hL, hmask] at hq
    rw [hmask] at hr
    cases hyp : p.ypositive
    · simp only [hyp, Bool.false_eq_true, if_false] at hc
      subst hc
      simp only [hyp, Bool.not_false, if_true, Bool.not_true] at hq
      refine ⟨?_, ?_, ?_, ?_⟩
      · simpa [quoPow2_neg_correct x j hjw] using hq
      · rw [hr, (remPow2_correct x j hjw).2]
      · intro hcon; cases hcon
      · intro _
        have := (hm [] x p.y _ ρ h).2
        rw [hL] at this
        rw [this, (mulPow2_correct x j).2]
    · simp only [hyp, if_true] at hc
      obtain ⟨hc, hj1⟩ := hc
      subst hc
      simp only [hyp, Bool.not_true, Bool.false_eq_true, if_false, Bool.not_false] at hq
      refine ⟨?_, ?_, ?_, ?_⟩
      · simpa [quoPow2_correct x j hj1] using hq
      · rw [hr, (remPow2_correct x j hjw).1]
      · intro _ sub
        have := (hm sub x p.y _ ρ h).1
        rw [hL] at this
        rw [this, (mulPow2_correct x j).1]
      · intro hcon; cases hcon
  · intro hs
    simp only [hs, Bool.false_eq_true, if_false] at hc
    obtain ⟨_, hc⟩ := hc
    subst hc
    have hq := C01Misc.quoPow2U_eval F k ik hs x p.y _ ρ h
    have hr := C01Misc.remPow2U_eval F k ik hk hs x p.y ρ h.1 h.2.1
    rw [hL] at hq
    rw [hmask] at hr
    refine ⟨?_, ?_, ?_⟩
    · rw [hq, quoPow2U_correct x j hjw]
    · rw [hr, remPow2U_correct x j hjw]
    · intro sub
      have := (C01Misc.mulPow2_default_eval F k ik sub x p.y _ ρ h).1
      rw [hL] at this
      rw [this, (mulPow2_correct x j).1]

end C01Pow2
