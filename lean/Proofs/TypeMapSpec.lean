import Proofs.TypeMap
/-! The specification side: a plain association list scanned linearly with `ident`, and the
    refinement of every Set/At/Delete/Len history. -/
namespace TypeMap
variable {K : Type}

abbrev AL (K : Type) := List (K × Nat)

/-- first entry whose key is identical to k -/
def alGet (o : Ops K) : AL K → K → Option Nat
  | [], _ => none
  | (k', v) :: r, k => if o.ident k k' then some v else alGet o r k

/-- replace the value of the first identical key, else append -/
def alSet (o : Ops K) : AL K → K → Nat → AL K
  | [], k, v => [(k, v)]
  | (k', v') :: r, k, v => if o.ident k k' then (k', v) :: r else (k', v') :: alSet o r k v

/-- remove the first identical key -/
def alDel (o : Ops K) : AL K → K → AL K
  | [], _ => []
  | (k', v') :: r, k => if o.ident k k' then r else (k', v') :: alDel o r k

/-- keys admissible and pairwise not identical -/
def ALInv (o : Ops K) (good : K → Prop) : AL K → Prop
  | [] => True
  | (k, _) :: r => good k ∧ (∀ k' v', (k', v') ∈ r → o.ident k k' = false) ∧ ALInv o good r

section
variable {o : Ops K} {good : K → Prop}

theorem alGet_none {k : K} : ∀ {al : AL K}, alGet o al k = none → ∀ k' v', (k', v') ∈ al → o.ident k k' = false
  | [], _, _, _, hm => by simp at hm
  | (k0, v0) :: r, h, k', v', hm => by
      simp only [alGet] at h
      cases e : o.ident k k0 with
      | true => simp [e] at h
      | false =>
        simp [e] at h
        simp only [List.mem_cons, Prod.mk.injEq] at hm
        rcases hm with ⟨e1, _⟩ | hm
        · subst e1; exact e
        · exact alGet_none h k' v' hm

theorem alGet_none_of {k : K} : ∀ {al : AL K}, (∀ k' v', (k', v') ∈ al → o.ident k k' = false) → alGet o al k = none
  | [], _ => rfl
  | (k0, v0) :: r, h => by
      simp only [alGet, h k0 v0 (by simp)]
      exact alGet_none_of fun k' v' hm => h k' v' (by simp [hm])

theorem ALInv_good : ∀ {al : AL K}, ALInv o good al → ∀ {k v}, (k, v) ∈ al → good k
  | [], _, _, _, hm => by simp at hm
  | (k0, v0) :: r, ha, k, v, hm => by
      simp only [List.mem_cons, Prod.mk.injEq] at hm
      rcases hm with ⟨e, _⟩ | hm
      · subst e; exact ha.1
      · exact ALInv_good (al := r) ha.2.2 hm

theorem alSet_mem {k : K} {v : Nat} : ∀ {al : AL K} {k' v'}, (k', v') ∈ alSet o al k v →
    (k' = k ∧ alGet o al k = none) ∨ ∃ v'', (k', v'') ∈ al
  | [], k', v', hm => by simp [alSet] at hm; exact .inl ⟨hm.1, rfl⟩
  | (k0, v0) :: r, k', v', hm => by
      simp only [alSet] at hm
      cases e : o.ident k k0 with
      | true =>
        simp [e] at hm
        rcases hm with ⟨e1, _⟩ | hm
        · subst e1; exact .inr ⟨v0, by simp⟩
        · exact .inr ⟨v', by simp [hm]⟩
      | false =>
        simp [e] at hm
        rcases hm with ⟨e1, _⟩ | hm
        · subst e1; exact .inr ⟨v0, by simp⟩
        · rcases alSet_mem hm with ⟨h1, h2⟩ | ⟨v'', h2⟩
          · exact .inl ⟨h1, by simp [alGet, e, h2]⟩
          · exact .inr ⟨v'', by simp [h2]⟩

theorem ALInv_alSet (E : Equiv o good) {k : K} (v : Nat) (gk : good k) : ∀ {al : AL K}, ALInv o good al → ALInv o good (alSet o al k v)
  | [], _ => ⟨gk, by simp, trivial⟩
  | (k0, v0) :: r, ha => by
      simp only [alSet]
      cases e : o.ident k k0 with
      | true => simp only [if_true]; exact ha
      | false =>
        simp only [Bool.false_eq_true, if_false]
        refine ⟨ha.1, ?_, ALInv_alSet E v gk ha.2.2⟩
        intro k' v' hm
        rcases alSet_mem hm with ⟨h1, _⟩ | ⟨v'', h2⟩
        · subst h1; exact E.symm_false gk ha.1 e
        · exact ha.2.1 k' v'' h2

theorem alGet_alSet (E : Equiv o good) {k k' : K} (v : Nat) (gk : good k) (gk' : good k') :
    ∀ {al : AL K}, ALInv o good al → alGet o (alSet o al k v) k' = if o.ident k k' then some v else alGet o al k'
  | [], _ => by
      simp only [alSet, alGet]
      cases e1 : o.ident k k' with
      | true => simp [E.symm k k' gk gk' e1]
      | false => simp [E.symm_false gk gk' e1]
  | (k0, v0) :: r, ha => by
      simp only [alSet]
      cases e : o.ident k k0 with
      | true =>
        simp only [if_true, alGet]
        cases e1 : o.ident k k' with
        | true => simp [E.trans k' k k0 gk' gk ha.1 (E.symm k k' gk gk' e1) e]
        | false =>
          have : o.ident k' k0 = false := by
            cases e2 : o.ident k' k0 with
            | false => rfl
            | true =>
              have := E.trans k k0 k' gk ha.1 gk' e (E.symm k' k0 gk' ha.1 e2)
              rw [this] at e1; cases e1
          simp [this]
      | false =>
        simp only [Bool.false_eq_true, if_false, alGet]
        rw [alGet_alSet E v gk gk' ha.2.2]
        cases e1 : o.ident k k' with
        | false => simp
        | true =>
          have : o.ident k' k0 = false := by
            cases e2 : o.ident k' k0 with
            | false => rfl
            | true =>
              have := E.trans k k' k0 gk gk' ha.1 e1 e2
              rw [this] at e; cases e
          simp [this]

theorem alSet_length {k : K} {v : Nat} : ∀ (al : AL K),
    (alSet o al k v).length = if (alGet o al k).isSome then al.length else al.length + 1
  | [] => by simp [alSet, alGet]
  | (k0, v0) :: r => by
      simp only [alSet, alGet]
      by_cases e : o.ident k k0 = true
      · simp [e]
      · have ih := alSet_length (k := k) (v := v) r
        simp [e, ih]
        split <;> simp

theorem alDel_mem {k : K} : ∀ {al : AL K} {x}, x ∈ alDel o al k → x ∈ al
  | [], _, hm => by simp [alDel] at hm
  | (k0, v0) :: r, x, hm => by
      simp only [alDel] at hm
      cases e : o.ident k k0 with
      | true => simp [e] at hm; simp [hm]
      | false =>
        simp [e] at hm
        rcases hm with h | h
        · simp [h]
        · simp [alDel_mem h]

theorem ALInv_alDel {k : K} : ∀ {al : AL K}, ALInv o good al → ALInv o good (alDel o al k)
  | [], _ => trivial
  | (k0, v0) :: r, ha => by
      simp only [alDel]
      cases e : o.ident k k0 with
      | true => simp only [if_true]; exact ha.2.2
      | false =>
        simp only [Bool.false_eq_true, if_false]
        exact ⟨ha.1, fun k' v' hm => ha.2.1 k' v' (alDel_mem hm), ALInv_alDel ha.2.2⟩

theorem alGet_alDel (E : Equiv o good) {k k' : K} (gk : good k) (gk' : good k') :
    ∀ {al : AL K}, ALInv o good al → alGet o (alDel o al k) k' = if o.ident k k' then none else alGet o al k'
  | [], _ => by simp [alDel, alGet]
  | (k0, v0) :: r, ha => by
      simp only [alDel]
      cases e : o.ident k k0 with
      | true =>
        simp only [if_true, alGet]
        cases e1 : o.ident k k' with
        | true =>
          simp only [if_true]
          apply alGet_none_of
          intro k1 v1 hm
          cases e2 : o.ident k' k1 with
          | false => rfl
          | true =>
            have g1 := ALInv_good ha.2.2 hm
            have h1 := E.trans k0 k k' ha.1 gk gk' (E.symm k k0 gk ha.1 e) e1
            have := E.trans k0 k' k1 ha.1 gk' g1 h1 e2
            rw [ha.2.1 k1 v1 hm] at this; cases this
        | false =>
          have : o.ident k' k0 = false := by
            cases e2 : o.ident k' k0 with
            | false => rfl
            | true =>
              have := E.trans k k0 k' gk ha.1 gk' e (E.symm k' k0 gk' ha.1 e2)
              rw [this] at e1; cases e1
          simp [this]
      | false =>
        simp only [Bool.false_eq_true, if_false, alGet]
        rw [alGet_alDel E gk gk' ha.2.2]
        cases e1 : o.ident k k' with
        | false => simp
        | true =>
          have : o.ident k' k0 = false := by
            cases e2 : o.ident k' k0 with
            | false => rfl
            | true =>
              have := E.trans k k' k0 gk gk' ha.1 e1 e2
              rw [this] at e; cases e
          simp [this]

theorem alDel_length {k : K} : ∀ (al : AL K),
    ((alDel o al k).length : Int) = if (alGet o al k).isSome then (al.length : Int) - 1 else al.length
  | [] => by simp [alDel, alGet]
  | (k0, v0) :: r => by
      simp only [alDel, alGet]
      by_cases e : o.ident k k0 = true
      · simp [e]
      · have ih := alDel_length (k := k) r
        simp [e, ih]
        split <;> simp <;> omega

theorem set_length (m : Map K) (k : K) (v : Nat) :
    (set o m k v).1.length = if (get o m k).isSome then m.length else m.length + 1 := by
  cases ht : m.table with
  | none => simp [set, get, ht]
  | some t =>
    have hp := setScan_prev (o := o) (k := k) (v := v) (bucketOf t (o.hash k))
    cases hs : setScan o k v (bucketOf t (o.hash k)) with
    | some r => rw [hs] at hp; simp only [Option.map_some] at hp; simp [set, get, ht, hs, ← hp]
    | none => rw [hs] at hp; simp only [Option.map_none] at hp; simp [set, get, ht, hs, ← hp]

theorem delete_length (m : Map K) (k : K) :
    (delete o m k).1.length = if (get o m k).isSome then m.length - 1 else m.length := by
  cases ht : m.table with
  | none => simp [delete, get, ht]
  | some t =>
    have hp := delBucket_found (o := o) (k := k) (bucketOf t (o.hash k))
    cases hd : delBucket o k (bucketOf t (o.hash k)) with
    | some r => rw [hd] at hp; simp [delete, get, ht, hd, ← hp]
    | none => rw [hd] at hp; simp [delete, get, ht, hd, ← hp]

/-! ## histories -/

inductive Op (K : Type) where
  | set (k : K) (v : Nat)
  | get (k : K)
  | del (k : K)
  | len

def Op.key? : Op K → Option K
  | .set k _ => some k
  | .get k => some k
  | .del k => some k
  | .len => none

inductive Out where
  | prev (p : Option Nat)
  | val (p : Option Nat)
  | found (b : Bool)
  | len (n : Int)
  deriving DecidableEq

def stepMap (o : Ops K) (m : Map K) : Op K → Map K × Out
  | .set k v => let r := set o m k v; (r.1, .prev r.2)
  | .get k => (m, .val (get o m k))
  | .del k => let r := delete o m k; (r.1, .found r.2)
  | .len => (m, .len (len m))

def stepAL (o : Ops K) (al : AL K) : Op K → AL K × Out
  | .set k v => (alSet o al k v, .prev (alGet o al k))
  | .get k => (al, .val (alGet o al k))
  | .del k => (alDel o al k, .found (alGet o al k).isSome)
  | .len => (al, .len al.length)

def runMap (o : Ops K) : Map K → List (Op K) → Map K × List Out
  | m, [] => (m, [])
  | m, op :: ops => let r := stepMap o m op; let rs := runMap o r.1 ops; (rs.1, r.2 :: rs.2)

def runAL (o : Ops K) : AL K → List (Op K) → AL K × List Out
  | al, [] => (al, [])
  | al, op :: ops => let r := stepAL o al op; let rs := runAL o r.1 ops; (rs.1, r.2 :: rs.2)

/-- the simulation relation between the hash map and the association list -/
def Sim (o : Ops K) (good : K → Prop) (m : Map K) (al : AL K) : Prop :=
  Inv o good m ∧ ALInv o good al ∧ (∀ k, good k → get o m k = alGet o al k) ∧ m.length = al.length

theorem sim_empty (o : Ops K) (good : K → Prop) : Sim o good (empty : Map K) [] :=
  ⟨inv_empty o good, trivial, fun _ _ => rfl, rfl⟩

theorem sim_step (E : Equiv o good) {m : Map K} {al : AL K} (hs : Sim o good m al) (op : Op K)
    (hg : ∀ k, op.key? = some k → good k) :
    Sim o good (stepMap o m op).1 (stepAL o al op).1 ∧ (stepMap o m op).2 = (stepAL o al op).2 := by
  obtain ⟨hi, ha, hget, hlen⟩ := hs
  cases op with
  | set k v =>
    have gk := hg k rfl
    refine ⟨⟨inv_set E v hi gk, ALInv_alSet E v gk ha, ?_, ?_⟩, ?_⟩
    · intro k' gk'
      simp only [stepMap, stepAL]
      rw [get_set E v hi gk gk', alGet_alSet E v gk gk' ha, hget k' gk']
    · simp only [stepMap, stepAL]
      rw [set_length, alSet_length, hget k gk, hlen]
      split <;> simp
    · simp only [stepMap, stepAL, set_prev, hget k gk]
  | get k =>
    exact ⟨⟨hi, ha, hget, hlen⟩, by simp only [stepMap, stepAL, hget k (hg k rfl)]⟩
  | del k =>
    have gk := hg k rfl
    refine ⟨⟨inv_delete hi, ALInv_alDel ha, ?_, ?_⟩, ?_⟩
    · intro k' gk'
      simp only [stepMap, stepAL]
      rw [get_delete E hi gk gk', alGet_alDel E gk gk' ha, hget k' gk']
    · simp only [stepMap, stepAL]
      rw [delete_length, alDel_length, hget k gk, hlen]
    · simp only [stepMap, stepAL, delete_found, hget k gk]
  | len => exact ⟨⟨hi, ha, hget, hlen⟩, by simp only [stepMap, stepAL, len, hlen]⟩

theorem sim_run (E : Equiv o good) : ∀ (ops : List (Op K)) {m : Map K} {al : AL K}, Sim o good m al →
    (∀ op ∈ ops, ∀ k, op.key? = some k → good k) →
    Sim o good (runMap o m ops).1 (runAL o al ops).1 ∧ (runMap o m ops).2 = (runAL o al ops).2
  | [], _, _, hs, _ => ⟨hs, rfl⟩
  | op :: ops, m, al, hs, hg => by
      have h1 := sim_step E hs op (hg op (by simp))
      have h2 := sim_run E ops h1.1 (fun op' hm => hg op' (by simp [hm]))
      simp only [runMap, runAL]
      exact ⟨h2.1, by rw [h1.2, h2.2]⟩

end
end TypeMap
