import Model.Dep
/-! Lemmas about Model/Dep.lean (the graph sort). -/
namespace Dep
open DepScope (Name Kind Decl)

/-! ## sortByPos -/

theorem insertByPos_perm (d : Decl) (l : List Decl) : (insertByPos d l).Perm (d :: l) := by
  induction l with
  | nil => simp [insertByPos]
  | cons e r ih =>
    simp only [insertByPos]
    split
    · exact List.Perm.refl _
    · exact (List.Perm.cons e ih).trans (List.Perm.swap d e r)

theorem sortByPos_perm (l : List Decl) : (sortByPos l).Perm l := by
  induction l with
  | nil => simp [sortByPos]
  | cons d r ih =>
    have : sortByPos (d :: r) = insertByPos d (sortByPos r) := rfl
    rw [this]
    exact (insertByPos_perm d _).trans (List.Perm.cons d ih)

theorem mem_sortByPos {l : List Decl} {d : Decl} : d ∈ sortByPos l ↔ d ∈ l :=
  (sortByPos_perm l).mem_iff

def SortedPos (l : List Decl) : Prop := l.Pairwise (fun a b => a.pos ≤ b.pos)

theorem insertByPos_sorted (d : Decl) (l : List Decl) (h : SortedPos l) : SortedPos (insertByPos d l) := by
  induction l with
  | nil => simp [insertByPos, SortedPos]
  | cons e r ih =>
    simp only [insertByPos]
    have he := List.pairwise_cons.mp h
    split
    · rename_i hlt
      refine List.pairwise_cons.mpr ⟨?_, h⟩
      intro x hx
      rcases List.mem_cons.mp hx with rfl | hx
      · omega
      · have := he.1 x hx; omega
    · rename_i hge
      refine List.pairwise_cons.mpr ⟨?_, ih he.2⟩
      intro x hx
      rcases List.mem_cons.mp ((insertByPos_perm d r).mem_iff.mp hx) with rfl | hx
      · omega
      · exact he.1 x hx

theorem sortByPos_sorted (l : List Decl) : SortedPos (sortByPos l) := by
  induction l with
  | nil => simp [sortByPos, SortedPos]
  | cons d r ih => exact insertByPos_sorted d _ ih

/-- positions identify the declarations of `l` -/
def PosInj (l : List Decl) : Prop := ∀ a ∈ l, ∀ b ∈ l, a.pos = b.pos → a = b

theorem PosInj.of_subset {l1 l2 : List Decl} (h : PosInj l2) (hs : ∀ a ∈ l1, a ∈ l2) : PosInj l1 :=
  fun a ha b hb => h a (hs a ha) b (hs b hb)

/-- two position-sorted lists with the same elements, positions identifying the elements, are equal -/
theorem sorted_perm_eq : ∀ {l1 l2 : List Decl}, l1.Perm l2 → SortedPos l1 → SortedPos l2 →
    PosInj l1 → l1 = l2
  | [], l2, hp, _, _, _ => by simpa using hp.symm.eq_nil
  | a :: r1, [], hp, _, _, _ => by simpa using hp.eq_nil
  | a :: r1, b :: r2, hp, h1, h2, hn => by
    have h1' := List.pairwise_cons.mp h1
    have h2' := List.pairwise_cons.mp h2
    have hab : a = b := by
      have ha : a ∈ b :: r2 := hp.mem_iff.mp (List.mem_cons_self)
      have hb : b ∈ a :: r1 := hp.mem_iff.mpr (List.mem_cons_self)
      rcases List.mem_cons.mp ha with h | ha
      · exact h
      rcases List.mem_cons.mp hb with h | hb'
      · exact h.symm
      have hle1 := h1'.1 b hb'
      have hle2 := h2'.1 a ha
      exact hn a List.mem_cons_self b hb (by omega)
    subst hab
    have hp' : r1.Perm r2 := List.Perm.cons_inv hp
    rw [sorted_perm_eq hp' h1'.2 h2'.2 (hn.of_subset fun x hx => List.mem_cons_of_mem _ hx)]

theorem sortByPos_eq_of_perm {l1 l2 : List Decl} (hp : l1.Perm l2) (hn : PosInj l1) :
    sortByPos l1 = sortByPos l2 := by
  apply sorted_perm_eq ((sortByPos_perm l1).trans (hp.trans (sortByPos_perm l2).symm))
    (sortByPos_sorted l1) (sortByPos_sorted l2)
  exact hn.of_subset fun a ha => mem_sortByPos.mp ha

/-! ## graphs -/

def names (g : Graph) : List Name := g.map (·.name)

/-- every rearrangement `ord` produces is a permutation -/
def Ord.OK (o : Ord) : Prop := ∀ {α : Type} (k : Nat) (l : List α), (o.sh k l).Perm l

theorem Ord.id_ok : Ord.id.OK := fun _ _ => List.Perm.refl _

theorem hasNode_iff {g : Graph} {n : Name} : hasNode g n = true ↔ n ∈ names g := by
  simp [hasNode, names, List.any_eq_true, List.mem_map]

theorem names_removeUnresolvable (g : Graph) : names (removeUnresolvable g) = names g := by
  simp [names, removeUnresolvable, List.map_map, Function.comp_def]

theorem allDecls_map_edges (g : Graph) (f : Entry → List Name) :
    allDecls (g.map fun e => { e with edges := f e }) = allDecls g := by
  simp [allDecls, List.flatMap_map]

theorem allDecls_removeUnresolvable (g : Graph) : allDecls (removeUnresolvable g) = allDecls g :=
  allDecls_map_edges g _

theorem names_removeNode_sublist (g : Graph) (n : Name) : (names (removeNode g n)).Sublist (names g) := by
  simp only [names, removeNode]
  exact (List.filter_sublist).map _

theorem allDecls_removeNode {g : Graph} {e : Entry} (he : e ∈ g) (hn : (names g).Nodup) :
    (allDecls g).Perm (e.decls ++ allDecls (removeNode g e.name)) := by
  induction g with
  | nil => cases he
  | cons a r ih =>
    have hn' : a.name ∉ names r ∧ (names r).Nodup := List.nodup_cons.mp hn
    rcases List.mem_cons.mp he with rfl | her
    · have hr : removeNode r e.name = r := by
        simp only [removeNode]
        apply List.filter_eq_self.mpr
        intro x hx
        have : x.name ≠ e.name := fun h => hn'.1 (List.mem_map.mpr ⟨x, hx, h⟩)
        simpa using this
      have : removeNode (e :: r) e.name = r := by
        simp only [removeNode] at hr ⊢
        simp [hr]
      rw [this]
      simp [allDecls]
    · have hne : a.name ≠ e.name := fun h => hn'.1 (h ▸ List.mem_map.mpr ⟨e, her, rfl⟩)
      have ih' := ih her hn'.2
      have : removeNode (a :: r) e.name = a :: removeNode r e.name := by
        simp [removeNode, hne]
      rw [this]
      simp only [allDecls, List.flatMap_cons] at ih' ⊢
      exact (List.Perm.append_left a.decls ih').trans (by
        rw [← List.append_assoc, ← List.append_assoc]
        exact List.Perm.append_right _ List.perm_append_comm)

/-! ## RemoveNodesNoDeps -/

theorem foldl_pickStep_mem (l : Graph) (b : Option (Entry × Nat)) (e : Entry) (p : Nat)
    (h : l.foldl pickStep b = some (e, p)) : b = some (e, p) ∨ (e ∈ l ∧ e.edges = []) := by
  induction l generalizing b with
  | nil => left; simpa using h
  | cons a r ih =>
    simp only [List.foldl_cons] at h
    rcases ih _ h with h1 | h1
    · unfold pickStep at h1
      split at h1
      · rename_i hemp
        split at h1
        · right
          injection h1 with h1
          injection h1 with h1 _
          subst h1
          exact ⟨List.mem_cons_self, by simpa using hemp⟩
        · left; exact h1
      · left; exact h1
    · right; exact ⟨List.mem_cons_of_mem _ h1.1, h1.2⟩

theorem pickNoDeps_mem {l : Graph} {e : Entry} (h : pickNoDeps l = some e) : e ∈ l ∧ e.edges = [] := by
  unfold pickNoDeps at h
  cases hf : l.foldl pickStep none with
  | none => simp [hf] at h
  | some ep =>
    obtain ⟨e', p⟩ := ep
    simp [hf] at h
    subst h
    rcases foldl_pickStep_mem l none e' p hf with h1 | h1
    · cases h1
    · exact h1

/-! ## RemoveTypeFwd: shape of the result -/

theorem removeTypeFwd_kind (ord : Ord) (k : Nat) (g : Graph) :
    ∀ d ∈ (removeTypeFwd ord k g).1, d.kind = Kind.typeFwd := by
  intro d hd
  simp only [removeTypeFwd] at hd
  obtain ⟨d', _, rfl⟩ := List.mem_map.mp hd
  rfl

theorem allDecls_removeTypeFwd (ord : Ord) (k : Nat) (g : Graph) :
    allDecls (removeTypeFwd ord k g).2 = allDecls g := by
  simp only [removeTypeFwd, allDecls, List.flatMap_map]
  congr 1
  funext e
  split <;> rfl

theorem names_removeTypeFwd (ord : Ord) (k : Nat) (g : Graph) :
    names (removeTypeFwd ord k g).2 = names g := by
  simp only [removeTypeFwd, names, List.map_map]
  congr 1
  funext e
  simp only [Function.comp]
  split <;> rfl

/-! ## sort_perm -/

def notFwd (d : Decl) : Bool := d.kind != Kind.typeFwd

theorem sortLoop_perm (ord : Ord) (hord : ord.OK) :
    ∀ (fuel round : Nat) (g : Graph) (acc out : List Decl), (names g).Nodup →
      sortLoop ord fuel round g acc = some out →
      (out.filter notFwd).Perm (acc.filter notFwd ++ (allDecls g).filter notFwd) := by
  intro fuel
  induction fuel with
  | zero => intro round g acc out _ h; simp [sortLoop] at h
  | succ fuel ih =>
    intro round g acc out hnd h
    simp only [sortLoop] at h
    split at h
    · rename_i hemp
      have : g = [] := by simpa using hemp
      subst this
      injection h with h
      subst h
      simp [allDecls]
    · split at h
      · rename_i e hpick
        have hmem := (pickNoDeps_mem hpick).1
        have heg : e ∈ g := (hord _ g).mem_iff.mp hmem
        have hnd' : (names (removeUnresolvable (removeNode g e.name))).Nodup := by
          rw [names_removeUnresolvable]
          exact (names_removeNode_sublist g e.name).nodup hnd
        have := ih _ _ _ _ hnd' h
        rw [allDecls_removeUnresolvable] at this
        refine this.trans ?_
        rw [List.filter_append, List.append_assoc]
        apply List.Perm.append_left
        have hp := (allDecls_removeNode heg hnd).filter notFwd
        rw [List.filter_append] at hp
        exact ((sortByPos_perm e.decls).filter notFwd).append_right _ |>.trans hp.symm
      · split at h
        · cases h
        · have hnd' : (names (removeUnresolvable (removeTypeFwd ord (4 * round + 1) g).2)).Nodup := by
            rw [names_removeUnresolvable, names_removeTypeFwd]; exact hnd
          have := ih _ _ _ _ hnd' h
          rw [allDecls_removeUnresolvable, allDecls_removeTypeFwd] at this
          refine this.trans ?_
          apply List.Perm.append_right
          rw [List.filter_append]
          have : (sortByPos (removeTypeFwd ord (4 * round + 1) g).1).filter notFwd = [] := by
            apply List.filter_eq_nil_iff.mpr
            intro d hd
            have := removeTypeFwd_kind ord _ g d (mem_sortByPos.mp hd)
            simp [notFwd, this]
          rw [this]; simp

end Dep
