import Model.Options
/-!
# Proofs/Options.lean — non-interference of the observation part (C18)

`NI Q m m'`: started in two states with the same semantic part, `m` and `m'` end in states with the
same semantic part and return results related by `Q` (same panic message, same out-of-fuel).
Everything the model does is built from a few primitives with `bnd`; the lemmas below are the
compositional rules, `step_ni`/`run_ni` the statement machine, `parseEvalPrint_ni` one REPL chunk.
-/
namespace Options

def RelRes {α} (Q : α → α → Prop) : Res α → Res α → Prop
  | .ok a, .ok b => Q a b
  | .panic m, .panic m' => m = m'
  | .oof, .oof => True
  | _, _ => False

def NI {α} (Q : α → α → Prop) (m m' : M α) : Prop :=
  ∀ s s' : St, s.sem = s'.sem → RelRes Q (m s).1 (m' s').1 ∧ (m s).2.sem = (m' s').2.sem

theorem NI_ret {α} {Q : α → α → Prop} {a b : α} (h : Q a b) : NI Q (ret a) (ret b) :=
  fun _ _ hs => ⟨h, hs⟩

theorem NI_throw {α} {Q : α → α → Prop} (msg : String) : NI Q (throwP msg) (throwP msg) :=
  fun _ _ hs => ⟨rfl, hs⟩

theorem NI_bnd {α β} {Q : α → α → Prop} {Q' : β → β → Prop} {m m' : M α} {f f' : α → M β}
    (hm : NI Q m m') (hf : ∀ a b, Q a b → NI Q' (f a) (f' b)) : NI Q' (bnd m f) (bnd m' f') := by
  intro s s' hs
  have h := hm s s' hs
  unfold bnd
  generalize m s = r at h ⊢
  generalize m' s' = r' at h ⊢
  obtain ⟨r, s1⟩ := r
  obtain ⟨r', s1'⟩ := r'
  obtain ⟨hr, hs1⟩ := h
  cases r with
  | ok a =>
    cases r' with
    | ok b => exact hf a b hr s1 s1' hs1
    | panic _ => exact False.elim hr
    | oof => exact False.elim hr
  | panic msg =>
    cases r' with
    | ok b => exact False.elim hr
    | panic msg' => exact ⟨hr, hs1⟩
    | oof => exact False.elim hr
  | oof =>
    cases r' with
    | ok b => exact False.elim hr
    | panic _ => exact False.elim hr
    | oof => exact ⟨trivial, hs1⟩

theorem NI_ite {α} {Q : α → α → Prop} {c : Prop} [Decidable c] {m1 m1' m2 m2' : M α}
    (h1 : NI Q m1 m1') (h2 : NI Q m2 m2') : NI Q (if c then m1 else m2) (if c then m1' else m2') := by
  by_cases hc : c
  · rw [if_pos hc, if_pos hc]; exact h1
  · rw [if_neg hc, if_neg hc]; exact h2

theorem NI_semUpd (F : Sem → Sem) : NI Eq (semUpd F) (semUpd F) := by
  intro s s' hs
  refine ⟨rfl, ?_⟩
  show F s.sem = F s'.sem
  rw [hs]

/-- two *different* updates of the observation part are indistinguishable -/
theorem NI_obsUpd (F F' : Obs → Obs) : NI Eq (obsUpd F) (obsUpd F') :=
  fun _ _ hs => ⟨rfl, hs⟩

theorem NI_getG (k : Nat) : NI Eq (getG k) (getG k) := by
  intro s s' hs
  refine ⟨?_, hs⟩
  show s.sem.globals.getD k 0 = s'.sem.globals.getD k 0
  rw [hs]

theorem NI_setG (k : Nat) (v : Int) : NI Eq (setG k v) (setG k v) :=
  NI_bnd (NI_semUpd _) fun _ _ _ => NI_ret rfl

theorem NI_emitO (v : Int) : NI Eq (emitO v) (emitO v) :=
  NI_bnd (NI_semUpd _) fun _ _ _ => NI_ret rfl

/-- the breakpoint log may record different `DebugComp` states -/
theorem NI_logBrk (b b' : Bool) : NI Eq (logBrk b) (logBrk b') :=
  NI_bnd (NI_obsUpd _ _) fun _ _ _ => NI_ret rfl

/-- code that reads the neutral options must be insensitive to what it reads -/
theorem NI_withN {α} {Q : α → α → Prop} {f f' : NOpts → M α}
    (h : ∀ o o', NI Q (f o) (f' o')) : NI Q (withN f) (withN f') :=
  fun s s' hs => h s.obs.n s'.obs.n s s' hs

theorem NI_withSem {α} {Q : α → α → Prop} {f f' : Sem → M α}
    (h : ∀ x, NI Q (f x) (f' x)) : NI Q (withSem f) (withSem f') := by
  intro s s' hs
  show RelRes Q (f s.sem s).1 (f' s'.sem s').1 ∧ (f s.sem s).2.sem = (f' s'.sem s').2.sem
  rw [← hs]
  exact h s.sem s s' hs

theorem NI_withFunc {α} {Q : α → α → Prop} (k : Nat) {f f' : Option FuncDef → Bool → M α}
    (h : ∀ fd d d', NI Q (f fd d) (f' fd d')) : NI Q (withFunc k f) (withFunc k f') := by
  intro s s' hs
  show RelRes Q (f (s.sem.funcs.getD k none) (s.obs.funcDbg.getD k false) s).1
        (f' (s'.sem.funcs.getD k none) (s'.obs.funcDbg.getD k false) s').1 ∧
      (f (s.sem.funcs.getD k none) (s.obs.funcDbg.getD k false) s).2.sem =
        (f' (s'.sem.funcs.getD k none) (s'.obs.funcDbg.getD k false) s').2.sem
  rw [← hs]
  exact h _ _ _ s s' hs

theorem NI_binop (op : BinOp) (x y : Int) : NI Eq (binop op x y) (binop op x y) := by
  cases op
  · exact NI_ret rfl
  · exact NI_ret rfl
  · exact NI_ret rfl
  · exact NI_ite (NI_throw _) (NI_ret rfl)
  · exact NI_ite (NI_throw _) (NI_ret rfl)

/-! ## the statement machine -/

def CtxEq (a b : Ctx) : Prop := a.p = b.p ∧ a.l = b.l

/-- `rec` does not let `debugC`, `DebugComp` or the observation state influence results -/
def RecNI (rec : Rec) : Prop :=
  ∀ cd cd' cx cx' c, CtxEq cx cx' → NI Eq (rec cd cx c) (rec cd' cx' c)

theorem step_ni (rec : Rec) (H : RecNI rec) : RecNI (step rec) := by
  intro cd cd' cx cx' c hcx
  have hp : cx.p = cx'.p := hcx.1
  have hl : cx.l = cx'.l := hcx.2
  cases c with
  | e e =>
    cases e with
    | lit c => exact NI_ret rfl
    | glob k => exact NI_getG k
    | par => exact NI_ret hp
    | loc => exact NI_ret hl
    | bin op a b =>
      exact NI_bnd (H cd cd' cx cx' _ hcx) fun x y hxy => by
        subst hxy
        exact NI_bnd (H cd cd' cx cx' _ hcx) fun u v huv => by
          subst huv
          exact NI_binop op x u
    | call k a =>
      exact NI_bnd (H cd cd' cx cx' _ hcx) fun x y hxy => by
        subst hxy
        exact NI_withFunc k fun fd d d' => by
          cases fd with
          | none => exact NI_throw _
          | some fd =>
            exact NI_bnd (H d d' _ _ _ ⟨rfl, rfl⟩) fun _ _ _ => H d d' _ _ _ ⟨rfl, rfl⟩
  | s st =>
    cases st with
    | set k e =>
      exact NI_bnd (H cd cd' cx cx' _ hcx) fun x y hxy => by subst hxy; exact NI_setG k x
    | emit e =>
      exact NI_bnd (H cd cd' cx cx' _ hcx) fun x y hxy => by subst hxy; exact NI_emitO x
    | ifs c t e =>
      exact NI_bnd (H cd cd' cx cx' _ hcx) fun x y hxy => by
        subst hxy
        exact NI_ite (H cd cd' cx cx' _ hcx) (H cd cd' cx cx' _ hcx)
    | loop n body => exact H cd cd' _ _ _ ⟨hp, hl⟩
    | panic e =>
      exact NI_bnd (H cd cd' cx cx' _ hcx) fun x y hxy => by subst hxy; exact NI_throw _
    | blk e body =>
      exact NI_bnd (H cd cd' cx cx' _ hcx) fun x y hxy => by
        subst hxy
        exact H cd cd' _ _ _ ⟨hp, rfl⟩
    | brk => exact NI_logBrk _ _
  | l l =>
    cases l with
    | nil => exact NI_ret rfl
    | cons st rest =>
      exact NI_bnd (H cd cd' cx cx' _ hcx) fun _ _ _ => H cd cd' cx cx' _ hcx
  | rep n body =>
    cases n with
    | zero => exact NI_ret rfl
    | succ n =>
      exact NI_bnd (H cd cd' cx cx' _ hcx) fun _ _ _ => H cd cd' cx cx' _ hcx

theorem run_ni : ∀ fuel, RecNI (run fuel)
  | 0 => fun _ _ _ _ _ _ _ _ hs => ⟨trivial, hs⟩
  | f + 1 => step_ni (run f) (run_ni f)

/-! ## one REPL chunk -/

theorem runTop_ni (fuel : Nat) (keep : Bool) (stmts : List Stmt) (fin : Fin) :
    NI Eq (runTop fuel keep stmts fin) (runTop fuel keep stmts fin) := by
  unfold runTop
  refine NI_withN fun o o' => ?_
  refine NI_bnd (run_ni fuel _ _ _ _ _ ⟨rfl, rfl⟩) fun _ _ _ => ?_
  cases fin with
  | none => exact NI_ret rfl
  | expr e =>
    exact NI_bnd (run_ni fuel _ _ _ _ _ ⟨rfl, rfl⟩) fun x y hxy => by subst hxy; exact NI_ret rfl
  | kint c => exact NI_ret rfl
  | krune c => exact NI_ret rfl
  | kbool b => exact NI_ret rfl

theorem defineFunc_ni (k : Nat) (fd : FuncDef) : NI Eq (defineFunc k fd) (defineFunc k fd) :=
  NI_bnd (NI_semUpd _) fun _ _ _ => NI_obsUpd _ _

theorem evalChunk_ni (fuel : Nat) (ch : Chunk) : NI Eq (evalChunk fuel ch) (evalChunk fuel ch) := by
  cases ch with
  | tog f b => exact NI_ret rfl
  | defn forced k body r =>
    refine NI_bnd (NI_obsUpd _ _) fun _ _ _ => NI_withSem fun m => ?_
    refine NI_ite (NI_ret rfl) (NI_ite (NI_throw _) ?_)
    exact NI_bnd (defineFunc_ni k _) fun _ _ _ => NI_ret rfl
  | code forced stmts fin =>
    refine NI_bnd (NI_obsUpd _ _) fun _ _ _ => NI_withSem fun m => ?_
    exact NI_ite (NI_ret rfl) (NI_ite (NI_throw _) (NI_ite (NI_throw _) (runTop_ni fuel _ stmts fin)))

theorem attempt_ni {m m' : M (List Val)} (h : NI Eq m m') : NI Eq (attempt m) (attempt m') := by
  intro s s' hs
  have h := h s s' hs
  unfold attempt
  generalize m s = r at h ⊢
  generalize m' s' = r' at h ⊢
  obtain ⟨r, s1⟩ := r
  obtain ⟨r', s1'⟩ := r'
  obtain ⟨hr, hs1⟩ := h
  cases r with
  | ok a =>
    cases r' with
    | ok b => exact ⟨by have : a = b := hr; subst this; rfl, hs1⟩
    | panic _ => exact False.elim hr
    | oof => exact False.elim hr
  | panic msg =>
    cases r' with
    | ok b => exact False.elim hr
    | panic msg' => exact ⟨by have : msg = msg' := hr; subst this; rfl, hs1⟩
    | oof => exact False.elim hr
  | oof =>
    cases r' with
    | ok b => exact False.elim hr
    | panic _ => exact False.elim hr
    | oof => exact ⟨trivial, hs1⟩

/-- the saved bits may differ in the collect flags, never in OptMacroExpandOnly -/
def SavedRel (a b : Saved) : Prop := a.meo = b.meo

theorem forceBegin_ni (forced : Bool) : NI SavedRel (forceBegin forced) (forceBegin forced) := by
  intro s s' hs
  cases forced
  · exact ⟨rfl, hs⟩
  · refine ⟨?_, ?_⟩
    · show s.sem.meo = s'.sem.meo
      rw [hs]
    · show { s.sem with meo := false } = { s'.sem with meo := false }
      rw [hs]

theorem forceEnd_ni (sv sv' : Saved) (h : SavedRel sv sv') : NI Eq (forceEnd sv) (forceEnd sv') := by
  intro s s' hs
  refine ⟨rfl, ?_⟩
  show { s.sem with meo := s.sem.meo || sv.meo } = { s'.sem with meo := s'.sem.meo || sv'.meo }
  have h' : sv.meo = sv'.meo := h
  rw [hs, h']

theorem parseEvalPrint_ni (fuel : Nat) (ch : Chunk) :
    NI Eq (parseEvalPrint true fuel ch) (parseEvalPrint true fuel ch) := by
  have main : ∀ ch : Chunk,
      NI Eq
        (withN fun o =>
          bnd (forceBegin ch.forced) fun sv =>
          bnd (attempt (bnd (evalChunk fuel ch) fun vals => bnd (printVals vals) fun _ => ret vals)) fun r =>
          bnd (if true then forceEnd sv else forceEndBuggy sv) fun _ =>
          bnd incLine fun _ =>
          bnd (afterEval o.trapPanic o.showTime r.panic) fun _ => ret r)
        (withN fun o =>
          bnd (forceBegin ch.forced) fun sv =>
          bnd (attempt (bnd (evalChunk fuel ch) fun vals => bnd (printVals vals) fun _ => ret vals)) fun r =>
          bnd (if true then forceEnd sv else forceEndBuggy sv) fun _ =>
          bnd incLine fun _ =>
          bnd (afterEval o.trapPanic o.showTime r.panic) fun _ => ret r) := by
    intro ch
    refine NI_withN fun o o' => ?_
    refine NI_bnd (forceBegin_ni _) fun sv sv' hsv => ?_
    refine NI_bnd (attempt_ni (NI_bnd (evalChunk_ni fuel ch) fun v v' hv => by
      subst hv
      exact NI_bnd (NI_obsUpd _ _) fun _ _ _ => NI_ret rfl)) fun r r' hr => ?_
    subst hr
    refine NI_bnd (forceEnd_ni sv sv' hsv) fun _ _ _ => ?_
    refine NI_bnd (NI_semUpd _) fun _ _ _ => ?_
    exact NI_bnd (NI_obsUpd _ _) fun _ _ _ => NI_ret rfl
  cases ch with
  | tog f b => exact NI_bnd (NI_obsUpd _ _) fun _ _ _ => NI_ret rfl
  | defn forced k body r => exact main _
  | code forced stmts fin => exact main _

theorem runChunks_ni (fuel : Nat) : ∀ (chs : List Chunk) (s s' : St), s.sem = s'.sem →
    (runChunks true fuel chs s).1 = (runChunks true fuel chs s').1 ∧
    (runChunks true fuel chs s).2.sem = (runChunks true fuel chs s').2.sem
  | [], _, _, hs => ⟨rfl, hs⟩
  | ch :: rest, s, s', hs => by
    have h := parseEvalPrint_ni fuel ch s s' hs
    unfold runChunks
    generalize parseEvalPrint true fuel ch s = r at h ⊢
    generalize parseEvalPrint true fuel ch s' = r' at h ⊢
    obtain ⟨r, s1⟩ := r
    obtain ⟨r', s1'⟩ := r'
    obtain ⟨hr, hs1⟩ := h
    have ih := runChunks_ni fuel rest s1 s1' hs1
    cases r with
    | ok a =>
      cases r' with
      | ok b =>
        have : a = b := hr
        subst this
        exact ⟨by simp only [ih.1], ih.2⟩
      | panic _ => exact False.elim hr
      | oof => exact False.elim hr
    | panic msg =>
      cases r' with
      | ok b => exact False.elim hr
      | panic msg' => exact ⟨by simp only [ih.1], ih.2⟩
      | oof => exact False.elim hr
    | oof =>
      cases r' with
      | ok b => exact False.elim hr
      | panic _ => exact False.elim hr
      | oof => exact ⟨by simp only [ih.1], ih.2⟩

end Options
