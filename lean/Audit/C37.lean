import Audit.Tool
import Props.C37
#audit_module Props.C37
