import Lean
/-! `#audit_module M` prints, for every theorem declared in module `M`, the axioms it depends on
    (one line `AUDIT <name> :: <axioms>`), so the driver can check them against the allowed set. -/
open Lean Elab Command

elab "#audit_module " m:ident : command => do
  let env ← getEnv
  let some idx := env.getModuleIdx? m.getId | throwError "unknown module {m.getId}"
  let mut names : Array Name := #[]
  for n in env.header.moduleData[idx.toNat]!.constNames do
    if let some (.thmInfo _) := env.find? n then
      let last := match n with | .str _ s => s | _ => ""
      let auto := last == "inj" || last == "injEq" || last == "sizeOf_spec" || last == "eq_def" ||
        last.startsWith "eq_" && (last.drop 3).all Char.isDigit || last.startsWith "match_" ||
        last.startsWith "proof_" || last.startsWith "_"
      if !n.isInternal && !auto then names := names.push n
  for n in names.qsort (fun a b => a.toString < b.toString) do
    let axs ← Lean.collectAxioms n
    let axs := axs.qsort (fun a b => a.toString < b.toString)
    logInfo m!"AUDIT {n} :: {axs.toList}"
