/-!
# GoSpec/Heap.lean — Go's meaning of arrays, slices, append and copy (specification side of C08)

My reading of the Go specification ("Slice types", "Slice expressions", "Appending to and copying
slices", "Assignability": arrays are values), validated against compiled Go on every run of
`./check C08` (the `heap` op stream: compiled Go, gomacro and this model run the same programs).

* The heap is a list of backing arrays of `Int` elements.  An array VARIABLE is a backing array of
  its own.  A slice is (array id, offset, len, cap); the nil slice is any header with cap = 0.
* `append` within capacity writes into the shared backing array; beyond capacity it allocates a new
  array whose capacity is chosen by the growth policy `grow oldCap newLen` (implementation defined;
  `goGrow` = the Go 1.23 runtime's `growslice` for 8-byte elements, used by the driver only —
  the theorems hold for every policy with `newLen ≤ grow oldCap newLen`).
* `append(s, t...)` and `copy(dst, src)` read ALL source elements before writing (memmove).
-/

namespace GoSpec.Heap

abbrev Arr := List Int
abbrev Heap := List Arr

structure Slice where
  arr : Nat
  off : Nat
  len : Nat
  cap : Nat
  deriving Repr, DecidableEq, Inhabited

def nilSlice : Slice := ⟨0, 0, 0, 0⟩

/-- overwrite `a[pos .. pos+vs.length)` with `vs` (cells outside the array are dropped) -/
def writeBlock (a : Arr) (pos : Nat) (vs : List Int) : Arr :=
  (List.range a.length).map (fun k => if pos ≤ k ∧ k - pos < vs.length then vs.getD (k - pos) 0 else a.getD k 0)

/-- read `a[pos .. pos+n)` -/
def readBlock (a : Arr) (pos n : Nat) : List Int :=
  (List.range n).map (fun k => a.getD (pos + k) 0)

def getArr (h : Heap) (a : Nat) : Arr := h.getD a []
def setArr (h : Heap) (a : Nat) (x : Arr) : Heap := h.set a x

/-- absolute cell -/
def cell (h : Heap) (a i : Nat) : Int := (getArr h a).getD i 0

/-- the slice header points inside its backing array -/
def WF (h : Heap) (s : Slice) : Prop :=
  s.len ≤ s.cap ∧ (s.cap = 0 ∨ (s.arr < h.length ∧ s.off + s.cap ≤ (getArr h s.arr).length))

/-- elements `s[0:len]` -/
def contents (h : Heap) (s : Slice) : List Int := readBlock (getArr h s.arr) s.off s.len

/-- `s[i]` -/
def index (h : Heap) (s : Slice) (i : Int) : Option Int :=
  if 0 ≤ i ∧ i < s.len then some (cell h s.arr (s.off + i.toNat)) else none

/-- `s[i] = v` -/
def setIndex (h : Heap) (s : Slice) (i : Int) (v : Int) : Option Heap :=
  if 0 ≤ i ∧ i < s.len then some (setArr h s.arr (writeBlock (getArr h s.arr) (s.off + i.toNat) [v])) else none

/-- `s[lo:hi]` : panics iff !(0 <= lo <= hi <= cap(s)) -/
def slice2 (s : Slice) (lo hi : Int) : Option Slice :=
  if 0 ≤ lo ∧ lo ≤ hi ∧ hi ≤ s.cap then some ⟨s.arr, s.off + lo.toNat, (hi - lo).toNat, s.cap - lo.toNat⟩ else none

/-- `s[lo:hi:max]` : panics iff !(0 <= lo <= hi <= max <= cap(s)) -/
def slice3 (s : Slice) (lo hi max : Int) : Option Slice :=
  if 0 ≤ lo ∧ lo ≤ hi ∧ hi ≤ max ∧ max ≤ s.cap then
    some ⟨s.arr, s.off + lo.toNat, (hi - lo).toNat, (max - lo).toNat⟩ else none

/-- `append(s, vs...)` with the values already read -/
def append (grow : Nat → Nat → Nat) (h : Heap) (s : Slice) (vs : List Int) : Heap × Slice :=
  if vs.length = 0 then (h, s)
  else if s.len + vs.length ≤ s.cap then
    (setArr h s.arr (writeBlock (getArr h s.arr) (s.off + s.len) vs), { s with len := s.len + vs.length })
  else
    let newCap := grow s.cap (s.len + vs.length)
    let body := contents h s ++ vs
    (h ++ [body ++ List.replicate (newCap - body.length) 0], ⟨h.length, 0, s.len + vs.length, Nat.max newCap body.length⟩)

/-- `append(s, t...)`: the source is read first -/
def appendSlice (grow : Nat → Nat → Nat) (h : Heap) (s t : Slice) : Heap × Slice :=
  append grow h s (contents h t)

/-- `copy(dst, src)` = memmove of min(len) elements; returns the count -/
def copy (h : Heap) (dst src : Slice) : Heap × Nat :=
  let n := Nat.min dst.len src.len
  if n = 0 then (h, 0)
  else (setArr h dst.arr (writeBlock (getArr h dst.arr) dst.off (readBlock (getArr h src.arr) src.off n)), n)

/-- array assignment `a = b` (arrays are values: the cells are copied) -/
def assignArr (h : Heap) (dst src : Nat) : Heap := setArr h dst (getArr h src)

/-- `a[lo:hi]` of an array variable: a slice aliasing the variable -/
def sliceArr (h : Heap) (a : Nat) (lo hi : Int) : Option Slice :=
  slice2 ⟨a, 0, (getArr h a).length, (getArr h a).length⟩ lo hi

/-! ### growth policy of the Go 1.23 runtime for 8-byte elements (driver only) -/

/-- malloc size classes (bytes) up to 2048 -/
def sizeClasses : List Nat :=
  [8, 16, 24, 32, 48, 64, 80, 96, 112, 128, 144, 160, 176, 192, 208, 224, 240, 256, 288, 320, 352,
   384, 416, 448, 480, 512, 576, 640, 704, 768, 896, 1024, 1152, 1280, 1408, 1536, 1792, 2048]

def roundUpSize (bytes : Nat) : Nat :=
  match sizeClasses.find? (fun c => bytes ≤ c) with
  | some c => c
  | none => bytes

/-- `runtime.growslice`: nextslicecap (old cap < 256) + roundupsize -/
def goGrow (oldCap newLen : Nat) : Nat :=
  let newcap := if newLen > oldCap + oldCap then newLen else oldCap + oldCap
  roundUpSize (newcap * 8) / 8

end GoSpec.Heap
