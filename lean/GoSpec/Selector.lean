import Model.Lookup
/-!
# Go's selector rule and method-set rule over an embedding graph (specification side of C09)

Go spec, "Selectors": for a value x of type T, `x.f` denotes the field or method at the
*shallowest depth* in T where there is such an f; if there is not exactly one f with shallowest
depth the selector is illegal.  Depth = number of embedded fields traversed.

The specification enumerates ALL embedding paths of a given length (`reach`, no visited map, no
pruning, no cache) and collects the matches at each depth (`fieldsAt`, `methodsAt`).
-/
namespace Lookup

/-- embedded fields of a field list, as path entries below `index` -/
def children (U : Universe) (e : Entry) : List Entry :=
  match U.bodyOf e.typ with
  | none => []
  | some b => embEntries e.index (U.fieldsOf b) 0

/-- every embedding path of length `d` starting at `e` (left-to-right, breadth-first order) -/
def reach (U : Universe) (e : Entry) : Nat → List Entry
  | 0 => [e]
  | d+1 => (reach U e d).flatMap (children U)

def matchIdx (name : String) (index : List Nat) : List Field → Nat → List (List Nat)
  | [], _ => []
  | f :: fs, i =>
    if f.name = name then (index ++ [i]) :: matchIdx name index fs (i+1)
    else matchIdx name index fs (i+1)

/-- index paths of the fields called `name` declared directly in the struct reached by `e` -/
def fieldMatches (U : Universe) (name : String) (e : Entry) : List (List Nat) :=
  match U.bodyOf e.typ with
  | none => []
  | some b => matchIdx name e.index (U.fieldsOf b) 0

/-- all fields called `name` at depth `d` of type `root` -/
def fieldsAt (U : Universe) (root : Nat) (name : String) (d : Nat) : List (List Nat) :=
  (reach U (rootEntry root) d).flatMap (fieldMatches U name)

def methodIdx (name : String) (index : List Nat) : List MethodDecl → Nat → List MRes
  | [], _ => []
  | m :: ms, i =>
    if m.name = name then ⟨(i : Int), index⟩ :: methodIdx name index ms (i+1)
    else methodIdx name index ms (i+1)

/-- methods called `name` declared by (or, for an interface, belonging to) the type reached by
    `e`; a pointer to an interface has no methods -/
def methodMatches (U : Universe) (name : String) (e : Entry) : List MRes :=
  if e.ptr = true ∧ U.kindOf e.typ = some Kind.iface then []
  else methodIdx name e.index (U.methodsOf e.typ) 0

/-- all methods called `name` at depth `d` of type `root` -/
def methodsAt (U : Universe) (root : Nat) (name : String) (d : Nat) : List MRes :=
  (reach U (rootEntry root) d).flatMap (methodMatches U name)

/-- Go's rule for one kind of candidates: `cands d` = the candidates at depth d.
    `SelAt cands d first n`: d is the shallowest depth with candidates, there are n of them and
    `first` is the first one in declaration order. -/
def SelAt {α : Type} (cands : Nat → List α) (d : Nat) (first : α) (n : Nat) : Prop :=
  (∀ d', d' < d → cands d' = []) ∧ (cands d).length = n ∧ (cands d).head? = some first ∧ n > 0

def NotFound {α : Type} (cands : Nat → List α) : Prop := ∀ d, cands d = []

end Lookup
