/-! # GoSpec.FloatConv — IEEE-754 binary32/binary64 values, exact rounding and truncation

Specification side of the conversions that involve floating-point types (Go specification,
"Conversions between numeric types"):
* integer or float -> float type: "the result value is rounded to the precision specified by the
  destination type" — IEEE round-to-nearest-even of the exact value, ONE rounding (`roundPos`);
  overflow gives an infinity for non-constant operands;
* float -> integer: "the fraction is discarded (truncation towards zero)" (`truncToInt`); if the
  truncated value is not representable in the result type the result is implementation-dependent
  (the callers return `undef`);
* float32 -> float64 is exact; NaNs convert to NaNs (payloads are not specified; every NaN is
  printed as `nan` by the drivers).

A bit pattern is a natural number (`< 2^32` / `< 2^64`).  All definitions are executable exact
integer arithmetic — no hardware floats.  They are NOT proved against an IEEE formalisation: they
are the trusted meaning of "rounded", and are compared with the hardware (native Go conversions)
on every op of the correspondence run. -/

namespace GoSpec.FloatConv

/-- a binary interchange format: precision `p` (with the hidden bit) and exponent field width -/
structure Fmt where
  p : Nat
  ebits : Nat
  deriving DecidableEq, Repr

def f32 : Fmt := ⟨24, 8⟩
def f64 : Fmt := ⟨53, 11⟩

namespace Fmt
def bits (f : Fmt) : Nat := f.p + f.ebits
def bias (f : Fmt) : Nat := 2 ^ (f.ebits - 1) - 1
/-- exponent of the least significant mantissa bit of the subnormals: -149 / -1074 -/
def emin (f : Fmt) : Int := 1 - (f.bias : Int) - ((f.p : Int) - 1)
/-- the same for the largest binade: 104 / 971 -/
def emaxLsb (f : Fmt) : Int := (f.bias : Int) - ((f.p : Int) - 1)
def signBit (f : Fmt) : Nat := 2 ^ (f.bits - 1)
def expMask (f : Fmt) : Nat := 2 ^ f.ebits - 1
def infBits (f : Fmt) : Nat := f.expMask * 2 ^ (f.p - 1)
def nanBits (f : Fmt) : Nat := f.infBits + 2 ^ (f.p - 2)
end Fmt

/-- decoded value: `fin neg m e` is `(-1)^neg * m * 2^e` -/
inductive FV where
  | nan
  | inf (neg : Bool)
  | fin (neg : Bool) (m : Nat) (e : Int)
  deriving DecidableEq, Repr

def decode (f : Fmt) (b : Nat) : FV :=
  let frac := b % 2 ^ (f.p - 1)
  let ex := b / 2 ^ (f.p - 1) % 2 ^ f.ebits
  let neg := b / f.signBit % 2 == 1
  if ex == f.expMask then (if frac == 0 then .inf neg else .nan)
  else if ex == 0 then .fin neg frac f.emin
  else .fin neg (2 ^ (f.p - 1) + frac) (f.emin + (ex : Int) - 1)

def isNaN (f : Fmt) (b : Nat) : Bool := decode f b == .nan

/-- `n / (d * 2^e)` as a fraction of naturals -/
def scale (n d : Nat) (e : Int) : Nat × Nat :=
  if 0 ≤ e then (n, d * 2 ^ e.toNat) else (n * 2 ^ (-e).toNat, d)

/-- magnitude bits (no sign) of the positive rational `n/d` rounded to nearest, ties to even -/
def roundPos (f : Fmt) (n d : Nat) : Nat :=
  if n = 0 ∨ d = 0 then 0
  else
    -- floor(log2 (n/d)) is L or L-1
    let L : Int := (n.log2 : Int) - (d.log2 : Int)
    let e0 : Int := L - ((f.p : Int) - 1)
    let s0 := scale n d e0
    let e1 : Int := if s0.1 / s0.2 < 2 ^ (f.p - 1) then e0 - 1 else e0
    let e : Int := if e1 < f.emin then f.emin else e1
    let s := scale n d e
    let m0 := s.1 / s.2
    let r := s.1 % s.2
    let m := if 2 * r > s.2 ∨ (2 * r = s.2 ∧ m0 % 2 = 1) then m0 + 1 else m0
    -- carry out of the mantissa: 2^p at exponent e is 2^(p-1) at e+1
    let (m, e) := if m = 2 ^ f.p then (2 ^ (f.p - 1), e + 1) else (m, e)
    if e > f.emaxLsb then f.infBits
    else if m < 2 ^ (f.p - 1) then m          -- subnormal (then e = emin)
    else ((e - f.emin + 1).toNat) * 2 ^ (f.p - 1) + (m - 2 ^ (f.p - 1))

def withSign (f : Fmt) (neg : Bool) (mag : Nat) : Nat := if neg then f.signBit + mag else mag

/-- a non-constant integer converted to the format (`+0` for 0) -/
def ofInt (f : Fmt) (i : Int) : Nat := withSign f (i < 0) (roundPos f i.natAbs 1)

/-- a CONSTANT converted to the format: Go constants have no negative zero, so a negative
    constant that rounds to zero gives `+0` -/
def ofRatConst (f : Fmt) (q : Rat) : Nat :=
  let mag := roundPos f q.num.natAbs q.den
  if mag = 0 then 0 else withSign f (q.num < 0) mag

/-- float -> float of another format (non-constant: the sign of zero is kept, overflow -> Inf) -/
def cvt (src dst : Fmt) (b : Nat) : Nat :=
  match decode src b with
  | .nan => dst.nanBits
  | .inf neg => withSign dst neg dst.infBits
  | .fin neg m e =>
    let s := scale m 1 (-e)
    withSign dst neg (roundPos dst s.1 s.2)

/-- truncation toward zero; `none` for NaN and infinities -/
def truncToInt (f : Fmt) (b : Nat) : Option Int :=
  match decode f b with
  | .fin neg m e =>
    let a : Nat := if 0 ≤ e then m * 2 ^ e.toNat else m / 2 ^ (-e).toNat
    some (if neg then -(a : Int) else (a : Int))
  | _ => none

/-- the exact value as a rational; `none` for NaN and infinities -/
def toRat (f : Fmt) (b : Nat) : Option Rat :=
  match decode f b with
  | .fin neg m e =>
    let s := scale m 1 (-e)
    let q : Rat := (s.1 : Rat) / (s.2 : Rat)
    some (if neg then -q else q)
  | _ => none

end GoSpec.FloatConv
