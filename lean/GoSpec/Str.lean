/-! # GoSpec.Str — Go strings as byte lists; UTF-8 as the Go specification uses it

Go specification, "Conversions to and from a string type":
* `string(i)` for an integer `i` yields the UTF-8 representation of the code point `i`; "values
  outside the range of valid Unicode code points are converted to "�"" (valid = `0..0x10FFFF`
  without the surrogates `0xD800..0xDFFF`);
* `string(rs)` for a slice of runes is the concatenation of the individual rune values converted
  to strings (so every invalid element becomes U+FFFD);
* `[]rune(s)` yields the individual code points of the string; decoding follows "For statements
  with range clause": "If the iteration encounters an invalid UTF-8 sequence, the second value will
  be 0xFFFD, the Unicode replacement character, and the next iteration will advance a single byte";
  invalid = not a shortest-form encoding of a valid code point (the table of well-formed byte
  sequences of the Unicode standard, which `unicode/utf8` implements);
* `[]byte(s)` / `string(bs)` are the bytes themselves.

Bytes are natural numbers `< 256`, runes are mathematical integers (the value of the `int32`).
Everything is executable and core-only. -/

namespace GoSpec.Str

/-- U+FFFD -/
def runeError : Nat := 0xFFFD

/-- valid Unicode code point (scalar value) -/
def validRune (c : Int) : Prop := 0 ≤ c ∧ c ≤ 0x10FFFF ∧ ¬ (0xD800 ≤ c ∧ c ≤ 0xDFFF)

instance (c : Int) : Decidable (validRune c) := by unfold validRune; infer_instance

/-- what an element of a rune slice / an integer stands for -/
def sanitize (c : Int) : Nat := if validRune c then c.toNat else runeError

/-- UTF-8 encoding of a valid code point (shortest form) -/
def encodeNat (c : Nat) : List Nat :=
  if c < 0x80 then [c]
  else if c < 0x800 then [0xC0 + c / 64, 0x80 + c % 64]
  else if c < 0x10000 then [0xE0 + c / 4096, 0x80 + c / 64 % 64, 0x80 + c % 64]
  else [0xF0 + c / 262144, 0x80 + c / 4096 % 64, 0x80 + c / 64 % 64, 0x80 + c % 64]

/-- `string(rune(c))` -/
def encodeRune (c : Int) : List Nat := encodeNat (sanitize c)

/-- `string(rs)` for `rs []rune` -/
def encode : List Int → List Nat
  | [] => []
  | c :: rs => encodeRune c ++ encode rs

/-- continuation byte -/
def isCont (b : Nat) : Prop := 0x80 ≤ b ∧ b ≤ 0xBF
instance (b : Nat) : Decidable (isCont b) := by unfold isCont; infer_instance

/-- admissible range of the second byte after lead byte `b0` (Unicode table 3-7) -/
def lo2 (b0 : Nat) : Nat := if b0 = 0xE0 then 0xA0 else if b0 = 0xF0 then 0x90 else 0x80
def hi2 (b0 : Nat) : Nat := if b0 = 0xED then 0x9F else if b0 = 0xF4 then 0x8F else 0xBF

/-- byte `i` of the string, `256` (never a valid byte) past the end -/
def byteAt (bs : List Nat) (i : Nat) : Nat := bs.getD i 256

/-- first code point of a byte string and its width; `(0xFFFD, 1)` for an invalid
    sequence (Unicode table 3-7 "Well-Formed UTF-8 Byte Sequences") -/
def decodeOne (bs : List Nat) : Nat × Nat :=
  let b0 := byteAt bs 0
  let b1 := byteAt bs 1
  let b2 := byteAt bs 2
  let b3 := byteAt bs 3
  if b0 < 0x80 then (b0, 1)
  else if 0xC2 ≤ b0 ∧ b0 ≤ 0xDF ∧ isCont b1 then
    ((b0 - 0xC0) * 64 + (b1 - 0x80), 2)
  else if 0xE0 ≤ b0 ∧ b0 ≤ 0xEF ∧ lo2 b0 ≤ b1 ∧ b1 ≤ hi2 b0 ∧ isCont b2 then
    ((b0 - 0xE0) * 4096 + (b1 - 0x80) * 64 + (b2 - 0x80), 3)
  else if 0xF0 ≤ b0 ∧ b0 ≤ 0xF4 ∧ lo2 b0 ≤ b1 ∧ b1 ≤ hi2 b0 ∧ isCont b2 ∧ isCont b3 then
    ((b0 - 0xF0) * 262144 + (b1 - 0x80) * 4096 + (b2 - 0x80) * 64 + (b3 - 0x80), 4)
  else (runeError, 1)

/-- `[]rune(s)` with explicit fuel (one unit per decoded code point) -/
def decodeFuel : Nat → List Nat → List Nat
  | 0, _ => []
  | _ + 1, [] => []
  | f + 1, b :: bs =>
    let rw := decodeOne (b :: bs)
    rw.1 :: decodeFuel f ((b :: bs).drop rw.2)

/-- `[]rune(s)` -/
def decode (bs : List Nat) : List Nat := decodeFuel bs.length bs

/-- `string(i)` for an integer value `i` of any integer type -/
def ofInt (i : Int) : List Nat := encodeRune i

end GoSpec.Str
