/-!
# GoSpec.Const — the meaning of Go's untyped constant expressions (specification side of C04)

An untyped constant is a boolean, a string, or a number with an untyped *kind*
(`int < rune < float < complex`) and an exact mathematical value: an integer for the kinds
int/rune, a rational for float, a pair of rationals for complex.  (Go spec, "Constants" and
"Constant expressions": "Numeric constants represent exact values of arbitrary precision and do
not overflow"; "if the operands of a binary operation are different kinds of untyped constants,
the result is of the kind that appears later in this list: integer, rune, floating-point, complex".)

Everything is on exact `Int` / `Rat`; rounding to float32/float64 is NOT part of this file: for
floating-point targets only the *range* condition (the constant rounds to a finite value) is
specified, by the closed-form threshold `2^emax - 2^(emax-p-1)` (round-to-nearest-even).
Core Lean only.
-/
namespace GoSpec.Const

/-! ## kinds -/

inductive NKind where
  | int | rune | float | complex
  deriving DecidableEq, Repr, Inhabited

def NKind.rank : NKind → Nat
  | .int => 0 | .rune => 1 | .float => 2 | .complex => 3

/-- the kind "that appears later in the list" -/
def NKind.max (a b : NKind) : NKind := if a.rank < b.rank then b else a

def NKind.isInt : NKind → Bool
  | .int | .rune => true
  | _ => false

/-! ## complex rationals -/

structure Cx where
  re : Rat
  im : Rat
  deriving DecidableEq, Repr, Inhabited

namespace Cx
def ofRat (q : Rat) : Cx := ⟨q, 0⟩
def ofInt (n : Int) : Cx := ⟨(n : Rat), 0⟩
def zero : Cx := ⟨0, 0⟩
def one : Cx := ⟨1, 0⟩
def add (x y : Cx) : Cx := ⟨x.re + y.re, x.im + y.im⟩
def sub (x y : Cx) : Cx := ⟨x.re - y.re, x.im - y.im⟩
def neg (x : Cx) : Cx := ⟨-x.re, -x.im⟩
def mul (x y : Cx) : Cx := ⟨x.re * y.re - x.im * y.im, x.im * y.re + x.re * y.im⟩
def normSq (y : Cx) : Rat := y.re * y.re + y.im * y.im
/-- multiplicative inverse (meaningful when `normSq y ≠ 0`, see `mul_inv`) -/
def inv (y : Cx) : Cx := ⟨y.re / normSq y, -y.im / normSq y⟩
/-- exact complex division: multiplication by the inverse -/
def div (x y : Cx) : Cx := mul x (inv y)
end Cx

/-! ## two's complement bit operations on unbounded integers
(Go spec: the bitwise operators apply to integers of arbitrary size as if in infinite two's
complement).  `-[m+1]` is the complement of `m`. -/

def bnot (x : Int) : Int := -x - 1

def band : Int → Int → Int
  | .ofNat a, .ofNat b => Int.ofNat (a &&& b)
  | .ofNat a, .negSucc b => Int.ofNat (a - (a &&& b))          -- a &^ b
  | .negSucc a, .ofNat b => Int.ofNat (b - (b &&& a))
  | .negSucc a, .negSucc b => Int.negSucc (a ||| b)

def bor : Int → Int → Int
  | .ofNat a, .ofNat b => Int.ofNat (a ||| b)
  | .ofNat a, .negSucc b => Int.negSucc (b - (b &&& a))         -- ~(b &^ a)
  | .negSucc a, .ofNat b => Int.negSucc (a - (a &&& b))
  | .negSucc a, .negSucc b => Int.negSucc (a &&& b)

def bxor : Int → Int → Int
  | .ofNat a, .ofNat b => Int.ofNat (a ^^^ b)
  | .ofNat a, .negSucc b => Int.negSucc (a ^^^ b)
  | .negSucc a, .ofNat b => Int.negSucc (a ^^^ b)
  | .negSucc a, .negSucc b => Int.ofNat (a ^^^ b)

def bandNot (x y : Int) : Int := band x (bnot y)

/-! ## values -/

inductive Val where
  | bool (b : Bool)
  | str (s : String)
  | num (k : NKind) (v : Cx)
  deriving DecidableEq, Repr, Inhabited

/-- integer kinds hold integers, float holds a real -/
def Val.wf : Val → Prop
  | .num k v => (k.isInt = true → v.re.den = 1 ∧ v.im = 0) ∧ (k = .float → v.im = 0)
  | _ => True

/-! ## operators -/

inductive BinOp where
  | add | sub | mul | quo | rem | and | or | xor | andNot
  | shl | shr
  | eql | neq | lss | leq | gtr | geq
  | land | lor
  deriving DecidableEq, Repr, Inhabited

def BinOp.isCompare : BinOp → Bool
  | .eql | .neq | .lss | .leq | .gtr | .geq => true
  | _ => false

def BinOp.isOrdered : BinOp → Bool
  | .lss | .leq | .gtr | .geq => true
  | _ => false

inductive UnOp where
  | pos | neg | cpl | not
  deriving DecidableEq, Repr, Inhabited

/-- integer operands: `/` truncates toward zero, `%` has the sign of the dividend -/
def intArith : BinOp → Int → Int → Option Int
  | .add, a, b => some (a + b)
  | .sub, a, b => some (a - b)
  | .mul, a, b => some (a * b)
  | .quo, a, b => if b = 0 then none else some (Int.tdiv a b)
  | .rem, a, b => if b = 0 then none else some (Int.tmod a b)
  | .and, a, b => some (band a b)
  | .or, a, b => some (bor a b)
  | .xor, a, b => some (bxor a b)
  | .andNot, a, b => some (bandNot a b)
  | _, _, _ => none

def realArith : BinOp → Rat → Rat → Option Rat
  | .add, a, b => some (a + b)
  | .sub, a, b => some (a - b)
  | .mul, a, b => some (a * b)
  | .quo, a, b => if b = 0 then none else some (a / b)
  | _, _, _ => none

def cxArith : BinOp → Cx → Cx → Option Cx
  | .add, a, b => some (Cx.add a b)
  | .sub, a, b => some (Cx.sub a b)
  | .mul, a, b => some (Cx.mul a b)
  | .quo, a, b => if Cx.normSq b = 0 then none else some (Cx.div a b)
  | _, _, _ => none

/-- arithmetic operators `+ - * / % & | ^ &^` on two constants -/
def arith (op : BinOp) : Val → Val → Option Val
  | .str a, .str b => if op = .add then some (.str (a ++ b)) else none
  | .num kx x, .num ky y =>
    let k := NKind.max kx ky
    if k.isInt then (intArith op x.re.num y.re.num).map (fun n => .num k (Cx.ofInt n))
    else if k = .float then (realArith op x.re y.re).map (fun q => .num k (Cx.ofRat q))
    else (cxArith op x y).map (fun z => .num k z)
  | _, _ => none

def cmpOrd (op : BinOp) (lt eq : Bool) : Bool :=
  match op with
  | .eql => eq
  | .neq => !eq
  | .lss => lt
  | .leq => lt || eq
  | .gtr => !(lt || eq)
  | .geq => !lt
  | _ => false

/-- comparison operators; the result is an untyped boolean -/
def compareOp (op : BinOp) : Val → Val → Option Val
  | .bool a, .bool b => if op.isOrdered then none else some (.bool (cmpOrd op false (a == b)))
  | .str a, .str b => some (.bool (cmpOrd op (decide (a < b)) (a == b)))
  | .num kx x, .num ky y =>
    if kx = .complex ∨ ky = .complex then
      if op.isOrdered then none else some (.bool (cmpOrd op false (decide (x = y))))
    else some (.bool (cmpOrd op (decide (x.re < y.re)) (decide (x.re = y.re))))
  | _, _ => none

/-- the integer a numeric constant is representable as, if any -/
def Val.asInteger : Val → Option Int
  | .num _ v => if v.im = 0 ∧ v.re.den = 1 then some v.re.num else none
  | _ => none

def maxShiftCount : Int := 2 ^ 64

/-- kind of a constant shift: an integer constant; a rune operand stays rune -/
def shiftKind : Val → NKind
  | .num .rune _ => .rune
  | _ => .int

/-- constant shifts: the left operand must be representable as an integer, the count as a `uint`;
    the result is an integer constant (rune stays rune) -/
def shift (op : BinOp) (x y : Val) : Option Val :=
  match x.asInteger, y.asInteger with
  | some m, some n =>
    if 0 ≤ n ∧ n < maxShiftCount then
      match op with
      | .shl => some (.num (shiftKind x) (Cx.ofInt (m * 2 ^ n.toNat)))
      | .shr => some (.num (shiftKind x) (Cx.ofInt (m / 2 ^ n.toNat)))   -- `Int./` rounds toward -∞ for a positive divisor
      | _ => none
    else none
  | _, _ => none

def logical (op : BinOp) : Val → Val → Option Val
  | .bool a, .bool b =>
    match op with
    | .land => some (.bool (a && b))
    | .lor => some (.bool (a || b))
    | _ => none
  | _, _ => none

def binop (op : BinOp) (x y : Val) : Option Val :=
  match op with
  | .land | .lor => logical op x y
  | .shl | .shr => shift op x y
  | .eql | .neq | .lss | .leq | .gtr | .geq => compareOp op x y
  | _ => arith op x y

def unop (op : UnOp) : Val → Option Val
  | .bool b => if op = .not then some (.bool !b) else none
  | .str _ => none
  | .num k v =>
    match op with
    | .pos => some (.num k v)
    | .neg => some (.num k (Cx.neg v))
    | .cpl => if k.isInt then some (.num k (Cx.ofInt (bnot v.re.num))) else none
    | .not => none

/-- `real(c)`, `imag(c)`: untyped floating-point constants -/
def realOf : Val → Option Val
  | .num _ v => some (.num .float (Cx.ofRat v.re))
  | _ => none
def imagOf : Val → Option Val
  | .num _ v => some (.num .float (Cx.ofRat v.im))
  | _ => none
/-- `complex(a, b)`: both arguments must be real -/
def complexOf : Val → Val → Option Val
  | .num _ a, .num _ b => if a.im = 0 ∧ b.im = 0 then some (.num .complex ⟨a.re, b.re⟩) else none
  | _, _ => none

/-! ## expression trees -/

inductive Expr where
  | lit (v : Val)
  | un (op : UnOp) (e : Expr)
  | bin (op : BinOp) (a b : Expr)
  | real (e : Expr)
  | imag (e : Expr)
  | cmplx (a b : Expr)
  deriving Repr, Inhabited

def eval : Expr → Option Val
  | .lit v => some v
  | .un op e => (eval e).bind (unop op)
  | .bin op a b => (eval a).bind fun x => (eval b).bind fun y => binop op x y
  | .real e => (eval e).bind realOf
  | .imag e => (eval e).bind imagOf
  | .cmplx a b => (eval a).bind fun x => (eval b).bind fun y => complexOf x y

/-! ## representability in typed contexts -/

/-- the 11 integer kinds by (signed?, width) -/
structure IntT where
  signed : Bool
  bits : Nat
  deriving DecidableEq, Repr, Inhabited

def IntT.min (t : IntT) : Int := if t.signed then -(2 ^ (t.bits - 1)) else 0
def IntT.max (t : IntT) : Int := if t.signed then 2 ^ (t.bits - 1) - 1 else 2 ^ t.bits - 1

/-- a constant is representable by an integer type iff it is an integer within the range -/
def representableInt (t : IntT) : Val → Prop
  | .num _ v => v.im = 0 ∧ v.re.den = 1 ∧ t.min ≤ v.re.num ∧ v.re.num ≤ t.max
  | _ => False

def Rat.abs' (q : Rat) : Rat := if q < 0 then -q else q

/-- `|q|` rounds (to nearest, ties to even) to a finite binary32/binary64 value iff it is below
    `2^emax - 2^(emax-p-1)` : float32 `2^128 - 2^103`, float64 `2^1024 - 2^970` -/
def floatLimit (bits : Nat) : Rat :=
  if bits = 32 then ((2 ^ 128 - 2 ^ 103 : Int) : Rat) else ((2 ^ 1024 - 2 ^ 970 : Int) : Rat)

def roundsToFinite (bits : Nat) (q : Rat) : Prop := Rat.abs' q < floatLimit bits

/-- range part of representability by float32/float64 (the rounded value is not specified here) -/
def representableFloat (bits : Nat) : Val → Prop
  | .num _ v => v.im = 0 ∧ roundsToFinite bits v.re
  | _ => False

def representableComplex (bits : Nat) : Val → Prop
  | .num _ v => roundsToFinite bits v.re ∧ roundsToFinite bits v.im
  | _ => False

end GoSpec.Const
