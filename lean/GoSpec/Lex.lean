/-! Specification side of C26: the lexical structure of (go)macro source at byte level.

A small reference lexer written from the Go language specification ("Comments", "String literals",
"Rune literals", "Operators and punctuation") plus the three gomacro extensions that
go/scanner/scanner.go implements:
  * `#!` outside literals/comments starts a line comment,
  * the macro character `~` followed by one of  ' " ` ,  forms a two-byte token (quote, quasiquote,
    unquote) — the quote character does NOT open a literal,
  * `#` alone is a token.
It knows nothing about ReadMultiline: no continuation flag, no token positions, no `continue`s.
State = lexical context + bracket depth.  `bad` = a newline inside an interpreted string or rune
literal (the only lexical error ReadMultiline reports). -/
namespace GoLex

/-- byte classes that matter to the lexical structure -/
inductive Cls
  | opn      -- ( [ {
  | cls      -- ) ] }
  | quote    -- '
  | dquote   -- "
  | bquote   -- `
  | slash    -- /
  | hash     -- #
  | tilde    -- ~
  | bang     -- !
  | star     -- *
  | comma    -- ,
  | op       -- % & : < = > ^ |
  | plus     -- +
  | minus    -- -
  | bslash   -- \
  | nl       -- newline
  | blank    -- every other byte <= ' '
  | other    -- every other byte > ' '
  deriving DecidableEq, Repr

def classify (c : UInt8) : Cls :=
  if c == 40 || c == 91 || c == 123 then .opn
  else if c == 41 || c == 93 || c == 125 then .cls
  else if c == 39 then .quote
  else if c == 34 then .dquote
  else if c == 96 then .bquote
  else if c == 47 then .slash
  else if c == 35 then .hash
  else if c == 126 then .tilde
  else if c == 33 then .bang
  else if c == 42 then .star
  else if c == 44 then .comma
  else if c == 37 || c == 38 || c == 58 || c == 60 || c == 61 || c == 62 || c == 94 || c == 124 then .op
  else if c == 43 then .plus
  else if c == 45 then .minus
  else if c == 92 then .bslash
  else if c == 10 then .nl
  else if c ≤ 32 then .blank
  else .other

inductive Lex
  | code | slash | hash | tilde
  | str | strEsc | rune | runeEsc | raw
  | lineCom | blockCom | blockStar
  | bad
  deriving DecidableEq, Repr

structure RSt where
  lex : Lex
  depth : Int
  deriving DecidableEq, Repr

/-- a byte seen in code context -/
def rcode (d : Int) : Cls → RSt
  | .opn => ⟨.code, d + 1⟩
  | .cls => ⟨.code, d - 1⟩
  | .quote => ⟨.rune, d⟩
  | .dquote => ⟨.str, d⟩
  | .bquote => ⟨.raw, d⟩
  | .slash => ⟨.slash, d⟩
  | .hash => ⟨.hash, d⟩
  | .tilde => ⟨.tilde, d⟩
  | _ => ⟨.code, d⟩

def rSlash (d : Int) : Cls → RSt
  | .slash => ⟨.lineCom, d⟩
  | .star => ⟨.blockCom, d⟩
  | c => rcode d c                 -- the '/' was the division operator

def rHash (d : Int) : Cls → RSt
  | .bang => ⟨.lineCom, d⟩
  | c => rcode d c                 -- the '#' was a token of its own

def rTilde (d : Int) : Cls → RSt
  | .quote | .dquote | .bquote | .comma => ⟨.code, d⟩   -- ~' ~" ~` ~,
  | c => rcode d c

/-- inside "..." (q = the closing quote class) or '...' -/
def rQuoted (inside esc : Lex) (q : Cls) (d : Int) (c : Cls) : RSt :=
  if c = .bslash then ⟨esc, d⟩
  else if c = q then ⟨.code, d⟩
  else if c = .nl then ⟨.bad, d⟩
  else ⟨inside, d⟩

def rEsc (inside : Lex) (d : Int) : Cls → RSt
  | .nl => ⟨.bad, d⟩
  | _ => ⟨inside, d⟩

def rRaw (d : Int) : Cls → RSt
  | .bquote => ⟨.code, d⟩
  | _ => ⟨.raw, d⟩

def rLineCom (d : Int) : Cls → RSt
  | .nl => ⟨.code, d⟩
  | _ => ⟨.lineCom, d⟩

def rBlockCom (d : Int) : Cls → RSt
  | .star => ⟨.blockStar, d⟩
  | _ => ⟨.blockCom, d⟩

def rBlockStar (d : Int) : Cls → RSt
  | .slash => ⟨.code, d⟩
  | .star => ⟨.blockStar, d⟩
  | _ => ⟨.blockCom, d⟩

def rstepC (r : RSt) (c : Cls) : RSt :=
  match r.lex with
  | .code => rcode r.depth c
  | .slash => rSlash r.depth c
  | .hash => rHash r.depth c
  | .tilde => rTilde r.depth c
  | .str => rQuoted .str .strEsc .dquote r.depth c
  | .strEsc => rEsc .str r.depth c
  | .rune => rQuoted .rune .runeEsc .quote r.depth c
  | .runeEsc => rEsc .rune r.depth c
  | .raw => rRaw r.depth c
  | .lineCom => rLineCom r.depth c
  | .blockCom => rBlockCom r.depth c
  | .blockStar => rBlockStar r.depth c
  | .bad => r

def rstep (r : RSt) (ch : UInt8) : RSt := rstepC r (classify ch)

def rlexFrom (r : RSt) (bs : List UInt8) : RSt := bs.foldl rstep r

/-- reference state after a byte string read from the start of a stream -/
def rlex (bs : List UInt8) : RSt := rlexFrom ⟨.code, 0⟩ bs

/-- not inside a string, raw string, rune or comment (a pending '/', '#' or '~' is a code token) -/
def Lex.outside : Lex → Bool
  | .code | .slash | .hash | .tilde => true
  | _ => false

/-- the documented rewrite: `#!` becomes `//` (what may differ between input and returned bytes) -/
inductive Rw : List UInt8 → List UInt8 → Prop
  | nil : Rw [] []
  | same (c : UInt8) {xs ys : List UInt8} : Rw xs ys → Rw (c :: xs) (c :: ys)
  | hashbang {xs ys : List UInt8} : Rw xs ys → Rw (35 :: 33 :: xs) (47 :: 47 :: ys)

end GoLex
