import GoSpec.Int
/-! # GoSpec.Val — values of Go's basic types and the meaning of the operators on them

* 17 basic kinds; integer kinds map to an `IKind` (width, signedness) — `int`, `uint`, `uintptr`
  are 64 bit (amd64, the platform the correspondence runs on);
* floating-point and complex values are carried as IEEE bit patterns; their arithmetic is a
  **parameter** `F : FloatOps` of everything below (no float axioms): what is specified and
  proved for those kinds is *which* operation is applied to *which* operands in *which* order;
* strings are byte lists;
* `binop F op a b : Option (Outcome Val)`: `none` = the operator is not defined on these operand
  kinds (a compile-time type error in Go), `some (panic _)` = run-time panic.  -/

namespace GoSpec
open Outcome

inductive Kind where
  | bool | int | int8 | int16 | int32 | int64
  | uint | uint8 | uint16 | uint32 | uint64 | uintptr
  | float32 | float64 | complex64 | complex128 | string
  deriving DecidableEq, Repr, Inhabited

namespace Kind
def all : List Kind :=
  [bool, int, int8, int16, int32, int64, uint, uint8, uint16, uint32, uint64, uintptr,
   float32, float64, complex64, complex128, string]

def name : Kind → String
  | bool => "bool" | int => "int" | int8 => "int8" | int16 => "int16" | int32 => "int32"
  | int64 => "int64" | uint => "uint" | uint8 => "uint8" | uint16 => "uint16" | uint32 => "uint32"
  | uint64 => "uint64" | uintptr => "uintptr" | float32 => "float32" | float64 => "float64"
  | complex64 => "complex64" | complex128 => "complex128" | string => "string"

def ofName (s : String) : Option Kind := all.find? (fun k => k.name == s)

/-- width/signedness of the integer kinds -/
def ikind? : Kind → Option IKind
  | int => some ⟨64, true⟩ | int8 => some ⟨8, true⟩ | int16 => some ⟨16, true⟩
  | int32 => some ⟨32, true⟩ | int64 => some ⟨64, true⟩
  | uint => some ⟨64, false⟩ | uint8 => some ⟨8, false⟩ | uint16 => some ⟨16, false⟩
  | uint32 => some ⟨32, false⟩ | uint64 => some ⟨64, false⟩ | uintptr => some ⟨64, false⟩
  | _ => none

def isInteger (k : Kind) : Bool := k.ikind?.isSome
def isFloat : Kind → Bool | float32 | float64 => true | _ => false
def isComplex : Kind → Bool | complex64 | complex128 => true | _ => false
def isNumeric (k : Kind) : Bool := k.isInteger || k.isFloat || k.isComplex
def isOrdered (k : Kind) : Bool := k.isInteger || k.isFloat || k == string
end Kind

/-- IEEE arithmetic on bit patterns: a parameter, instantiated by the hardware in the driver -/
structure FloatOps where
  add32 : BitVec 32 → BitVec 32 → BitVec 32
  sub32 : BitVec 32 → BitVec 32 → BitVec 32
  mul32 : BitVec 32 → BitVec 32 → BitVec 32
  div32 : BitVec 32 → BitVec 32 → BitVec 32
  neg32 : BitVec 32 → BitVec 32
  eq32 : BitVec 32 → BitVec 32 → Bool
  lt32 : BitVec 32 → BitVec 32 → Bool
  le32 : BitVec 32 → BitVec 32 → Bool
  add64 : BitVec 64 → BitVec 64 → BitVec 64
  sub64 : BitVec 64 → BitVec 64 → BitVec 64
  mul64 : BitVec 64 → BitVec 64 → BitVec 64
  div64 : BitVec 64 → BitVec 64 → BitVec 64
  neg64 : BitVec 64 → BitVec 64
  eq64 : BitVec 64 → BitVec 64 → Bool
  lt64 : BitVec 64 → BitVec 64 → Bool
  le64 : BitVec 64 → BitVec 64 → Bool
  /-- float32 -> float64 (exact) and float64 -> float32 (rounding) conversions -/
  widen : BitVec 32 → BitVec 64
  narrow : BitVec 64 → BitVec 32
  /-- complex multiplication / division (Go: four products, resp. `runtime.complex128div`) -/
  cmul64 : BitVec 32 × BitVec 32 → BitVec 32 × BitVec 32 → BitVec 32 × BitVec 32
  cdiv64 : BitVec 32 × BitVec 32 → BitVec 32 × BitVec 32 → BitVec 32 × BitVec 32
  cmul128 : BitVec 64 × BitVec 64 → BitVec 64 × BitVec 64 → BitVec 64 × BitVec 64
  cdiv128 : BitVec 64 × BitVec 64 → BitVec 64 × BitVec 64 → BitVec 64 × BitVec 64

inductive Val where
  | bool (b : Bool)
  | int (k : IKind) (v : BitVec k.w)
  | f32 (b : BitVec 32)
  | f64 (b : BitVec 64)
  | c64 (re im : BitVec 32)
  | c128 (re im : BitVec 64)
  | str (s : List UInt8)

/-- does the value inhabit the kind? -/
def Val.hasKind : Val → Kind → Bool
  | .bool _, .bool => true
  | .int k _, kd => kd.ikind? == some k
  | .f32 _, .float32 => true
  | .f64 _, .float64 => true
  | .c64 _ _, .complex64 => true
  | .c128 _ _, .complex128 => true
  | .str _, .string => true
  | _, _ => false

/-- the zero value of a kind -/
def Val.zero : Kind → Val
  | .bool => .bool false
  | .float32 => .f32 0 | .float64 => .f64 0
  | .complex64 => .c64 0 0 | .complex128 => .c128 0 0
  | .string => .str []
  | k => match k.ikind? with
    | some ik => .int ik 0
    | none => .bool false

inductive BinOp where
  | add | sub | mul | quo | rem | and | or | xor | andNot | shl | shr
  | land | lor | eql | neq | lss | leq | gtr | geq
  deriving DecidableEq, Repr, Inhabited

inductive UnOp where
  | plus | neg | not | xor
  deriving DecidableEq, Repr, Inhabited

namespace BinOp
def name : BinOp → String
  | add => "ADD" | sub => "SUB" | mul => "MUL" | quo => "QUO" | rem => "REM" | and => "AND"
  | or => "OR" | xor => "XOR" | andNot => "AND_NOT" | shl => "SHL" | shr => "SHR"
  | land => "LAND" | lor => "LOR" | eql => "EQL" | neq => "NEQ" | lss => "LSS" | leq => "LEQ"
  | gtr => "GTR" | geq => "GEQ"
def all : List BinOp :=
  [add, sub, mul, quo, rem, and, or, xor, andNot, shl, shr, land, lor, eql, neq, lss, leq, gtr, geq]
def ofName (s : String) : Option BinOp := all.find? (fun o => o.name == s)
def isComparison : BinOp → Bool
  | eql | neq | lss | leq | gtr | geq => true
  | _ => false
def isShift : BinOp → Bool | shl | shr => true | _ => false

/-- the kinds of the (left) operand for which Go defines the operator
    (spec: "Arithmetic operators", "Comparison operators", "Logical operators") -/
def definedOn (op : BinOp) (k : Kind) : Bool :=
  match op with
  | add => k.isNumeric || k == .string
  | sub | mul | quo => k.isNumeric
  | rem | and | or | xor | andNot | shl | shr => k.isInteger
  | land | lor => k == .bool
  | eql | neq => true
  | lss | leq | gtr | geq => k.isOrdered
end BinOp

namespace UnOp
def name : UnOp → String | plus => "PLUS" | neg => "NEG" | not => "NOT" | xor => "XOR"
def all : List UnOp := [plus, neg, not, xor]
def ofName (s : String) : Option UnOp := all.find? (fun o => o.name == s)
def definedOn (op : UnOp) (k : Kind) : Bool :=
  match op with
  | plus | neg => k.isNumeric
  | not => k == .bool
  | xor => k.isInteger
end UnOp

/-- lexicographic byte order on strings -/
def strLt : List UInt8 → List UInt8 → Bool
  | [], [] => false
  | [], _ :: _ => true
  | _ :: _, [] => false
  | a :: as, b :: bs => if a < b then true else if b < a then false else strLt as bs

def strEq (a b : List UInt8) : Bool := a == b

/-- integer arithmetic operator at one kind -/
def intBin (op : BinOp) (k : IKind) (x y : BitVec k.w) : Option (Outcome Val) :=
  match op with
  | .add => some (ok (.int k (I.add x y)))
  | .sub => some (ok (.int k (I.sub x y)))
  | .mul => some (ok (.int k (I.mul x y)))
  | .quo => some ((I.quo k.signed x y).map (.int k))
  | .rem => some ((I.rem k.signed x y).map (.int k))
  | .and => some (ok (.int k (I.and x y)))
  | .or => some (ok (.int k (I.or x y)))
  | .xor => some (ok (.int k (I.xor x y)))
  | .andNot => some (ok (.int k (I.andNot x y)))
  | .eql => some (ok (.bool (I.eq x y)))
  | .neq => some (ok (.bool (I.ne x y)))
  | .lss => some (ok (.bool (I.lt k.signed x y)))
  | .leq => some (ok (.bool (I.le k.signed x y)))
  | .gtr => some (ok (.bool (I.gt k.signed x y)))
  | .geq => some (ok (.bool (I.ge k.signed x y)))
  | _ => none

/-- `x << y`, `x >> y`: the count may be of any integer kind -/
def intShift (op : BinOp) (k : IKind) (x : BitVec k.w) (kc : IKind) (c : BitVec kc.w) : Option (Outcome Val) :=
  match op with
  | .shl => some ((I.shiftCount kc.signed c).map (fun n => .int k (I.shl x n)))
  | .shr => some ((I.shiftCount kc.signed c).map (fun n => .int k (I.shr k.signed x n)))
  | _ => none

/-- the meaning of a Go binary operator on two values of basic type -/
def binop (F : FloatOps) (op : BinOp) (a b : Val) : Option (Outcome Val) :=
  match a, b with
  | .int k x, .int k' y =>
    if op.isShift then intShift op k x k' y
    else if h : k' = k then intBin op k x (h ▸ y) else none
  | .bool x, .bool y =>
    match op with
    | .land => some (ok (.bool (x && y)))
    | .lor => some (ok (.bool (x || y)))
    | .eql => some (ok (.bool (x == y)))
    | .neq => some (ok (.bool (x != y)))
    | _ => none
  | .str x, .str y =>
    match op with
    | .add => some (ok (.str (x ++ y)))
    | .eql => some (ok (.bool (strEq x y)))
    | .neq => some (ok (.bool (!strEq x y)))
    | .lss => some (ok (.bool (strLt x y)))
    | .leq => some (ok (.bool (!strLt y x)))
    | .gtr => some (ok (.bool (strLt y x)))
    | .geq => some (ok (.bool (!strLt x y)))
    | _ => none
  | .f32 x, .f32 y =>
    match op with
    | .add => some (ok (.f32 (F.add32 x y)))
    | .sub => some (ok (.f32 (F.sub32 x y)))
    | .mul => some (ok (.f32 (F.mul32 x y)))
    | .quo => some (ok (.f32 (F.div32 x y)))
    | .eql => some (ok (.bool (F.eq32 x y)))
    | .neq => some (ok (.bool (!F.eq32 x y)))
    | .lss => some (ok (.bool (F.lt32 x y)))
    | .leq => some (ok (.bool (F.le32 x y)))
    | .gtr => some (ok (.bool (F.lt32 y x)))
    | .geq => some (ok (.bool (F.le32 y x)))
    | _ => none
  | .f64 x, .f64 y =>
    match op with
    | .add => some (ok (.f64 (F.add64 x y)))
    | .sub => some (ok (.f64 (F.sub64 x y)))
    | .mul => some (ok (.f64 (F.mul64 x y)))
    | .quo => some (ok (.f64 (F.div64 x y)))
    | .eql => some (ok (.bool (F.eq64 x y)))
    | .neq => some (ok (.bool (!F.eq64 x y)))
    | .lss => some (ok (.bool (F.lt64 x y)))
    | .leq => some (ok (.bool (F.le64 x y)))
    | .gtr => some (ok (.bool (F.lt64 y x)))
    | .geq => some (ok (.bool (F.le64 y x)))
    | _ => none
  | .c64 xr xi, .c64 yr yi =>
    match op with
    | .add => some (ok (.c64 (F.add32 xr yr) (F.add32 xi yi)))
    | .sub => some (ok (.c64 (F.sub32 xr yr) (F.sub32 xi yi)))
    | .mul => let z := F.cmul64 (xr, xi) (yr, yi); some (ok (.c64 z.1 z.2))
    | .quo => let z := F.cdiv64 (xr, xi) (yr, yi); some (ok (.c64 z.1 z.2))
    | .eql => some (ok (.bool (F.eq32 xr yr && F.eq32 xi yi)))
    | .neq => some (ok (.bool (!(F.eq32 xr yr && F.eq32 xi yi))))
    | _ => none
  | .c128 xr xi, .c128 yr yi =>
    match op with
    | .add => some (ok (.c128 (F.add64 xr yr) (F.add64 xi yi)))
    | .sub => some (ok (.c128 (F.sub64 xr yr) (F.sub64 xi yi)))
    | .mul => let z := F.cmul128 (xr, xi) (yr, yi); some (ok (.c128 z.1 z.2))
    | .quo => let z := F.cdiv128 (xr, xi) (yr, yi); some (ok (.c128 z.1 z.2))
    | .eql => some (ok (.bool (F.eq64 xr yr && F.eq64 xi yi)))
    | .neq => some (ok (.bool (!(F.eq64 xr yr && F.eq64 xi yi))))
    | _ => none
  | _, _ => none

/-- the meaning of a Go unary operator -/
def unop (F : FloatOps) (op : UnOp) (a : Val) : Option (Outcome Val) :=
  match op, a with
  | .plus, .int k x => some (ok (.int k x))
  | .plus, .f32 x => some (ok (.f32 x))
  | .plus, .f64 x => some (ok (.f64 x))
  | .plus, .c64 r i => some (ok (.c64 r i))
  | .plus, .c128 r i => some (ok (.c128 r i))
  | .neg, .int k x => some (ok (.int k (I.neg x)))
  | .neg, .f32 x => some (ok (.f32 (F.neg32 x)))
  | .neg, .f64 x => some (ok (.f64 (F.neg64 x)))
  | .neg, .c64 r i => some (ok (.c64 (F.neg32 r) (F.neg32 i)))
  | .neg, .c128 r i => some (ok (.c128 (F.neg64 r) (F.neg64 i)))
  | .xor, .int k x => some (ok (.int k (I.not x)))
  | .not, .bool b => some (ok (.bool (!b)))
  | _, _ => none

/-- static result kind of a binary operator applied to operands of kind `k` -/
def BinOp.resultKind (op : BinOp) (k : Kind) : Kind := if op.isComparison then .bool else k

end GoSpec
