/-! # GoSpec.Int — Go's fixed-width integer semantics (specification side)

Go integer types are `BitVec w` (`w ∈ {8,16,32,64}`; `int`, `uint`, `uintptr` are 64 bit on the
amd64 target the check runs on) together with a signedness flag.  This file is the *meaning of
the Go operators* as written in the Go language specification ("Arithmetic operators",
"Integer overflow", "Comparison operators", "Conversions"):

* `+ - * & | ^ &^` and unary `- ^` wrap around modulo `2^w`;
* `/ %` truncate toward zero (`sdiv`/`srem`) for signed, `udiv`/`umod` for unsigned operands; a
  zero divisor is the run-time panic `divide`; `MinInt / -1 = MinInt`, `MinInt % -1 = 0`
  ("if the dividend x is the most negative value ... x / -1 is equal to x due to overflow");
* `x << n`, `x >> n` take the count as a natural number (the count's own type only matters for
  the negative-count panic, see `shiftCount`); counts `≥ w` give `0` (or all sign bits for a
  signed `>>`) — there is no masking of the count;
* comparisons are signed or unsigned according to the operand type;
* conversions between integer types sign-extend a signed source / zero-extend an unsigned
  source to infinite precision and then truncate to the target width.

Everything is executable (the correspondence driver runs it) and core-only.  -/

namespace GoSpec

/-- run-time panics a basic-typed expression can raise -/
inductive Panic where
  | divide      -- "runtime error: integer divide by zero"
  | negShift    -- "runtime error: negative shift amount"
  deriving DecidableEq, Repr

/-- result of evaluating an expression: a value or a run-time panic -/
inductive Outcome (α : Type) where
  | ok (v : α)
  | panic (p : Panic)
  deriving DecidableEq, Repr

namespace Outcome
def map {α β} (f : α → β) : Outcome α → Outcome β
  | ok v => ok (f v)
  | panic p => panic p
def bind {α β} (o : Outcome α) (f : α → Outcome β) : Outcome β :=
  match o with
  | ok v => f v
  | panic p => panic p
instance : Monad Outcome where
  pure := ok
  bind := bind
@[simp] theorem bind_ok {α β} (v : α) (f : α → Outcome β) : (ok v >>= f) = f v := rfl
@[simp] theorem bind_panic {α β} (p : Panic) (f : α → Outcome β) : (panic p >>= f) = panic p := rfl
@[simp] theorem pure_eq {α} (v : α) : (pure v : Outcome α) = ok v := rfl
end Outcome

open Outcome

/-- an integer kind: width and signedness -/
structure IKind where
  w : Nat
  signed : Bool
  deriving DecidableEq, Repr

namespace I
variable {w : Nat}

/-! ### wrap-around arithmetic and bitwise operators -/
def add (x y : BitVec w) : BitVec w := x + y
def sub (x y : BitVec w) : BitVec w := x - y
def mul (x y : BitVec w) : BitVec w := x * y
def and (x y : BitVec w) : BitVec w := x &&& y
def or (x y : BitVec w) : BitVec w := x ||| y
def xor (x y : BitVec w) : BitVec w := x ^^^ y
/-- `x &^ y` (bit clear) -/
def andNot (x y : BitVec w) : BitVec w := x &&& ~~~y
/-- unary `-x` -/
def neg (x : BitVec w) : BitVec w := -x
/-- unary `^x` -/
def not (x : BitVec w) : BitVec w := ~~~x

/-! ### division and remainder -/
/-- `x / y`: truncated division; panics on a zero divisor.  `BitVec.sdiv` already gives
    `MinInt sdiv -1 = MinInt` (wrap-around), as the Go specification requires. -/
def quo (signed : Bool) (x y : BitVec w) : Outcome (BitVec w) :=
  if y = 0#w then panic .divide
  else ok (if signed then x.sdiv y else x.udiv y)

/-- `x % y`: remainder with the sign of the dividend; panics on a zero divisor -/
def rem (signed : Bool) (x y : BitVec w) : Outcome (BitVec w) :=
  if y = 0#w then panic .divide
  else ok (if signed then x.srem y else x.umod y)

/-! ### shifts (count already a natural number) -/
/-- `x << n`.  Written with an explicit test so that the executable definition never builds a
    `2^n`-sized natural number for a huge count; `shl_eq` shows it is `BitVec`'s `<<<`. -/
def shl (x : BitVec w) (n : Nat) : BitVec w := if n < w then x <<< n else 0#w
/-- `x >> n`: arithmetic for signed, logical for unsigned operands -/
def shr (signed : Bool) (x : BitVec w) (n : Nat) : BitVec w :=
  if n < w then (if signed then x.sshiftRight n else x >>> n)
  else if signed && x.msb then BitVec.allOnes w else 0#w

theorem shl_eq (x : BitVec w) (n : Nat) : shl x n = x <<< n := by
  unfold shl
  split
  · rfl
  · rename_i h
    exact (BitVec.shiftLeft_eq_zero (Nat.le_of_not_lt h)).symm

theorem shr_eq (signed : Bool) (x : BitVec w) (n : Nat) :
    shr signed x n = if signed then x.sshiftRight n else x >>> n := by
  unfold shr
  split
  · rfl
  · rename_i h
    have hn : w ≤ n := Nat.le_of_not_lt h
    cases signed
    · simp [BitVec.ushiftRight_eq_zero hn]
    · simp only [Bool.true_and, if_true]
      cases hm : x.msb
      · rw [BitVec.sshiftRight_eq_of_msb_false hm, BitVec.ushiftRight_eq_zero hn]; simp
      · rw [BitVec.sshiftRight_eq_of_msb_true hm, BitVec.ushiftRight_eq_zero hn]; simp

/-- the shift count of Go 1.13+: a count of signed type panics when negative; otherwise the
    count is its value as a natural number -/
def shiftCount {wc : Nat} (csigned : Bool) (c : BitVec wc) : Outcome Nat :=
  if csigned && c.msb then panic .negShift else ok c.toNat

/-! ### comparisons -/
def lt (signed : Bool) (x y : BitVec w) : Bool := if signed then x.slt y else x.ult y
def le (signed : Bool) (x y : BitVec w) : Bool := if signed then x.sle y else x.ule y
def gt (signed : Bool) (x y : BitVec w) : Bool := lt signed y x
def ge (signed : Bool) (x y : BitVec w) : Bool := le signed y x
def eq (x y : BitVec w) : Bool := x == y
def ne (x y : BitVec w) : Bool := x != y

/-! ### conversions between integer types -/
/-- `T(x)` for `x` of an integer type with signedness `fromSigned`, `T` of width `w'` -/
def conv (fromSigned : Bool) (x : BitVec w) (w' : Nat) : BitVec w' :=
  if fromSigned then x.signExtend w' else x.setWidth w'

/-- the mathematical value of an integer of the given signedness -/
def toInt (signed : Bool) (x : BitVec w) : Int := if signed then x.toInt else (x.toNat : Int)

/-- the value of kind `(w, signed)` representing the mathematical integer `i` modulo `2^w` -/
def ofInt (w : Nat) (i : Int) : BitVec w := BitVec.ofInt w i

end I
end GoSpec
