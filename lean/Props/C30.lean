import Proofs.Converter

/-! # C30 — converting standard-library type information preserves structure and identity

Model: `Model/Converter.lean` (go/types/converter.go: `Converter.typ`, `mknamed`, `mktypename`, the memo
table, deferred methods, `Package`).  Types on both sides are trees over the same abstract syntax
whose leaves `named id` refer to declarations; all cycles of Go type graphs pass through those.
The theorems hold for every environment of declarations (including mutually recursive ones), every
input type, every amount of fuel for which the conversion returns, with and without memo table. -/

namespace Converter

theorem cacheOK_empty (env : List SDecl) : CacheOK env St.empty := by
  intro a a' h; simp [St.empty] at h

theorem inv_empty (env : List SDecl) : Inv env [] St.empty := by
  refine ⟨?_, ?_, ?_⟩ <;> intros <;> simp_all [St.empty, lookup]

/-- `conv_structure`.  A conversion that returns, started in a state where no conversion is in
    progress, (1) returns the input type with every type name replaced by its fork counterpart —
    the same constructors, array lengths, channel directions, variadic flags, parameter / field /
    method names, packages, tags and embedded flags; (2) leaves a state in which, again, every type
    name in the scope has a fork declaration with the same package path and name whose underlying
    type is the renamed original; hence (3) original and result unfold to the same tree at every
    depth, through all cycles. -/
theorem conv_structure (c : Bool) (env : List SDecl) (hu : NamesUnique env) (fuel : Nat) (st st' : St) (t t' : CTy)
    (hc : CacheOK env st) (hi : Inv env [] st) (h : conv c env fuel st t = some (st', t')) :
    t' = rename (rho env st') t ∧ Closed env st' t ∧ Inv env [] st' ∧ CacheOK env st' ∧
    ∀ n, unfoldF st'.fdecls n t' = unfoldS env n t := by
  obtain ⟨_, c1, e1, k1⟩ := conv_sound c env fuel st t st' t' h hc
  have i1 := conv_inv c env hu fuel st t st' t' [] h hc hi
  exact ⟨e1, c1, i1, k1, fun n => by rw [e1]; exact unfold_eq i1 n t c1⟩

/-- the same for a whole scope: every object that is converted keeps kind and name, and its type
    is the renamed original in the FINAL state (later conversions never invalidate earlier results) -/
theorem convObjects_structure (c : Bool) (env : List SDecl) (hu : NamesUnique env) (fuel : Nat) :
    ∀ (objs : List Obj) (st : St), CacheOK env st → Inv env [] st →
      let r := convObjects c env fuel st objs
      Le st r.1 ∧ CacheOK env r.1 ∧ Inv env [] r.1 ∧
      ∀ o' ∈ r.2, ∃ o ∈ objs, o'.kind = o.kind ∧ o'.name = o.name ∧ Closed env r.1 o.ty ∧
        o'.ty = rename (rho env r.1) o.ty ∧ ∀ n, unfoldF r.1.fdecls n o'.ty = unfoldS env n o.ty
  | [], st, hc, hi => by simp [convObjects, Le.refl, hc, hi]
  | o :: os, st, hc, hi => by
    intro r
    cases h : conv c env fuel st o.ty with
    | none =>
      have hr : r = convObjects c env fuel st os := by simp only [r, convObjects, h]
      obtain ⟨l, k, i, hall⟩ := convObjects_structure c env hu fuel os st hc hi
      rw [hr]
      refine ⟨l, k, i, ?_⟩
      intro o' ho'
      obtain ⟨o0, hm, rest⟩ := hall o' ho'
      exact ⟨o0, List.mem_cons_of_mem _ hm, rest⟩
    | some p =>
      obtain ⟨st1, t'⟩ := p
      obtain ⟨l1, c1, e1, k1⟩ := conv_sound c env fuel st o.ty st1 t' h hc
      have i1 := conv_inv c env hu fuel st o.ty st1 t' [] h hc hi
      obtain ⟨l, k, i, hall⟩ := convObjects_structure c env hu fuel os st1 k1 i1
      have hr : r = ((convObjects c env fuel st1 os).1, { o with ty := t' } :: (convObjects c env fuel st1 os).2) := by
        simp only [r, convObjects, h]
      rw [hr]
      refine ⟨l1.trans l, k, i, ?_⟩
      intro o' ho'
      simp only [List.mem_cons] at ho'
      rcases ho' with rfl | ho'
      · obtain ⟨c2, e2⟩ := closed_le l c1
        refine ⟨o, by simp, rfl, rfl, c2, by simp only; rw [e1, e2], fun n => ?_⟩
        simp only
        rw [e1, ← e2]
        exact unfold_eq i n o.ty c2
      · obtain ⟨o0, hm, rest⟩ := hall o' ho'
        exact ⟨o0, List.mem_cons_of_mem _ hm, rest⟩

/-- methods: `addmethods` converts every declared method's signature to its renamed original -/
theorem convMethods_structure (c : Bool) (env : List SDecl) (hu : NamesUnique env) (fuel : Nat)
    (ms ms' : List (String × CTy)) (st st' : St) (hc : CacheOK env st) (hi : Inv env [] st)
    (h : convMethods c env fuel st ms = some (st', ms')) :
    Inv env [] st' ∧ CacheOK env st' ∧
    Rel2 (fun m m' => m'.1 = m.1 ∧ Closed env st' m.2 ∧ m'.2 = rename (rho env st') m.2) ms ms' := by
  obtain ⟨_, k, i, r⟩ := convMethods_sound c env hu fuel ms st st' ms' h hc hi
  exact ⟨i, k, r⟩

/-- `Converter.Package` as a whole: whatever objects it returns are the renamed originals in the
    final state (after the deferred methods were added), every type name reached has a complete fork
    declaration, nothing is left pending, and nothing that an earlier `Package` call established is lost -/
theorem convPackage_structure (c : Bool) (env : List SDecl) (hu : NamesUnique env) (fuel : Nat) (st st' : St)
    (objs os : List Obj) (hi : Inv env [] st) (h : convPackage c env fuel st objs = some (st', os)) :
    Le st st' ∧ Inv env [] st' ∧ CacheOK env st' ∧ st'.toadd = [] ∧
    ∀ o' ∈ os, ∃ o ∈ objs, o'.kind = o.kind ∧ o'.name = o.name ∧ Closed env st' o.ty ∧
      o'.ty = rename (rho env st') o.ty ∧ ∀ n, unfoldF st'.fdecls n o'.ty = unfoldS env n o.ty := by
  unfold convPackage at h
  have hc0 : CacheOK env { st with cache := [] } := by intro a a' hm; simp at hm
  have hi0 : Inv env [] { st with cache := [] } := inv_of_eq (st := st) (st' := { st with cache := [] }) rfl rfl hi
  obtain ⟨l1, k1, i1, hall⟩ := convObjects_structure c env hu fuel objs { st with cache := [] } hc0 hi0
  generalize hr : convObjects c env fuel { st with cache := [] } objs = r at h l1 k1 i1 hall
  obtain ⟨st1, os1⟩ := r
  simp only at h l1 k1 i1 hall
  cases hd : drain c env fuel fuel st1 with
  | none => rw [hd] at h; cases h
  | some st2 =>
    rw [hd] at h
    simp only [Option.some.injEq, Prod.mk.injEq] at h
    obtain ⟨rfl, rfl⟩ := h
    obtain ⟨l2, k2, i2, t2⟩ := drain_sound c env hu fuel fuel st1 st2 hd k1 i1
    refine ⟨((le_of_scope_eq (st := st) (st' := { st with cache := [] }) rfl).trans l1).trans l2, i2, k2, t2, ?_⟩
    intro o' ho'
    obtain ⟨o, hm, e1, e2, cl, er, _⟩ := hall o' ho'
    obtain ⟨cl2, er2⟩ := closed_le l2 cl
    refine ⟨o, hm, e1, e2, cl2, by rw [er, er2], fun n => ?_⟩
    rw [er, ← er2]
    exact unfold_eq i2 n o.ty cl2

/-- `conv_memo_transparent`: an answer of the memo table is exactly what the converter without memo
    table computes for that type in the same state, and that recomputation changes neither the
    scope, nor the declarations, nor the pending methods. -/
theorem conv_memo_transparent (env : List SDecl) (st : St) (hc : CacheOK env st) (t t' : CTy)
    (h : lookup t st.cache = some t') :
    ∃ st', conv false env (size t) st t = some (st', t') ∧
      st'.scope = st.scope ∧ st'.fdecls = st.fdecls ∧ st'.toadd = st.toadd :=
  memo_hit_is_recompute env st hc t t' h

/-- the memo table stays sound along every conversion, with or without it in use -/
theorem conv_cache_sound (c : Bool) (env : List SDecl) (fuel : Nat) (st st' : St) (t t' : CTy)
    (hc : CacheOK env st) (h : conv c env fuel st t = some (st', t')) : CacheOK env st' :=
  (conv_sound c env fuel st t st' t' h hc).2.2.2

/-- `conv_named_once`: along every conversion (1) a type name that has a fork declaration keeps it,
    (2) two different standard type names never share a fork declaration, (3) every fork declaration
    reachable from the scope carries the package path and name of its standard original. -/
theorem conv_named_once (c : Bool) (env : List SDecl) (hu : NamesUnique env) (fuel : Nat) (st st' : St) (t t' : CTy)
    (hc : CacheOK env st) (hi : Inv env [] st) (h : conv c env fuel st t = some (st', t')) :
    Le st st' ∧
    (∀ (i j : Nat) (d d' : SDecl) (f : Nat), env[i]? = some d → env[j]? = some d' →
        lookup (d.pkg, d.name) st'.scope = some f → lookup (d'.pkg, d'.name) st'.scope = some f → i = j) ∧
    (∀ k f, lookup k st'.scope = some f → ∃ fd, st'.fdecls[f]? = some fd ∧ (fd.pkg, fd.name) = k) := by
  obtain ⟨l1, _, _, _⟩ := conv_sound c env fuel st t st' t' h hc
  have i1 := conv_inv c env hu fuel st t st' t' [] h hc hi
  refine ⟨l1, ?_, i1.names⟩
  intro i j d d' f hd hd' h1 h2
  have := i1.inj _ _ _ h1 h2
  simp only [Prod.mk.injEq] at this
  exact hu i j d d' hd hd' this.1 this.2

/-! non-vacuity: `type L struct{ V int; Next *L }` and `type M map[string][]M`, mutually with `L` -/
def exEnv : List SDecl :=
  [⟨"p", "L", .node (.struct [("V", "p", false, ""), ("Next", "p", false, "k")])
      (.cons (.basic 2 "int") (.cons (.node .ptr (.cons (.named 0) .nil)) (.cons (.named 1) .nil))), []⟩,
   ⟨"p", "M", .node .map (.cons (.basic 17 "string") (.cons (.node .slice (.cons (.named 1) .nil)) (.cons (.named 0) .nil))), []⟩]

example : NamesUnique exEnv := by
  intro i j d d' h1 h2 hp hn
  match i, j with
  | 0, 0 => rfl
  | 1, 1 => rfl
  | 0, 1 => simp [exEnv] at h1 h2; subst h1; subst h2; simp at hn
  | 1, 0 => simp [exEnv] at h1 h2; subst h1; subst h2; simp at hn
  | i + 2, _ => simp [exEnv] at h1
  | 0, j + 2 => simp [exEnv] at h2
  | 1, j + 2 => simp [exEnv] at h2

example : (conv true exEnv 20 St.empty (.node .slice (.cons (.named 1) .nil))).map (·.2)
    = some (.node .slice (.cons (.named 0) .nil)) := by decide +kernel
example : ((conv true exEnv 20 St.empty (.named 0)).map (·.1.fdecls.length)) = some 2 := by decide +kernel
example : unfoldS exEnv 1 (.named 0) =
    .named "p" "L" (.node (.struct [("V", "p", false, ""), ("Next", "p", false, "k")])
      (.cons (.basic 2 "int") (.cons (.node .ptr (.cons (.cut "p" "L") .nil)) (.cons (.cut "p" "M") .nil)))) := by decide +kernel

end Converter
