import Proofs.Debug
/-!
# C19  Debugging is transparent and step/next/finish/continue stop where documented

Model: `Model/Debug.lean` (transcription of fast/debug.go, fast/debug/{api,cmd,debugger}.go), the command
table and the results of the command functions regenerated from the source in `Gen/DebugCmds.lean`.
-/
namespace Debug
open Gen.DebugCmds

/-! ## obligations over the regenerated table / conditions -/

/-- the comparison operators of `singleStep` / `applyDebugOp` are the ones the model transcribes -/
theorem gen_conditions : stopCond = "<" ∧ onCond = "> 0" ∧ setDepth = "op.Depth" := by decide

/-- every debugger command is filed under the first byte of its name and no two share it
    (what `Cmds.Lookup` silently relies on) -/
theorem table_wellkeyed : WellKeyed table := by
  unfold WellKeyed
  decide

/-- every command function either stays at the prompt or returns one of the five documented results -/
theorem table_results : ∀ en ∈ table, en.2.2 = .repl ∨ Documented en.2.2 := by
  unfold Documented
  decide

/-- `step`, `next`, `finish`, `continue`, `kill` (and their one-letter abbreviations) are bound to
    MaxInt, CallDepth+1, CallDepth, 0, panic -/
theorem table_commands :
    lookup [115, 116, 101, 112] = some ([115, 116, 101, 112], .depthMaxInt) ∧
    lookup [110, 101, 120, 116] = some ([110, 101, 120, 116], .depthCallPlus 1) ∧
    lookup [102, 105, 110, 105, 115, 104] = some ([102, 105, 110, 105, 115, 104], .depthCallPlus 0) ∧
    lookup [99, 111, 110, 116, 105, 110, 117, 101] = some ([99, 111, 110, 116, 105, 110, 117, 101], .depthConst 0) ∧
    lookup [107, 105, 108, 108] = some ([107, 105, 108, 108], .kill) ∧
    (lookup [115]).map (·.2) = some .depthMaxInt ∧ (lookup [110]).map (·.2) = some (.depthCallPlus 1) ∧
    (lookup [102]).map (·.2) = some (.depthCallPlus 0) ∧ (lookup [99]).map (·.2) = some (.depthConst 0) := by
  decide

/-! ## the command language -/

/-- `Cmds.Lookup(prefix)` returns command `name` iff `prefix` is non-empty and `name` is a command that
    starts with it ... -/
theorem lookup_spec (pre name : Bytes) (r : Ret) :
    lookup pre = some (name, r) ↔ pre ≠ [] ∧ ∃ k, (k, name, r) ∈ table ∧ isPrefix pre name = true :=
  lookupIn_spec table table_wellkeyed pre name r

/-- ... and such a command is unique: every abbreviation is unambiguous -/
theorem lookup_unique (pre : Bytes) (a b : Nat × Bytes × Ret) (ha : a ∈ table) (hb : b ∈ table)
    (hpa : isPrefix pre a.2.1 = true) (hpb : isPrefix pre b.2.1 = true) (hne : pre ≠ []) : a = b :=
  lookupIn_unique table table_wellkeyed pre a b ha hb hpa hpb hne

/-- unknown command: the empty word, or no command starts with the word -/
theorem lookup_none (pre : Bytes) :
    lookup pre = none ↔ pre = [] ∨ ∀ en ∈ table, isPrefix pre en.2.1 = false :=
  lookupIn_none table table_wellkeyed pre

/-- whatever is typed, a prompt ends with step / next / finish / continue / kill (EOF = continue) -/
theorem prompt_documented (s : Script) : Documented (askScript s).1 :=
  replLines_documented table_results s.lines s.last s.used

/-! ## the stop rule -/

/-- For EVERY execution (list of executed statements with their call depths) and EVERY prompt behaviour
    that answers with documented commands, the stops produced by the code's depth rule
    (`CallDepth < DebugDepth`, DebugDepth := MaxInt | CallDepth+1 | CallDepth | 0) are exactly the
    documented ones (`docRun`: after step the next executed statement at any depth, after next the next
    one at depth <= d, after finish the next one at depth < d, after continue none; an executed breakpoint
    always stops) -- as long as no statement of a frame that is not single-stepped is reached; if one
    is reached (`Out.blind j`), the stops before it are a prefix of the documented ones. -/
theorem stops_eq_documented_any_prompt {π : Type} (ask : π → Ret × π) (hask : ∀ p, Documented (ask p).1)
    (tr : List Event) (i : Nat) (m : Mode) (st : St π) (hdd : st.dd = ddOf m)
    (hdep : ∀ e ∈ tr, e.depth < maxInt) :
    (NoBlind (run ask tr i st).1 →
      (run ask tr i st).1 = (docRun ask tr i m st.p).1 ∧
      (run ask tr i st).2.2 = (docRun ask tr i m st.p).2.2.2 ∧
      (run ask tr i st).2.1.p = (docRun ask tr i m st.p).2.2.1) ∧
    (∃ pre j rest, ¬ NoBlind (run ask tr i st).1 →
      (run ask tr i st).1 = pre ++ [.blind j] ∧ NoBlind pre ∧ (docRun ask tr i m st.p).1 = pre ++ rest) :=
  run_doc ask hask tr i m st hdd hdep

/-- the same for the real prompt (script lines through `Repl`/`Cmd`/`Lookup` over the regenerated table),
    started by `Interp.Debug` (like after `step`) or `Interp.Eval` (like after `continue`) -/
theorem stops_eq_documented (debug : Bool) (tr : List Event) (lines : List Bytes)
    (hdep : ∀ e ∈ tr, e.depth < maxInt) :
    (NoBlind (runScript debug tr lines).1 →
      (runScript debug tr lines).1 =
        (docRun askScript tr 0 (if debug then Mode.step else Mode.cont) { lines := lines }).1) ∧
    (∃ pre j rest, ¬ NoBlind (runScript debug tr lines).1 →
      (runScript debug tr lines).1 = pre ++ [.blind j] ∧ NoBlind pre ∧
      (docRun askScript tr 0 (if debug then Mode.step else Mode.cont) { lines := lines }).1 = pre ++ rest) := by
  have hdd : (⟨initDD debug, 0, { lines := lines }⟩ : St Script).dd
      = ddOf (if debug then Mode.step else Mode.cont) := by
    cases debug <;> simp [initDD, ddOf]
  have h := run_doc askScript prompt_documented tr 0 (if debug then Mode.step else Mode.cont)
    ⟨initDD debug, 0, { lines := lines }⟩ hdd hdep
  exact ⟨fun hn => (h.1 hn).1, h.2⟩

/-- an execution without breakpoint statements that is single-stepped from its start never leaves the
    single-stepped frames: the equality of `stops_eq_documented` is unconditional there -/
theorem no_breakpoint_no_blind {π : Type} (ask : π → Ret × π) :
    ∀ (tr : List Event) (i : Nat) (st : St π), st.floor = 0 → (∀ e ∈ tr, e.bp = false) →
      NoBlind (run ask tr i st).1
  | [], _, _, _, _ => by simp [run, NoBlind]
  | e :: es, i, st, hf, hb => by
    have hbe : e.bp = false := hb e List.mem_cons_self
    have hA : NoBlind (atPhase ask i e st).1 ∧ (atPhase ask i e st).2.1.floor = 0 := by
      unfold atPhase
      split
      · rcases ask st.p with ⟨r, p'⟩
        simp only
        cases depthOf r e.depth <;> simp [NoBlind, isBlind, hf]
      · simp [NoBlind, hf]
    rcases hP : atPhase ask i e st with ⟨o1, st1, a1⟩
    rw [hP] at hA
    simp only at hA
    have hS : stepEvent ask i e st = (o1, st1, a1) := by
      simp [stepEvent, hf, hP, bpPhase, hbe]
      cases a1 <;> simp
    simp only [run, hS]
    cases a1 with
    | false => exact hA.1
    | true =>
      have ih := no_breakpoint_no_blind ask es (i + 1) st1 hA.2
        (fun x hx => hb x (List.mem_cons_of_mem _ hx))
      exact NoBlind_append.mpr ⟨hA.1, ih⟩

/-- "the next stop is the next executed statement that ...": with `k` the position of the first statement
    that the mode wants (and that has a source position) or that is a breakpoint, nothing is reported
    before statement `i+k`, and the first report is `At (i+k)` resp. `Breakpoint (i+k)`;
    without such a statement nothing stops at all. -/
theorem next_stop_is_first_match {π : Type} (ask : π → Ret × π) (m : Mode) (p : π) (tr : List Event) (i : Nat) :
    (firstHit m tr = none → docRun ask tr i m p = ([], m, p, true)) ∧
    (∀ k, firstHit m tr = some k →
      ∃ e rest, tr[k]? = some e ∧ m.hits e = true ∧
        (∀ j, j < k → ∀ x, tr[j]? = some x → m.hits x = false) ∧
        (docRun ask tr i m p).1 = (if m.wants e && !e.syn then Out.at (i + k) else Out.bp (i + k)) :: rest) :=
  ⟨docRun_no_hit ask m p tr i, fun k => docRun_first_hit ask m p tr i k⟩

/-- the depth encoding is the documented predicate, statement by statement -/
theorem depth_rule_is_documented (m : Mode) (e : Event) (h : e.depth < maxInt) :
    stopsAt (ddOf m) e = m.wants e := stopsAt_ddOf m e h

/-- `finish` at the outermost level (call depth 0) is `continue` -/
theorem finish_at_top_is_continue (e : Event) : stopsAt (ddOf (.finish 0)) e = stopsAt (ddOf .cont) e := by
  simp [stopsAt, ddOf]

/-! ## transparency -/

/-- PARTIAL.  On the abstract machine (any deterministic step function `next`): execution under the
    single-step loop, with any prompt behaviour, any debugger state and any number of stops, reaches the
    same machine state as plain execution -- unless the user kills it.  What is NOT covered by the model:
    that the real `singleStep`/`reExecWithFlags` loop (signals, defer installation, interrupt statement)
    executes each compiled statement exactly once; that part is checked differentially (results and the
    statement-by-statement fingerprint of every generated program, with and without debugger). -/
theorem debug_transparent_partial {σ π : Type} (m : Machine σ) (ask : π → Ret × π)
    (n i : Nat) (s : σ) (st : St π) (h : (m.runDebug ask n i s st).2 = false) :
    (m.runDebug ask n i s st).1 = m.runPlain n s :=
  runDebug_transparent m ask n i s st h

/-! ## non-vacuity -/

-- f calls g; g contains a breakpoint statement; events: f(1) g(2) g(2,bp) g(2) f(1) f(1)
def exTrace : List Event :=
  [⟨1, false, false, false⟩, ⟨2, false, false, false⟩, ⟨2, true, false, false⟩, ⟨2, false, false, false⟩,
   ⟨1, false, false, false⟩, ⟨1, false, false, false⟩]

-- Debug: `next` steps over g but its breakpoint stops; `next` there, then `finish` returns to f
example : (runScript true exTrace [[110], [110, 101], [102, 105, 110, 105, 115, 104], [115]]).1 =
    [.at 0, .bp 2, .at 3, .at 4, .at 5] := by decide
-- Eval: only the breakpoint stops; `step` there single-steps g; back in f (not single-stepped) the model stops
example : (runScript false exTrace [[115], [115]]).1 = [.bp 2, .at 3, .blind 4] := by decide
-- empty line repeats the last command, unknown words are skipped, EOF continues
example : (runScript true exTrace [[120], [115, 116, 101, 112], [], [], [99]]).1 = [.at 0, .at 1, .at 2, .bp 2] := by decide
example : (askScript { lines := [[102, 111, 111], [32, 32, 110, 32, 51, 32]] }).1 = .depthCallPlus 1 := by decide
example : ∀ e ∈ exTrace, e.depth < maxInt := by decide
example : ∀ x ∈ (runScript true exTrace [[110], [110, 101], [102, 105, 110, 105, 115, 104], [115]]).1, isBlind x = false := by decide
example : firstHit (.finish 1) exTrace = some 2 ∧ firstHit (.next 1) (exTrace.drop 1) = some 1 := by decide
example : lookup [110, 101] = some ([110, 101, 120, 116], .depthCallPlus 1) ∧ lookup [110, 120] = none := by decide
-- a machine: a counter that stops at 5
example : (Machine.runDebug ⟨fun s => if s < 5 then some (s + 1) else none, fun s => ⟨s % 3, s == 2, false, false⟩⟩
    askScript 10 0 0 ⟨maxInt, 0, { lines := [[115], [110], [99]] }⟩) = (5, false) := by decide

end Debug
