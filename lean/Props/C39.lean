import Model.Collect
import Proofs.Collect
/-!
# C39  Preprocessor mode writes the collected declarations

All statements are about `Model/Collect.lean` (transcription of `Globals.CollectAst/CollectNode`, the chunk loop of
`Interp.EvalReader`, `Cmd.EvalFile/EvalDir`, `Output.WriteDeclsToStream`).  They hold for every form sequence, every
nesting of slices, both option bits, every macro expander.
-/
namespace Collect

/-! ## the general characterisation -/

/-- the error-free prefix of the leaves of one chunk: what a chunk contributes before a panic abandons it -/
def okPrefix (o : Opts) : List (Option Node) → List Node
  | [] => []
  | some n :: rest => if okNode o n then n :: okPrefix o rest else []
  | none :: _ => []

/-- the nodes that take effect in a file: per `code` chunk the error-free prefix of the leaves of its expansion, up to `:quit` -/
def effective (expand : Ast → Ast) (o : Opts) : List Chunk → List Node
  | [] => []
  | .code a :: rest => okPrefix o (flatten (expand a)) ++ effective expand o rest
  | .forced _ :: rest => effective expand o rest
  | .failed :: rest => effective expand o rest
  | .quit :: _ => []

theorem foldLeaves_prefix (o : Opts) (s : State) (ls : List (Option Node)) :
    (foldLeaves o s ls).1 = specState o s (okPrefix o ls) := by
  induction ls generalizing s with
  | nil => simp [foldLeaves, okPrefix, specState_nil]
  | cons l rest ih =>
    cases l with
    | none => simp [foldLeaves, stepLeaf, okPrefix, specState_nil]
    | some n =>
      cases hn : okNode o n with
      | true =>
        simp only [foldLeaves, stepLeaf, collectNode_ok o s n hn, okPrefix, hn, if_true]
        rw [ih, ← specState_cons]
      | false =>
        obtain ⟨e, he⟩ := collectNode_bad o s n hn
        simp [foldLeaves, stepLeaf, he, okPrefix, hn, specState_nil]

/-- **collect_spec** (all form sequences, all option settings with at least one bit, any expander): the state after a file is
    the specification `specState` of the effective nodes: package = last package clause, imports / declarations / statements =
    the order-preserving `filterMap`s `asImport` / `asDecl` / `asStmt`; nothing else is appended, nothing is appended twice. -/
theorem collect_spec (expand : Ast → Ast) (o : Opts) (h : (o.decl || o.stmt) = true) (s : State) (cs : List Chunk) :
    runChunks expand o s cs = specState o s (effective expand o cs) := by
  induction cs generalizing s with
  | nil => simp [runChunks, effective, specState_nil]
  | cons c rest ih =>
    cases c with
    | code a =>
      simp only [runChunks, runChunk, effective, collectTop, h, if_true, collectAst_fold, foldLeaves_prefix]
      rw [ih, specState_append]
    | forced a => simp [runChunks, runChunk, effective, ih]
    | failed => simp [runChunks, runChunk, effective, ih]
    | quit => simp [runChunks, runChunk, effective, specState_nil]

/-- without any option bit nothing is collected -/
theorem collect_off (expand : Ast → Ast) (s : State) (cs : List Chunk) :
    runChunks expand ⟨false, false⟩ s cs = s := by
  induction cs generalizing s with
  | nil => rfl
  | cons c rest ih => cases c <;> simp [runChunks, runChunk, collectTop, ih]

/-! ## collect_partition: macro-free, valid Go source -/

/-- a top-level form of a Go file -/
def goDecl : Node → Bool
  | .genDecl .import_ _ _ | .genDecl .type_ _ _ | .genDecl .var_ _ _ | .genDecl .const_ _ _ => true
  | .genDecl .package_ (some _) _ => true
  | .funcDecl .none _ | .funcDecl .nonempty _ => true
  | _ => false

def isImport : Node → Bool
  | .genDecl .import_ _ _ => true
  | _ => false

def isPackage : Node → Bool
  | .genDecl .package_ _ _ => true
  | _ => false

def nodeId : Node → Nat
  | .genDecl _ _ id | .funcDecl _ id | .spec _ id | .otherDecl id | .assign _ _ id | .stmt id
  | .pkgExpr _ id | .unaryExpr id | .expr id | .other id => id

def pkgName : Node → Option String
  | .genDecl .package_ p _ => p
  | _ => none

theorem goDecl_ok (o : Opts) (n : Node) (h : goDecl n = true) : okNode o n = true := by
  cases n with
  | genDecl tok p id => cases tok <;> simp_all [goDecl, okNode]
  | funcDecl r id => simp [okNode]
  | _ => simp [goDecl] at h

theorem okPrefix_all (o : Opts) (ns : List Node) (h : ∀ n ∈ ns, okNode o n = true) :
    okPrefix o (ns.map some) = ns := by
  induction ns with
  | nil => rfl
  | cons n ns ih =>
    simp only [List.map_cons, okPrefix, h n (by simp), if_true]
    rw [ih (fun m hm => h m (by simp [hm]))]

theorem effective_code (expand : Ast → Ast) (o : Opts) (asts : List Ast) :
    effective expand o (asts.map .code) = asts.flatMap (fun a => okPrefix o (flatten (expand a))) := by
  induction asts with
  | nil => rfl
  | cons a rest ih => simp [effective, ih]

theorem filterMap_ite {α β : Type} (p : α → Bool) (f : α → β) (g : α → Option β) (l : List α)
    (h : ∀ a ∈ l, g a = if p a then some (f a) else none) : l.filterMap g = (l.filter p).map f := by
  induction l with
  | nil => rfl
  | cons a l ih =>
    have ha := h a (by simp)
    have ih' := ih (fun b hb => h b (by simp [hb]))
    cases hp : p a <;> simp [ha, hp, ih']

theorem asImport_goDecl (o : Opts) (hd : o.decl = true) (n : Node) (h : goDecl n = true) :
    asImport o n = if isImport n then some (Item.orig (nodeId n)) else none := by
  cases n with
  | genDecl tok p id => cases tok <;> simp [asImport, isImport, nodeId, hd]
  | funcDecl r id => simp [asImport, isImport]
  | _ => simp [goDecl] at h

theorem asDecl_goDecl (o : Opts) (hd : o.decl = true) (n : Node) (h : goDecl n = true) :
    asDecl o n = if (!isImport n && !isPackage n) then some (Item.orig (nodeId n)) else none := by
  cases n with
  | genDecl tok p id => cases tok <;> simp_all [asDecl, isImport, isPackage, nodeId, goDecl]
  | funcDecl r id => cases r <;> simp_all [asDecl, isImport, isPackage, nodeId, goDecl]
  | _ => simp [goDecl] at h

theorem asStmt_goDecl (o : Opts) (n : Node) (h : goDecl n = true) : asStmt o n = none := by
  cases n with
  | genDecl tok p id => simp [asStmt]
  | funcDecl r id => simp [asStmt]
  | _ => simp [goDecl] at h

theorem filterMap_goDecl_import (o : Opts) (hd : o.decl = true) (ns : List Node) (h : ∀ n ∈ ns, goDecl n = true) :
    ns.filterMap (asImport o) = (ns.filter isImport).map (fun n => Item.orig (nodeId n)) :=
  filterMap_ite _ _ _ ns (fun n hn => asImport_goDecl o hd n (h n hn))

theorem filterMap_goDecl_decl (o : Opts) (hd : o.decl = true) (ns : List Node) (h : ∀ n ∈ ns, goDecl n = true) :
    ns.filterMap (asDecl o) = (ns.filter (fun n => !isImport n && !isPackage n)).map (fun n => Item.orig (nodeId n)) :=
  filterMap_ite _ _ _ ns (fun n hn => asDecl_goDecl o hd n (h n hn))

theorem filterMap_goDecl_stmt (o : Opts) (ns : List Node) (h : ∀ n ∈ ns, goDecl n = true) :
    ns.filterMap (asStmt o) = [] := by
  induction ns with
  | nil => rfl
  | cons n ns ih =>
    simp [asStmt_goDecl o n (h n (by simp)), ih (fun m hm => h m (by simp [hm]))]

/-- the last package clause among Go declarations -/
def lastPackage (p : String) : List Node → String
  | [] => p
  | n :: rest => lastPackage (match pkgName n with | some q => q | none => p) rest

theorem lastPkg_goDecl (o : Opts) (hd : o.decl = true) (p : String) (ns : List Node) (h : ∀ n ∈ ns, goDecl n = true) :
    lastPkg o p ns = lastPackage p ns := by
  induction ns generalizing p with
  | nil => rfl
  | cons n ns ih =>
    have hn := h n (by simp)
    have ih' := fun q => ih q (fun m hm => h m (by simp [hm]))
    cases n with
    | genDecl tok pk id => cases tok <;> cases pk <;> simp_all [lastPkg, lastPackage, asPkg, pkgName, goDecl]
    | funcDecl r id => simp_all [lastPkg, lastPackage, asPkg, pkgName]
    | _ => simp [goDecl] at hn

/-- **collect_partition**: a macro-free Go source, cut into chunks and nested into slices in any way (`asts`), whose leaves
    are the top-level forms `ns` of a Go file; declarations are collected (`-w`), the expander leaves the leaves alone.
    Then the written declarations are exactly the source's type/var/const/func/method declarations, each once, in source
    order, unwrapped (`Item.orig`); the imports are exactly the import declarations in order (no merging, no deduplication:
    that is what the code does); no statement is written; the package clause is the last one of the source. -/
theorem collect_partition (expand : Ast → Ast) (o : Opts) (hd : o.decl = true) (s : State) (asts : List Ast) (ns : List Node)
    (hleaves : asts.flatMap (fun a => flatten (expand a)) = ns.map some) (hgo : ∀ n ∈ ns, goDecl n = true) :
    evalFile expand o s (asts.map .code) =
      { pkg := lastPackage s.pkg ns,
        imports := (ns.filter isImport).map (fun n => .orig (nodeId n)),
        decls := (ns.filter (fun n => !isImport n && !isPackage n)).map (fun n => .orig (nodeId n)),
        stmts := [] } := by
  have hok : ∀ n ∈ ns, okNode o n = true := fun n hn => goDecl_ok o n (hgo n hn)
  -- the effective nodes are the leaves
  have heff : effective expand o (asts.map .code) = ns := by
    rw [effective_code]
    -- okPrefix distributes because every leaf is ok
    have key : ∀ (asts : List Ast) (ns : List Node),
        asts.flatMap (fun a => flatten (expand a)) = ns.map some → (∀ n ∈ ns, okNode o n = true) →
        asts.flatMap (fun a => okPrefix o (flatten (expand a))) = ns := by
      intro asts
      induction asts with
      | nil => intro ns h _; cases ns <;> simp_all
      | cons a rest ih =>
        intro ns h hok
        simp only [List.flatMap_cons] at h ⊢
        obtain ⟨xs, ys, hns, hx, hy⟩ := List.append_eq_map_iff.mp h
        subst hns
        rw [← hx, okPrefix_all o xs (fun n hn => hok n (by simp [hn]))]
        rw [ih ys hy.symm (fun n hn => hok n (by simp [hn]))]
    exact key asts ns hleaves hok
  unfold evalFile
  rw [collect_spec expand o (by simp [hd]), heff]
  simp [specState, filterMap_goDecl_import o hd ns hgo, filterMap_goDecl_decl o hd ns hgo, filterMap_goDecl_stmt o ns hgo,
    lastPkg_goDecl o hd _ ns hgo]

/-- the file that is written for a macro-free Go source, section by section -/
theorem written_partition (expand : Ast → Ast) (o : Opts) (hd : o.decl = true) (s : State) (asts : List Ast) (ns : List Node)
    (hleaves : asts.flatMap (fun a => flatten (expand a)) = ns.map some) (hgo : ∀ n ∈ ns, goDecl n = true) :
    written (evalFile expand o s (asts.map .code)) =
      [.package_ (lastPackage s.pkg ns)]
      ++ (ns.filter isImport).map (fun n => .import_ (.orig (nodeId n)))
      ++ (if (ns.filter isImport).isEmpty then [] else [.blank])
      ++ (ns.filter (fun n => !isImport n && !isPackage n)).map (fun n => .decl (.orig (nodeId n))) := by
  rw [collect_partition expand o hd s asts ns hleaves hgo]
  simp [written, List.map_map, Function.comp_def]

/-- every written declaration section comes from a declaration of the source and every declaration of the source is
    written: membership form of `collect_partition` -/
theorem written_decl_iff (expand : Ast → Ast) (o : Opts) (hd : o.decl = true) (s : State) (asts : List Ast) (ns : List Node)
    (hleaves : asts.flatMap (fun a => flatten (expand a)) = ns.map some) (hgo : ∀ n ∈ ns, goDecl n = true) (i : Item) :
    i ∈ (evalFile expand o s (asts.map .code)).decls ↔ ∃ n ∈ ns, isImport n = false ∧ isPackage n = false ∧ i = .orig (nodeId n) := by
  rw [collect_partition expand o hd s asts ns hleaves hgo]
  simp only [List.mem_map, List.mem_filter]
  constructor
  · rintro ⟨n, ⟨hn, hp⟩, rfl⟩
    refine ⟨n, hn, ?_, ?_, rfl⟩ <;> cases h1 : isImport n <;> cases h2 : isPackage n <;> simp_all
  · rintro ⟨n, hn, h1, h2, rfl⟩
    exact ⟨n, ⟨hn, by simp [h1, h2]⟩, rfl⟩

/-! ## written_equals_expanded -/

/-- **written_equals_expanded**: for any source (macros, `:`-forced chunks, failing chunks, `:quit`) and any expander, what
    is written is determined by the expansion of the `code` chunks alone: the declarations are the `asDecl` images of the
    effective nodes of `expand chunk`, in order; same for imports and statements.  Macro declarations (`FuncDecl` with empty
    receiver list), `:`-forced chunks (where macros are defined) and everything after `:quit` contribute nothing. -/
theorem written_equals_expanded (expand : Ast → Ast) (o : Opts) (h : (o.decl || o.stmt) = true) (s : State) (cs : List Chunk) :
    let r := evalFile expand o s cs
    r.decls = (effective expand o cs).filterMap (asDecl o) ∧
    r.imports = (effective expand o cs).filterMap (asImport o) ∧
    r.stmts = (effective expand o cs).filterMap (asStmt o) ∧
    r.pkg = lastPkg o s.pkg (effective expand o cs) := by
  simp only [evalFile]
  rw [collect_spec expand o h]
  simp [specState]

/-- expansion commutes with collection: running the expander inside the loop = collecting the pre-expanded chunks -/
def expandChunk (expand : Ast → Ast) : Chunk → Chunk
  | .code a => .code (expand a)
  | c => c

theorem expand_then_collect (expand : Ast → Ast) (o : Opts) (s : State) (cs : List Chunk) :
    runChunks expand o s cs = runChunks id o s (cs.map (expandChunk expand)) := by
  induction cs generalizing s with
  | nil => rfl
  | cons c rest ih => cases c <;> simp [runChunks, runChunk, expandChunk, ih]

/-- if the expander does not change the leaves of the source's chunks (C20 `macrofree_identity`), the written file is the
    one of the unexpanded source -/
theorem written_macrofree (expand : Ast → Ast) (o : Opts) (s : State) (asts : List Ast)
    (hid : ∀ a ∈ asts, flatten (expand a) = flatten a) :
    evalFile expand o s (asts.map .code) = evalFile id o s (asts.map .code) := by
  unfold evalFile
  generalize ({ s with imports := [], decls := [], stmts := [] } : State) = s0
  induction asts generalizing s0 with
  | nil => rfl
  | cons a rest ih =>
    have ha := hid a (by simp)
    simp only [List.map_cons, runChunks, runChunk, collectTop, id]
    cases hopt : (o.decl || o.stmt) with
    | false => simp [ih (fun b hb => hid b (by simp [hb]))]
    | true =>
      simp only [if_true, collectAst_fold, ha]
      exact ih (fun b hb => hid b (by simp [hb])) _

/-- macro declarations are never written -/
theorem macro_decl_dropped (o : Opts) (id : Nat) :
    asDecl o (.funcDecl .empty id) = none ∧ asImport o (.funcDecl .empty id) = none ∧ asStmt o (.funcDecl .empty id) = none := by
  simp [asDecl, asImport, asStmt]

/-! ## collect_idempotent -/

theorem reparse_written (isFunc : Nat → Bool) (initId : Nat) (s : State) :
    reparse isFunc initId (written s) =
      [.node (.genDecl .package_ (some s.pkg) 0)]
      ++ s.imports.map (fun i => .node (.genDecl .import_ none (itemId i)))
      ++ s.decls.map (fun i => if isFunc (itemId i) then Ast.node (.funcDecl .none (itemId i)) else .node (.genDecl .var_ none (itemId i)))
      ++ (if s.stmts.isEmpty then [] else [.node (.funcDecl .none initId)]) := by
  have h1 : ∀ l : List Item, List.flatMap (reparse1 isFunc initId) (l.map Section.import_) =
      l.map (fun i => Ast.node (.genDecl .import_ none (itemId i))) := by
    intro l; induction l <;> simp_all [reparse1]
  have h2 : ∀ l : List Item, List.flatMap (reparse1 isFunc initId) (l.map Section.decl) =
      l.map (fun i => if isFunc (itemId i) then Ast.node (.funcDecl .none (itemId i)) else .node (.genDecl .var_ none (itemId i))) := by
    intro l; induction l <;> simp_all [reparse1]
  have h3 : ∀ l : List Item, List.flatMap (reparse1 isFunc initId) (l.map Section.initStmt) = [] := by
    intro l; induction l <;> simp_all [reparse1]
  unfold reparse written
  simp only [List.flatMap_append, h1, h2]
  cases hi : s.imports.isEmpty <;> cases hs : s.stmts.isEmpty <;>
    simp [reparse1, h3, List.flatMap_cons, List.flatMap_nil]

/-- collecting single top-level Go declarations one after the other -/
theorem runChunks_nodes (o : Opts) (hd : o.decl = true) (s : State) (ns : List Node) (hgo : ∀ n ∈ ns, goDecl n = true) :
    runChunks id o s (ns.map (fun n => Chunk.code (.node n))) = specState o s ns := by
  rw [collect_spec id o (by simp [hd])]
  congr 1
  induction ns with
  | nil => rfl
  | cons n rest ih =>
    have hn : okNode o n = true := goDecl_ok o n (hgo n (by simp))
    simp only [List.map_cons, effective, id, flatten, okPrefix, hn, if_true]
    rw [ih (fun m hm => hgo m (by simp [hm]))]
    rfl

/-- **collect_idempotent** (general form): reading the written file again (fresh state, any initial package name) gives the
    same package, the same imports and the same declarations in the same order; the statements, if any, have become ONE more
    declaration (`func init`) at the end, and no statement is left. -/
theorem recollect (o : Opts) (hd : o.decl = true) (isFunc : Nat → Bool) (initId : Nat) (p0 : String) (s : State) :
    (runChunks id o ⟨p0, [], [], []⟩ ((reparse isFunc initId (written s)).map .code)).ids =
      (s.pkg, s.imports.map itemId, s.decls.map itemId ++ (if s.stmts.isEmpty then [] else [initId]), []) := by
  rw [reparse_written]
  -- every reparsed form is a single goDecl node
  let ns : List Node :=
    [.genDecl .package_ (some s.pkg) 0] ++ s.imports.map (fun i => Node.genDecl .import_ none (itemId i))
    ++ s.decls.map (fun i => if isFunc (itemId i) then Node.funcDecl .none (itemId i) else .genDecl .var_ none (itemId i))
    ++ (if s.stmts.isEmpty then [] else [Node.funcDecl .none initId])
  have hns : ([Ast.node (.genDecl .package_ (some s.pkg) 0)]
      ++ s.imports.map (fun i => Ast.node (.genDecl .import_ none (itemId i)))
      ++ s.decls.map (fun i => if isFunc (itemId i) then Ast.node (.funcDecl .none (itemId i)) else .node (.genDecl .var_ none (itemId i)))
      ++ (if s.stmts.isEmpty then [] else [Ast.node (.funcDecl .none initId)])).map Chunk.code
      = ns.map (fun n => Chunk.code (.node n)) := by
    simp only [ns, List.map_append, List.map_map, List.map_cons, List.map_nil]
    congr 1
    · congr 1
      apply List.map_congr_left
      intro i _
      simp only [Function.comp]
      split <;> rfl
    · split <;> simp
  rw [hns]
  have hgo : ∀ n ∈ ns, goDecl n = true := by
    intro n hn
    simp only [ns, List.mem_append, List.mem_cons, List.mem_map, List.not_mem_nil, or_false] at hn
    rcases hn with ((rfl | ⟨i, _, rfl⟩) | ⟨i, _, rfl⟩) | hn
    · rfl
    · rfl
    · split <;> rfl
    · split at hn
      · simp at hn
      · simp at hn; subst hn; rfl
  rw [runChunks_nodes o hd _ ns hgo]
  simp only [State.ids, specState, filterMap_goDecl_import o hd ns hgo, filterMap_goDecl_decl o hd ns hgo,
    filterMap_goDecl_stmt o ns hgo, lastPkg_goDecl o hd _ ns hgo, List.nil_append, List.map_nil]
  have e1 : lastPackage p0 ns = s.pkg := by
    have : ∀ (l : List Node) (q : String), (∀ n ∈ l, pkgName n = none) → lastPackage q l = q := by
      intro l; induction l with
      | nil => intros; rfl
      | cons a l ih => intro q h; simp [lastPackage, h a (by simp), ih q (fun n hn => h n (by simp [hn]))]
    simp only [ns, List.append_assoc, List.cons_append, List.nil_append, lastPackage, pkgName]
    apply this
    intro n hn
    simp only [List.mem_append, List.mem_map] at hn
    rcases hn with ⟨i, _, rfl⟩ | ⟨i, _, rfl⟩ | hn
    · rfl
    · split <;> rfl
    · split at hn
      · simp at hn
      · simp at hn; subst hn; rfl
  have filt_imp : ∀ (l : List Item) (f : Item → Node), (∀ i, isImport (f i) = true) → (∀ i, nodeId (f i) = itemId i) →
      ((l.map f).filter isImport).map (fun n => Item.orig (nodeId n)) = l.map (fun i => Item.orig (itemId i)) := by
    intro l f h1 h2; induction l <;> simp_all
  have filt_none : ∀ (l : List Item) (f : Item → Node) (p : Node → Bool), (∀ i, p (f i) = false) →
      (l.map f).filter p = [] := by
    intro l f p h; induction l <;> simp_all
  have filt_all : ∀ (l : List Item) (f : Item → Node) (p : Node → Bool), (∀ i, p (f i) = true) →
      (l.map f).filter p = l.map f := by
    intro l f p h; induction l <;> simp_all
  refine Prod.ext e1 (Prod.ext ?_ (Prod.ext ?_ rfl))
  · simp only [ns, List.filter_append, List.map_append, List.map_map]
    rw [filt_none s.decls _ isImport (by intro i; split <;> rfl)]
    have : (List.filter isImport [Node.genDecl Tok.package_ (some s.pkg) 0]) = [] := rfl
    rw [this]
    have h4 : List.filter isImport (if s.stmts.isEmpty = true then [] else [Node.funcDecl Recv.none initId]) = [] := by
      split <;> rfl
    rw [h4, filt_all s.imports _ isImport (by intro i; rfl)]
    simp [nodeId, itemId, Function.comp]
  · simp only [ns, List.filter_append, List.map_append, List.map_map]
    rw [filt_none s.imports _ _ (by intro i; rfl)]
    have : (List.filter (fun n => !isImport n && !isPackage n) [Node.genDecl Tok.package_ (some s.pkg) 0]) = [] := rfl
    rw [this, filt_all s.decls _ _ (by intro i; split <;> rfl)]
    simp only [List.map_map]
    congr 1
    · apply List.map_congr_left
      intro i _
      by_cases hf : isFunc (itemId i) = true <;> (simp [hf, nodeId]; rfl)
    · split <;> rfl

/-- **collect_idempotent**: a written file without statements (every valid Go source, every macro source that generates
    declarations) is a fixed point: preprocessing it again writes the same package, imports and declarations. -/
theorem collect_idempotent (o : Opts) (hd : o.decl = true) (isFunc : Nat → Bool) (initId : Nat) (p0 : String) (s : State)
    (hs : s.stmts = []) :
    (runChunks id o ⟨p0, [], [], []⟩ ((reparse isFunc initId (written s)).map .code)).ids = s.ids := by
  rw [recollect o hd isFunc initId p0 s]
  simp [State.ids, hs]

/-! ## directories -/

/-- with the repaired `EvalFile` the state written for a file depends only on that file and on the package name in force -/
theorem evalFile_independent (expand : Ast → Ast) (o : Opts) (s t : State) (cs : List Chunk) (hp : s.pkg = t.pkg) :
    evalFile expand o s cs = evalFile expand o t cs := by
  unfold evalFile
  cases s; cases t; simp_all

/-- the code as found: the imports of an earlier file of the directory are written into the later file as well
    (finding `dir-imports-leak`; the witness is replayed against the real code by the `dir` ops of the harness) -/
theorem evalDir_unfixed_leaks :
    let f1 := [Chunk.code (.node (.genDecl .import_ none 1)), .code (.node (.funcDecl .none 2))]
    let f2 := [Chunk.code (.node (.genDecl .import_ none 3)), .code (.node (.funcDecl .none 4))]
    (evalDir (evalFileUnfixed id ⟨true, true⟩) State.init [f1, f2]).map (·.imports) = [[.orig 1], [.orig 1, .orig 3]] ∧
    (evalDir (evalFile id ⟨true, true⟩) State.init [f1, f2]).map (·.imports) = [[.orig 1], [.orig 3]] := by
  decide

/-! ## non-vacuity -/

-- collect_partition / collect_spec: a source with package clause, grouped import, type, func, method, var in one nested chunk
example :
    evalFile id ⟨true, true⟩ State.init
      [.code (.node (.genDecl .package_ (some "p") 0)), .code (.node (.genDecl .import_ none 1)),
       .code (.slice [.node (.genDecl .type_ none 2), .slice [.node (.funcDecl .none 3), .node (.funcDecl .nonempty 4)]]),
       .code (.node (.genDecl .var_ none 5))]
    = ⟨"p", [.orig 1], [.orig 2, .orig 3, .orig 4, .orig 5], []⟩ := by decide

-- written_equals_expanded: a macro declaration in a forced chunk, a macro call that expands to two functions, a `:=`,
-- a statement, a failing node in the middle of a chunk, and `:quit`
example :
    let expand : Ast → Ast := fun a => match a with
      | .node (.expr 10) => .slice [.node (.funcDecl .none 11), .node (.funcDecl .none 12)]
      | a => a
    evalFile expand ⟨true, true⟩ State.init
      [.forced (.node (.funcDecl .empty 9)), .code (.node (.funcDecl .empty 8)), .code (.node (.expr 10)),
       .code (.node (.assign true true 13)), .code (.node (.stmt 14)),
       .code (.slice [.node (.genDecl .var_ none 15), .node (.other 16), .node (.genDecl .var_ none 17)]),
       .quit, .code (.node (.genDecl .var_ none 18))]
    = ⟨"main", [], [.orig 11, .orig 12, .wrapDefine 13, .orig 15], [.orig 14]⟩ := by decide

-- collect_idempotent / recollect: with statements the second pass moves them into `func init`
example :
    (runChunks id ⟨true, true⟩ ⟨"x", [], [], []⟩
      ((reparse (fun n => n == 3) 99 (written ⟨"p", [.orig 1], [.orig 2, .orig 3], [.orig 4]⟩)).map .code)).ids
    = ("p", [1], [2, 3, 99], []) := by decide

end Collect
