import Model.StmtIR
import Model.C02Arms
import Model.C02Dispatch
import Model.Places
import Proofs.C02Trunc
import Proofs.C02Multi
import Proofs.C02Tables
import Proofs.C02Sound
/-! # C02 — assignments and compound assignments on every kind of place behave as in Go

Theorems about the model (arm templates, dispatch transcription, statement-level `Places` model)
and kernel-checked obligations over the regenerated tables.  See notes/C02.md for what is FULL and
what is PARTIAL. -/

namespace C02
open GoSpec ClosureIR StmtIR C02Arms

/-- every regenerated entry of the 48 modelled functions (`var<Op>Const|Expr`, `varShl/Shr*`,
    `varSet*`, `varQuoPow2`, `place<Op>Const|Expr`, `placeShl/Shr*`, `placeQuoPow2`) is accepted:
    its path classifies (kind, `switch upn` case, `intbinds` branch, map or not) and its body is
    exactly the template of that class.  Kernel-checked per Go function. -/
theorem tables_accepted : type_of% C02Tables.all_accepted := C02Tables.all_accepted

/-- in every regenerated arm the place closure, the map-key closure and the right-hand-side closure
    are each applied exactly once, and never under a condition or inside the frame-walking loop
    (syntactic form of "the place and its index/key operands are evaluated exactly once"). -/
theorem place_evaluated_once : type_of% C02Tables.all_once := C02Tables.all_once

/-- what `Value.SetInt/SetUint` narrowing does: for every width `w ≤ 64` and every operator the
    boxed arms use, truncating the 64-bit result on sign- or zero-extended operands equals the
    operator at width `w` — including signed division at `MinInt / -1`, remainder, and shifts by
    any count. -/
theorem boxed_arith_trunc {w : Nat} (h : w ≤ 64) (x y : BitVec w) (n : Nat) :
    (x.signExtend 64 + y.signExtend 64).setWidth w = x + y ∧
    (x.signExtend 64 - y.signExtend 64).setWidth w = x - y ∧
    (x.signExtend 64 * y.signExtend 64).setWidth w = x * y ∧
    ((x.signExtend 64).sdiv (y.signExtend 64)).setWidth w = x.sdiv y ∧
    ((x.signExtend 64).srem (y.signExtend 64)).setWidth w = x.srem y ∧
    (x.signExtend 64 &&& y.signExtend 64).setWidth w = x &&& y ∧
    (x.signExtend 64 ||| y.signExtend 64).setWidth w = x ||| y ∧
    (x.signExtend 64 ^^^ y.signExtend 64).setWidth w = x ^^^ y ∧
    (x.signExtend 64 &&& ~~~ y.signExtend 64).setWidth w = x &&& ~~~ y ∧
    (x.signExtend 64 <<< n).setWidth w = x <<< n ∧
    ((x.signExtend 64).sshiftRight n).setWidth w = x.sshiftRight n ∧
    (x.setWidth 64 + y.setWidth 64).setWidth w = x + y ∧
    (x.setWidth 64 - y.setWidth 64).setWidth w = x - y ∧
    (x.setWidth 64 * y.setWidth 64).setWidth w = x * y ∧
    ((x.setWidth 64) / (y.setWidth 64)).setWidth w = x / y ∧
    ((x.setWidth 64) % (y.setWidth 64)).setWidth w = x % y ∧
    (x.setWidth 64 &&& y.setWidth 64).setWidth w = x &&& y ∧
    (x.setWidth 64 ||| y.setWidth 64).setWidth w = x ||| y ∧
    (x.setWidth 64 ^^^ y.setWidth 64).setWidth w = x ^^^ y ∧
    (x.setWidth 64 &&& ~~~ y.setWidth 64).setWidth w = x &&& ~~~ y ∧
    (x.setWidth 64 <<< n).setWidth w = x <<< n ∧
    ((x.setWidth 64) >>> n).setWidth w = x >>> n :=
  ⟨C02Trunc.add_s x y h, C02Trunc.sub_s x y h, C02Trunc.mul_s x y h, C02Trunc.sdiv_s x y h, C02Trunc.srem_s x y h,
   C02Trunc.and_s x y h, C02Trunc.or_s x y h, C02Trunc.xor_s x y h, C02Trunc.andNot_s x y h, C02Trunc.shl_s x h n,
   C02Trunc.sshr_s x h n, C02Trunc.add_u x y h, C02Trunc.sub_u x y h, C02Trunc.mul_u x y h, C02Trunc.udiv_u x y h,
   C02Trunc.umod_u x y h, C02Trunc.and_u x y h, C02Trunc.or_u x y h, C02Trunc.xor_u x y h, C02Trunc.andNot_u x y h,
   C02Trunc.shl_u x h n, C02Trunc.ushr_u x h n⟩

/-- non-vacuity: int8, `MinInt / -1` through the boxed route -/
example : (((0x80#8).signExtend 64).sdiv ((0xFF#8).signExtend 64)).setWidth 8 = 0x80#8 := by decide

/-- `Comp.assignMulti` — for any number of places, any mix of variables, `_`, index, map and
    pointer places — is Go's two-phase assignment: place operands left to right, right-hand sides
    left to right, then the stores left to right (for statements whose place operands are in
    range; see `Places` for the bounds-check finding). -/
theorem multi_assign_two_phase (s : Places.PS) (lhs : List Places.Cell) (rhs : List Places.Rhs) :
    Places.assignMulti s lhs rhs = Places.goAssign s lhs rhs :=
  C02Multi.assignMulti_eq_go s lhs rhs

/-- `Comp.assign2` (the fast path for two places) is the same two-phase assignment -/
theorem multi_assign_two_phase_assign2 (s : Places.PS) (c0 c1 : Places.Cell) (r0 r1 : Places.Rhs) :
    Places.assign2 s c0 c1 r0 r1 = Places.goAssign s [c0, c1] [r0, r1] :=
  C02Multi.assign2_eq_go s c0 c1 r0 r1

/-- non-vacuity: `X, Y = Y, X` swaps -/
example :
    let s : Places.PS := { vars := [.bool true, .bool false], arr := [], map := [], zero := .bool false, log := [] }
    (match Places.goAssign s [.var 0, .var 1] [.cell (.var 1), .cell (.var 0)] with
     | .ok s' => (match s'.vars with | [.bool a, .bool b] => a == false && b == true | _ => false)
     | .error _ => false) = true := by decide

/-- `i, a[i] = 1, 2` with `i = 0` sets `a[0]` (the index is evaluated before `i` is assigned) -/
example :
    let i0 : Val := .int ⟨64, true⟩ 0
    let s : Places.PS := { vars := [i0, i0, i0, i0], arr := [i0, i0, i0], map := [], zero := i0, log := [] }
    (match Places.goAssign s [.var 3, .arrI] [.const (.int ⟨64, true⟩ 1), .const (.int ⟨64, true⟩ 2)] with
     | .ok s' => (match s'.arr, s'.vars[3]? with
        | [Val.int _ a, _, _], some (Val.int _ i) => a.toNat == 2 && i.toNat == 1
        | _, _ => false)
     | .error _ => false) = true := by decide

/-- `x++` / `x--` are compiled exactly as `x += 1` / `x -= 1` with the constant one of the kind
    (`Comp.IncDec` builds the untyped constant 1 and calls `SetPlace`; its source text is pinned by
    `C02Tables.incDec_src`), and are rejected on non-numeric kinds -/
theorem incdec_is_compound_one (k : Kind) (pl : C02Dispatch.Place) (rhs : C02Dispatch.Operand)
    (ids : C02Dispatch.Ids) (ry : Outcome Val) (one : Val) (h : C02Dispatch.oneOf k = some one) :
    C02Dispatch.compile .inc k pl rhs ids ry = C02Dispatch.compile (.bin .add) k pl (.const one) ids ry ∧
    C02Dispatch.compile .dec k pl rhs ids ry = C02Dispatch.compile (.bin .sub) k pl (.const one) ids ry := by
  simp [C02Dispatch.compile, h]

theorem incdec_source : Gen.C02Statement.incDecSrc = C02Once.incDecGolden := C02Tables.incDec_src


/-! ## var_table_sound (partial): int-slot `var<Op>Const|Expr`, non-loop `switch upn` cases -/

/-- an accepted entry whose path classifies as an int-slot variable arm HAS the template body of
    that class (this is what acceptance means; with `tables_accepted` it holds for every arm of the
    real tables) -/
theorem accepted_body (e : SEntry) (sp : ArmSpec) (hc : classify e = some sp) (hs : sp ≠ .outOfScope)
    (ha : accept e = true) : e.body = sp.body := by
  unfold accept at ha
  rw [hc] at ha
  cases sp <;> simp_all

/-- `var_table_sound`, proved part: the body of an accepted `var<Op>Const` arm under `if intbinds`
    (every operator incl. shifts, every kind, `switch upn` cases 0, 1, 2, `c.Depth-1`), run in ANY
    machine: reads slot `index` of the frame its path names at kind `k`, stores `GoSpec.binop op old val`
    there at kind `k`, advances `IP` by one; a panic of the operator stores nothing.  PARTIAL: the
    `default` (loop) case, the boxed arms, `varSet*`, `varQuoPow2` and the place arms are validated by
    the correspondence run only. -/
theorem var_table_sound_partial (F : FloatOps) (e : SEntry) (op : BinOp) (k : Kind) (u : Upn) (hu : u ≠ .loop)
    (hc : classify e = some (.varOp op k u true .const)) (ha : accept e = true)
    (ρ : StmtIR.Store) (m : Mach) (idx : Nat) (c x : Val)
    (hval : StmtIR.lookup ρ "val" = some (.val c)) (hidx : StmtIR.lookup ρ "index" = some (.nat idx))
    (hx : readPtr m k (C02Sound.hopOf u m 0) idx = some x) :
    StmtIR.execBody F e.body (StmtIR.update ρ "env" (.envp 0)) m =
      C02Sound.specUnboxed F op k m (C02Sound.hopOf u m 0) idx x c := by
  rw [accepted_body e _ hc (by simp) ha]
  exact C02Sound.varOp_unboxed_const F op k u hu ρ m idx c x hval hidx hx

/-- the same for `var<Op>Expr`: the operand closure is applied exactly once (its id is appended to
    the log) before the variable is loaded -/
theorem var_table_sound_expr_partial (F : FloatOps) (e : SEntry) (op : BinOp) (k : Kind) (u : Upn) (hu : u ≠ .loop)
    (hc : classify e = some (.varOp op k u true .expr)) (ha : accept e = true)
    (ρ : StmtIR.Store) (m : Mach) (idx : Nat) (c x : Val) (kf : Kind) (id : Nat)
    (hfun : StmtIR.lookup ρ "fun" = some (.clo kf id (.ok c))) (hidx : StmtIR.lookup ρ "index" = some (.nat idx))
    (hx : readPtr m k (C02Sound.hopOf u m 0) idx = some x) :
    StmtIR.execBody F e.body (StmtIR.update ρ "env" (.envp 0)) m =
      C02Sound.specUnboxed F op k { m with log := m.log ++ [id] } (C02Sound.hopOf u m 0) idx x c := by
  rw [accepted_body e _ hc (by simp) ha]
  exact C02Sound.varOp_unboxed_expr F op k u hu ρ m idx c x kf id hfun hidx hx

/-- `x = val` / `x = fun(env)` on an int-slot variable (`varSetConst`, `varSetExpr`): an accepted arm
    writes the value at kind `k` into slot `index` of the frame its path names and advances IP; the
    operand closure is applied exactly once -/
theorem var_set_sound_partial (F : FloatOps) (e : SEntry) (k : Kind) (u : Upn) (hu : u ≠ .loop)
    (hc : classify e = some (.varSet k u true .const)) (ha : accept e = true)
    (ρ : StmtIR.Store) (m : Mach) (idx : Nat) (c : Val)
    (hval : StmtIR.lookup ρ "val" = some (.val c)) (hidx : StmtIR.lookup ρ "index" = some (.nat idx))
    (hlen : C02Sound.hopOf u m 0 < m.frames.length) :
    StmtIR.execBody F e.body (StmtIR.update ρ "env" (.envp 0)) m =
      C02Sound.specSetUnboxed k m (C02Sound.hopOf u m 0) idx c := by
  rw [accepted_body e _ hc (by simp) ha]
  exact C02Sound.varSet_unboxed_const F k u hu ρ m idx c hval hidx hlen

theorem var_set_sound_expr_partial (F : FloatOps) (e : SEntry) (k : Kind) (u : Upn) (hu : u ≠ .loop)
    (hc : classify e = some (.varSet k u true .expr)) (ha : accept e = true)
    (ρ : StmtIR.Store) (m : Mach) (idx : Nat) (c : Val) (kf : Kind) (id : Nat)
    (hfun : StmtIR.lookup ρ "fun" = some (.clo kf id (.ok c))) (hidx : StmtIR.lookup ρ "index" = some (.nat idx))
    (hlen : C02Sound.hopOf u m 0 < m.frames.length) :
    StmtIR.execBody F e.body (StmtIR.update ρ "env" (.envp 0)) m =
      C02Sound.specSetUnboxed k { m with log := m.log ++ [id] } (C02Sound.hopOf u m 0) idx c := by
  rw [accepted_body e _ hc (by simp) ha]
  exact C02Sound.varSet_unboxed_expr F k u hu ρ m idx c kf id hfun hidx hlen

/-- frame condition of the store: nothing but `frames[h].ints` changes -/
theorem slot_write_frame {m m' : Mach} {k : Kind} {h i : Nat} {v : Val} (hw : writePtr m k h i v = some m') :
    m'.frames.length = m.frames.length ∧ m'.fileIdx = m.fileIdx ∧ m'.ip = m.ip ∧ m'.heap = m.heap ∧
    m'.maps = m.maps ∧ m'.log = m.log ∧
    (∀ h', h' ≠ h → m'.frames[h']? = m.frames[h']?) ∧
    (∀ f f', m.frames[h]? = some f → m'.frames[h]? = some f' → f'.vals = f.vals) :=
  C02Sound.writePtr_frame hw

/-- non-vacuity: `x += 5` on an int8 in slot 1 of the current frame, the slot's upper bytes hold garbage -/
example :
    let fr : Frame := { ints := [0#64, 0xA5A5A5A5A5A5A57F#64, 0#64], vals := [] }
    let m : Mach := { frames := [fr], fileIdx := 0, ip := 3, heap := [], maps := [], log := [] }
    readPtr m .int8 0 1 = some (.int ⟨8, true⟩ 0x7F#8) := by rfl

end C02
