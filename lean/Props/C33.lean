import Proofs.Gls
/-!
# C33  Goroutine identity and per-goroutine runtime state are never shared

Theorems about `Model/Gls.lean` (registry `IrGlobals.gls`, `Run.goid`, the Run chosen by
newEnv4Func / NewEnv / newEnv / Comp.Go / newTopInterp).  `Reach s` = `s` is reachable from the
initial state by ANY finite interleaving of enabled atomic actions of ANY number of goroutines,
with identities reused arbitrarily after exit (induction over `Reach`, no bound).

Full statement of the property: `RunOwned s` for every reachable `s`.
* It does NOT hold for the code as it exists (`run_owned_fails`, `shared_run_witness`: finding F14,
  reproduced on the real code by harness/c33.go, key `toplevel-foreign-run`).
* It holds for every use acquired at a function entry (`run_owned_func_entry`,
  `no_sharing_func_entry`), and in full for every interleaving in which top-level code is only
  evaluated by a goroutine owning `ir.env.Run` (`run_owned_partial`, `no_sharing_partial`), which
  the repair establishes (`rebind_makes_top_owned`).
-/
namespace Gls

/-- owner assertion for the whole state: every record a live goroutine allocates frames from is
    owned by that goroutine's identity -/
def RunOwned (s : State) : Prop :=
  ∀ u ∈ s.uses, ∀ i, s.idOf u.g = some i → s.owner u.r = some i

/-- two live goroutines never allocate from the same record -/
def NoSharing (s : State) : Prop :=
  ∀ u1 ∈ s.uses, ∀ u2 ∈ s.uses, u1.r = u2.r → (s.idOf u1.g).isSome → (s.idOf u2.g).isSome → u1.g = u2.g

/-- The property at full strength (false for the code as it exists, see `run_owned_fails`). -/
def RunOwnedFull : Prop := ∀ s, Reach s → RunOwned s ∧ NoSharing s

/-! ## identity -/

/-- `goid_constant`: no atomic action changes the identity of a goroutine that stays live
    (in the model this is how the runtime assumption "the address of `g` is stable" is encoded). -/
theorem goid_constant {s s' : State} {a : Action} {g : Gid} {i j : Id}
    (h : step s a = some s') (h1 : s.idOf g = some i) (h2 : s'.idOf g = some j) (hi : Inv s) : i = j := by
  have hlt := live_lt hi h1
  cases a <;> simp only [step] at h
  case spawn k =>
    split at h <;> cases h
    simp only [upd] at h2
    have : g ≠ s.ngid := Nat.ne_of_lt hlt
    simp [this, h1] at h2; exact h2
  case exit k =>
    split at h <;> cases h
    simp only [upd] at h2
    split at h2 <;> simp_all
  all_goals ((repeat' (split at h)) <;> first | (cases h; done) | (cases h; (try simp only [newRun] at h2); rw [h1] at h2; exact Option.some.inj h2))

/-- no two live goroutines observe the same identity, in every reachable state -/
theorem live_ids_distinct {s : State} (h : Reach s) {g1 g2 : Gid} {i : Id}
    (h1 : s.idOf g1 = some i) (h2 : s.idOf g2 = some i) : g1 = g2 :=
  (reach_inv h).distinct g1 g2 i h1 h2

/-! ## registry -/

/-- `registry_entry_matches`: gls[id].goid = id, always -/
theorem registry_entry_matches {s : State} (h : Reach s) {i : Id} {r : RunId}
    (hr : s.reg i = some r) : s.owner r = some i :=
  (reach_inv h).reg_owner i r hr

/-- between the lookup that missed and the store, nobody registers a record for the identity of
    the waiting goroutine: the store of getRun4Goid never overwrites an entry -/
theorem store_after_miss_fresh {s : State} (h : Reach s) {g : Gid} {i : Id}
    (hp : s.pend g = .missed) (hg : s.idOf g = some i) : s.reg i = none :=
  (reach_inv h).miss_stable g i hp hg

/-- the record obtained by getRun4Goid (hit, or created after a miss) is owned by the caller -/
theorem lookup_result_owned {s : State} (h : Reach s) {g : Gid} {r : RunId} {i : Id}
    (hp : s.pend g = .got r) (hg : s.idOf g = some i) : s.owner r = some i :=
  (reach_inv h).pend_owner g r i hp hg

/-! ## ownership at function entry (holds for the code as it exists) -/

/-- `run_owned_func_entry`: under every interleaving, with identity reuse, the record used by a
    frame allocated at a function entry (go statement, callback from compiled code, direct call)
    is owned by the identity of the allocating goroutine. -/
theorem run_owned_func_entry {s : State} (h : Reach s) {u : Use} (hu : u ∈ s.uses)
    (hv : u.viaTop = false) {i : Id} (hg : s.idOf u.g = some i) : s.owner u.r = some i :=
  (reach_inv h).use_owner u hu hv i hg

/-- the step itself: whatever `outer` is, the record chosen by function entry is owned by the caller -/
theorem func_entry_step_owned {s s' : State} (h : Reach s) {g : Gid} {outer : RunId}
    (hs : step s (.func g outer) = some s') :
    ∃ r i, s'.uses = ⟨g, r, false⟩ :: s.uses ∧ s'.idOf g = some i ∧ s'.owner r = some i := by
  have hi := reach_inv h
  simp only [step] at hs
  split at hs
  · rename_i i o hg ho
    split at hs
    · split at hs <;> cases hs
      exact ⟨outer, i, rfl, hg, by simp_all⟩
    · split at hs <;> cases hs
      rename_i r hp
      exact ⟨r, i, rfl, hg, hi.pend_owner g r i hp hg⟩
  · cases hs

/-- two live goroutines never share a record through function entries -/
theorem no_sharing_func_entry {s : State} (h : Reach s) {u1 u2 : Use}
    (h1 : u1 ∈ s.uses) (h2 : u2 ∈ s.uses) (v1 : u1.viaTop = false) (v2 : u2.viaTop = false)
    (hr : u1.r = u2.r) (l1 : (s.idOf u1.g).isSome) (l2 : (s.idOf u2.g).isSome) : u1.g = u2.g := by
  have hi := reach_inv h
  obtain ⟨i1, e1⟩ := Option.isSome_iff_exists.mp l1
  obtain ⟨i2, e2⟩ := Option.isSome_iff_exists.mp l2
  have o1 := hi.use_owner u1 h1 v1 i1 e1
  have o2 := hi.use_owner u2 h2 v2 i2 e2
  rw [hr] at o1
  have : i1 = i2 := by rw [o1] at o2; exact Option.some.inj o2
  subst this
  exact hi.distinct _ _ _ e1 e2

/-! ## the full property under the top-level discipline -/

/-- a top-level allocation (`block` on `ir.env.Run` not yet used by `g`) is admissible when the
    evaluating goroutine owns `ir.env.Run` -/
def topStepOk (s : State) : Action → Prop
  | .block g r => hasUse s g r = true ∨ ∀ i, s.idOf g = some i → s.owner r = some i
  | _ => True

/-- interleavings in which top-level code is only evaluated by the owner of `ir.env.Run` -/
inductive ReachOk : State → Prop where
  | init : ReachOk State.init
  | step {s s' : State} (a : Action) : ReachOk s → topStepOk s a → step s a = some s' → ReachOk s'

theorem reachOk_reach {s : State} (h : ReachOk s) : Reach s := by
  induction h with
  | init => exact Reach.init
  | step a _ _ hs ih => exact Reach.step a ih hs

theorem runOwned_step {s s' : State} {a : Action} (hi : Inv s) (ho : RunOwned s)
    (hk : topStepOk s a) (hs : step s a = some s') : RunOwned s' := by
  have h1 := hi.gid_fresh; have h2 := hi.run_fresh; have h5 := hi.pend_owner
  have h8 := hi.use_created
  unfold RunOwned at ho ⊢
  cases a <;> simp only [step] at hs
  case spawn k =>
    split at hs <;> cases hs
    simp only [upd]; grind
  case exit k =>
    split at hs <;> cases hs
    simp only [upd]; grind
  case interp k =>
    split at hs <;> cases hs
    simp only [upd, newRun]; grind
  case look k =>
    split at hs <;> cases hs
    exact ho
  case store k =>
    split at hs <;> cases hs
    · simp only [upd, newRun]; grind
    · simp only [upd, newRun]; grind
  case del k =>
    split at hs <;> cases hs
    exact ho
  case func k o =>
    split at hs
    · split at hs
      · split at hs <;> cases hs
        grind
      · split at hs <;> cases hs
        grind
    · cases hs
  case block k r =>
    simp only [topStepOk] at hk
    split at hs
    · split at hs
      · cases hs; exact ho
      · split at hs <;> cases hs
        grind
    · cases hs
  case rebind k =>
    split at hs <;> cases hs
    exact ho

/-- `run_owned_partial`: the full owner assertion, for every interleaving (unbounded goroutines,
    arbitrary identity reuse) in which top-level code is evaluated only by a goroutine that owns
    `ir.env.Run`.  Missing for the unconditional statement: the code as it exists lets any goroutine
    evaluate top-level code on the creator's record (`run_owned_fails`). -/
theorem run_owned_partial {s : State} (h : ReachOk s) : RunOwned s := by
  induction h with
  | init => intro u hu; simp [State.init] at hu
  | step a hr hk hs ih => exact runOwned_step (reach_inv (reachOk_reach hr)) ih hk hs

theorem noSharing_of_runOwned {s : State} (hi : Inv s) (ho : RunOwned s) : NoSharing s := by
  intro u1 h1 u2 h2 hr l1 l2
  obtain ⟨i1, e1⟩ := Option.isSome_iff_exists.mp l1
  obtain ⟨i2, e2⟩ := Option.isSome_iff_exists.mp l2
  have o1 := ho u1 h1 i1 e1
  have o2 := ho u2 h2 i2 e2
  rw [hr] at o1
  have : i1 = i2 := by rw [o1] at o2; exact Option.some.inj o2
  subst this
  exact hi.distinct _ _ _ e1 e2

/-- two live goroutines never use the same Run/pool (same hypothesis as `run_owned_partial`) -/
theorem no_sharing_partial {s : State} (h : ReachOk s) : NoSharing s :=
  noSharing_of_runOwned (reach_inv (reachOk_reach h)) (run_owned_partial h)

/-- the repair: after `rebind g` the interpreter's top-level record is owned by `g`, hence the
    top-level allocations of `g` that follow satisfy `topStepOk` -/
theorem rebind_makes_top_owned {s s' : State} (h : Reach s) {g : Gid} {i : Id}
    (hs : step s (.rebind g) = some s') (hg : s.idOf g = some i) :
    ∃ r, s'.top = some r ∧ s'.owner r = some i ∧ topStepOk s' (.block g r) := by
  have hi := reach_inv h
  simp only [step] at hs
  split at hs <;> cases hs
  rename_i j r t hj hp ht
  have ho := hi.pend_owner g r i hp hg
  refine ⟨r, rfl, ho, Or.inr ?_⟩
  intro i' hi'
  simp only at hi'
  rw [hg] at hi'; cases hi'; exact ho

/-! ## F14: the full property fails for the code as it exists -/

/-- creator (identity 0) creates the interpreter; another goroutine (identity 1) evaluates
    top-level code containing a block -/
def traceF14a : List Action := [.spawn 0, .interp 0, .spawn 1, .block 1 0]

/-- ... then the creator exits, its identity is reused by the child of a go statement, which
    enters an interpreted function whose closure frame belongs to the file scope: fast path
    (`outer.Run.goid == GoID()`) onto the creator's record, still in use by goroutine 1 -/
def traceF14b : List Action :=
  traceF14a ++ [.exit 0, .spawn 0, .store 2, .func 2 0]

def stateF14a : State := (runTrace State.init traceF14a).getD State.init
def stateF14b : State := (runTrace State.init traceF14b).getD State.init

theorem traceF14a_runs : runTrace State.init traceF14a = some stateF14a := by rfl
theorem traceF14b_runs : runTrace State.init traceF14b = some stateF14b := by rfl

/-- witness: a reachable state where a live goroutine allocates from a record owned by another identity -/
theorem run_owned_fails : ∃ s, Reach s ∧ ¬ RunOwned s := by
  refine ⟨stateF14a, reach_runTrace _ Reach.init traceF14a_runs, ?_⟩
  intro h
  have hm : (⟨1, 0, true⟩ : Use) ∈ stateF14a.uses := by decide
  have := h _ hm 1 (by rfl)
  exact absurd this (by decide)

/-- witness: a reachable state where two LIVE goroutines allocate from the same record, one of
    them through the (passing) identity check of function entry, after identity reuse -/
theorem shared_run_witness : ∃ s, Reach s ∧ ¬ NoSharing s := by
  refine ⟨stateF14b, reach_runTrace _ Reach.init traceF14b_runs, ?_⟩
  intro h
  have h1 : (⟨2, 0, false⟩ : Use) ∈ stateF14b.uses := by decide
  have h2 : (⟨1, 0, true⟩ : Use) ∈ stateF14b.uses := by decide
  have := h _ h1 _ h2 rfl (by decide) (by decide)
  exact absurd this (by decide)

theorem run_owned_full_fails : ¬ RunOwnedFull := by
  intro h
  obtain ⟨s, hr, hn⟩ := run_owned_fails
  exact hn (h s hr).1

/-! ## non-vacuity -/

/-- an interleaving of a creator, a go-statement child (lookup hit), a foreign goroutine (lookup
    miss, create, store, second call on the fast path) and a second go child that reuses the
    identity of the first one after its exit -/
def traceDemo : List Action :=
  [.spawn 0, .interp 0, .block 0 0,          -- creator evaluates top-level code: go statement
   .spawn 1, .store 1,                       -- child (identity 1) registers its record r1
   .spawn 2, .look 2,                        -- foreign goroutine (identity 2) enters f: miss
   .func 1 1,                                -- child: closure of the hand-over frame, fast path
   .look 1, .func 1 0,                       -- child calls a file-scope function: hit
   .store 2, .func 2 0, .block 2 2,          -- foreign: create+store r2, allocate, nested block
   .del 1, .exit 1,                          -- child ends
   .spawn 1, .store 3, .func 3 1,            -- identity 1 reused by a new go child: r3; a closure made by the dead child: fast path onto r1
   .func 2 2, .exit 2]

def stateDemo : State := (runTrace State.init traceDemo).getD State.init
theorem traceDemo_runs : runTrace State.init traceDemo = some stateDemo := by rfl

example : Reach stateDemo := reach_runTrace _ Reach.init traceDemo_runs
example : stateDemo.uses.length = 6 := by decide
example : stateDemo.reg 1 = some 3 ∧ stateDemo.reg 2 = some 2 ∧ stateDemo.reg 0 = some 0 := by decide
example : stateDemo.idOf 3 = some 1 ∧ stateDemo.idOf 1 = none ∧ stateDemo.idOf 0 = some 0 := by decide
/-- the hypotheses of `run_owned_func_entry` are satisfiable with a non-trivial use: the reused
    identity 1 (goroutine 3) allocating from the record r1 created by the dead goroutine 1 -/
example : (⟨3, 1, false⟩ : Use) ∈ stateDemo.uses ∧ stateDemo.idOf 3 = some 1 ∧ stateDemo.owner 1 = some 1 := by decide

/-- executable form of `topStepOk` -/
def topStepOkB (s : State) : Action → Bool
  | .block g r => hasUse s g r || (match s.idOf g with | none => true | some i => s.owner r == some i)
  | _ => true

theorem topStepOkB_sound {s : State} {a : Action} (h : topStepOkB s a = true) : topStepOk s a := by
  cases a <;> simp only [topStepOk]
  case block g r =>
    simp only [topStepOkB, Bool.or_eq_true] at h
    rcases h with h | h
    · exact Or.inl h
    · right; intro i hi; rw [hi] at h; simpa using h

def runTraceOk (s : State) : List Action → Option State
  | [] => some s
  | a :: as => if topStepOkB s a then (match step s a with
    | none => none
    | some s' => runTraceOk s' as) else none

theorem reachOk_runTraceOk {s s' : State} (tr : List Action) (h : ReachOk s)
    (ht : runTraceOk s tr = some s') : ReachOk s' := by
  induction tr generalizing s with
  | nil => simp [runTraceOk] at ht; subst ht; exact h
  | cons a as ih =>
    simp only [runTraceOk] at ht
    split at ht
    · rename_i hk
      split at ht
      · cases ht
      · rename_i s1 hs1
        exact ih (ReachOk.step a h (topStepOkB_sound hk) hs1) ht
    · cases ht

/-- `ReachOk` is inhabited by the same interleaving (all its top-level allocations are the
    creator's), so `run_owned_partial` / `no_sharing_partial` are not vacuous -/
theorem reachOk_demo : ReachOk stateDemo :=
  reachOk_runTraceOk traceDemo ReachOk.init (by rfl : runTraceOk State.init traceDemo = some stateDemo)

example : RunOwned stateDemo ∧ NoSharing stateDemo := ⟨run_owned_partial reachOk_demo, no_sharing_partial reachOk_demo⟩

/-- the F14 interleaving is exactly the kind excluded by `ReachOk` -/
example : runTraceOk State.init traceF14a = none := by rfl

end Gls
