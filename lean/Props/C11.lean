import Model.Interop
import Model.Imports
import Proofs.Interop
import Proofs.Imports

/-!
# C11  Interpreted functions and types interoperate with compiled code like Go values

Model: `Model/Interop.lean` (the `reflect.MakeFunc` body of `fast.funcGeneric`, the frame selection of
`newEnv4Func`) and the proxy call model of `Model/Imports.lean` (shared with C31).

A compiled higher-order function is an ARBITRARY function `H` of its callback (it may call it any
number of times, with any well-typed arguments, in any state, from any goroutine): the theorems
quantify over every `H`.
-/
namespace Interop
open Imports

variable {V σ : Type}

/-- **wrap_call.**  For every layout `funcMaker` can produce (distinct parameter binds inside the
    frame), every body that implements the Go function `f` w.r.t. that layout, every recycled frame
    content `fr0`, argument list of the right length and state: the `MakeFunc` body returns exactly
    `f`'s results and leaves exactly `f`'s state.  (Argument i is stored in parameter bind i, blank
    parameters are skipped, result j is read from result bind j.) -/
theorem wrap_call (m : FuncMaker) (dflt : V) (body f : List V → σ → List V × σ)
    (hm : LayoutOk m) (hf : Implements m dflt body f)
    (fr0 args : List V) (s : σ) (h0 : fr0.length = m.nbinds) (ha : args.length = m.params.length) :
    callGeneric m dflt body fr0 args s = f args s := by
  have hlen : (declParams m.params args fr0).length = m.nbinds := by rw [declParams_length, h0]
  have hholds : FrameHolds m (declParams m.params args fr0) args :=
    fun i k hik => declParams_holds m.params args fr0 hm.1 (fun k hk => h0 ▸ hm.2 k hk) ha i k hik
  have := hf (declParams m.params args fr0) args s hlen ha hholds
  simp only [callGeneric]
  rcases hb : body (declParams m.params args fr0) s with ⟨env', s'⟩
  rw [hb] at this
  simp only at this
  rcases hfa : f args s with ⟨r, t⟩
  rw [hfa] at this
  simp only at this
  simp [this.1, this.2]

/-- the frame content the pool hands out is irrelevant (slots are not cleared on reuse) -/
theorem wrap_call_frame_independent (m : FuncMaker) (dflt : V) (body f : List V → σ → List V × σ)
    (hm : LayoutOk m) (hf : Implements m dflt body f) (fr0 fr1 args : List V) (s : σ)
    (h0 : fr0.length = m.nbinds) (h1 : fr1.length = m.nbinds) (ha : args.length = m.params.length) :
    callGeneric m dflt body fr0 args s = callGeneric m dflt body fr1 args s := by
  rw [wrap_call m dflt body f hm hf fr0 args s h0 ha, wrap_call m dflt body f hm hf fr1 args s h1 ha]

/-- blank parameters never reach the frame: slots that are no parameter bind keep their content -/
theorem blank_params_ignored (m : FuncMaker) (fr0 args : List V) (k : Nat)
    (hk : k ∉ m.params.filterMap id) : (declParams m.params args fr0)[k]? = fr0[k]? :=
  declParams_untouched m.params args fr0 k hk

/-- the interpreted function as compiled code sees it: `pool` picks the recycled frame of each call -/
def wrap (m : FuncMaker) (dflt : V) (body : List V → σ → List V × σ) (pool : List V → σ → List V) :
    List V → σ → List V × σ :=
  fun args s => callGeneric m dflt body (pool args s) args s

/-- **callback_transparent.**  Any compiled higher-order function `H` that is well typed (it cannot
    distinguish two callbacks that agree on argument lists of the declared arity) gives the same
    result for the interpreted callback as for the Go function it implements. -/
theorem callback_transparent {R : Type} (m : FuncMaker) (dflt : V) (body f : List V → σ → List V × σ)
    (pool : List V → σ → List V) (hm : LayoutOk m) (hf : Implements m dflt body f)
    (hpool : ∀ args s, (pool args s).length = m.nbinds)
    (H : (List V → σ → List V × σ) → R)
    (hH : ∀ g g', (∀ args s, args.length = m.params.length → g args s = g' args s) → H g = H g') :
    H (wrap m dflt body pool) = H f :=
  hH _ _ (fun args s ha => wrap_call m dflt body f hm hf (pool args s) args s (hpool args s) ha)

/-- **interface_call_transparent.**  An interpreted type used through a compiled interface: for every
    well-formed proxy declaration (C31 `proxyOk`; all extracted proxies are), if the func field `M_`
    holds the wrapped interpreted method (receiver first), a call `x.M(args)` made by compiled code
    through the interface is the interpreted method applied to `object :: args`. -/
theorem interface_call_transparent (d : ProxyDecl) (hd : proxyOk d = true) (md : MethodDecl)
    (hmd : md ∈ d.methods) (p : Proxy V σ)
    (m : FuncMaker) (dflt : V) (body f : List V → σ → List V × σ) (pool : List V → σ → List V)
    (hm : LayoutOk m) (hf : Implements m dflt body f) (hpool : ∀ a s, (pool a s).length = m.nbinds)
    (harity : m.params.length = md.params.length + 1)
    (hfield : p.field (Str.underscore md.name) = some (wrap m dflt body pool))
    (args : List V) (s : σ) (hl : args.length = md.params.length) :
    callMethod d p md.name args s =
      some (if md.results.isEmpty then ([], (f (p.object :: args) s).2) else f (p.object :: args) s) := by
  have h := proxy_forwarding_gen d hd md hmd p args s _ hl hfield
  have hw : wrap m dflt body pool (p.object :: args) s = f (p.object :: args) s :=
    wrap_call m dflt body f hm hf _ _ s (hpool _ _) (by simp [hl, harity])
  rw [h, hw]

/-- **foreign_goroutine_owned.**  The frame of a callback is taken from the run record of the goroutine
    that CALLS it, provided the registry returns a record of the asked goroutine (that is C33's
    invariant, assumed here); on the declaring goroutine the outer record is reused. -/
theorem foreign_goroutine_owned (outer : Run) (goid : Nat) (registry : Nat → Run)
    (hreg : ∀ g, (registry g).goid = g) : (selectRun outer goid registry).goid = goid := by
  unfold selectRun
  split
  · assumption
  · exact hreg goid

theorem same_goroutine_reuses (outer : Run) (registry : Nat → Run) :
    selectRun outer outer.goid registry = outer := by simp [selectRun]

/-- two goroutines calling the same closure concurrently never share a run record -/
theorem concurrent_callers_distinct_runs (outer : Run) (g1 g2 : Nat) (registry : Nat → Run)
    (hreg : ∀ g, (registry g).goid = g) (hne : g1 ≠ g2) :
    selectRun outer g1 registry ≠ selectRun outer g2 registry := by
  intro h
  have h1 := foreign_goroutine_owned outer g1 registry hreg
  have h2 := foreign_goroutine_owned outer g2 registry hreg
  rw [h] at h1
  exact hne (h1.symm.trans h2)

/-! ## Non-vacuity -/

/-- `func(a0 int, _ int, a2 int) (r0, r1 int) { r0 = a2; r1 = a0; return }` -/
def exMaker : FuncMaker := layoutOf ['u', '_', 'u'] 2

example : exMaker = { nbinds := 4, params := [some 0, none, some 1], results := [2, 3] } := by decide

example : LayoutOk exMaker := by
  refine ⟨by decide, ?_⟩
  intro k hk
  have : k = 0 ∨ k = 1 := by simpa [exMaker, layoutOf, layoutOf.go] using hk
  rcases this with rfl | rfl <;> decide

/-- on a dirty recycled frame the wrapped function returns (a2, a0) -/
example : (callGeneric exMaker (0 : Nat) (selBody exMaker [2, 0] 0) [91, 92, 93, 94] [5, 6, 7] ()).1 = [7, 5] := by
  decide

example : Implements exMaker (0 : Nat) (selBody exMaker [2, 0] 0)
    (fun args s => ([args.getD 2 0, args.getD 0 0], s)) := by
  intro fr args s hfr ha hh
  obtain ⟨a0, h0a, h0f⟩ := hh 0 0 (by decide)
  obtain ⟨a2, h2a, h2f⟩ := hh 2 1 (by decide)
  match fr, hfr with
  | [x0, x1, x2, x3], _ =>
    match args, ha with
    | [b0, b1, b2], _ =>
      simp at h0a h0f h2a h2f
      subst h0a h2a h0f h2f
      simp [selBody, exMaker, layoutOf, layoutOf.go, readResults, List.range_succ]

example : (selectRun ⟨1, 10⟩ 2 (fun g => ⟨g, 100 + g⟩)) = ⟨2, 102⟩ := by decide

end Interop
