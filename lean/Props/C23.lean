import Proofs.ScanDelta
import Model.ScanMini
import Model.ScanWhitelist
import Gen.ScanSwitch
/-!
# C23  The forked scanner tokenizes extension-free input exactly like the Go scanner

Theorems about `Model/ScanDelta.lean` (go/scanner/scanner.go `Scan` = go1.13 `Scan` + the gomacro patch,
the unpatched parts being an arbitrary `Base`), obligations over the regenerated tables of
`Gen/ScanSwitch.lean`, and the properties of `semiBack`, the one normalisation the differential
oracle applies to the go1.23 reference stream.

PARTIAL by design: the unpatched parts are a parameter, so the theorems say "patched = unpatched go1.13
scanner"; that the unpatched parts equal GOROOT's is syntactic (hash tables below) plus the
differential run of harness/c23.go.
-/
namespace ScanDelta
open Gen.ScanSwitch

/-! ## the patched scanner equals the unpatched one on extension-free input -/

/-- One call of `Scan`: if the token at `s` (and at every restart after a skipped comment) is not an
    extension-keyword identifier and starts neither with '#' nor with an unshadowed macro character,
    the patched `Scan` returns the same position, token, literal and leaves the same state (hence the same
    error-handler calls) as the unpatched one -- for every base scanner, configuration and fuel. -/
theorem scan_step_eq (B : Base) (c : Cfg) (fuel : Nat) (s : St) (h : safeScan B c fuel s = true) :
    scanFork B c fuel s = scanBase B c fuel s :=
  scanFork_eq_scanBase B c fuel s h

/-- `fork_eq_base_on_extfree`: for EVERY base scanner, every configuration (macro character, generics
    mode, scanning mode) and every start state, if the first `n` tokens of the UNPATCHED scanner use no
    extension (`safeRun`, a condition on the unpatched run only), then `n` calls of the patched `Scan`
    yield the same `(position, token, literal)` list and the same final state. -/
theorem fork_eq_base_on_extfree (B : Base) (c : Cfg) (fuel n : Nat) (s : St)
    (h : safeRun B c fuel n s = true) :
    run (scanFork B c) fuel n s = run (scanBase B c) fuel n s :=
  run_fork_eq_base B c fuel n s h

/-- the observable consequences: token stream, error list (offset, message) and ErrorCount -/
theorem fork_eq_base_tokens_errors (B : Base) (c : Cfg) (fuel n : Nat) (s : St)
    (h : safeRun B c fuel n s = true) :
    (run (scanFork B c) fuel n s).1 = (run (scanBase B c) fuel n s).1 ∧
    (run (scanFork B c) fuel n s).2.errs = (run (scanBase B c) fuel n s).2.errs ∧
    (run (scanFork B c) fuel n s).2.errs.length = (run (scanBase B c) fuel n s).2.errs.length := by
  rw [fork_eq_base_on_extfree B c fuel n s h]; exact ⟨rfl, rfl, rfl⟩

/-- the same for streams of every length, from an invariant of the unpatched run: if `Inv` holds initially, is
    preserved by the unpatched `Scan`, and implies that the next token uses no extension, the patched and the
    unpatched scanner produce the same stream of any length `n`. -/
theorem fork_eq_base_of_invariant (B : Base) (c : Cfg) (fuel : Nat) (Inv : St → Prop)
    (hsafe : ∀ s, Inv s → safeScan B c fuel s = true)
    (hstep : ∀ s, Inv s → Inv (scanBase B c fuel s).st) (s : St) (h0 : Inv s) (n : Nat) :
    run (scanFork B c) fuel n s = run (scanBase B c) fuel n s :=
  fork_eq_base_on_extfree B c fuel n s (safeRun_of_invariant B c fuel Inv hsafe hstep n s h0)

/-- a sufficient condition on characters: a token that is not an identifier and starts with a character
    other than '#' and the macro character is safe -/
theorem safeAt_of_no_ext_char (B : Base) (c : Cfg) (s : St)
    (hl : B.isLetter (B.skipWhitespace s).ch = false)
    (h1 : (B.skipWhitespace s).ch ≠ r '#') (h2 : (B.skipWhitespace s).ch ≠ c.macroChar) :
    safeAt B c s = true := by
  simp [safeAt, hl, h1, h2]

/-- ... and an identifier is safe iff it is not spelled like an extension keyword -/
theorem safeAt_of_plain_word (B : Base) (c : Cfg) (s : St)
    (hl : B.isLetter (B.skipWhitespace s).ch = true)
    (hw : isExtWord c (B.scanIdentifier (B.skipWhitespace s)).1 = false) :
    safeAt B c s = true := by
  simp [safeAt, hl, hw]

/-- a macro character that equals the label of an earlier case never reaches the macro arm
    (e.g. `macroChar = '+'`): such a configuration has no macro character at all -/
theorem safeAt_of_shadowed (B : Base) (c : Cfg) (s : St)
    (hl : B.isLetter (B.skipWhitespace s).ch = false)
    (h1 : (B.skipWhitespace s).ch ≠ r '#')
    (h2 : shadowed B (B.skipWhitespace s).ch (B.next (B.skipWhitespace s)) = true) :
    safeAt B c s = true := by
  simp [safeAt, hl, h1, h2]

/-- on '/', the patched arm `case '/', '#'` is the unpatched arm `case '/'` -/
theorem slash_arm_eq (B : Base) (c : Cfg) (pos : Nat) (s : St) :
    forkSlashArm B c (r '/') pos s = baseSlashArm B c (r '/') pos s :=
  forkSlashArm_slash B c pos s

/-- the arm `case s.macroChar` is taken for the macro character only -/
theorem macro_arm_guarded (B : Base) (c : Cfg) (ch : Int) (pos : Nat) (s : St) (h : ch ≠ c.macroChar) :
    (forkPatch B c).extraArm ch pos s = none :=
  forkExtra_none B c ch pos s h

/-! ## keyword tables (regenerated from go/etoken/token.go and GOROOT go/token/token.go) -/

/-- `keywords_superset`: over the regenerated if-chain of `etoken.Lookup`, every word that is not one of the
    chain's words is looked up exactly as by `token.Lookup` (whatever that function is). -/
theorem keywords_superset (g : Bool) (std : String → Tok) (lit : String)
    (h : lit ∉ etokenLookupArms.map (·.1)) : lookupChain etokenLookupArms g std lit = std lit :=
  lookupChain_of_not_mem etokenLookupArms g std lit h

/-- the model's `etokenLookup` is the regenerated chain -/
theorem lookup_model_is_table (g : Bool) (std : String → Tok) (lit : String) :
    etokenLookup g std lit = lookupChain etokenLookupArms g std lit := by
  simp only [etokenLookupArms, lookupChain, etokenLookup]
  cases g <;> simp

/-- the words of the chain are exactly the model's extension words, none of them is a Go keyword
    (so no Go keyword changes meaning), the chain ends in `return token.Lookup(lit)`, the
    `LookupSpecial` map and GOROOT's keyword list are the ones the model uses. -/
theorem keyword_tables_pinned :
    etokenLookupArms.map (·.1) = ["macro", "template", "#"] ∧
    (etokenLookupArms.all fun a => !stdKeywords.contains a.1) = true ∧
    etokenLookupFallback = "return token . Lookup ( lit )" ∧
    etokenSpecial = specialTable ∧
    stdKeywords = ScanMini.goKeywords := by decide

theorem isExtWord_iff_in_table (c : Cfg) (lit : String) (h : isExtWord c lit = true) :
    lit ∈ etokenLookupArms.map (·.1) := by
  simp only [isExtWord, Bool.or_eq_true, Bool.and_eq_true, beq_iff_eq] at h
  rcases h with (h | h) | h
  · subst h; decide
  · rw [h.2]; decide
  · subst h; decide

/-! ## the switch arms and helper functions (regenerated from both scanner.go files) -/

def inList (l : List (String × String)) (a : String × String) : Bool := l.contains a

/-- `delta_arms_subset_ext`: every arm of the fork's `Scan` (prologue, outer arms, the arms of `switch ch`,
    epilogue) is token-identical to the reference arm with the same label, except the pinned arms of
    `Whitelist.forkArms` (the `'/' , '#'` arm and `case s.macroChar` of the patch, and the go1.20
    prologue); conversely for the reference's arms. -/
theorem delta_arms_subset_ext :
    (forkArms.all fun a => inList stdArms a || inList Whitelist.forkArms a) = true ∧
    (stdArms.all fun a => inList forkArms a || inList Whitelist.stdArms a) = true ∧
    (Whitelist.forkArms.all fun a => inList forkArms a && !inList stdArms a) = true := by decide

/-- the order of the arms is the reference's order, with `case '/'` extended by `'#'` in place and
    `case s.macroChar` between `case '|'` and `case '~'` (the evaluation order the model assumes) -/
def expectedForkLabels : List String :=
  (stdArms.map (·.1)).flatMap fun l =>
    if l == "case '/'" then ["case '/' , '#'"] else if l == "case '~'" then ["case s . macroChar", "case '~'"] else [l]

theorem arm_order_pinned : forkArms.map (·.1) = expectedForkLabels := by decide

/-- `helpers_equal_or_whitelisted`: every top-level declaration of the fork's scanner.go (types, constants,
    `next`, `scanNumber`, `scanString`, `scanRune`, `scanRawString`, `scanEscape`, `scanComment`,
    `updateLineInfo`, `skipWhitespace`, `switch2..4`, ...) is token-identical to the reference's declaration
    of the same name, except the pinned entries of `Whitelist.forkDecls`; conversely for the reference. -/
theorem helpers_equal_or_whitelisted :
    (forkDecls.all fun a => inList stdDecls a || inList Whitelist.forkDecls a) = true ∧
    (stdDecls.all fun a => inList forkDecls a || inList Whitelist.stdDecls a) = true ∧
    (Whitelist.forkDecls.all fun a => inList forkDecls a && !inList stdDecls a) = true := by decide

/-! ## semiBack (the normalisation of the reference stream) hides nothing but the go1.20 change -/

/-- dropping comments, and ignoring the position of automatic semicolons, `semiBack` changes nothing -/
theorem semiBack_dropComments (l : List Tk) :
    (dropComments (semiBack l)).map erasePos = (dropComments l).map erasePos :=
  semiBackAux_dropComments l [] allComments_nil

/-- the comments (kind and position, in order) are unchanged -/
theorem semiBack_comments (l : List Tk) : comments (semiBack l) = comments l := by
  have := semiBackAux_comments l [] allComments_nil
  simpa [semiBack] using this

/-- a stream in which no automatic semicolon directly follows a comment is left as it is -/
theorem semiBack_id (l : List Tk) (h : noCommentBeforeAuto false l = true) : semiBack l = l := by
  have := semiBackAux_id l [] allComments_nil (by simpa using h)
  simpa [semiBack] using this

/-! ## non-vacuity and sharpness (executable instance `ScanMini.miniBase`) -/
section examples
open ScanMini

/-- "x := 1 // c\n/*d*/ y" -/
def exSrc : Src := #[120, 32, 58, 61, 32, 49, 32, 47, 47, 32, 99, 10, 47, 42, 100, 42, 47, 32, 121]
def exCfg : Cfg := { macroChar := 126, genericsV1 := false, scanComments := false, dontInsertSemis := false }

-- the hypothesis of fork_eq_base_on_extfree holds on a non-trivial input (a comment is skipped, a
-- semicolon is inserted in front of a comment, 7 tokens) ...
example : safeRun (miniBase exSrc) exCfg 30 7 (initSt exSrc) = true := by decide
example : ((run (scanFork (miniBase exSrc) exCfg) 30 7 (initSt exSrc)).1.map (·.2.1))
    = ["IDENT", ":=", "INT", ";", "IDENT", ";", "EOF"] := by decide
-- ... and with ScanComments on
example : safeRun (miniBase exSrc) { exCfg with scanComments := true } 30 9 (initSt exSrc) = true := by decide

-- sharpness: on '#', on the macro character and on the word `macro` the two scanners differ, and
-- `safeRun` is false there
/-- "a # ~' macro" -/
def exExt : Src := #[97, 32, 35, 32, 126, 39, 32, 109, 97, 99, 114, 111]
example : safeRun (miniBase exExt) exCfg 30 2 (initSt exExt) = false := by decide
example : ((run (scanFork (miniBase exExt) exCfg) 30 5 (initSt exExt)).1.map (·.2.1))
    = ["IDENT", "#", "~quote", "~macro", "EOF"] := by decide
example : ((run (scanBase (miniBase exExt) exCfg) 30 5 (initSt exExt)).1.map (·.2.1))
    = ["IDENT", "ILLEGAL", "~", "CHAR", ";"] := by decide
example : (run (scanFork (miniBase exExt) exCfg) 30 5 (initSt exExt)).2.errs.length = 0 := by decide
example : (run (scanBase (miniBase exExt) exCfg) 30 5 (initSt exExt)).2.errs.length = 2 := by decide

-- keywords_superset is not vacuous: "func" is not a word of the chain
example : lookupChain etokenLookupArms true tokenLookup "func" = "func" :=
  keywords_superset true tokenLookup "func" (by decide)
example : lookupChain etokenLookupArms true tokenLookup "template" = "template" := by decide
example : lookupChain etokenLookupArms false tokenLookup "template" = "IDENT" := by decide

-- semiBack moves the semicolon of `x /*c*/ //d \n y` in front of the two comments
example : semiBack [⟨.tok, 0⟩, ⟨.comment, 2⟩, ⟨.comment, 8⟩, ⟨.autoSemi, 12⟩, ⟨.tok, 13⟩]
    = [⟨.tok, 0⟩, ⟨.autoSemi, 2⟩, ⟨.comment, 2⟩, ⟨.comment, 8⟩, ⟨.tok, 13⟩] := by decide
example : noCommentBeforeAuto false [⟨.tok, 0⟩, ⟨.autoSemi, 1⟩, ⟨.comment, 2⟩, ⟨.tok, 9⟩] = true := by decide

end examples

end ScanDelta
