import Proofs.Layout
import Proofs.Universe

/-! # C29 — interpreter types are canonical and parallel to their reflect types

Model: `Model/Universe.lean` (xreflect: `maketype4`/`Types.add` over the identity-keyed type map of
C28, the constructors `ArrayOf/SliceOf/PtrTo/ChanOf/MapOf/FuncOf/StructOf/NamedOf/SetUnderlying`, the
accessors, and the layout rule that gives `Size/Align/Field(i).Offset`).

The theorems about the intern table quantify over every history of well-formed constructor calls
(`Op.basic k` = intern a basic type, `Op.mk sh xs` = a composite constructor of shape `sh` applied to
existing objects `xs`; ill-formed calls panic = no-ops) starting from the empty universe, for every
hash function `nh` of type names (addresses in the real code) and every method environment `env` of
C28's interface invariant.  Histories that use a named type before `SetUnderlying` (reflect type
`Forward`) are outside the theorems: there the real code deliberately hands out several objects
for one type (see notes/C29.md); they are covered by the model/implementation correspondence only. -/

namespace Universe
open TypeId TypeMap

/-! ## layout -/

/-- `struct_offsets_spec`: for every list of field (size, alignment) pairs with positive alignments,
    the offsets, size and alignment computed by `layout` (what `reflect.StructOf`, hence
    `Type.Field(i).Offset/Size/Align`, and the Go compiler compute) satisfy Go's layout rule
    `IsLayout` — every field at the least multiple of its alignment not before the end of the
    previous field (aligned, ordered, non overlapping, no avoidable padding), struct alignment =
    largest field alignment, size = end of the last field (+1 if that field is zero-sized in a
    non-empty struct) rounded up to the alignment — and they are the only values that do. -/
theorem struct_offsets_spec (fs : List (Nat × Nat)) (h : ∀ f ∈ fs, 0 < f.2) :
    IsLayout fs (layout fs).1 (layout fs).2.1 (layout fs).2.2 ∧
    ∀ offs size al, IsLayout fs offs size al → offs = (layout fs).1 ∧ size = (layout fs).2.1 ∧ al = (layout fs).2.2 :=
  ⟨layout_isLayout fs h, fun _ _ _ L => isLayout_unique h L⟩

/-- every reflect type (any nesting of arrays and structs over the amd64 basic kinds) has a positive
    alignment dividing its size, so the hypothesis of `struct_offsets_spec` holds for the fields of
    every struct type, whose offsets/size/alignment therefore obey the rule -/
theorem struct_offsets_of_types (names : List (String × String)) (cs : RTy) :
    (0 < rAlign (.node (.struct names) cs) ∧ rSize (.node (.struct names) cs) % rAlign (.node (.struct names) cs) = 0) ∧
    IsLayout (rSAs cs) (rOffsets (.node (.struct names) cs)) (rSize (.node (.struct names) cs)) (rAlign (.node (.struct names) cs)) := by
  refine ⟨(rSA_wf _).1, ?_⟩
  have h := layout_isLayout (rSAs cs) (rSA_wf cs).2
  have e : rSA (.node (.struct names) cs) = ((layout (rSAs cs)).2.1, (layout (rSAs cs)).2.2) := by simp [rSA]
  simpa [rOffsets, rSize, rAlign, e] using h

example : layout [(1, 1), (8, 8), (2, 2), (0, 1)] = ([0, 8, 16, 18], 24, 8) := by decide
example : layout [(8, 8), (0, 1)] = ([0, 8], 16, 8) := by decide   -- trailing zero-size field pads

/-! ## the intern table -/

/-- the invariants hold in every reachable universe -/
theorem universe_invariant (env : Nat → List String) (nh : Nat → UInt32) (ops : List Op) :
    Good env nh (run (uOps nh) emptyU ops) ∧ Scoped (run (uOps nh) emptyU ops) :=
  ⟨(run_good (env := env) ops good_empty scoped_empty).1, (run_good (env := env) ops good_empty scoped_empty).2.1⟩

/-- `intern_canonical`: in every reachable universe two live objects whose go/types types are
    identical (`typeutil.Identical`) are the same object (pointer-equal `*xtype`). -/
theorem intern_canonical (env : Nat → List String) (nh : Nat → UInt32) (ops : List Op) (i j : Nat) :
    let s := run (uOps nh) emptyU ops
    Live s i → Live s j → identB (s.rep i).g (s.rep j).g = true → i = j := by
  intro s li lj h
  exact (universe_invariant env nh ops).1.tab.canonical (uEquiv env nh) li lj h

/-- `intern_canonical`, operational form: constructing from the same components again — after any
    further history — returns the object of the first construction and leaves the universe as it is;
    the "mismatched reflect.Type found in cache" branch of `maketype4` is never taken. -/
theorem intern_again (env : Nat → List String) (nh : Nat → UInt32) (before after : List Op) (op : Op) :
    let s := run (uOps nh) emptyU before
    op.interns → op.ok s →
    let s1 := (step (uOps nh) s op).1
    let s2 := run (uOps nh) s1 after
    step (uOps nh) s2 op = (s2, (step (uOps nh) s op).2) := by
  intro s hi hok
  exact step_again (universe_invariant env nh before).1 (universe_invariant env nh before).2 op hi hok after

/-- constructing from *identical* (not necessarily the same) components: identical live components
    are the same objects, so the calls coincide -/
theorem intern_identical_components (env : Nat → List String) (nh : Nat → UInt32) (ops : List Op) (xs ys : List Nat) :
    let s := run (uOps nh) emptyU ops
    (∀ x ∈ xs, Live s x) → (∀ y ∈ ys, Live s y) → identL true (gsOf s ys) (gsOf s xs) = true → ys = xs := by
  intro s hx hy h
  exact live_list_eq (universe_invariant env nh ops).1.tab hy hx h

/-- `gtype_rtype_parallel`: in every reachable universe every live object is a basic leaf carrying its
    own reflect type, or it has a shape and live component objects such that its go/types type is
    the shape applied to the components' go/types types and its reflect type is the same shape
    applied to the components' reflect types. -/
theorem gtype_rtype_parallel (env : Nat → List String) (nh : Nat → UInt32) (ops : List Op) (i : Nat) :
    let s := run (uOps nh) emptyU ops
    Live s i → Leaf (s.rep i) ∨ Prov s i :=
  fun li => (universe_invariant env nh ops).1.par i li

theorem kind_mk (sh : Shape) (gs : List Ty) (rs : List RTy) : rKind (mkR sh rs) = kindU (mkG sh gs) := by
  cases sh <;> simp [mkR, mkG, rshape, rKind, kindU]

/-- consequence: `ReflectType().Kind()` equals the kind computed from the go/types side -/
theorem kind_parallel (env : Nat → List String) (nh : Nat → UInt32) (ops : List Op) (i : Nat) :
    let s := run (uOps nh) emptyU ops
    Live s i → (∀ id, (s.rep i).g ≠ .named id) → (∀ a b c, (s.rep i).g ≠ .iface a b c) →
    rKind (s.rep i).r = kindU (s.rep i).g := by
  intro s li h1 h2
  rcases gtype_rtype_parallel env nh ops i li with lf | ⟨sh, xs, _, _, hg, hr⟩
  · unfold Leaf at lf
    cases hx : (s.rep i).g <;> rw [hx] at lf <;> simp at lf
    · rw [lf]; rfl
    · exact absurd hx (h2 _ _ _)
    · exact absurd hx (h1 _)
  · rw [hg, hr]; exact kind_mk _ _ _

/-- the transcribed constructors are the uniform `construct` on live objects of a reachable universe
    (so the theorems above speak about `ArrayOf`, `SliceOf`, `PtrTo`, `ChanOf`, `MapOf`) -/
theorem constructors_are_construct (env : Nat → List String) (nh : Nat → UInt32) (ops : List Op) (n d x y : Nat) :
    let s := run (uOps nh) emptyU ops
    Live s x → Live s y →
    arrayOf (uOps nh) s n x = some (construct (uOps nh) s (.array n) [x]) ∧
    sliceOf (uOps nh) s x = some (construct (uOps nh) s .slice [x]) ∧
    ptrTo (uOps nh) s x = some (construct (uOps nh) s .ptr [x]) ∧
    (1 ≤ d ∧ d ≤ 3 → rSize (s.rep x).r < 65536 → chanOf (uOps nh) s d x = some (construct (uOps nh) s (.chan d) [x])) ∧
    (rHashable (s.rep x).r = true → mapOf (uOps nh) s x y = some (construct (uOps nh) s .map [x, y])) := by
  intro s lx ly
  have hg := (universe_invariant env nh ops).1
  exact ⟨arrayOf_eq hg n lx, sliceOf_eq hg lx, ptrTo_eq hg lx, fun hd hs => chanOf_eq hg hd lx hs, fun hh => mapOf_eq hg lx ly hh⟩

/-- named types: declaring `type T x` (NamedOf + SetUnderlying) on a live object always yields a NEW live
    object (a defined type is identical only to itself), which carries the reflect type of `x`
    (named types are emulated by their underlying reflect type) and leaves all objects in place -/
theorem named_is_new (env : Nat → List String) (nh : Nat → UInt32) (ops : List Op) (name : String) (x : Nat) :
    let s := run (uOps nh) emptyU ops
    Live s x →
    let p := declNamed (uOps nh) s name x
    p.2 = s.reps.length ∧ Live p.1 p.2 ∧ (p.1.rep p.2).r = (s.rep x).r ∧ Ext s p.1 ∧
    ∀ j, Live s j → identB (p.1.rep j).g (p.1.rep p.2).g = false := by
  intro s hx p
  obtain ⟨hg, hs⟩ := universe_invariant env nh ops
  obtain ⟨g1, _, e1, l1, eg, er⟩ := declNamed_good hg hs hx name
  refine ⟨rfl, l1, er, e1, ?_⟩
  intro j lj
  cases c : identB (p.1.rep j).g (p.1.rep p.2).g with
  | false => rfl
  | true =>
    have hc : (uOps nh).ident (p.1.rep j).g (p.1.rep p.2).g = true := c
    have h3 : j = p.2 := g1.tab.canonical (uEquiv env nh) (e1 j lj).1 l1 hc
    have h2 : p.2 = s.reps.length := rfl
    have h4 := lj.1
    omega

/-- the transcribed `NamedOf(name)` followed by `SetUnderlying(x)` is the `Op.named` step of the histories -/
theorem named_is_declNamed (env : Nat → List String) (nh : Nat → UInt32) (ops : List Op) (name : String) (x : Nat) :
    let s := run (uOps nh) emptyU ops
    Live s x →
    (namedOf (uOps nh) s name).2 = (declNamed (uOps nh) s name x).2 ∧
    setUnderlying (namedOf (uOps nh) s name).1 (namedOf (uOps nh) s name).2 x = some (declNamed (uOps nh) s name x).1 := by
  intro s hx
  exact named_link (universe_invariant env nh ops).1 (universe_invariant env nh ops).2 hx name

/-- accessors: `Elem()` of an array / slice / pointer / channel object built from the object `x` is
    `x` itself — no new object, the universe is unchanged -/
theorem elem_returns_component (env : Nat → List String) (nh : Nat → UInt32) (ops : List Op) (i x : Nat) :
    let s := run (uOps nh) emptyU ops
    Live s i → Live s x →
    (∀ n, (s.rep i).g = .array n (s.rep x).g → (s.rep i).r = .node (.array n) (.cons (s.rep x).r .nil) →
      elem (uOps nh) s i = some (s, x)) ∧
    ((s.rep i).g = .slice (s.rep x).g → (s.rep i).r = .node .slice (.cons (s.rep x).r .nil) →
      elem (uOps nh) s i = some (s, x)) ∧
    ((s.rep i).g = .pointer (s.rep x).g → (s.rep i).r = .node .ptr (.cons (s.rep x).r .nil) →
      elem (uOps nh) s i = some (s, x)) ∧
    (∀ d, (s.rep i).g = .chan (dirToGdir d) (s.rep x).g → (s.rep i).r = .node (.chan d) (.cons (s.rep x).r .nil) →
      elem (uOps nh) s i = some (s, x)) := by
  intro s hi hx
  exact elem_of_prov (universe_invariant env nh ops).1 hi hx

/-! non-vacuity: a concrete history — `int`, `[3]int`, `[]([3]int)`, `[3]int` again, `map[int][]([3]int)` -/
def exOps : List Op :=
  [.basic 2, .mk (.array 3) [0], .mk .slice [1], .mk (.array 3) [0], .mk .map [0, 2], .named "N" 1, .mk .ptr [4]]

def exNh : Nat → UInt32 := fun _ => 0

example : (run (uOps exNh) emptyU exOps).reps.length = 6 := by decide +kernel
example : (step (uOps exNh) (run (uOps exNh) emptyU exOps) (.mk (.array 3) [0])).2 = 1 := by decide +kernel
example : Live (run (uOps exNh) emptyU exOps) 3 := by decide +kernel
example : (Op.mk .map [0, 2]).ok (run (uOps exNh) emptyU [.basic 2, .mk (.array 3) [0], .mk .slice [1]]) := by decide +kernel

end Universe
