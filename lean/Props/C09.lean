import Model.Lookup
namespace Lookup
theorem stub : True := trivial
end Lookup
