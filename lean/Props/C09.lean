import Proofs.Lookup
import Gen.C09Switch
/-!
# C09  Methods, embedding, interfaces and type switches behave as in Go

Property theorems about `Model/Lookup.lean` (transcription of xreflect/lookup.go,
fast/selector.go `TryLookupFieldOrMethod`, fast/switch_type.go dispatch) against the
specification `GoSpec/Selector.lean` (Go's selector rule over ALL embedding paths, no pruning).
Every theorem holds for every universe: any number of types, any embedding graph (cycles through
embedded pointers included), any name, any fuel.
-/
namespace Lookup

/-- `lookup_bfs_eq_spec`: whatever `xtype.FieldByName`'s breadth-first search (visited map keyed
    by struct identity and depth, stop at the first depth with a match) returns, it is Go's
    answer: count 0 iff NO embedding path of ANY length reaches a field of that name; otherwise
    the count is the number of such fields at the shallowest depth that has one and the returned
    field is the first of them.  In particular the visited-map pruning never hides a match. -/
theorem lookup_bfs_eq_spec (U : Universe) (root : Nat) (name : String) (fuel : Nat)
    (r : Option (List Nat) × Nat) (h : fieldBFS U root name fuel = some r) :
    LookupSpec (fieldsAt U root name) r :=
  fieldBFS_spec U name root fuel r h

/-- `method_lookup_eq_spec`: the same for `xtype.MethodByName` (declared methods of the root,
    then of embedded fields level by level; `anonymousFields` prunes by struct identity). -/
theorem method_lookup_eq_spec (U : Universe) (root : Nat) (name : String) (fuel : Nat)
    (r : Option MRes × Nat) (h : methodBFS U root name fuel = some r) :
    LookupSpec (methodsAt U root name) r :=
  methodBFS_spec U name root fuel r h

/-- the depth stored in a found field's `Index` is the depth where Go finds it (+1) -/
theorem matchIdx_len (name : String) (index : List Nat) (fs : List Field) (i : Nat) :
    ∀ p ∈ matchIdx name index fs i, p.length = index.length + 1 := by
  induction fs generalizing i with
  | nil => simp [matchIdx]
  | cons f fs ih =>
    unfold matchIdx
    by_cases h : f.name = name
    · simp only [h, if_true, List.mem_cons]
      intro p hp
      rcases hp with rfl | hp
      · simp
      · exact ih _ p hp
    · simp only [h, if_false]; exact ih _

theorem fieldsAt_len (U : Universe) (root : Nat) (name : String) (d : Nat) :
    ∀ p ∈ fieldsAt U root name d, p.length = d + 1 := by
  intro p hp
  simp only [fieldsAt, List.mem_flatMap] at hp
  obtain ⟨e, he, hpe⟩ := hp
  have hl := reach_len U (rootEntry root) d e he
  unfold fieldMatches at hpe
  cases hb : U.bodyOf e.typ with
  | none => simp [hb] at hpe
  | some b =>
    simp only [hb] at hpe
    have := matchIdx_len name e.index _ 0 p hpe
    simp [rootEntry] at hl
    omega

theorem methodIdx_props (name : String) (index : List Nat) (ms : List MethodDecl) (i : Nat) :
    ∀ m ∈ methodIdx name index ms i, m.fieldIndex = index ∧ m.index ≥ 0 := by
  induction ms generalizing i with
  | nil => simp [methodIdx]
  | cons m ms ih =>
    unfold methodIdx
    by_cases h : m.name = name
    · simp only [h, if_true, List.mem_cons]
      intro x hx
      rcases hx with rfl | hx
      · exact ⟨rfl, Int.natCast_nonneg i⟩
      · exact ih _ x hx
    · simp only [h, if_false]; exact ih _

theorem methodsAt_props (U : Universe) (root : Nat) (name : String) (d : Nat) :
    ∀ m ∈ methodsAt U root name d, m.fieldIndex.length = d ∧ m.index ≥ 0 := by
  intro m hm
  simp only [methodsAt, List.mem_flatMap] at hm
  obtain ⟨e, he, hme⟩ := hm
  have hl := reach_len U (rootEntry root) d e he
  unfold methodMatches at hme
  by_cases hc : e.ptr = true ∧ U.kindOf e.typ = some Kind.iface
  · simp [hc] at hme
  · simp only [hc, if_false] at hme
    obtain ⟨h1, h2⟩ := methodIdx_props name e.index _ 0 m hme
    simp [rootEntry] at hl
    exact ⟨by rw [h1]; omega, h2⟩

/-! ## cache -/

/-- a field cache is consistent when every entry is what the uncached search returns -/
def FCacheOK (U : Universe) (fuel : Nat) (c : FCache) : Prop :=
  ∀ t name r, c.lookup (t, name) = some r →
    name ≠ "_" ∧ U.kindOf t = some Kind.struct ∧ fieldBFS U t name fuel = some r

/-- `cache_transparent` (fields): with ANY consistent cache `FieldByName` returns exactly what it
    returns with an empty cache (ambiguous results, their count and their depth included), and it
    leaves a consistent cache; so by induction every lookup of every history of lookups returns
    the uncached answer. -/
theorem cache_transparent (U : Universe) (fuel : Nat) (c c' : FCache) (t : Nat) (name : String)
    (r : Option (List Nat) × Nat) (hc : FCacheOK U fuel c)
    (h : FieldByName U fuel c t name = some (r, c')) :
    (∃ c0, FieldByName U fuel [] t name = some (r, c0)) ∧ FCacheOK U fuel c' := by
  unfold FieldByName at h ⊢
  by_cases h0 : name = "_" ∨ U.kindOf t ≠ some Kind.struct
  · simp only [h0, if_true] at h ⊢
    injection h with h; injection h with h1 h2; subst h1; subst h2
    exact ⟨⟨_, rfl⟩, hc⟩
  · simp only [h0, if_false] at h ⊢
    have hn : name ≠ "_" := fun hh => h0 (Or.inl hh)
    have hk : U.kindOf t = some Kind.struct := Classical.byContradiction fun hh => h0 (Or.inr hh)
    cases hl : c.lookup (t, name) with
    | some r0 =>
      simp only [hl] at h
      injection h with h; injection h with h1 h2; subst h1; subst h2
      obtain ⟨_, _, hb⟩ := hc t name r0 hl
      simp only [List.lookup_nil, hb]
      by_cases hp : r0.2 > 0
      · simp only [hp, if_true]; exact ⟨⟨_, rfl⟩, hc⟩
      · simp only [hp, if_false]; exact ⟨⟨_, rfl⟩, hc⟩
    | none =>
      simp only [hl] at h
      simp only [List.lookup_nil]
      cases hb : fieldBFS U t name fuel with
      | none => simp [hb] at h
      | some r1 =>
        simp only [hb] at h
        by_cases hp : r1.2 > 0
        · simp only [hp, if_true] at h ⊢
          injection h with h; injection h with h1 h2; subst h1; subst h2
          refine ⟨⟨_, rfl⟩, ?_⟩
          intro t' name' r' hl'
          simp only [List.lookup_cons] at hl'
          by_cases he : (t', name') = (t, name)
          · have : ((t', name') == (t, name)) = true := by simp [he]
            simp only [this] at hl'
            injection hl' with hl'; subst hl'
            injection he with e1 e2; subst e1; subst e2
            exact ⟨hn, hk, hb⟩
          · have : ((t', name') == (t, name)) = false := by simp [he]
            simp only [this] at hl'
            exact hc t' name' r' hl'
        · simp only [hp, if_false] at h ⊢
          injection h with h; injection h with h1 h2; subst h1; subst h2
          exact ⟨⟨_, rfl⟩, hc⟩

/-- second lookup = first lookup -/
theorem cache_second_lookup (U : Universe) (fuel : Nat) (c c' : FCache) (t : Nat) (name : String)
    (r : Option (List Nat) × Nat) (h : FieldByName U fuel c t name = some (r, c')) :
    FieldByName U fuel c' t name = some (r, c') := by
  unfold FieldByName at h ⊢
  by_cases h0 : name = "_" ∨ U.kindOf t ≠ some Kind.struct
  · simp only [h0, if_true] at h ⊢
    injection h with h; injection h with h1 h2; subst h1; subst h2; rfl
  · simp only [h0, if_false] at h ⊢
    cases hl : c.lookup (t, name) with
    | some r0 =>
      simp only [hl] at h
      injection h with h; injection h with h1 h2; subst h1; subst h2
      simp [hl]
    | none =>
      simp only [hl] at h
      cases hb : fieldBFS U t name fuel with
      | none => simp [hb] at h
      | some r1 =>
        simp only [hb] at h
        by_cases hp : r1.2 > 0
        · simp only [hp, if_true] at h
          injection h with h; injection h with h1 h2; subst h1; subst h2
          simp [List.lookup_cons]
        · simp only [hp, if_false] at h
          injection h with h; injection h with h1 h2; subst h1; subst h2
          simp [hl, hb, hp]

/-- a method cache is consistent when every entry is the (marked) result of the uncached search -/
def MCacheOK (U : Universe) (fuel : Nat) (c : MCache) : Prop :=
  ∀ t name m, c.lookup (t, name) = some m →
    name ≠ "_" ∧ ∃ m0 count, methodBFS U t name fuel = some (some m0, count) ∧ count > 0 ∧
      m0.index ≥ 0 ∧ m = markMethod m0 count

theorem decode_mark (m0 : MRes) (count : Nat) (h0 : m0.index ≥ 0) (hc : count > 0) :
    (if (markMethod m0 count).index < 0 then (-(markMethod m0 count).index).toNat else 1) = count := by
  unfold markMethod
  by_cases h : count > 1
  · simp only [h, if_true]
    have : (-(count : Int)) < 0 := by omega
    rw [if_pos this]
    omega
  · simp only [h, if_false]
    have : ¬ m0.index < 0 := by omega
    rw [if_neg this]; omega

theorem methodBFS_index_nonneg (U : Universe) (t : Nat) (name : String) (fuel : Nat) (m0 : MRes)
    (count : Nat) (h : methodBFS U t name fuel = some (some m0, count)) (hc : count > 0) :
    m0.index ≥ 0 := by
  obtain ⟨_, h1⟩ := method_lookup_eq_spec U t name fuel _ h
  obtain ⟨D, _, _, h3⟩ := h1 hc
  simp only at h3
  have : m0 ∈ methodsAt U t name D := List.mem_of_mem_head? h3
  exact (methodsAt_props U t name D m0 this).2

/-- `cache_transparent` (methods): the `Index = -count` encoding of an ambiguous method name in
    the cache decodes to the same `(method, count)` the uncached search returns. -/
theorem method_cache_transparent (U : Universe) (fuel : Nat) (c c' : MCache) (t : Nat) (name : String)
    (r : Option MRes × Nat) (hc : MCacheOK U fuel c)
    (h : MethodByName U fuel c t name = some (r, c')) :
    (∃ c0, MethodByName U fuel [] t name = some (r, c0)) ∧ MCacheOK U fuel c' := by
  unfold MethodByName at h ⊢
  by_cases h0 : name = "_"
  · simp only [h0, if_true] at h ⊢
    injection h with h; injection h with h1 h2; subst h1; subst h2
    exact ⟨⟨_, rfl⟩, hc⟩
  · simp only [h0, if_false] at h ⊢
    simp only [List.lookup_nil]
    cases hl : c.lookup (t, name) with
    | some m =>
      simp only [hl] at h
      injection h with h; injection h with h1 h2; subst h1; subst h2
      obtain ⟨_, m0, count, hb, hpos, hidx, hm⟩ := hc t name m hl
      subst hm
      rw [decode_mark m0 count hidx hpos, hb]
      simp only [hpos, if_true]
      exact ⟨⟨_, rfl⟩, hc⟩
    | none =>
      simp only [hl] at h
      cases hb : methodBFS U t name fuel with
      | none => simp [hb] at h
      | some r1 =>
        obtain ⟨mo, count⟩ := r1
        cases mo with
        | none =>
          simp only [hb] at h
          injection h with h; injection h with h1 h2; subst h1; subst h2
          exact ⟨⟨_, rfl⟩, hc⟩
        | some m0 =>
          simp only [hb] at h
          by_cases hp : count > 0
          · simp only [hp, if_true] at h ⊢
            injection h with h; injection h with h1 h2; subst h1; subst h2
            refine ⟨⟨_, rfl⟩, ?_⟩
            intro t' name' m' hl'
            simp only [List.lookup_cons] at hl'
            by_cases he : (t', name') = (t, name)
            · have : ((t', name') == (t, name)) = true := by simp [he]
              simp only [this] at hl'
              injection hl' with hl'; subst hl'
              injection he with e1 e2; subst e1; subst e2
              exact ⟨h0, m0, count, hb, hp, methodBFS_index_nonneg U t' name' fuel m0 count hb hp, rfl⟩
            · have : ((t', name') == (t, name)) = false := by simp [he]
              simp only [this] at hl'
              exact hc t' name' m' hl'
          · simp only [hp, if_false] at h ⊢
            injection h with h; injection h with h1 h2; subst h1; subst h2
            exact ⟨⟨_, rfl⟩, hc⟩

/-! ## type switch -/

theorem lookup_map_append (rt : Option Nat → Nat) (k : Nat) (j : Nat) (l : List (Option Nat))
    (rest : List (Nat × Nat)) :
    (l.map (fun ty => (rt ty, j)) ++ rest).lookup k =
      if l.any (fun ty => rt ty == k) = true then some j else rest.lookup k := by
  induction l with
  | nil => simp
  | cons a l ih =>
    simp only [List.map_cons, List.cons_append, List.any_cons]
    rw [List.lookup_cons]
    by_cases h : rt a = k
    · have h1 : (k == rt a) = true := by simp [h]
      have h2 : (rt a == k) = true := by simp [h]
      simp only [h1, h2, Bool.true_or, if_true]
    · have h1 : (k == rt a) = false := by simp [Ne.symm h]
      have h2 : (rt a == k) = false := by simp [h]
      simp only [h1, h2, Bool.false_or]
      exact ih

theorem mem_takeWhile' {β : Type} (p : β → Bool) (l : List β) (x : β) (h : x ∈ l.takeWhile p) :
    p x = true ∧ x ∈ l := by
  induction l with
  | nil => simp at h
  | cons a l ih =>
    simp only [List.takeWhile_cons] at h
    by_cases hp : p a = true
    · simp only [hp, if_true, List.mem_cons] at h
      rcases h with rfl | h
      · exact ⟨hp, by simp⟩
      · exact ⟨(ih h).1, by simp [(ih h).2]⟩
    · simp [hp] at h

theorem takeWhile_any {β : Type} (p q : β → Bool) (l : List β) (h : (l.takeWhile p).any q = true) :
    l.any q = true := by
  induction l with
  | nil => simpa using h
  | cons a l ih =>
    simp only [List.takeWhile_cons] at h
    by_cases hp : p a = true
    · simp only [hp, if_true, List.any_cons, Bool.or_eq_true] at h ⊢
      rcases h with h | h
      · exact Or.inl h
      · exact Or.inr (ih h)
    · simp [hp] at h

/-- the jump table of `typeswitchGotoMap`, built by the rule of `typecaseHelper.add` AS WRITTEN
    (`else if seen.AllConcrete`: initial run of concrete case types only), only ever jumps to the
    clause the sequential tests would have chosen.  Hypotheses on the clause test `ct`:
    `hconc`  an operand whose reflect type equals that of a concrete case type of `c` passes `c`;
    `hconc2` a clause with concrete types only is passed only by such an operand.
    (Both hold for an `interface{}` tag, `ctEmpty_*` below; with interface case types anywhere.) -/
theorem jump_table_sound (rt : Option Nat → Nat) (conc : Option Nat → Bool) (ct : Clause → Bool)
    (dyn : Option Nat)
    (hconc : ∀ c : Clause, c.types.any (fun ty => conc ty && rt ty == rt dyn) = true → ct c = true)
    (hconc2 : ∀ c : Clause, c.types.all conc = true → ct c = true →
      c.types.any (fun ty => rt ty == rt dyn) = true) :
    ∀ (cs : List Clause) (j i : Nat),
      ((tsConcretePrefix conc cs j).map (fun e => (rt e.1, e.2))).lookup (rt dyn) = some i →
      tsSequential ct cs j = some i := by
  intro cs
  induction cs with
  | nil => intro j i h; simp [tsConcretePrefix] at h
  | cons c cs ih =>
    intro j i h
    unfold tsConcretePrefix at h
    unfold tsSequential
    by_cases hd : c.isDefault = true
    · rw [if_pos hd] at h
      have : ¬ (c.isDefault = false ∧ ct c = true) := by simp [hd]
      rw [if_neg this]
      exact ih _ _ h
    · have hd' : c.isDefault = false := by simpa using hd
      rw [if_neg hd] at h
      by_cases hall : c.types.all conc = true
      · rw [if_pos hall] at h
        simp only [List.map_append, List.map_map, Function.comp_def] at h
        have h' := lookup_map_append rt (rt dyn) j c.types
          ((tsConcretePrefix conc cs (j+1)).map (fun e => (rt e.1, e.2)))
        rw [h'] at h
        by_cases hany : c.types.any (fun ty => rt ty == rt dyn) = true
        · rw [if_pos hany] at h
          injection h with h; subst h
          have hc : ct c = true := by
            apply hconc
            rw [List.any_eq_true] at hany ⊢
            obtain ⟨ty, hty, hrt⟩ := hany
            refine ⟨ty, hty, ?_⟩
            have := (List.all_eq_true.mp hall) ty hty
            simp [this, hrt]
          rw [if_pos ⟨hd', hc⟩]
        · rw [if_neg hany] at h
          have hc : ¬ ct c = true := fun hh => hany (hconc2 c hall hh)
          rw [if_neg (fun hh => hc hh.2)]
          exact ih _ _ h
      · rw [if_neg hall] at h
        simp only [List.map_map, Function.comp_def] at h
        have h' := lookup_map_append rt (rt dyn) j (c.types.takeWhile conc) []
        simp only [List.append_nil] at h'
        rw [h'] at h
        by_cases hany : (c.types.takeWhile conc).any (fun ty => rt ty == rt dyn) = true
        · rw [if_pos hany] at h
          injection h with h; subst h
          have hc : ct c = true := by
            apply hconc
            rw [List.any_eq_true] at hany ⊢
            obtain ⟨ty, hty, hrt⟩ := hany
            have hm := mem_takeWhile' conc c.types ty hty
            refine ⟨ty, hm.2, ?_⟩
            simp [hm.1, hrt]
          rw [if_pos ⟨hd', hc⟩]
        · rw [if_neg hany] at h; simp at h

/-- `typeswitch_first_match` (1): with the table rule as written (`guard = true`) the jump-table
    optimisation is transparent – the dispatch is "first clause, in source order, whose test
    passes; else the default clause", also when interface cases precede concrete ones. -/
theorem typeswitch_first_match (rt : Option Nat → Nat) (conc : Option Nat → Bool) (ct : Clause → Bool)
    (dyn : Option Nat) (cs : List Clause)
    (hconc : ∀ c : Clause, c.types.any (fun ty => conc ty && rt ty == rt dyn) = true → ct c = true)
    (hconc2 : ∀ c : Clause, c.types.all conc = true → ct c = true →
      c.types.any (fun ty => rt ty == rt dyn) = true) :
    tsDispatch true rt conc ct dyn cs =
      (match tsSequential ct cs 0 with
       | some i => some i
       | none => tsDefault cs 0) := by
  unfold tsDispatch tsTable
  simp only [if_true]
  split
  · rename_i i hi
    split at hi
    · rw [jump_table_sound rt conc ct dyn hconc hconc2 cs 0 i hi]
    · simp at hi
  · rfl

/-- the table rule found in fast/switch_type.go by the extractor IS the guarded one
    (regenerated on every run: dropping the `seen.AllConcrete` guard breaks this obligation) -/
theorem table_rule_extracted : Gen.C09.concreteMapGuardedByAllConcrete = true := by decide

/-- the hypotheses of `typeswitch_first_match` hold for an `interface{}` tag, whatever the tests
    of the interface cases are -/
theorem ctEmpty_hconc (rt : Option Nat → Nat) (conc im : Option Nat → Bool) (dyn : Option Nat) (c : Clause)
    (h : c.types.any (fun ty => conc ty && rt ty == rt dyn) = true) :
    clauseTest (mtEmpty rt conc im dyn) (mtEmpty rt conc im dyn) c = true := by
  have hany : c.types.any (mtEmpty rt conc im dyn) = true := by
    rw [List.any_eq_true] at h ⊢
    obtain ⟨ty, hty, hh⟩ := h
    simp only [Bool.and_eq_true] at hh
    exact ⟨ty, hty, by simp [mtEmpty, hh.1, hh.2]⟩
  unfold clauseTest
  split <;> exact hany

theorem ctEmpty_hconc2 (rt : Option Nat → Nat) (conc im : Option Nat → Bool) (dyn : Option Nat) (c : Clause)
    (hall : c.types.all conc = true)
    (h : clauseTest (mtEmpty rt conc im dyn) (mtEmpty rt conc im dyn) c = true) :
    c.types.any (fun ty => rt ty == rt dyn) = true := by
  have hany : c.types.any (mtEmpty rt conc im dyn) = true := by
    unfold clauseTest at h
    split at h <;> exact h
  rw [List.any_eq_true] at hany ⊢
  obtain ⟨ty, hty, hh⟩ := hany
  have hc := (List.all_eq_true.mp hall) ty hty
  refine ⟨ty, hty, ?_⟩
  simpa [mtEmpty, hc] using hh

/-- `typeswitch_first_match` for the code as extracted and an `interface{}` tag: first matching
    clause in source order, else default – for every list of clauses mixing concrete and interface
    case types in any order. -/
theorem typeswitch_first_match_code (rt : Option Nat → Nat) (conc im : Option Nat → Bool)
    (dyn : Option Nat) (cs : List Clause) :
    tsDispatch Gen.C09.concreteMapGuardedByAllConcrete rt conc
        (clauseTest (mtEmpty rt conc im dyn) (mtEmpty rt conc im dyn)) dyn cs =
      (match tsSequential (clauseTest (mtEmpty rt conc im dyn) (mtEmpty rt conc im dyn)) cs 0 with
       | some i => some i
       | none => tsDefault cs 0) := by
  rw [table_rule_extracted]
  exact typeswitch_first_match rt conc _ dyn cs (ctEmpty_hconc rt conc im dyn) (ctEmpty_hconc2 rt conc im dyn)

/-- without the guard the table is NOT transparent: an interface case written before a concrete
    one is skipped (the seeded change C09-1) -/
example : tsDispatch false (fun o => o.getD 99) (fun o => o != some 50)
    (clauseTest (mtEmpty (fun o => o.getD 99) (fun o => o != some 50) (fun _ => true) (some 2))
                (mtEmpty (fun o => o.getD 99) (fun o => o != some 50) (fun _ => true) (some 2)))
    (some 2) [⟨[some 50], false⟩, ⟨[some 2], false⟩, ⟨[some 3], false⟩] = some 1 := by decide
example : tsDispatch true (fun o => o.getD 99) (fun o => o != some 50)
    (clauseTest (mtEmpty (fun o => o.getD 99) (fun o => o != some 50) (fun _ => true) (some 2))
                (mtEmpty (fun o => o.getD 99) (fun o => o != some 50) (fun _ => true) (some 2)))
    (some 2) [⟨[some 50], false⟩, ⟨[some 2], false⟩, ⟨[some 3], false⟩] = some 0 := by decide

/-- a `case nil` among the concrete cases disables the jump table (typeutil.Map.Iterate skips the
    nil key): here the table would send an operand of reflect type 2 to clause 0, the sequential
    test `fun _ => false` of the clauses falls through to the default -/
example : tsDispatch true (fun o => o.getD 0) (fun _ => true) (fun _ => false) (some 2)
    [⟨[some 2], false⟩, ⟨[some 3, none], false⟩, ⟨[], true⟩] = some 2 := by decide
example : tsDispatch true (fun o => o.getD 0) (fun _ => true) (fun _ => false) (some 2)
    [⟨[some 2], false⟩, ⟨[some 3], false⟩, ⟨[], true⟩] = some 0 := by decide

/-- `typeswitch_first_match` (2): what "sequential" means – clause `i` is chosen iff it is not
    the default, its test passes and no earlier non-default clause passes. -/
theorem tsSequential_first (ct : Clause → Bool) :
    ∀ (cs : List Clause) (j i : Nat), tsSequential ct cs j = some i →
      j ≤ i ∧ ∃ c, cs[i - j]? = some c ∧ c.isDefault = false ∧ ct c = true ∧
        ∀ k, k < i - j → ∀ c', cs[k]? = some c' → ¬ (c'.isDefault = false ∧ ct c' = true) := by
  intro cs
  induction cs with
  | nil => intro j i h; simp [tsSequential] at h
  | cons c cs ih =>
    intro j i h
    unfold tsSequential at h
    by_cases hc : c.isDefault = false ∧ ct c = true
    · rw [if_pos hc] at h
      injection h with h; subst h
      refine ⟨Nat.le_refl _, c, by simp, hc.1, hc.2, ?_⟩
      intro k hk; omega
    · rw [if_neg hc] at h
      obtain ⟨hle, c1, hget, hd, hm, hearlier⟩ := ih _ _ h
      refine ⟨by omega, c1, ?_, hd, hm, ?_⟩
      · have : i - j = (i - (j+1)) + 1 := by omega
        rw [this]; simpa using hget
      · intro k hk c' hc'
        cases k with
        | zero => simp at hc'; subst hc'; exact hc
        | succ k =>
          simp at hc'
          exact hearlier k (by omega) c' hc'

theorem tsSequential_none (ct : Clause → Bool) :
    ∀ (cs : List Clause) (j : Nat), tsSequential ct cs j = none →
      ∀ c ∈ cs, ¬ (c.isDefault = false ∧ ct c = true) := by
  intro cs
  induction cs with
  | nil => intro j _ c hc; simp at hc
  | cons c cs ih =>
    intro j h c' hc'
    unfold tsSequential at h
    by_cases hc : c.isDefault = false ∧ ct c = true
    · rw [if_pos hc] at h; simp at h
    · rw [if_neg hc] at h
      rcases List.mem_cons.mp hc' with rfl | hmem
      · exact hc
      · exact ih _ h c' hmem

/-! ## TryLookupFieldOrMethod -/

/-- Go's selector rule for fields and methods together: the outcome of `x.name`. -/
def SelSpec (U : Universe) (root : Nat) (name : String) : Sel → Prop
  | .none => ∀ d, fieldsAt U root name d = [] ∧ methodsAt U root name d = []
  | .field idx => ∃ D, (∀ d', d' < D → fieldsAt U root name d' = [] ∧ methodsAt U root name d' = []) ∧
      fieldsAt U root name D = [idx] ∧ methodsAt U root name D = []
  | .method fi i => ∃ D, (∀ d', d' < D → fieldsAt U root name d' = [] ∧ methodsAt U root name d' = []) ∧
      fieldsAt U root name D = [] ∧ methodsAt U root name D = [⟨i, fi⟩]
  | .err => ∃ D, (∀ d', d' < D → fieldsAt U root name d' = [] ∧ methodsAt U root name d' = []) ∧
      (fieldsAt U root name D).length + (methodsAt U root name D).length ≥ 2

/-- normal form of `tryLookupFieldOrMethod` -/
theorem try_normal (fo : Option (List Nat)) (mo : Option MRes) (fn mn : Nat) :
    tryLookupFieldOrMethod (fo, fn) (mo, mn) =
      (let fd := (fo.getD []).length
       let md := ((mo.map (·.fieldIndex)).getD []).length + 1
       let fsel := if fn > 1 then Sel.err else Sel.field (fo.getD [])
       let msel := if mn > 1 then Sel.err
                   else Sel.method ((mo.map (·.fieldIndex)).getD []) ((mo.map (·.index)).getD 0)
       if fn = 0 then (if mn = 0 then Sel.none else msel)
       else if mn = 0 then fsel
       else if fd < md then fsel
       else if fd > md then msel
       else Sel.err) := by
  unfold tryLookupFieldOrMethod
  simp only
  by_cases hf : fn = 0
  · by_cases hm : mn = 0
    · simp [hf, hm]
    · by_cases hm1 : mn > 1
      · simp [hf, hm, hm1]
      · have : mn = 1 := by omega
        simp [hf, this]
  · by_cases hm : mn = 0
    · by_cases hf1 : fn > 1
      · simp [hf, hm, hf1]
      · have : fn = 1 := by omega
        simp [hm, this]
    · by_cases hlt : (fo.getD []).length < ((mo.map (·.fieldIndex)).getD []).length + 1
      · by_cases hf1 : fn > 1
        · simp [hf, hm, hlt, hf1]
        · have : fn = 1 := by omega
          simp [hm, hlt, this]
      · by_cases hgt : (fo.getD []).length > ((mo.map (·.fieldIndex)).getD []).length + 1
        · by_cases hm1 : mn > 1
          · simp [hf, hm, hlt, hgt, hm1]
          · have : mn = 1 := by omega
            simp [hf, hlt, hgt, this]
        · simp [hf, hm, hlt, hgt]

theorem list_eq_singleton {β : Type} (l : List β) (a : β) (h1 : l.length = 1) (h2 : l.head? = some a) :
    l = [a] := by
  match l, h1, h2 with
  | [x], _, h2 => simp at h2; rw [h2]

/-- `field_or_method_eq_spec`: `Comp.TryLookupFieldOrMethod` applied to the results of the two
    breadth-first searches yields Go's selector rule: the unique field or method at the
    shallowest depth that has a field or method of that name, an error if there are two or more
    there (two fields, two methods, or a field and a method), nothing if the name occurs nowhere. -/
theorem field_or_method_eq_spec (U : Universe) (root : Nat) (name : String) (fuel : Nat)
    (fr : Option (List Nat) × Nat) (mr : Option MRes × Nat)
    (hf : fieldBFS U root name fuel = some fr) (hm : methodBFS U root name fuel = some mr) :
    SelSpec U root name (tryLookupFieldOrMethod fr mr) := by
  obtain ⟨fo, fn⟩ := fr
  obtain ⟨mo, mn⟩ := mr
  obtain ⟨f0, f1⟩ := lookup_bfs_eq_spec U root name fuel _ hf
  obtain ⟨m0, m1⟩ := method_lookup_eq_spec U root name fuel _ hm
  simp only at f0 f1 m0 m1
  rw [try_normal]
  simp only
  -- facts when fields are found
  have ffound : fn > 0 → ∃ D idx, (∀ d', d' < D → fieldsAt U root name d' = []) ∧
      (fieldsAt U root name D).length = fn ∧ (fieldsAt U root name D).head? = some idx ∧
      fo = some idx ∧ idx.length = D + 1 := by
    intro hp
    obtain ⟨D, h1, h2, h3⟩ := f1 hp
    cases hl : fieldsAt U root name D with
    | nil => rw [hl] at h2; simp at h2; omega
    | cons a l =>
      refine ⟨D, a, h1, h2, by rw [hl]; rfl, ?_, ?_⟩
      · rw [hl] at h3; simpa using h3.symm
      · exact fieldsAt_len U root name D a (by rw [hl]; simp)
  have mfound : mn > 0 → ∃ D m, (∀ d', d' < D → methodsAt U root name d' = []) ∧
      (methodsAt U root name D).length = mn ∧ (methodsAt U root name D).head? = some m ∧
      mo = some m ∧ m.fieldIndex.length = D := by
    intro hp
    obtain ⟨D, h1, h2, h3⟩ := m1 hp
    cases hl : methodsAt U root name D with
    | nil => rw [hl] at h2; simp at h2; omega
    | cons a l =>
      refine ⟨D, a, h1, h2, by rw [hl]; rfl, ?_, ?_⟩
      · rw [hl] at h3; simpa using h3.symm
      · exact (methodsAt_props U root name D a (by rw [hl]; simp)).1
  -- the two one-sided outcomes
  have fieldSide : ∀ D idx, fn > 0 → (∀ d', d' < D → fieldsAt U root name d' = []) →
      (fieldsAt U root name D).length = fn → (fieldsAt U root name D).head? = some idx → fo = some idx →
      (∀ d', d' ≤ D → methodsAt U root name d' = []) →
      SelSpec U root name (if fn > 1 then Sel.err else Sel.field (fo.getD [])) := by
    intro D idx hp h1 h2 h3 h4 hmn
    by_cases hgt : fn > 1
    · rw [if_pos hgt]
      exact ⟨D, fun d' hd' => ⟨h1 d' hd', hmn d' (by omega)⟩, by rw [h2]; omega⟩
    · rw [if_neg hgt, h4]
      have : fn = 1 := by omega
      exact ⟨D, fun d' hd' => ⟨h1 d' hd', hmn d' (by omega)⟩,
        list_eq_singleton _ _ (by rw [h2, this]) h3, hmn D (Nat.le_refl _)⟩
  have methodSide : ∀ D m, mn > 0 → (∀ d', d' < D → methodsAt U root name d' = []) →
      (methodsAt U root name D).length = mn → (methodsAt U root name D).head? = some m → mo = some m →
      (∀ d', d' ≤ D → fieldsAt U root name d' = []) →
      SelSpec U root name (if mn > 1 then Sel.err
        else Sel.method ((mo.map (·.fieldIndex)).getD []) ((mo.map (·.index)).getD 0)) := by
    intro D m hp h1 h2 h3 h4 hfn
    by_cases hgt : mn > 1
    · rw [if_pos hgt]
      exact ⟨D, fun d' hd' => ⟨hfn d' (by omega), h1 d' hd'⟩, by rw [h2]; omega⟩
    · rw [if_neg hgt, h4]
      have : mn = 1 := by omega
      exact ⟨D, fun d' hd' => ⟨hfn d' (by omega), h1 d' hd'⟩, hfn D (Nat.le_refl _),
        list_eq_singleton _ _ (by rw [h2, this]) h3⟩
  by_cases hf0 : fn = 0
  · rw [if_pos hf0]
    have fnil := (f0 hf0).2
    by_cases hm0 : mn = 0
    · rw [if_pos hm0]
      exact fun d => ⟨fnil d, (m0 hm0).2 d⟩
    · rw [if_neg hm0]
      obtain ⟨D, m, h1, h2, h3, h4, _⟩ := mfound (by omega)
      exact methodSide D m (by omega) h1 h2 h3 h4 (fun d' _ => fnil d')
  · rw [if_neg hf0]
    obtain ⟨Df, idx, g1, g2, g3, g4, g5⟩ := ffound (by omega)
    by_cases hm0 : mn = 0
    · rw [if_pos hm0]
      exact fieldSide Df idx (by omega) g1 g2 g3 g4 (fun d' _ => (m0 hm0).2 d')
    · rw [if_neg hm0]
      obtain ⟨Dm, m, h1, h2, h3, h4, h5⟩ := mfound (by omega)
      have efd : (fo.getD []).length = Df + 1 := by rw [g4]; exact g5
      have emd : ((mo.map (·.fieldIndex)).getD []).length = Dm := by rw [h4]; exact h5
      rw [efd, emd]
      by_cases hlt : Df + 1 < Dm + 1
      · rw [if_pos hlt]
        exact fieldSide Df idx (by omega) g1 g2 g3 g4 (fun d' hd' => h1 d' (by omega))
      · rw [if_neg hlt]
        by_cases hgt : Df + 1 > Dm + 1
        · rw [if_pos hgt]
          exact methodSide Dm m (by omega) h1 h2 h3 h4 (fun d' hd' => g1 d' (by omega))
        · rw [if_neg hgt]
          have : Df = Dm := by omega
          subst this
          exact ⟨Df, fun d' hd' => ⟨g1 d' hd', h1 d' hd'⟩, by rw [g2, h2]; omega⟩

/-! ## non-vacuity -/

/-- F12: `type A struct{K,X int}; type B struct{K,X int}; type C struct{K int; A; B}` with
    `func (C) X()`, plus `type D struct{K int; *C}` -/
def exU : Universe :=
  { types := [⟨.struct, 0, []⟩, ⟨.struct, 0, []⟩, ⟨.struct, 1, [⟨"X", false⟩]⟩, ⟨.struct, 2, []⟩],
    bodies := [[⟨"K", false, false, 0⟩, ⟨"X", false, false, 0⟩],
               [⟨"K", false, false, 0⟩, ⟨"A", true, false, 0⟩, ⟨"B", true, false, 1⟩],
               [⟨"K", false, false, 0⟩, ⟨"C", true, true, 2⟩]] }

/-- self-referencing `type S struct{ K int; *S }`: the search terminates on a cycle -/
def exCyc : Universe :=
  { types := [⟨.struct, 0, [⟨"M", true⟩]⟩], bodies := [[⟨"K", false, false, 0⟩, ⟨"S", true, true, 0⟩]] }

example : fieldBFS exU 2 "X" 8 = some (some [1, 1], 2) := by decide
/-- F12 on the repaired model: the method declared on C wins over the two ambiguous promoted fields -/
example : SelSpec exU 2 "X" (Sel.method [] 0) :=
  field_or_method_eq_spec exU 2 "X" 8 (some [1, 1], 2) (some ⟨0, []⟩, 1) (by decide) (by decide)
example : methodBFS exU 2 "X" 8 = some (some ⟨0, []⟩, 1) := by decide
example : tryLookupFieldOrMethod (some [1, 1], 2) (some ⟨0, []⟩, 1) = Sel.method [] 0 := by decide
example : fieldBFS exU 3 "X" 8 = some (some [1, 1, 1], 2) := by decide
example : fieldBFS exCyc 0 "Q" 8 = some (none, 0) := by decide
example : methodBFS exCyc 0 "Q" 8 = some (none, 0) := by decide
example : fieldsAt exU 2 "X" 1 = [[1, 1], [2, 1]] := by decide
example : (FieldByName exU 8 [] 2 "X").map (·.1) = some (some [1, 1], 2) ∧ FCacheOK exU 8 [] :=
  ⟨by decide, by intro t n r h; simp at h⟩
example : tsDispatch true (fun o => o.getD 99) (fun _ => true)
    (clauseTest (mtEmpty (fun o => o.getD 99) (fun _ => true) (fun _ => false) (some 2))
                (mtEmpty (fun o => o.getD 99) (fun _ => true) (fun _ => false) (some 2))) (some 2)
    [⟨[some 1, some 5], false⟩, ⟨[], true⟩, ⟨[some 2], false⟩, ⟨[some 2, none], false⟩] = some 2 := by decide
example : tsDispatch true (fun o => o.getD 99) (fun _ => true)
    (clauseTest (mtEmpty (fun o => o.getD 99) (fun _ => true) (fun _ => false) (some 7))
                (mtEmpty (fun o => o.getD 99) (fun _ => true) (fun _ => false) (some 7))) (some 7)
    [⟨[some 1, some 5], false⟩, ⟨[], true⟩, ⟨[some 2], false⟩] = some 1 := by decide

end Lookup
