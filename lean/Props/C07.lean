import Model.Defer
/-!
# C07  defer, panic and recover follow Go semantics in interpreted code
-/
namespace Defer

/-- placeholder while the pipeline is brought up -/
theorem host_nil (rec : Option Val) (sh : Sh) : Host.stmts [] rec sh = (none, rec, sh) := rfl

end Defer
