import Proofs.DeferSim
/-!
# C07  defer, panic and recover follow Go semantics in interpreted code

`Host`   (Model/Defer.lean) = Go's defer/panic/recover semantics over a scripted call tree (specification),
`Interp` (Model/Defer.lean) = gomacro's executor bookkeeping (ExecFlags, DeferOfFun, PanicFun, Panic,
rundefer, pushDefer/popDefer, maybeRepanic, restore, callRecover) running the same tree.

* `defer_simulation` (FULL, all call trees, nested panics included): with the repair
  fixes/C07-nested-recover-loses-outer-panic.diff (`fixedCfg`) the observable behaviour of `Interp`
  (event log = order of deferred calls, value of every recover(), result of every call incl. named results
  changed by deferred closures; escaping panic) equals that of `Host`.
* `orig_loses_outer_panic`: the code WITHOUT the repair (`origCfg`) violates the same statement (a concrete
  tree, replayed against the real interpreter by the harness: scenario 2 of harness/c07.go).
* `frame_simulation` / `flags_restored_after_call`: every activation, from every state satisfying the
  invariant, whether it returns or panics, leaves EFDefer, EFStartDefer, DeferOfFun as they were and
  Panic/PanicFun either untouched or (after a direct recover()) nil.
* staged consequences: `defer_order_lifo`, `recover_direct_only`, `repanic_in_defer_replaces`,
  `named_results_visible`, `no_stale_panic_state`.
-/
namespace Defer

/-- initial state of a program run (`Interp.run`) -/
def Run.init : Run := { nextEnv := 1 }

theorem inv_init : Inv Run.init := ⟨by simp [Run.init], by simp [Run.init]⟩

/-- Simulation of one activation from ANY state satisfying the invariant: same outcome, same observable
    state; flags and DeferOfFun restored; Panic/PanicFun untouched unless the activation itself recovered. -/
theorem frame_simulation (b : List Act) (run : Run) (hinv : Inv run) :
    FrameOK run (recAtEntry run)
      (Host.stmts b (recAtEntry run) run.sh).1 (Host.stmts b (recAtEntry run) run.sh).2.1
      (Host.stmts b (recAtEntry run) run.sh).2.2
      (Interp.frame fixedCfg b run).1 (Interp.frame fixedCfg b run).2 := by
  have h := sub_ok (.call b) run hinv
  simpa only [Host.sub_call, Interp.sub_call] using h

/-- `flags_restored_after_call`: whatever the body does (return, panic, nested panics, recover), after
    the activation EFDefer is what it was, EFStartDefer is clear and DeferOfFun is what it was. -/
theorem flags_restored_after_call (b : List Act) (run : Run) (hinv : Inv run) :
    (Interp.frame fixedCfg b run).2.isDefer = run.isDefer ∧
    (Interp.frame fixedCfg b run).2.startDefer = false ∧
    (Interp.frame fixedCfg b run).2.deferOfFun = run.deferOfFun ∧
    Inv (Interp.frame fixedCfg b run).2 :=
  let h := frame_simulation b run hinv
  ⟨h.isd, h.sd, h.dof, h.inv⟩

/-- A function that is CALLED (EFStartDefer clear) cannot consume the caller's panic:
    Panic and PanicFun are exactly what they were, also when the callee panicked and recovered inside. -/
theorem call_keeps_panic_state (b : List Act) (run : Run) (hinv : Inv run) (hsd : run.startDefer = false) :
    (Interp.frame fixedCfg b run).2.panic = run.panic ∧
    (Interp.frame fixedCfg b run).2.panicFun = run.panicFun := by
  have h := (frame_simulation b run hinv).pair
  have hr : recAtEntry run = none := by simp [recAtEntry, hsd]
  rw [hr, consumed_none] at h
  exact ⟨congrArg Prod.fst h, congrArg Prod.snd h⟩

/-- **defer_simulation**: for EVERY scripted call tree the escaping panic and the observable state
    (event log and result stack) of the repaired executor equal those of Go's semantics. -/
theorem defer_simulation (b : List Act) :
    (Interp.run fixedCfg b).1 = (Host.run b).1 ∧ (Interp.run fixedCfg b).2.sh = (Host.run b).2 := by
  have h := stmts_ok 0 [.call b] Run.init rfl inv_init (by simp [Run.init]) (by simp [Run.init])
  have hr : recOf Run.init = none := rfl
  rw [hr] at h
  exact ⟨h.hp, h.sh⟩

/-- after a complete run no flag and no panic state is left behind, whether or not a panic escaped -/
theorem no_stale_panic_state (b : List Act) :
    (Interp.run fixedCfg b).2.isDefer = false ∧ (Interp.run fixedCfg b).2.startDefer = false ∧
    (Interp.run fixedCfg b).2.deferOfFun = none ∧ (Interp.run fixedCfg b).2.panicFun = none ∧
    (Interp.run fixedCfg b).2.panic = none := by
  have h := stmts_ok 0 [.call b] Run.init rfl inv_init (by simp [Run.init]) (by simp [Run.init])
  have hs : (Interp.stmts fixedCfg 0 [.call b] Run.init).1.saved = false := by
    rw [Interp.stmts_call]; split <;> rfl
  have hp := h.pairU hs
  rw [show recOf Run.init = none from rfl, consumed_none] at hp
  exact ⟨h.isd, h.sd, h.dof, congrArg Prod.snd hp, congrArg Prod.fst hp⟩

/-- The unrepaired code does NOT satisfy `defer_simulation`: a panic raised and recovered below a
    deferred call makes the outer panic disappear (Go: the deferred `recover` sees 1). -/
def cexNested : List Act :=
  [.deferFn [.recover], .deferFn [.call [.deferFn [.recover], .panic 2]], .panic 1]

theorem orig_loses_outer_panic :
    (Interp.run origCfg cexNested).2.sh ≠ (Host.run cexNested).2 := by decide +kernel

/-! ## staged consequences (proved on the specification, transferred by `defer_simulation`) -/

def deferEmits (ns : List Nat) : List Act := ns.map fun n => Act.deferFn [.emit n]

theorem host_lifo (ns : List Nat) (tail : List Act) (rec : Option Val) (sh : Sh) :
    Host.stmts (deferEmits ns ++ tail) rec sh =
      ((Host.stmts tail rec sh).1, (Host.stmts tail rec sh).2.1,
       { (Host.stmts tail rec sh).2.2 with
         evs := (Host.stmts tail rec sh).2.2.evs ++ ns.reverse.map Ev.emit }) := by
  induction ns with
  | nil => simp [deferEmits]
  | cons n ns ih =>
    have : deferEmits (n :: ns) ++ tail = .deferFn [.emit n] :: (deferEmits ns ++ tail) := rfl
    rw [this, Host.stmts_defer, ih]
    simp [Sh.log]

/-- `defer_order_lifo`: n deferred calls followed by any tail (return, panic, more code): the deferred
    calls run after the tail, in reverse order of their defer statements, and do not change whether the
    function returns or panics. -/
theorem defer_order_lifo (ns : List Nat) (tail : List Act) :
    (Interp.run fixedCfg (deferEmits ns ++ tail)).1 = (Interp.run fixedCfg tail).1 ∧
    (Interp.run fixedCfg (deferEmits ns ++ tail)).2.sh.evs =
      (Host.stmts tail none (Sh.push {})).2.2.evs ++ ns.reverse.map Ev.emit ++
        (match (Host.stmts tail none (Sh.push {})).1 with
          | some _ => []
          | none => [Ev.ret (Host.stmts tail none (Sh.push {})).2.2.top]) := by
  have hs := defer_simulation (deferEmits ns ++ tail)
  have ht := defer_simulation tail
  rw [hs.1, hs.2, ht.1]
  unfold Host.run
  simp only [Host.stmts_call, host_lifo]
  cases hT : (Host.stmts tail none (Sh.push {})).1 <;> simp [Sh.pop, Sh.log, Sh.top]

/-- a helper that calls recover(): the call logs nil, returns, and the caller's recoverable panic
    `rec` is exactly what it was (for every continuation `d`, every `rec`, every state) -/
theorem host_helper_recover_nil (d : List Act) (rec : Option Val) (sh : Sh) :
    Host.stmts (.call [.recover] :: d) rec sh =
      Host.stmts d rec { sh with evs := sh.evs ++ [.recov none, .ret 0] } := by
  rw [Host.stmts_call]
  simp [Sh.log, Sh.push, Sh.pop, Sh.top]

/-- `recover_direct_only`: a recover() called by a helper of the deferred function returns nil and
    does not stop the panic (it escapes); the deferred function itself, calling recover() after the
    helper, still obtains the panic value and stops it. -/
theorem recover_direct_only (v : Val) :
    (Interp.run fixedCfg [.deferFn [.call [.recover]], .panic v]).1 = some v ∧
    (Interp.run fixedCfg [.deferFn [.call [.recover]], .panic v]).2.sh.evs = [.recov none, .ret 0] ∧
    (Interp.run fixedCfg [.deferFn [.call [.recover], .recover], .panic v]).1 = none ∧
    (Interp.run fixedCfg [.deferFn [.call [.recover], .recover], .panic v]).2.sh.evs =
      [.recov none, .ret 0, .recov (some v), .ret 0] := by
  have h1 := defer_simulation [.deferFn [.call [.recover]], .panic v]
  have h2 := defer_simulation [.deferFn [.call [.recover], .recover], .panic v]
  have e1 : Host.run [.deferFn [.call [.recover]], .panic v] =
      (some v, { evs := [.recov none, .ret 0], res := [] }) := rfl
  have e2 : Host.run [.deferFn [.call [.recover], .recover], .panic v] =
      (none, { evs := [.recov none, .ret 0, .recov (some v), .ret 0], res := [] }) := rfl
  rw [e1] at h1; rw [e2] at h2
  exact ⟨h1.1, by rw [h1.2], h2.1, by rw [h2.2]⟩

/-- a deferred `panic w` replaces whatever the function was doing (returning, or panicking with
    another value): for every rest of the body, every state -/
theorem host_panic_in_defer_replaces (rest : List Act) (rec : Option Val) (sh : Sh) (w : Val) :
    Host.stmts (.deferFn [.panic w] :: rest) rec sh =
      (some w, (Host.stmts rest rec sh).2.1, (Host.stmts rest rec sh).2.2) := by
  rw [Host.stmts_defer]; simp

/-- `repanic_in_defer_replaces`: a panic raised by a deferred call while the function is panicking
    replaces the current panic: the next deferred call recovers the new value. -/
theorem repanic_in_defer_replaces (v w : Val) :
    (Interp.run fixedCfg [.deferFn [.recover], .deferFn [.panic w], .panic v]).1 = none ∧
    (Interp.run fixedCfg [.deferFn [.recover], .deferFn [.panic w], .panic v]).2.sh.evs =
      [.recov (some w), .ret 0] := by
  have h := defer_simulation [.deferFn [.recover], .deferFn [.panic w], .panic v]
  have e : Host.run [.deferFn [.recover], .deferFn [.panic w], .panic v] =
      (none, { evs := [.recov (some w), .ret 0], res := [] }) := rfl
  rw [e] at h
  exact ⟨h.1, by rw [h.2]⟩

/-- a deferred closure assigning the named result: the assignment happens after the rest of the body,
    whether that returned or panicked, and is what the caller sees -/
theorem host_deferred_setRes (rest : List Act) (rec : Option Val) (sh : Sh) (r : Nat) :
    Host.stmts (.deferFn [.setRes r] :: rest) rec sh =
      ((Host.stmts rest rec sh).1, (Host.stmts rest rec sh).2.1, (Host.stmts rest rec sh).2.2.setRes r) := by
  rw [Host.stmts_defer]; simp

/-- `named_results_visible`: a function that panics with v, whose deferred closure recovers and sets the
    named result to r, and whose earlier-deferred closure then does r = r*10+a, returns normally with
    (r*10+a) % resMod; the recovered value is v. -/
theorem named_results_visible (v r a : Nat) :
    (Interp.run fixedCfg [.deferFn [.addRes a], .deferFn [.recover, .setRes r], .panic v]).1 = none ∧
    (Interp.run fixedCfg [.deferFn [.addRes a], .deferFn [.recover, .setRes r], .panic v]).2.sh.evs =
      [.recov (some v), .ret ((r * 10 + a) % resMod)] := by
  have h := defer_simulation [.deferFn [.addRes a], .deferFn [.recover, .setRes r], .panic v]
  have e : Host.run [.deferFn [.addRes a], .deferFn [.recover, .setRes r], .panic v] =
      (none, { evs := [.recov (some v), .ret ((r * 10 + a) % resMod)], res := [] }) := rfl
  rw [e] at h
  exact ⟨h.1, by rw [h.2]⟩

/-! ## non-vacuity -/

/-- the invariant required by `frame_simulation` holds in a state in the middle of a panic -/
example : Inv { startDefer := true, deferOfFun := some 3, panicFun := some 3, panic := some 7, nextEnv := 5 } :=
  ⟨by simp, by simp⟩

/-- ... and from that state the deferred call `[recover]` really consumes the panic -/
example : (Interp.frame fixedCfg [.recover]
    { startDefer := true, deferOfFun := some 3, panicFun := some 3, panic := some 7, nextEnv := 5 }).2.panicFun = none := by
  decide

/-- `defer_simulation` is about non-trivial behaviour: on `cexNested` the specification recovers 2 inside
    and then 1 outside -/
example : (Host.run cexNested).2.evs = [.recov (some 2), .ret 0, .recov (some 1), .ret 0] := by decide +kernel

example : (Interp.run fixedCfg (deferEmits [1, 2, 3] ++ [.panic 9])).2.sh.evs = [.emit 3, .emit 2, .emit 1] := by
  decide +kernel

end Defer
