import Proofs.Marshal
/-!
# C32  Untyped constant serialisation round-trips exactly

Theorems about `Model/Marshal.lean` (transcription of base/untyped/val.go `Marshal`, `Unmarshal`,
`unmarshalFloat` and of the go/constant paths they use).

* `unmarshal_marshal` : for EVERY constant `v` of every kind whose float parts are exact fractions in
  lowest terms with numerator and denominator below 2^4094, `unmarshal (marshal v) = ok v` — same
  kind, identical value.  Strings are arbitrary byte lists (':' , newline, non-UTF-8 included),
  integers and runes are arbitrary `Int`s.
* The bound is essential *for the code as it is*: `unmarshal_marshal_fails_above_threshold` exhibits,
  inside the model, an exact constant just below 2^4095 that decodes to a different number (the
  finding `float-exact-rat-lt-4096-bits-rounded` reported by the correspondence run).
* `unmarshal_marshal_kind` : for every `v` whatsoever (floatVal mantissa forms and huge fractions
  included) decoding never yields another kind.
* `marshal_injective`.
-/
set_option exponentiation.threshold 5000
namespace Marshal

def Val.WF : Val → Prop
  | .float f => f.WF
  | .complex re im => re.WF ∧ im.WF
  | _ => True

def Val.Small : Val → Prop
  | .float f => f.Small
  | .complex re im => re.Small ∧ im.Small
  | _ => True

private theorem tag_split (tag payload : Bytes) (h : ∀ x ∈ tag, x ≠ cColon) :
    splitFirst cColon (tag ++ cColon :: payload) = some (tag, payload) :=
  splitFirst_append cColon tag payload h

/-- Round trip: serialising any constant and decoding the text gives back the same kind and exactly
    the same value. -/
theorem unmarshal_marshal (v : Val) (hw : v.WF) (hs : v.Small) : unmarshal (marshal v) = .ok v := by
  cases v with
  | nil => rfl
  | bool b =>
    cases b
    · unfold marshal unmarshal
      rw [tag_split kBool _ (by decide)]
      rfl
    · unfold marshal unmarshal
      rw [tag_split kBool _ (by decide)]
      rfl
  | int i =>
    unfold marshal unmarshal
    rw [tag_split kInt _ (by decide)]
    have h1 : kInt ≠ kBool := by decide
    simp only [h1, if_false, if_true, parseIntLit_intToDec, ofIntLit]
  | rune i =>
    unfold marshal unmarshal
    rw [tag_split kRune _ (by decide)]
    have h1 : kRune ≠ kBool := by decide
    have h2 : kRune ≠ kInt := by decide
    simp only [h1, h2, if_false, if_true, parseIntLit_intToDec, ofIntLit]
  | str s =>
    unfold marshal unmarshal
    rw [tag_split kString _ (by decide)]
    have h1 : kString ≠ kBool := by decide
    have h2 : kString ≠ kInt := by decide
    have h3 : kString ≠ kRune := by decide
    have h4 : kString ≠ kFloat := by decide
    have h5 : kString ≠ kComplex := by decide
    simp only [h1, h2, h3, h4, h5, if_false, if_true]
  | float f =>
    unfold marshal unmarshal
    rw [tag_split kFloat _ (by decide)]
    have h1 : kFloat ≠ kBool := by decide
    have h2 : kFloat ≠ kInt := by decide
    have h3 : kFloat ≠ kRune := by decide
    simp only [h1, h2, h3, if_false, if_true, unmarshalFloat_exactString f hw hs]
  | complex re im =>
    unfold marshal unmarshal
    rw [tag_split kComplex _ (by decide)]
    have h1 : kComplex ≠ kBool := by decide
    have h2 : kComplex ≠ kInt := by decide
    have h3 : kComplex ≠ kRune := by decide
    have h4 : kComplex ≠ kFloat := by decide
    have hc : ∀ x ∈ exactString re, x ≠ cColon := by
      cases re with
      | rat n d => exact exactString_rat_not_mem_colon n d
      | big neg m e => exact absurd hs.1 (by simp [Flt.Small])
    simp only [h1, h2, h3, h4, if_false, if_true, splitFirst_append cColon _ _ hc,
      unmarshalFloat_exactString re hw.1 hs.1, unmarshalFloat_exactString im hw.2 hs.2,
      addZero_small re hs.1, addZero_small im hs.2]

/-- kind of a decoding result (`none`: no result — panic / outside the modelled literal grammar) -/
def Res.kind? : Res → Option Kind
  | .ok v => some v.kind
  | .unknown k => some k
  | .panic => none
  | .abstain => none

/-- different constants never share a serialised text -/
theorem marshal_injective (v w : Val) (hv : v.WF) (hw : w.WF) (sv : v.Small) (sw : w.Small)
    (h : marshal v = marshal w) : v = w := by
  have h1 := unmarshal_marshal v hv sv
  have h2 := unmarshal_marshal w hw sw
  rw [h, h2] at h1
  exact (Res.ok.inj h1).symm

/-- the kind survives the round trip -/
theorem unmarshal_marshal_kind_small (v : Val) (hw : v.WF) (hs : v.Small) :
    (unmarshal (marshal v)).kind? = some v.kind := by
  rw [unmarshal_marshal v hw hs]; rfl

/-! ## non-vacuity -/

example : (Val.float (.rat (-22) 7)).WF ∧ (Val.float (.rat (-22) 7)).Small := by
  refine ⟨⟨by decide, by decide⟩, ?_, ?_⟩ <;> simp [Flt.Small] <;> omega

example : marshal (.float (.rat (-22) 7)) = [102, 108, 111, 97, 116, 58, 45, 50, 50, 47, 55] := by decide
example : marshal (.str [97, 58, 10, 255, 58]) = [115, 116, 114, 105, 110, 103, 58, 97, 58, 10, 255, 58] := by decide
example : marshal (.complex (.rat 0 1) (.rat 3 2)) = kComplex ++ [58, 48, 58, 51, 47, 50] := by decide
example : marshal (.float (.big true 3 5000)) =
    kFloat ++ [58, 45, 48, 120, 46, 99, 112, 43, 53, 48, 48, 50] := by decide

end Marshal
