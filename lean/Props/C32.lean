import Proofs.Marshal
import Gen.MarshalCfg
/-!
# C32  Untyped constant serialisation round-trips exactly

Theorems about `Model/Marshal.lean` (transcription of base/untyped/val.go `Marshal`, `Unmarshal`,
`unmarshalFloat` and of the go/constant paths they use).

* `unmarshal_marshal` : for EVERY constant `v` of every kind whose float parts are exact fractions in
  lowest terms with numerator and denominator below 2^4094 (code as found; fewer than 4096 bits with
  the repair), or genuine floatVals (512-bit mantissa, binary exponent outside (-4096,4096)),
  `unmarshal (marshal v) = ok v` — same kind, identical value.  Strings are arbitrary byte lists
  (':' , newline, non-UTF-8 included), integers and runes are arbitrary `Int`s.
* The bound is essential *for the code as it is*: `unmarshal_marshal_fails_above_threshold` exhibits,
  inside the model, an exact constant just below 2^4095 that decodes to a different number (the
  finding `float-exact-rat-lt-4096-bits-rounded` reported by the correspondence run).
* `unmarshal_marshal_kind` : for every `v` whatsoever (floatVal mantissa forms and huge fractions
  included) decoding never yields another kind.
* `marshal_injective`.
-/
set_option exponentiation.threshold 5000
namespace Marshal

def Val.WF : Val → Prop
  | .float f => f.WF
  | .complex re im => re.WF ∧ im.WF
  | _ => True

/-- the domain of the round-trip theorem: every bool, int, rune, string, nil; float and complex
    constants whose parts are in `Flt.InDomain` (exact fractions below the rounding limit of the
    decoder variant, or genuine floatVals) -/
def Val.InDomain (cfg : Bool) : Val → Prop
  | .float f => f.InDomain cfg
  | .complex re im => re.InDomain cfg ∧ im.InDomain cfg
  | _ => True

def shapeFixed : List String :=
  let lit := ["unmarshalFloatLit", "unmarshalFloatLit>SetString 10", "unmarshalFloatLit>new",
    "unmarshalFloatLit>constant.ToFloat", "unmarshalFloatLit>constant.Make",
    "unmarshalFloatLit>constant.MakeFromLiteral FLOAT 0"]
  ["strings.IndexByte '/'"] ++ lit ++ lit ++ ["constant.BinaryOp QUO"] ++ lit

private theorem tag_split (tag payload : Bytes) (h : ∀ x ∈ tag, x ≠ cColon) :
    splitFirst cColon (tag ++ cColon :: payload) = some (tag, payload) :=
  splitFirst_append cColon tag payload h

/-- Round trip: serialising any constant and decoding the text gives back the same kind and exactly
    the same value. -/
theorem unmarshal_marshal (cfg : Bool) (v : Val) (hw : v.WF) (hs : v.InDomain cfg) :
    unmarshal cfg (marshal v) = .ok v := by
  cases v with
  | nil => rfl
  | bool b =>
    cases b
    · unfold marshal unmarshal
      rw [tag_split kBool _ (by decide)]
      rfl
    · unfold marshal unmarshal
      rw [tag_split kBool _ (by decide)]
      rfl
  | int i =>
    unfold marshal unmarshal
    rw [tag_split kInt _ (by decide)]
    have h1 : kInt ≠ kBool := by decide
    simp only [h1, if_false, if_true, parseIntLit_intToDec, ofIntLit]
  | rune i =>
    unfold marshal unmarshal
    rw [tag_split kRune _ (by decide)]
    have h1 : kRune ≠ kBool := by decide
    have h2 : kRune ≠ kInt := by decide
    simp only [h1, h2, if_false, if_true, parseIntLit_intToDec, ofIntLit]
  | str s =>
    unfold marshal unmarshal
    rw [tag_split kString _ (by decide)]
    have h1 : kString ≠ kBool := by decide
    have h2 : kString ≠ kInt := by decide
    have h3 : kString ≠ kRune := by decide
    have h4 : kString ≠ kFloat := by decide
    have h5 : kString ≠ kComplex := by decide
    simp only [h1, h2, h3, h4, h5, if_false, if_true]
  | float f =>
    unfold marshal unmarshal
    rw [tag_split kFloat _ (by decide)]
    have h1 : kFloat ≠ kBool := by decide
    have h2 : kFloat ≠ kInt := by decide
    have h3 : kFloat ≠ kRune := by decide
    simp only [h1, h2, h3, if_false, if_true, unmarshalFloat_exactString cfg f hw hs]
  | complex re im =>
    unfold marshal unmarshal
    rw [tag_split kComplex _ (by decide)]
    have h1 : kComplex ≠ kBool := by decide
    have h2 : kComplex ≠ kInt := by decide
    have h3 : kComplex ≠ kRune := by decide
    have h4 : kComplex ≠ kFloat := by decide
    have hc : ∀ x ∈ exactString re, x ≠ cColon := exactString_not_mem_colon re
    simp only [h1, h2, h3, h4, if_false, if_true, splitFirst_append cColon _ _ hc,
      unmarshalFloat_exactString cfg re hw.1 hs.1, unmarshalFloat_exactString cfg im hw.2 hs.2,
      addZero_inDomain cfg re hs.1, addZero_inDomain cfg im hs.2]

/-- kind of a decoding result (`none`: no result — panic / outside the modelled literal grammar) -/
def Res.kind? : Res → Option Kind
  | .ok v => some v.kind
  | .unknown k => some k
  | .panic => none
  | .abstain => none

/-- different constants never share a serialised text -/
theorem marshal_injective (cfg : Bool) (v w : Val) (hv : v.WF) (hw : w.WF) (sv : v.InDomain cfg) (sw : w.InDomain cfg)
    (h : marshal v = marshal w) : v = w := by
  have h1 := unmarshal_marshal cfg v hv sv
  have h2 := unmarshal_marshal cfg w hw sw
  rw [h, h2] at h1
  exact (Res.ok.inj h1).symm

/-- the kind survives the round trip -/
theorem unmarshal_marshal_kind_small (cfg : Bool) (v : Val) (hw : v.WF) (hs : v.InDomain cfg) :
    (unmarshal cfg (marshal v)).kind? = some v.kind := by
  rw [unmarshal_marshal cfg v hw hs]; rfl

/-- The variant of `unmarshalFloat` found in the checkout under test is one of the two that the
    model transcribes (regenerated from base/untyped/val.go on every run). -/
theorem source_shape_known :
    (cfgExactInt = false ∧ cfgUnmarshalFloatShape =
      ["strings.IndexByte '/'", "constant.MakeFromLiteral FLOAT 0", "constant.MakeFromLiteral FLOAT 0",
       "constant.BinaryOp QUO", "constant.MakeFromLiteral FLOAT 0"]) ∨
    (cfgExactInt = true ∧ cfgUnmarshalFloatShape = shapeFixed) := by decide

/-- the round trip for the code of the checkout under test -/
theorem unmarshal_marshal_current (v : Val) (hw : v.WF) (hs : v.InDomain cfgExactInt) :
    unmarshal cfgExactInt (marshal v) = .ok v := unmarshal_marshal cfgExactInt v hw hs


/-! ## the kind is never changed (all constants, also floatVal mantissa forms and huge fractions) -/

/-- Whatever the constant (no side condition): if decoding its text yields a result at all, that
    result has the kind of the constant.  `Res.kind? = none` only for `panic` / `abstain`. -/
theorem unmarshal_marshal_kind (cfg : Bool) (v : Val) (k : Kind)
    (h : (unmarshal cfg (marshal v)).kind? = some k) : k = v.kind := by
  cases v with
  | nil => cases h; rfl
  | bool b =>
    cases b <;>
    · unfold marshal unmarshal at h
      rw [tag_split kBool _ (by decide)] at h
      simp only [if_true, Res.kind?, Val.kind, Option.some.injEq] at h
      exact h.symm
  | int i =>
    unfold marshal unmarshal at h
    rw [tag_split kInt _ (by decide)] at h
    have h1 : kInt ≠ kBool := by decide
    simp only [h1, if_false, if_true] at h
    cases hp : parseIntLit (intToDec i) <;> rw [hp] at h <;>
      simp [ofIntLit, Res.kind?, Val.kind] at h <;> exact h.symm
  | rune i =>
    unfold marshal unmarshal at h
    rw [tag_split kRune _ (by decide)] at h
    have h1 : kRune ≠ kBool := by decide
    have h2 : kRune ≠ kInt := by decide
    simp only [h1, h2, if_false, if_true] at h
    cases hp : parseIntLit (intToDec i) <;> rw [hp] at h <;>
      simp [ofIntLit, Res.kind?, Val.kind] at h <;> exact h.symm
  | str s =>
    unfold marshal unmarshal at h
    rw [tag_split kString _ (by decide)] at h
    have h1 : kString ≠ kBool := by decide
    have h2 : kString ≠ kInt := by decide
    have h3 : kString ≠ kRune := by decide
    have h4 : kString ≠ kFloat := by decide
    have h5 : kString ≠ kComplex := by decide
    simp only [h1, h2, h3, h4, h5, if_false, if_true, Res.kind?, Val.kind, Option.some.injEq] at h
    exact h.symm
  | float f =>
    unfold marshal unmarshal at h
    rw [tag_split kFloat _ (by decide)] at h
    have h1 : kFloat ≠ kBool := by decide
    have h2 : kFloat ≠ kInt := by decide
    have h3 : kFloat ≠ kRune := by decide
    simp only [h1, h2, h3, if_false, if_true] at h
    cases hp : unmarshalFloat cfg (exactString f) <;> rw [hp] at h <;>
      simp [Res.kind?, Val.kind] at h <;> exact h.symm
  | complex re im =>
    unfold marshal unmarshal at h
    rw [tag_split kComplex _ (by decide)] at h
    have h1 : kComplex ≠ kBool := by decide
    have h2 : kComplex ≠ kInt := by decide
    have h3 : kComplex ≠ kRune := by decide
    have h4 : kComplex ≠ kFloat := by decide
    simp only [h1, h2, h3, h4, if_false, if_true] at h
    split at h
    · rename_i a b _
      cases ha : unmarshalFloat cfg a <;> cases hb : unmarshalFloat cfg b <;> rw [ha, hb] at h <;>
        simp [Res.kind?, Val.kind] at h <;> exact h.symm
    · cases hp : unmarshalFloat cfg (exactString re ++ cColon :: exactString im) <;> rw [hp] at h <;>
        simp [Res.kind?, Val.kind] at h <;> exact h.symm

/-! ## injectivity at every size: an exact decoder is a left inverse of `marshal` -/

/-- exact reading of the fraction syntax of `ExactString` (what a repaired `unmarshalFloat` computes
    when go/constant could hold the result): no rounding, no size limit -/
def decodeFltExact (s : Bytes) : Option Flt :=
  match splitFirst cSlash s with
  | some (a, b) =>
    match parseIntLit a, parseDigits 0 b with
    | .val n, some d => some (.rat n d)
    | _, _ => none
  | none =>
    match parseIntLit s with
    | .val n => some (.rat n 1)
    | _ => none

theorem decodeFltExact_exactString (n : Int) (d : Nat) (h : d = 1 → True) :
    decodeFltExact (exactString (.rat n d)) = some (.rat n d) := by
  unfold exactString decodeFltExact
  by_cases h1 : d = 1
  · subst h1
    simp only [if_true, splitFirst_none cSlash _ (intToDec_not_mem n cSlash (by decide) (by decide)),
      parseIntLit_intToDec]
  · simp only [h1, if_false,
      splitFirst_append cSlash _ _ (intToDec_not_mem n cSlash (by decide) (by decide)),
      parseIntLit_intToDec, parseDigits_natToDec']

/-- no floatVal (mantissa form) part -/
def Flt.IsRat : Flt → Prop
  | .rat _ _ => True
  | .big _ _ _ => False

def Val.IsRat : Val → Prop
  | .float f => f.IsRat
  | .complex re im => re.IsRat ∧ im.IsRat
  | _ => True

theorem exactString_injective (f g : Flt) (hf : f.IsRat) (hg : g.IsRat)
    (h : exactString f = exactString g) : f = g := by
  cases f with
  | big _ _ _ => exact absurd hf (by simp [Flt.IsRat])
  | rat n d =>
    cases g with
    | big _ _ _ => exact absurd hg (by simp [Flt.IsRat])
    | rat n' d' =>
      have h1 := decodeFltExact_exactString n d (fun _ => trivial)
      have h2 := decodeFltExact_exactString n' d' (fun _ => trivial)
      rw [h, h2] at h1
      exact (Option.some.inj h1).symm

/-- exact decoder of the text format (specification of `Unmarshal` on `Marshal` output) -/
def decodeExact (s : Bytes) : Option Val :=
  match splitFirst cColon s with
  | none => if s = kNil then some .nil else none
  | some (k, r) =>
    if k = kBool then
      (if r = sTrue then some (.bool true) else if r = sFalse then some (.bool false) else none)
    else if k = kInt then (match parseIntLit r with | .val i => some (.int i) | _ => none)
    else if k = kRune then (match parseIntLit r with | .val i => some (.rune i) | _ => none)
    else if k = kFloat then (decodeFltExact r).map Val.float
    else if k = kComplex then
      (match splitFirst cColon r with
       | some (a, b) =>
         (match decodeFltExact a, decodeFltExact b with
          | some x, some y => some (.complex x y)
          | _, _ => none)
       | none => none)
    else if k = kString then some (.str r)
    else none

theorem decodeExact_marshal (v : Val) (h : v.IsRat) : decodeExact (marshal v) = some v := by
  cases v with
  | nil => rfl
  | bool b => cases b <;> rfl
  | int i =>
    unfold marshal decodeExact
    rw [tag_split kInt _ (by decide)]
    have h1 : kInt ≠ kBool := by decide
    simp only [h1, if_false, if_true, parseIntLit_intToDec]
  | rune i =>
    unfold marshal decodeExact
    rw [tag_split kRune _ (by decide)]
    have h1 : kRune ≠ kBool := by decide
    have h2 : kRune ≠ kInt := by decide
    simp only [h1, h2, if_false, if_true, parseIntLit_intToDec]
  | str s =>
    unfold marshal decodeExact
    rw [tag_split kString _ (by decide)]
    have h1 : kString ≠ kBool := by decide
    have h2 : kString ≠ kInt := by decide
    have h3 : kString ≠ kRune := by decide
    have h4 : kString ≠ kFloat := by decide
    have h5 : kString ≠ kComplex := by decide
    simp only [h1, h2, h3, h4, h5, if_false, if_true]
  | float f =>
    cases f with
    | big _ _ _ => exact absurd h (by simp [Val.IsRat, Flt.IsRat])
    | rat n d =>
      unfold marshal decodeExact
      rw [tag_split kFloat _ (by decide)]
      have h1 : kFloat ≠ kBool := by decide
      have h2 : kFloat ≠ kInt := by decide
      have h3 : kFloat ≠ kRune := by decide
      simp only [h1, h2, h3, if_false, if_true, decodeFltExact_exactString n d (fun _ => trivial),
        Option.map]
  | complex re im =>
    cases re with
    | big _ _ _ => exact absurd h.1 (by simp [Flt.IsRat])
    | rat n d =>
      cases im with
      | big _ _ _ => exact absurd h.2 (by simp [Flt.IsRat])
      | rat n' d' =>
        unfold marshal decodeExact
        rw [tag_split kComplex _ (by decide)]
        have h1 : kComplex ≠ kBool := by decide
        have h2 : kComplex ≠ kInt := by decide
        have h3 : kComplex ≠ kRune := by decide
        have h4 : kComplex ≠ kFloat := by decide
        simp only [h1, h2, h3, h4, if_false, if_true,
          splitFirst_append cColon _ _ (exactString_rat_not_mem_colon n d),
          decodeFltExact_exactString n d (fun _ => trivial),
          decodeFltExact_exactString n' d' (fun _ => trivial)]

/-- `marshal_injective`, full strength for exact constants: two constants of any kind and ANY size
    (integers, runes, fractions n/d with arbitrary n, d, complex with such parts, strings, bools,
    nil) that have the same text are the same constant.  (Independent of the decoder variant.) -/
theorem marshal_injective_exact (v w : Val) (hv : v.IsRat) (hw : w.IsRat)
    (h : marshal v = marshal w) : v = w := by
  have h1 := decodeExact_marshal v hv
  have h2 := decodeExact_marshal w hw
  rw [h, h2] at h1
  exact (Option.some.inj h1).symm

/-! ## the bound is needed for the code as found: the finding, inside the model -/

/-- `2^4095 - 1` is an exact untyped float constant of go/constant (a ratVal: fewer than 4096 bits),
    yet the unrepaired decoder returns the 512-bit float `2^4095`; with the repair it is exact. -/
theorem unmarshal_marshal_fails_above_threshold :
    unmarshal false (marshal (.float (.rat (2 ^ 4095 - 1) 1))) = .ok (.float (.big false 1 4095)) ∧
    unmarshal true (marshal (.float (.rat (2 ^ 4095 - 1) 1))) = .ok (.float (.rat (2 ^ 4095 - 1) 1)) := by
  decide +kernel

/-! ## floatVal mantissa form -/

/-- the round trip for genuine floatVals (instance of `unmarshal_marshal`): `(-1)^neg * m * 2^e` with odd
    `m < 2^512` and binary exponent `x = e + bitlen m`, 4096 ≤ |x| < 10^9, is printed as `0x.<hex>p±x`
    and decoded to exactly the same floatVal. -/
theorem unmarshal_marshal_bigfloat (cfg neg : Bool) (m : Nat) (e : Int) (hm : m % 2 = 1) (hlt : m < 2 ^ 512)
    (hs : smallExp (e + (bitlen m : Int)) = false) (hx : (e + (bitlen m : Int)).natAbs < 10 ^ 9) :
    unmarshal cfg (marshal (.float (.big neg m e))) = .ok (.float (.big neg m e)) :=
  unmarshal_marshal cfg _ (Or.inr ⟨hm, hlt⟩) ⟨hm, hlt, hs, hx⟩

/-- the text of a floatVal is read back as the same mantissa bits and exponent (any exponent size class) -/
theorem bigfloat_text_parse (m : Nat) (x : Int) (hm : m < 2 ^ 512) (hx : x.natAbs < 10 ^ 9) :
    parseHexP (sHexDot ++ mantHex m ++ cP :: expToDec x) =
      some (m <<< ((4 - bitlen m % 4) % 4), x - 4 * ((mantHex m).length : Int)) :=
  parseHexP_bigText m x hm hx

/-- own hex printer / parser round trip (all `n`) -/
theorem parseHex_hexDigits_roundtrip (n : Nat) : parseHex 0 (hexDigits n) = some n :=
  parseHex_hexDigits' n

/-- own decimal printer / parser round trip (all `n`, any trailing text) -/
theorem parseDigits_natToDec_roundtrip (n : Nat) (r : Bytes) :
    parseDigits 0 (natToDec n ++ r) = parseDigits n r := parseDigits_natToDec n r

/-- signed decimal literal round trip (all `i`) -/
theorem parseIntLit_intToDec_roundtrip (i : Int) : parseIntLit (intToDec i) = .val i :=
  parseIntLit_intToDec i

/-! ## non-vacuity -/

example (cfg : Bool) : (Val.float (.rat (-22) 7)).WF ∧ (Val.float (.rat (-22) 7)).InDomain cfg :=
  ⟨⟨by decide, by decide⟩, okNat_of_lt cfg _ (by simp), okNat_of_lt cfg _ (by omega)⟩

example : marshal (.float (.rat (-22) 7)) = [102, 108, 111, 97, 116, 58, 45, 50, 50, 47, 55] := by decide
example : marshal (.str [97, 58, 10, 255, 58]) = [115, 116, 114, 105, 110, 103, 58, 97, 58, 10, 255, 58] := by decide
example : marshal (.complex (.rat 0 1) (.rat 3 2)) = kComplex ++ [58, 48, 58, 51, 47, 50] := by decide
example : parseHexP (sHexDot ++ mantHex 3 ++ cP :: expToDec 5002) = some (12, 4998) := by decide
example : (Val.complex (.rat 1 2) (.rat (-5) 1)).IsRat := ⟨trivial, trivial⟩
example (cfg : Bool) : (Val.complex (.big true 3 5000) (.rat 1 2)).WF ∧
    (Val.complex (.big true 3 5000) (.rat 1 2)).InDomain cfg :=
  ⟨⟨Or.inr ⟨by decide, by omega⟩, by decide, by decide⟩,
   ⟨by decide, by omega, by decide, by decide⟩, okNat_of_lt cfg _ (by simp), okNat_of_lt cfg _ (by omega)⟩
example : unmarshal false (marshal (.str [58, 58, 0, 255])) = .ok (.str [58, 58, 0, 255]) := by decide
example : unmarshal true (marshal (.rune (-7))) = .ok (.rune (-7)) := by decide
example : (unmarshal false (marshal (.float (.big false 1 5000)))).kind? = some .float := by decide +kernel
example : marshal (.float (.big true 3 5000)) =
    kFloat ++ [58, 45, 48, 120, 46, 99, 112, 43, 53, 48, 48, 50] := by decide

end Marshal
