import Model.Cti
import Model.CtiTables
import Model.CtiContainer
import Model.CtiImplSig
import Gen.CtiBasic
import Gen.CtiSigs
import Proofs.Cti
import Proofs.CtiContainer
/-! # C34 — the generic-contract (CTI) methods of the basic and container types agree with Go's
operators and builtins

1. `tables_accepted` (kernel-checked, 17 + 2 obligations): every arm regenerated from
   `xreflect/cti_basic_method.go` — enclosing `switch/case/for/switch/case` skeleton, parameter
   names and types in order, result type, body — equals the arm template of `Model/Cti.lean`
   instantiated at the kind, table by table; no other arm, no other statement in the function.
2. `cti_table_sound` — an accepted arm, called with ANY argument values of its declared parameter
   types, computes the Go operator/builtin its NAME denotes (`Cti.spec`: `Add → +`, `Quo → /` with
   the divide panic and `MinInt / -1`, `Lsh/Rsh →` shifts with the `uint8` count of the signature,
   `Not → !` on bool and `^` on integers, `Cmp →` three-way comparison by `<` and `>`, `Equal`,
   `Less`, `Neg`, `Real`, `Imag`, `Index`, `Len`, `Slice`), ignores the receiver where the method
   takes its operands as arguments, and that operator is defined on the kind.
3. `cti_coverage` (kernel-checked over the table regenerated from `go/types/cti_method.go`,
   `universe.go`, `type.go`): for every basic kind the methods `makeBasicMethods` declares are
   exactly the methods with an arm, and each arm's Go signature (receiver :: parameters, result)
   is the declared signature.
4. `cmp_int_spec`, `cmp_unordered` — what `Cmp` means on integers (comparison of the mathematical
   values, signed or unsigned by the kind) and on unordered operands (NaN: `0`).
5. containers (`cti_container_spec_partial`, `container_coverage`): see `Proofs/CtiContainer.lean`. -/
namespace C34
open GoSpec GoSpec.Outcome ClosureIR Cti

/-! ## 1. the regenerated tables are the expected tables -/

theorem table_bool : tableOf .bool = expected .bool := by decide +kernel
theorem table_int : tableOf .int = expected .int := by decide +kernel
theorem table_int8 : tableOf .int8 = expected .int8 := by decide +kernel
theorem table_int16 : tableOf .int16 = expected .int16 := by decide +kernel
theorem table_int32 : tableOf .int32 = expected .int32 := by decide +kernel
theorem table_int64 : tableOf .int64 = expected .int64 := by decide +kernel
theorem table_uint : tableOf .uint = expected .uint := by decide +kernel
theorem table_uint8 : tableOf .uint8 = expected .uint8 := by decide +kernel
theorem table_uint16 : tableOf .uint16 = expected .uint16 := by decide +kernel
theorem table_uint32 : tableOf .uint32 = expected .uint32 := by decide +kernel
theorem table_uint64 : tableOf .uint64 = expected .uint64 := by decide +kernel
theorem table_uintptr : tableOf .uintptr = expected .uintptr := by decide +kernel
theorem table_float32 : tableOf .float32 = expected .float32 := by decide +kernel
theorem table_float64 : tableOf .float64 = expected .float64 := by decide +kernel
theorem table_complex64 : tableOf .complex64 = expected .complex64 := by decide +kernel
theorem table_complex128 : tableOf .complex128 = expected .complex128 := by decide +kernel
theorem table_string : tableOf .string = expected .string := by decide +kernel
theorem frame_accepted : Gen.CtiBasic.frame = expectedFrame := by decide +kernel
theorem cases_accepted : Gen.CtiBasic.cases = expectedCases := by decide +kernel

/-- **tables_accepted.**  For every basic kind the table of arms regenerated from the source is the
    expected table; the function contains nothing else (`frame`), and has exactly the 17 cases. -/
theorem tables_accepted :
    (∀ k : Kind, tableOf k = expected k) ∧ Gen.CtiBasic.frame = expectedFrame ∧ Gen.CtiBasic.cases = expectedCases := by
  refine ⟨fun k => ?_, frame_accepted, cases_accepted⟩
  cases k
  · exact table_bool
  · exact table_int
  · exact table_int8
  · exact table_int16
  · exact table_int32
  · exact table_int64
  · exact table_uint
  · exact table_uint8
  · exact table_uint16
  · exact table_uint32
  · exact table_uint64
  · exact table_uintptr
  · exact table_float32
  · exact table_float64
  · exact table_complex64
  · exact table_complex128
  · exact table_string

/-! ## 2. an accepted arm computes the operator its name denotes -/

theorem findArm_expected (k : Kind) (m : Meth) (hm : m ∈ methodsOf k) : findArm k m.name = some (arm k m) := by
  unfold findArm
  rw [tables_accepted.1 k]
  cases k <;> simp only [methodsOf, List.mem_cons, List.mem_nil_iff, or_false] at hm <;>
    (first
      | (rcases hm with rfl | rfl | rfl | rfl | rfl | rfl | rfl | rfl | rfl | rfl | rfl | rfl | rfl | rfl | rfl | rfl <;> decide)
      | (rcases hm with rfl | rfl | rfl | rfl | rfl | rfl | rfl | rfl <;> decide)
      | (rcases hm with rfl | rfl | rfl | rfl | rfl | rfl | rfl <;> decide)
      | (rcases hm with rfl | rfl <;> decide))

/-- **cti_table_sound.**  For every basic kind `k`, every method `m` of its table, and ALL
    argument values of the parameter kinds of the signature: the arm that the regenerated table
    holds for (k, m) — found by the two case labels, as the interpreter's loop over
    `xt.Method(i).Name` does — evaluates to `spec F k m args`, the Go operator/builtin the name
    denotes, applied to the operands in the order of the signature, with the same panics; and
    that operator is defined (`isSome`: never stuck).  With arguments of other kinds the call is
    rejected (`none`), as `reflect.Value.Call` does. -/
theorem cti_table_sound (F : FloatOps) (k : Kind) (m : Meth) (hm : m ∈ methodsOf k) :
    ∃ a, findArm k m.name = some a ∧
      ∀ args : List Val,
        (argsHaveKinds (paramKinds k m) args = true →
          run F a args = spec F k m args ∧ (spec F k m args).isSome = true) ∧
        (argsHaveKinds (paramKinds k m) args = false → run F a args = none) := by
  refine ⟨arm k m, findArm_expected k m hm, fun args => ⟨fun h => CtiProofs.table_sound F k m hm args h, fun h => ?_⟩⟩
  rw [CtiProofs.run_arm, if_neg (by simp [h])]

/-- the receiver is ignored by the methods that take all operands as arguments -/
theorem receiver_ignored (F : FloatOps) (k : Kind) (m : Meth)
    (hm : m ∈ [Meth.add, .sub, .mul, .quo, .rem, .and, .andNot, .or, .xor, .neg, .not, .lsh, .rsh]) (z z' : Val) (rest : List Val) :
    spec F k m (z :: rest) = spec F k m (z' :: rest) := by
  simp only [List.mem_cons, List.mem_nil_iff, or_false] at hm
  rcases hm with rfl | rfl | rfl | rfl | rfl | rfl | rfl | rfl | rfl | rfl | rfl | rfl | rfl <;>
    rcases rest with _ | ⟨a, _ | ⟨b, _ | ⟨c, r⟩⟩⟩ <;> simp [spec]

/-! ## 3. coverage and signatures -/

theorem coverage_checked :
    Kind.all.all (coverageOk Gen.CtiSigs.typ Gen.CtiSigs.flagDefs Gen.CtiSigs.basicRules) = true := by decide +kernel

/-- **cti_coverage.**  For every basic kind: the set of method names `go/types` declares
    (`makeBasicMethods`, instantiated with the kind's `BasicInfo` flags from the `Typ` table) is
    exactly the set of names with an arm in `addBasicTypeMethodsCTI`, without duplicates, and each
    arm's parameter kinds (receiver first) and result kind are those of the declared signature. -/
theorem cti_coverage (k : Kind) :
    coverageOk Gen.CtiSigs.typ Gen.CtiSigs.flagDefs Gen.CtiSigs.basicRules k = true := by
  have h := coverage_checked
  rw [List.all_eq_true] at h
  exact h k (by cases k <;> simp [Kind.all])

/-- what `coverageOk` says, spelled out -/
theorem cti_coverage_spelled (k : Kind) :
    ∃ decl, declaredBasic Gen.CtiSigs.typ Gen.CtiSigs.flagDefs Gen.CtiSigs.basicRules k = some decl ∧
      (∀ n ∈ decl.map (·.1), n ∈ (methodsOf k).map Meth.name) ∧
      (∀ n ∈ (methodsOf k).map Meth.name, n ∈ decl.map (·.1)) ∧
      decl.length = (methodsOf k).length ∧
      (∀ m ∈ methodsOf k, ∃ d, decl.find? (fun d => d.1 == m.name) = some d ∧
          d.2.1 = paramKinds k m ∧ d.2.2 = [retKind k m]) := by
  have h := cti_coverage k
  unfold coverageOk at h
  split at h
  · simp at h
  · rename_i decl hd
    refine ⟨decl, hd, ?_⟩
    simp only [Bool.and_eq_true, List.all_eq_true, List.contains_eq_mem, decide_eq_true_eq, beq_iff_eq, List.length_map] at h
    obtain ⟨⟨⟨h1, h2⟩, h3⟩, h4⟩ := h
    refine ⟨fun n hn => h1 n hn, fun n hn => h2 n hn, h3, fun m hm => ?_⟩
    have := h4 m hm
    split at this
    · rename_i n ps rs hf
      simp only [Bool.and_eq_true, beq_iff_eq] at this
      exact ⟨_, hf, this.1, this.2⟩
    · simp at this

/-! ## 4. what `Cmp` means -/

/-- on integers `Cmp` compares the mathematical values (signed or unsigned according to the kind) -/
theorem cmp_int_spec (F : FloatOps) (k : Kind) (ik : IKind) (x y : BitVec ik.w) :
    spec F k .cmp [.int ik x, .int ik y] =
      some (.ok (.int ⟨64, true⟩ (BitVec.ofInt 64
        (if I.toInt ik.signed x < I.toInt ik.signed y then -1
         else if I.toInt ik.signed y < I.toInt ik.signed x then 1 else 0)))) := by
  have lt_iff : ∀ a b : BitVec ik.w, I.lt ik.signed a b = decide (I.toInt ik.signed a < I.toInt ik.signed b) := by
    intro a b
    unfold I.lt I.toInt
    cases ik.signed
    · simp [BitVec.ult, BitVec.lt_def]
    · simp [BitVec.slt]
  simp only [spec, cmp3, binop, BinOp.isShift, intBin, dite_true, Bool.false_eq_true, if_false, I.gt, lt_iff]
  by_cases h1 : I.toInt ik.signed x < I.toInt ik.signed y
  · simp [h1, liftX]
  · by_cases h2 : I.toInt ik.signed y < I.toInt ik.signed x <;> simp [h1, h2, liftX]

/-- on unordered operands (neither `a < b` nor `a > b`: a NaN operand) `Cmp` is `0` — although
    `Equal` is false there; this is the three-way comparison by `<` and `>`, not `cmp.Compare` -/
theorem cmp_unordered (F : FloatOps) (k : Kind) (a b : Val)
    (h1 : binop F .lss a b = some (ok (.bool false))) (h2 : binop F .gtr a b = some (ok (.bool false))) :
    spec F k .cmp [a, b] = some (.ok (.int ⟨64, true⟩ 0)) := by
  simp [spec, cmp3, h1, h2, liftX]

/-! ## 5. containers -/

/-- **cti_container_spec_partial.**  PARTIAL: reflection is trusted to implement the builtins; the
    theorem is about the model of the builtins that the correspondence run compares the real
    methods with (`Model/CtiContainer.lean`): every slice/array method keeps `len ≤ cap`,
    `Append` yields the receiver's elements followed by the arguments and writes in place exactly
    when the capacity suffices, `SetIndex`/`Index` and `Slice`/`Index` commute as in Go, `Copy`
    copies `min(len, len src)` elements; map `SetIndex`/`Index`/`DelIndex` are the finite-map laws;
    channel operations never block in `TrySend`/`TryRecv`, keep `len ≤ cap`, are FIFO. -/
theorem cti_container_spec_partial :
    (∀ (s : CtiContainer.View) (xs : List Int), s.wf →
        (s.append xs).1.wf ∧ (s.append xs).1.elems = s.elems ++ xs ∧
        ((s.append xs).2 = s.arr ∨ s.len + xs.length ≤ s.cap)) ∧
    (∀ (s s' : CtiContainer.View) (i v : Int), s.wf → s.setIndex i v = .ok s' →
        s'.wf ∧ s'.len = s.len ∧ s'.index i = .ok v) ∧
    (∀ (s s' : CtiContainer.View) (i j : Int), s.slice i j = .ok s' → s'.wf ∧ s'.cap = s.cap - i.toNat) ∧
    (∀ (s : CtiContainer.View) (xs : List Int), s.wf → (s.copy xs).wf ∧ (s.copy xs).len = s.len) ∧
    (∀ (c : CtiContainer.Chan) (op : CtiContainer.ChanOp), c.q.length ≤ c.cap →
        (CtiContainer.chanStep c op).2.q.length ≤ (CtiContainer.chanStep c op).2.cap) ∧
    (∀ (c : CtiContainer.Chan) (v : Int), (CtiContainer.chanStep c (.trySend v)).1 ≠ .block ∧
        (CtiContainer.chanStep c .tryRecv).1 ≠ .block) :=
  ⟨CtiContainerProofs.append_spec, CtiContainerProofs.setIndex_spec, CtiContainerProofs.slice_spec,
   CtiContainerProofs.copy_spec, CtiContainerProofs.chan_len_le_cap, CtiContainerProofs.try_never_blocks⟩

/-- **container_coverage.**  Every method name that `go/types` declares for arrays, slices (also
    byte slices), maps and channels (regenerated from `makeArrayMethods`, `makeSliceMethods`,
    `makeMapMethods`, `makeChanMethods`) has a case in the implementation switch of
    `xreflect/cti_method.go addTypeMethodsCTI` (regenerated) — no declared method is left without
    an implementation. -/
theorem container_coverage :
    (Gen.CtiSigs.arrayRules ++ Gen.CtiSigs.sliceRules ++ Gen.CtiSigs.mapRules ++ Gen.CtiSigs.chanRules).all
      (fun r => Gen.CtiSigs.implCases.any (fun c => c.1 == "\"" ++ r.name ++ "\"")) = true := by decide +kernel

def rulesOf : CtiImplSig.CK → List CtiSig.Rule
  | .array => Gen.CtiSigs.arrayRules
  | .slice | .byteSlice => Gen.CtiSigs.sliceRules
  | .map => Gen.CtiSigs.mapRules
  | .chanBoth | .chanRecv | .chanSend => Gen.CtiSigs.chanRules

theorem container_sigs_checked :
    CtiImplSig.CK.all.all (fun ck => CtiImplSig.sigsOk ck (rulesOf ck) Gen.CtiSigs.implSigs) = true := by decide +kernel

/-- **container_sigs_agree.**  For every shape of unnamed container type (array, slice, byte slice,
    map, bidirectional / receive-only / send-only channel) and EVERY element and key type: each
    method the type checker declares (`go/types make*Methods`, regenerated) is implemented in
    `addTypeMethodsCTI` with a `reflect.FuncOf` signature (regenerated symbolically) equal to the
    declared one — receiver (pointer to the array for arrays), parameters, results, variadic flag.
    So a call that type-checks never reaches `reflect.Value.Call` with arguments of other types. -/
theorem container_sigs_agree (ck : CtiImplSig.CK) :
    CtiImplSig.sigsOk ck (rulesOf ck) Gen.CtiSigs.implSigs = true := by
  have h := container_sigs_checked
  rw [List.all_eq_true] at h
  exact h ck (by cases ck <;> simp [CtiImplSig.CK.all])

/-! ## non-vacuity -/

/-- the premises of `cti_table_sound` are satisfiable and the conclusion is not trivial:
    `int8(0).Quo(-128, -1) = -128`, `int8(0).Quo(1, 0)` panics, `uint8(0).Lsh(255, 200) = 0` -/
example (F : FloatOps) : spec F .int8 .quo [.int ⟨8, true⟩ 0, .int ⟨8, true⟩ 0x80, .int ⟨8, true⟩ 0xff] =
    some (.ok (.int ⟨8, true⟩ 0x80)) := by rfl
example (F : FloatOps) : spec F .int8 .quo [.int ⟨8, true⟩ 5, .int ⟨8, true⟩ 1, .int ⟨8, true⟩ 0] = some (.panic .divide) := by
  rfl
example (F : FloatOps) : spec F .uint8 .lsh [.int ⟨8, false⟩ 9, .int ⟨8, false⟩ 0xff, .int ⟨8, false⟩ 200] =
    some (.ok (.int ⟨8, false⟩ 0)) := by rfl
example : Meth.rsh ∈ methodsOf .uintptr ∧ argsHaveKinds (paramKinds .uintptr .rsh)
    [.int ⟨64, false⟩ 1, .int ⟨64, false⟩ 2, .int ⟨8, false⟩ 3] = true := by decide
example (F : FloatOps) : spec F .int16 .cmp [.int ⟨16, true⟩ 0xffff, .int ⟨16, true⟩ 1] =
    some (.ok (.int ⟨64, true⟩ 0xffffffffffffffff)) := by rfl
example : (CtiContainer.View.append ⟨[1, 2, 3, 4], 2⟩ [9]).2 = [1, 2, 9, 4] := by decide
example : (CtiContainer.View.append ⟨[1, 2], 2⟩ [9]) = (⟨[1, 2, 9], 3⟩, [1, 2]) := by decide

end C34
