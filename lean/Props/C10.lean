import Proofs.Chan
import Proofs.Gls
/-!
# C10  Interpreted goroutines and channels behave as Go permits on every schedule

Theorems about `Model/Chan.lean` (Go channel semantics, scheduler-parametrised runs, the program families
the generator emits) and, for the go statement, about `Model/Gls.lean`.

What is proved: the channel laws for every sequence of operations; for the families fan-in (sum),
two-stage pipeline, select-merge (with and without default): for EVERY scheduler stream the run ends
(given the stated fuel; partial correctness only for the polling select) with the same result, which is the
closed-form specification; deadlock freedom; no panic (no send on / close of a closed channel).
What is NOT in the model (PARTIAL): the interpreter's own data structures other than the registry
(xreflect.Universe, type caches: finding F20 lives there), Go's memory model, `reflect` internals.
-/
namespace Chan

/-! ## channel laws (every sequence of operations by any goroutines) -/

/-- FIFO, no loss, no duplication: at any time the values sent are exactly the values received
    followed by the values still buffered, in order; the buffer never exceeds the capacity -/
theorem chan_fifo (k : Nat) (ops : List ChOp) :
    let c := (Ch.make k).applyAll ops
    c.sent = c.rcvd ++ c.buf ∧ c.buf.length ≤ k := by
  have h := wf_applyAll (wf_make k) ops
  have hcap : ∀ (ops : List ChOp) (c : Ch), (c.applyAll ops).cap = c.cap := by
    intro ops
    induction ops with
    | nil => intro c; rfl
    | cons o os ih => intro c; simp only [Ch.applyAll]; rw [ih, cap_apply]
  have hc : ((Ch.make k).applyAll ops).cap = k := by rw [hcap]; rfl
  refine ⟨h.hist, ?_⟩
  have := h.bound
  rw [hc] at this; exact this

/-- what has been received is a prefix of what has been sent -/
theorem chan_received_prefix (k : Nat) (ops : List ChOp) :
    ((Ch.make k).applyAll ops).rcvd <+: ((Ch.make k).applyAll ops).sent := by
  have h := (chan_fifo k ops).1
  exact ⟨_, h.symm⟩

/-- a drained channel has delivered exactly what was sent -/
theorem chan_no_loss_no_dup (k : Nat) (ops : List ChOp) (hd : ((Ch.make k).applyAll ops).buf = []) :
    ((Ch.make k).applyAll ops).rcvd = ((Ch.make k).applyAll ops).sent := by
  have h := (chan_fifo k ops).1
  rw [hd] at h; simpa using h.symm

/-- close semantics -/
theorem chan_close_semantics (c : Ch) (hc : c.closed = true) :
    (∀ v, c.send v = .panic) ∧ c.close = .panic ∧ (∀ v, c.handoff v = none) ∧
    (c.buf = [] → c.recv = .closedEmpty) ∧
    (∀ v rest, c.buf = v :: rest → ∃ c', c.recv = .val v c' ∧ c'.buf = rest ∧ c'.closed = true) ∧
    (∀ ops, (c.applyAll ops).closed = true) := by
  refine ⟨fun v => by simp [Ch.send, hc], by simp [Ch.close, hc], fun v => by simp [Ch.handoff, hc], ?_, ?_, ?_⟩
  · intro hb; simp [Ch.recv, hb, hc]
  · intro v rest hb
    exact ⟨{ c with buf := rest, rcvd := c.rcvd ++ [v] }, by simp [Ch.recv, hb], rfl, hc⟩
  · intro ops
    induction ops generalizing c with
    | nil => exact hc
    | cons o os ih => exact ih _ (closed_apply hc o)

/-- an open channel blocks instead of losing a value: a send without room and a receive on an empty
    open channel leave the channel unchanged -/
theorem chan_block (c : Ch) (hc : c.closed = false) :
    (∀ v, c.cap ≤ c.buf.length → c.send v = .block) ∧ (c.buf = [] → c.recv = .block) := by
  refine ⟨fun v h => ?_, fun hb => by simp [Ch.recv, hb, hc]⟩
  simp [Ch.send, hc]; omega

/-- a rendezvous is "enqueue, then dequeue" whenever the channel has a buffer slot: the families run
    unbuffered channels with one slot (`effCap`) without losing any of Go's interleavings -/
theorem handoff_is_send_recv (c c' : Ch) (v : Int) (hcap : 0 < c.cap) (h : c.handoff v = some c') :
    ∃ c1, c.send v = .ok c1 ∧ c1.recv = .val v c' := by
  simp only [Ch.handoff] at h
  split at h
  · cases h
  · rename_i hc
    simp at hc
    have hb : c.buf = [] := hc.2
    cases h
    refine ⟨{ c with buf := c.buf ++ [v], sent := c.sent ++ [v] }, ?_, ?_⟩
    · simp [Ch.send, hc.1, hb, hcap]
    · simp [Ch.recv, hb]

/-! ## fan-in with commutative reduction: same result for every schedule -/

/-- `fanin_outcome`: for every scheduler stream, k producers / any lists / any capacity (0 = unbuffered):
    the run terminates within the stated fuel, without panic, and the main goroutine's sum is the sum of
    all values -/
theorem fanin_outcome (cap : Nat) (lists : List (List Int)) (sched : Nat → Nat) (fuel : Nat)
    (hf : 2 * lenLL lists + lists.length + 2 ≤ fuel) :
    FanIn.result (FanIn.sys.run sched fuel 0 (FanIn.init cap lists)) = some (sumLL lists) := by
  have hinv : ∀ s, FanIn.sys.Reach (FanIn.init cap lists) s → FanIn.Inv (sumLL lists) s :=
    fun s h => Sys.inv_of_reach _ _ (FanIn.inv_init cap lists) (fun s a hi ha => FanIn.inv_step hi ha) h
  have hr := Sys.reach_trans_step FanIn.sys (Sys.Reach.refl (S := FanIn.sys) (s0 := FanIn.init cap lists)) sched fuel 0
  have hi := hinv _ hr
  have hstop := Sys.run_stops FanIn.sys (FanIn.Inv (sumLL lists)) FanIn.mu
    (fun s a hi ha => FanIn.inv_step hi ha) (fun s a hi ha => FanIn.mu_dec hi ha) sched fuel 0 _
    (FanIn.inv_init cap lists) (Nat.le_trans (FanIn.mu_init cap lists) hf)
  have hfin := FanIn.stuck_fin hi hstop
  obtain ⟨hacc, hp⟩ := FanIn.fin_result hi hfin
  simp [FanIn.result, hfin, hp, hacc]

/-- partial correctness without any assumption on the fuel: whenever the main goroutine has finished, in
    any reachable state, the result is the sum; and a reachable state is never stuck before that -/
theorem fanin_safe (cap : Nat) (lists : List (List Int)) (s : FanIn.St)
    (h : FanIn.sys.Reach (FanIn.init cap lists) s) :
    (s.fin = true → s.acc = sumLL lists) ∧ s.panicked = false ∧ (FanIn.sys.en s = [] → s.fin = true) ∧
    s.ch.sent = s.ch.rcvd ++ s.ch.buf := by
  have hi : FanIn.Inv (sumLL lists) s :=
    Sys.inv_of_reach _ _ (FanIn.inv_init cap lists) (fun s a hi ha => FanIn.inv_step hi ha) h
  exact ⟨fun hf => (FanIn.fin_result hi hf).1, hi.noPanic, FanIn.stuck_fin hi, hi.hist⟩

/-! ## two-stage pipeline -/

/-- `pipe2_outcome`: for every scheduler stream, any capacities, any stage functions, any input: the run
    terminates and the sink has collected `map (g ∘ f) vals` in order -/
theorem pipe2_outcome (f g : Pipe2.Fn) (k0 k1 k2 : Nat) (vals : List Int) (sched : Nat → Nat) (fuel : Nat)
    (hf : 6 * vals.length + 4 ≤ fuel) :
    Pipe2.result (Pipe2.sys.run sched fuel 0 (Pipe2.init f g k0 k1 k2 vals)) =
      some (vals.map (fun v => g.app (f.app v))) := by
  have hr := Sys.reach_trans_step Pipe2.sys (Sys.Reach.refl (S := Pipe2.sys) (s0 := Pipe2.init f g k0 k1 k2 vals)) sched fuel 0
  have hi : Pipe2.Inv f g vals _ :=
    Sys.inv_of_reach _ _ (Pipe2.inv_init f g k0 k1 k2 vals) (fun s a hi ha => Pipe2.inv_step hi ha) hr
  have hstop := Sys.run_stops Pipe2.sys (Pipe2.Inv f g vals) Pipe2.mu
    (fun s a hi ha => Pipe2.inv_step hi ha) (fun s a hi ha => Pipe2.mu_dec hi ha) sched fuel 0 _
    (Pipe2.inv_init f g k0 k1 k2 vals) (by rw [Pipe2.mu_init]; exact hf)
  have hfin := Pipe2.stuck_fin hi hstop
  obtain ⟨hout, hp⟩ := Pipe2.fin_result hi hfin
  simp [Pipe2.result, hfin, hp, hout]

theorem pipe2_safe (f g : Pipe2.Fn) (k0 k1 k2 : Nat) (vals : List Int) (s : Pipe2.St)
    (h : Pipe2.sys.Reach (Pipe2.init f g k0 k1 k2 vals) s) :
    (s.fin = true → s.out = vals.map (fun v => g.app (f.app v))) ∧ s.panicked = false ∧
    (Pipe2.sys.en s = [] → s.fin = true) := by
  have hi : Pipe2.Inv f g vals s :=
    Sys.inv_of_reach _ _ (Pipe2.inv_init f g k0 k1 k2 vals) (fun s a hi ha => Pipe2.inv_step hi ha) h
  exact ⟨fun hf => (Pipe2.fin_result hi hf).1, hi.noPanic, Pipe2.stuck_fin hi⟩

/-! ## select over two channels -/

/-- `merge_safe`: with or without `default`, for every interleaving (including every choice among ready
    select cases): a finished run has summed everything, nothing panics, no deadlock -/
theorem merge_safe (d : Bool) (ka kb : Nat) (la lb : List Int) (s : Merge.St)
    (h : Merge.sys.Reach (Merge.init d ka kb la lb) s) :
    (s.fin = true → s.acc = sumL la + sumL lb) ∧ s.panicked = false ∧ (Merge.sys.en s = [] → s.fin = true) := by
  have hi : Merge.Inv (sumL la + sumL lb) s :=
    Sys.inv_of_reach _ _ (Merge.inv_init d ka kb la lb) (fun s a hi ha => Merge.inv_step hi ha) h
  exact ⟨fun hf => (Merge.fin_result hi hf).1, hi.noPanic, Merge.stuck_fin hi⟩

/-- for every scheduler stream and every fuel: the result, if the run got that far, is the sum
    (the polling select may spin on `default` as long as the scheduler lets it) -/
theorem merge_outcome_unique (d : Bool) (ka kb : Nat) (la lb : List Int) (sched : Nat → Nat) (fuel : Nat) (r : Int)
    (h : Merge.result (Merge.sys.run sched fuel 0 (Merge.init d ka kb la lb)) = some r) : r = sumL la + sumL lb := by
  have hr := Sys.reach_trans_step Merge.sys (Sys.Reach.refl (S := Merge.sys) (s0 := Merge.init d ka kb la lb)) sched fuel 0
  obtain ⟨h1, _, _⟩ := merge_safe d ka kb la lb _ hr
  simp only [Merge.result] at h
  split at h
  · rename_i hc
    simp at hc
    have := h1 hc.1
    cases h; exact this.symm ▸ rfl
  · cases h

/-- without `default` every schedule terminates within the stated fuel -/
theorem merge_outcome (ka kb : Nat) (la lb : List Int) (sched : Nat → Nat) (fuel : Nat)
    (hf : 2 * (la.length + lb.length) + 5 ≤ fuel) :
    Merge.result (Merge.sys.run sched fuel 0 (Merge.init false ka kb la lb)) = some (sumL la + sumL lb) := by
  let P : Merge.St → Prop := fun s => Merge.Inv (sumL la + sumL lb) s ∧ s.withDefault = false
  have hP0 : P (Merge.init false ka kb la lb) := ⟨Merge.inv_init false ka kb la lb, rfl⟩
  have hPstep : ∀ s a, P s → a ∈ Merge.sys.en s → P (Merge.sys.step s a) :=
    fun s a hp ha => ⟨Merge.inv_step hp.1 ha, by rw [Merge.step_withDefault]; exact hp.2⟩
  have hr := Sys.reach_trans_step Merge.sys (Sys.Reach.refl (S := Merge.sys) (s0 := Merge.init false ka kb la lb)) sched fuel 0
  have hp : P _ := Sys.inv_of_reach _ P hP0 hPstep hr
  have hstop := Sys.run_stops Merge.sys P Merge.mu hPstep (fun s a hp ha => Merge.mu_dec hp.1 hp.2 ha) sched fuel 0 _
    hP0 (by rw [Merge.mu_init]; exact hf)
  have hfin := Merge.stuck_fin hp.1 hstop
  obtain ⟨hacc, hpn⟩ := Merge.fin_result hp.1 hfin
  simp [Merge.result, hfin, hpn, hacc]

/-! ## mutex-protected counter -/

/-- `mutex_outcome`: k workers, any lists of deltas, `cnt += d` split into a read and a write inside
    Lock/Unlock: for every scheduler stream the run terminates and the counter is the sum of all deltas -/
theorem mutex_outcome (lists : List (List Int)) (sched : Nat → Nat) (fuel : Nat) (hf : 4 * lenLL lists ≤ fuel) :
    Mutex.result (Mutex.sys.run sched fuel 0 (Mutex.init true lists)) = some (sumLL lists) := by
  have hr := Sys.reach_trans_step Mutex.sys (Sys.Reach.refl (S := Mutex.sys) (s0 := Mutex.init true lists)) sched fuel 0
  have hi : Mutex.Inv (sumLL lists) _ :=
    Sys.inv_of_reach _ _ (Mutex.inv_init lists) (fun s a hi ha => Mutex.inv_step hi ha) hr
  have hstop := Sys.run_stops Mutex.sys (Mutex.Inv (sumLL lists)) Mutex.mu
    (fun s a hi ha => Mutex.inv_step hi ha) (fun s a hi ha => Mutex.mu_dec hi ha) sched fuel 0 _
    (Mutex.inv_init lists) (by rw [Mutex.mu_init]; exact hf)
  have hfin := Mutex.stuck_fin hi hstop
  simp [Mutex.result, hfin, Mutex.fin_result hi hfin]

/-- mutual exclusion and partial correctness in every reachable state -/
theorem mutex_safe (lists : List (List Int)) (s : Mutex.St) (h : Mutex.sys.Reach (Mutex.init true lists) s) :
    (Mutex.finished s = true → s.cnt = sumLL lists) ∧
    (∀ (i j : Nat) (wi wj : Mutex.W), s.ws[i]? = some wi → s.ws[j]? = some wj → wi.pc ≠ .idle → wj.pc ≠ .idle → i = j) ∧
    (Mutex.sys.en s = [] → Mutex.finished s = true) := by
  have hi : Mutex.Inv (sumLL lists) s :=
    Sys.inv_of_reach _ _ (Mutex.inv_init lists) (fun s a hi ha => Mutex.inv_step hi ha) h
  refine ⟨Mutex.fin_result hi, ?_, Mutex.stuck_fin hi⟩
  intro i j wi wj h1 h2 p1 p2
  have a := hi.excl i wi h1 p1
  have b := hi.excl j wj h2 p2
  rw [a] at b; exact Option.some.inj b

/-! ## n goroutines inside the same select statement -/

/-- `selN_outcome`: n goroutines execute the same select statement r times, each on its own channel holding at
    least r values; the case list belongs to the execution that evaluated it.  For every scheduler stream the run
    terminates and goroutine i has received exactly the first r values of ITS channel, in order. -/
theorem selN_outcome (r : Nat) (lists : List (List Int)) (hr : ∀ l ∈ lists, r ≤ l.length)
    (sched : Nat → Nat) (fuel : Nat) (hf : 2 * r * lists.length ≤ fuel) :
    SelN.result (SelN.sys.run sched fuel 0 (SelN.init false r lists)) = some (lists.map (List.take r)) := by
  have hr0 := Sys.reach_trans_step SelN.sys (Sys.Reach.refl (S := SelN.sys) (s0 := SelN.init false r lists)) sched fuel 0
  have hi : SelN.Inv r lists _ :=
    Sys.inv_of_reach _ _ (SelN.inv_init r lists hr) (fun s a hi ha => SelN.inv_step hi ha) hr0
  have hstop := Sys.run_stops SelN.sys (SelN.Inv r lists) SelN.mu
    (fun s a hi ha => SelN.inv_step hi ha) (fun s a hi ha => SelN.mu_dec hi ha) sched fuel 0 _
    (SelN.inv_init r lists hr) (by rw [SelN.mu_init]; exact hf)
  have hfin := SelN.stuck_fin hi hstop
  simp [SelN.result, hfin, SelN.fin_result hi hfin]

/-- in every reachable state each goroutine has received a prefix of its OWN channel and nothing else -/
theorem selN_safe (r : Nat) (lists : List (List Int)) (hr : ∀ l ∈ lists, r ≤ l.length) (s : SelN.St)
    (h : SelN.sys.Reach (SelN.init false r lists) s) :
    (∀ (i : Nat) (g : SelN.G), s.gs[i]? = some g → ∃ l, lists[i]? = some l ∧ g.got ++ g.ch = l) ∧
    (SelN.sys.en s = [] → SelN.finished s = true) := by
  have hi : SelN.Inv r lists s :=
    Sys.inv_of_reach _ _ (SelN.inv_init r lists hr) (fun s a hi ha => SelN.inv_step hi ha) h
  refine ⟨fun i g hg => ?_, SelN.stuck_fin hi⟩
  obtain ⟨l, hl, gi⟩ := hi.each i g hg
  exact ⟨l, hl, gi.hist⟩

/-- with ONE case list shared by all executions of the statement (not Go) a schedule exists in which a goroutine
    receives from another goroutine's channel: the model distinguishes the two designs -/
theorem shared_cases_witness :
    ∃ sched, SelN.result (SelN.sys.run sched 10 0 (SelN.init true 1 [[1, 2], [10, 20]])) = some [[10], [20]] := by
  refine ⟨fun i => [0, 1, 0, 0].getD i 0, ?_⟩
  decide

/-! ## go statement (instance of C33) -/

/-- `go_handover_owned`: in every reachable state of the registry protocol, the child of a go statement
    (no pending lookup) creates a Run that is new (used by nobody), owned by the child's identity and
    registered under it; its first function entry through the hand-over frame (`outer` = that Run) takes
    the fast path onto it; the parent's Run is not involved. -/
theorem go_handover_owned {s : Gls.State} (h : Gls.Reach s) {g : Gls.Gid} {i : Gls.Id}
    (hg : s.idOf g = some i) (hp : s.pend g = .idle) :
    ∃ s1 s2, Gls.step s (.store g) = some s1 ∧ s1.owner s.nrun = some i ∧ s1.reg i = some s.nrun ∧
      (∀ u ∈ s.uses, u.r ≠ s.nrun) ∧
      Gls.step s1 (.func g s.nrun) = some s2 ∧ s2.uses = ⟨g, s.nrun, false⟩ :: s.uses := by
  have hi := Gls.reach_inv h
  let s1 : Gls.State := { Gls.newRun s i with reg := Gls.upd s.reg i (some s.nrun), child := Gls.upd s.child g true }
  have hs1 : Gls.step s (.store g) = some s1 := by simp [Gls.step, hg, hp, s1]
  have hs2 : Gls.step s1 (.func g s.nrun) = some { s1 with uses := ⟨g, s.nrun, false⟩ :: s1.uses } := by
    simp [Gls.step, s1, Gls.newRun, Gls.upd, hg, hp]
  refine ⟨s1, _, hs1, by simp [s1, Gls.newRun, Gls.upd], by simp [s1, Gls.upd], ?_, hs2, rfl⟩
  intro u hu heq
  have hlt : u.r < s.nrun := (hi.use_created u hu).1
  rw [heq] at hlt
  exact Nat.lt_irrefl _ hlt

/-! ## non-vacuity -/

example : FanIn.result (FanIn.sys.run (fun i => i * 7 + 3) 100 0 (FanIn.init 0 [[1, 2], [3], [], [4, 5]])) = some 15 := by decide
example : Pipe2.result (Pipe2.sys.run (fun i => i * 5 + 1) 100 0 (Pipe2.init ⟨2, 1⟩ ⟨-1, 3⟩ 0 2 1 [1, 2, 3])) = some [0, -2, -4] := by decide
example : Merge.result (Merge.sys.run (fun i => i * 3) 100 0 (Merge.init true 0 1 [1, 2] [10])) = some 13 := by decide
example : Mutex.result (Mutex.sys.run (fun i => i * 5 + 2) 100 0 (Mutex.init true [[1, 2], [3], [4, 5, 6]])) = some 21 := by decide
example : SelN.result (SelN.sys.run (fun i => i * 3 + 1) 100 0 (SelN.init false 2 [[1, 2, 3], [10, 20], [7, 8, 9, 10]])) = some [[1, 2], [10, 20], [7, 8]] := by decide
/-- schedules matter in the model: without the mutex two workers lose an update -/
theorem racy_counter_loses_update :
    ∃ sched, Mutex.result (Mutex.sys.run sched 20 0 (Mutex.init false [[1], [1]])) = some 1 := by
  refine ⟨fun i => [0, 1, 0, 1, 0, 0, 0, 0].getD i 0, ?_⟩
  decide

end Chan
