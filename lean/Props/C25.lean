import Model.PrintPrec
import Model.PrintWhitelist
import Gen.PrintDispatch
import Gen.ParseDispatch
import Proofs.PrintPrec
import Proofs.GoTables
/-!
# C25 — printing a syntax tree and reparsing it yields the same tree (see notes/C25.md)

Proved on the model of the expression core (binary / prefix operators, parentheses, selector, index, call with
one argument), for the operator tables extracted from the sources and for EVERY tree whose operators are operators:
`parse (print e) = some (normalize e)`, where `normalize` makes explicit the `ParenExpr` nodes the printer inserts and
removes the directly nested ones it collapses; `print ∘ parse ∘ print = print`; `normalize` is idempotent; trees the
parser produces (without `((x))`) are fixed points.  PARTIAL: statements, declarations, types, composite literals,
comments and spacing are covered by the differential run only (harness/c25.go).
-/
namespace PrintPrec
open ParseExpr Gen.PrintDispatch

/-- **parse_print_expr** -/
theorem parse_print_expr (e : Expr) (hv : Valid goTables e) :
    parseExpr goTables (print goTables e) = some (normalize goTables e) :=
  parse_print goTables goTables_le5 e hv

/-- `normalize` only inserts and collapses parentheses: dropping every `ParenExpr` from both sides gives the same tree -/
def strip : Expr → Expr
  | .atom n => .atom n
  | .bin l o r => .bin (strip l) o (strip r)
  | .un o x => .un o (strip x)
  | .paren x => strip x
  | .sel x n => .sel (strip x) n
  | .index x i => .index (strip x) (strip i)
  | .call f a => .call (strip f) (strip a)

theorem normalize_only_parens (T : Tables) (e : Expr) : ∀ p, strip (norm1 T e p) = strip e := by
  induction e with
  | atom n => intro p; rfl
  | bin l o r ihl ihr => intro p; simp only [norm1]; split <;> simp [strip, ihl, ihr]
  | un o x ih => intro p; simp only [norm1]; split <;> simp [strip, ih]
  | paren x ih =>
    intro p
    rcases paren_cases x with ⟨y, rfl⟩ | hx
    · rw [norm1_paren_paren]; simpa [strip] using ih 0
    · rw [norm1_paren_other T _ _ hx]; simp [strip, ih]
  | sel x n ih => intro p; simp [norm1, strip, ih]
  | index x i ihx ihi => intro p; simp [norm1, strip, ihx, ihi]
  | call f a ihf iha => intro p; simp [norm1, strip, ihf, iha]

/-- hence the reparsed tree is the original one up to parentheses -/
theorem parse_print_same_modulo_parens (e : Expr) (hv : Valid goTables e) :
    (parseExpr goTables (print goTables e)).map strip = some (strip e) := by
  rw [parse_print_expr e hv]
  simp [normalize, normalize_only_parens]

/-- **print_parse_print_idempotent** -/
theorem print_parse_print_idempotent (e : Expr) (hv : Valid goTables e) :
    (parseExpr goTables (print goTables e)).map (print goTables) = some (print goTables e) :=
  print_parse_print goTables goTables_le5 e hv

theorem normalize_idempotent (e : Expr) (hv : Valid goTables e) :
    normalize goTables (normalize goTables e) = normalize goTables e :=
  normalize_idem goTables goTables_le5 e hv

/-- **parser-produced trees are fixed points** (unless they contain directly nested parentheses, which the
    printer collapses on purpose) -/
theorem parsed_tree_fixed_point (ts : List Tok) (t : Expr) (h : parseExpr goTables ts = some t) (hd : NoDP t) :
    normalize goTables t = t ∧ parseExpr goTables (print goTables t) = some t :=
  parsed_roundtrip goTables goTables_le5 ts t h hd

/-- the printed tokens are exactly the tokens of the normalised tree -/
theorem print_is_flatten_normalize (e : Expr) : print goTables e = flatten (normalize goTables e) :=
  print1_eq_flatten goTables e 0

/-- the statement for any operator table bounded by 5 -/
theorem parse_print_any_table (T : Tables) (hp : ∀ o, T.binPrec o ≤ 5) (e : Expr) (hv : Valid T e) :
    parseExpr T (print T e) = some (normalize T e) :=
  parse_print T hp e hv

/-! ### obligations over the regenerated printer tables -/

theorem printer_arms_pinned :
    (PrintWhitelist.pinnedArms.all fun p => exprArms.any fun a => a.1 == p.1 && a.2.1 == p.2) = true ∧
    (PrintWhitelist.pinnedFuncs.all fun p => printerFuncs.any fun f => f.1 == p.1 && f.2 == p.2) = true := by decide

/-- every function of the fork's printer has the committed token text (golden table) -/
theorem all_printer_functions_pinned : printerAllFuncs = PrintWhitelist.allFuncs := by decide

/-- the printer takes precedences from go/token (the table of `goTables`) and uses the constants the model uses -/
theorem printer_prec_is_token_precedence :
    printerPrecVia = "go/token.Token.Precedence" ∧ unaryUsesUnaryPrec = true ∧ postfixUsesHighestPrec = true ∧
    expr0UsesLowestPrec = true ∧ Gen.ParseDispatch.unaryPrec = 6 ∧ Gen.ParseDispatch.highestPrec = 7 ∧
    Gen.ParseDispatch.lowestPrec = 0 := by decide

/-! ### non-vacuity -/
/-- `(a + b) * c` built without a ParenExpr: printed with parentheses, reparsed with the ParenExpr -/
example : print goTables (.bin (.bin (.atom 0) 12 (.atom 1)) 14 (.atom 2)) =
    [.lparen, .atom 0, .op 12, .atom 1, .rparen, .op 14, .atom 2] := by decide
example : normalize goTables (.bin (.bin (.atom 0) 12 (.atom 1)) 14 (.atom 2)) =
    .bin (.paren (.bin (.atom 0) 12 (.atom 1))) 14 (.atom 2) := by decide
/-- `a - (b - c)`, `-(a + b)`, `(*p).f`, `(-a)[i]` -/
example : normalize goTables (.bin (.atom 0) 13 (.bin (.atom 1) 13 (.atom 2))) =
    .bin (.atom 0) 13 (.paren (.bin (.atom 1) 13 (.atom 2))) := by decide
example : normalize goTables (.un 13 (.bin (.atom 0) 12 (.atom 1))) = .un 13 (.paren (.bin (.atom 0) 12 (.atom 1))) := by decide
example : normalize goTables (.sel (.un 14 (.atom 0)) 1) = .sel (.paren (.un 14 (.atom 0))) 1 := by decide
/-- `((a))` is printed `(a)`: the one case where a parsed tree is not a fixed point -/
example : normalize goTables (.paren (.paren (.atom 0))) = .paren (.atom 0) := by decide
example : parseExpr goTables [.lparen, .lparen, .atom 0, .rparen, .rparen] = some (.paren (.paren (.atom 0))) := by decide
/-- the hypothesis `Valid` is needed: `!` is no binary operator (NOT = 43) -/
example : parseExpr goTables (print goTables (.bin (.atom 0) 43 (.atom 1))) = none := by decide

end PrintPrec
