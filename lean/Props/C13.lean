import Model.Interrupt
import Proofs.Interrupt
import Gen.ExecLoop
/-!
# C13  Interrupting running code stops it promptly and leaves the interpreter usable

Theorems about the machine `Interrupt.step` (Model/Interrupt.lean) instantiated with the unroll
structure and poll sites extracted from `fast/code.go` (`Gen.ExecLoop.sites`).  All are for every
program (`Prog` = arbitrary statement streams per function, arbitrary nesting of calls and deferred
calls) and every configuration.
-/
namespace Interrupt
open Gen.ExecLoop

/-! ## obligations over the regenerated table (re-checked whenever the source changes) -/

/-- every examination of the signal word the model relies on is present in `exec`, `reExecWithFlags`,
    `restore` and `spinInterrupt` -/
theorem sites_polls_ok : PollsOK sites := by decide

/-- the longest stretch of statements between two examinations does not exceed the documented 15 -/
theorem maxUnroll_le_documented : maxUnroll sites ≤ 15 := by decide

theorem maxUnroll_pos : 1 ≤ maxUnroll sites := by decide

/-- `exec` hands over to `reExecWithFlags` when `ExecFlags != 0`; `applyAsyncSignal` clears `Async`
    first and its default arm is `panic(SigInterrupt)` (the model's `raise`) -/
theorem apply_async_signal_shape : execDelegates = true ∧ applyClears = true ∧ applyPanics = true := by decide

/-- the only assignments to `Signals.Async` in the sources: `applyAsyncSignal` (clear, then panic =
    `raise`), `Run.interrupt` (set = `Cfg.interrupt`) and `prepareEnv` (clear between evaluations).
    A new writer breaks `interrupt_not_lost`'s link to the code. -/
theorem async_writers_exact : asyncWriters =
    [("fast/code.go:applyAsyncSignal", "Async", "base.SigNone"),
     ("fast/code.go:interrupt", "Async", "sig"),
     ("fast/repl.go:prepareEnv", "Async", "base.SigNone")] := by decide

/-- `Run.interrupt()` turns the interrupt into a debugger request only when BOTH `OptDebugger` and
    `OptCtrlCEnterDebugger` are set; otherwise it stores `SigInterrupt` (the model's `Cfg.interrupt`, assumption
    "debugger off") -/
theorem interrupt_mask_shape :
    interruptMask = "base.OptDebugger | base.OptCtrlCEnterDebugger" ∧
    interruptCond = "run.Options&CtrlCDebug == CtrlCDebug" ∧
    interruptThen = "{ sig = base.SigDebug }" ∧ interruptElse = "{ sig = base.SigInterrupt }" := by decide

/-! ## the polling bound -/

/-- **interrupt_bound (any poll-complete unrolling).**  `Async` set, no panic under way, some activation
    running: after finitely many steps the interrupt panic is raised (exactly one `raise`), at most
    `maxUnroll S + D` statements are executed before that *in total, by all activations* (`D` bounds the
    length of runs of consecutive defer statements, which the second-phase defer loop installs without
    examining the signals), and `Async` stays set until the raise. -/
theorem interrupt_bound_generic {S : Sites} {P : Prog} {D : Nat} (hS : PollsOK S) (hM : 1 ≤ maxUnroll S)
    (hD : DeferRunsLE P D) (c : Cfg) (a : Act) (rest : List Act) (hst : c.stack = a :: rest)
    (hp : c.panic = false) (ha : c.async = true) (hg : Good c a) :
    ∃ t, (stepN S P t c).panic = true ∧ (stepN S P t c).raised = c.raised + 1 ∧
      (stepN S P t c).stmts ≤ c.stmts + maxUnroll S + D ∧
      ∀ u, u < t → (stepN S P u c).async = true ∧ (stepN S P u c).panic = false ∧ (stepN S P u c).raised = c.raised := by
  obtain ⟨t, h1, h2, h3, h4⟩ := bound_aux hS hD (mu S P D c a) c a rest hst hp ha hg (Nat.le_refl _)
  have := phi_le (S := S) hD hM c a
  exact ⟨t, h1, h2, by omega, h4⟩

/-- **interrupt_bound** for the extracted executor: at most 15 (+ longest run of defer statements)
    further statements. -/
theorem interrupt_bound {P : Prog} {D : Nat} (hD : DeferRunsLE P D) (c : Cfg) (a : Act) (rest : List Act)
    (hst : c.stack = a :: rest) (hp : c.panic = false) (ha : c.async = true) (hg : Good c a) :
    ∃ t, (stepN sites P t c).panic = true ∧ (stepN sites P t c).raised = c.raised + 1 ∧
      (stepN sites P t c).stmts ≤ c.stmts + 15 + D ∧
      ∀ u, u < t → (stepN sites P u c).async = true ∧ (stepN sites P u c).panic = false ∧ (stepN sites P u c).raised = c.raised := by
  obtain ⟨t, h1, h2, h3, h4⟩ := interrupt_bound_generic sites_polls_ok maxUnroll_pos hD c a rest hst hp ha hg
  have := maxUnroll_le_documented
  exact ⟨t, h1, h2, by omega, h4⟩

/-- `Good` (used above) is an invariant of every run -/
theorem good_reachable {S : Sites} (hS : PollsOK S) (P : Prog) (c : Cfg) (h : GoodInv c) :
    ∀ t, GoodInv (stepN S P t c) := by
  intro t
  induction t generalizing c with
  | zero => exact h
  | succ t ih => exact ih _ (good_step hS P c h)

theorem good_start (f k : Nat) : GoodInv (start f k) := by
  intro _; simp [start, Good]

/-- **interrupt_bound, reachable form**: in every configuration reached by an evaluation (any program,
    any interrupt point), if `Async` is set while code is running the bound holds. -/
theorem interrupt_bound_reachable {P : Prog} {D : Nat} (hD : DeferRunsLE P D) (f k t₀ : Nat)
    (hrun : (stepN sites P t₀ (start f k)).stack ≠ [])
    (hp : (stepN sites P t₀ (start f k)).panic = false) (ha : (stepN sites P t₀ (start f k)).async = true) :
    ∃ t, (stepN sites P t (stepN sites P t₀ (start f k))).panic = true ∧
      (stepN sites P t (stepN sites P t₀ (start f k))).raised = (stepN sites P t₀ (start f k)).raised + 1 ∧
      (stepN sites P t (stepN sites P t₀ (start f k))).stmts ≤ (stepN sites P t₀ (start f k)).stmts + 15 + D := by
  have hg := good_reachable sites_polls_ok P _ (good_start f k) t₀ hp
  cases hst : (stepN sites P t₀ (start f k)).stack with
  | nil => exact absurd hst hrun
  | cons a rest =>
    simp only [hst] at hg
    obtain ⟨t, h1, h2, h3, _⟩ := interrupt_bound hD _ a rest hst hp ha hg
    exact ⟨t, h1, h2, h3⟩

/-! ## the interrupt propagates: no activation that existed executes another statement -/

/-- **no_stmt_after_interrupt.**  `c₀`: the interrupt panic has just been raised.  Whenever a later step
    executes a statement, the executing activation was opened after the raise (it is a deferred function
    run by Go's panic unwinding, or one of its callees): every activation that was on the stack when the
    interrupt was raised is unwound without executing anything.  (Assumption of the model: deferred
    functions do not `recover()` the interrupt.) -/
theorem no_stmt_after_interrupt (S : Sites) (P : Prog) (c₀ : Cfg) (hp : c₀.panic = true) (t : Nat)
    (h : (step S P (stepN S P t c₀)).stmts ≠ (stepN S P t c₀).stmts) :
    ∃ a rest, (stepN S P t c₀).stack = a :: rest ∧ c₀.clock ≤ a.birth := by
  have h0 : Unwinding c₀.clock c₀ := by
    refine ⟨[], c₀.stack, by simp, by simp, Nat.le_refl _, ?_⟩
    cases c₀.stack with
    | nil => trivial
    | cons o os => exact Or.inl ⟨rfl, hp⟩
  exact (unwinding_step S P c₀.clock _ (unwinding_stepN S P c₀.clock t c₀ h0)).2 h

/-- the activations existing at any time are exactly those with `birth < clock` -/
theorem births_lt_clock (S : Sites) (P : Prog) (c : Cfg) (h : ∀ a ∈ c.stack, a.birth < c.clock) :
    ∀ a ∈ (step S P c).stack, a.birth < (step S P c).clock := by
  cases hst : c.stack with
  | nil =>
    have : step S P c = c := by simp [step, hst]
    rw [this]; exact h
  | cons a rest =>
    have ha : a.birth < c.clock := h a (by simp [hst])
    have hr : ∀ x ∈ rest, x.birth < c.clock := fun x hx => h x (by simp [hst, hx])
    obtain ⟨hc, h1 | ⟨a', h2, h3⟩ | ⟨nw, a', h2, h3, h4, h5⟩⟩ := step_shape S P c a rest hst
    · intro x hx; rw [h1] at hx; have := hr x hx; omega
    · intro x hx
      rw [h2] at hx; simp at hx
      rcases hx with hx | hx
      · subst hx; omega
      · have := hr x hx; omega
    · intro x hx
      rw [h2] at hx; simp at hx
      rcases hx with hx | hx | hx
      · subst hx; omega
      · subst hx; omega
      · have := hr x hx; omega

/-! ## the interrupt is not lost -/

theorem raised_mono (S : Sites) (P : Prog) : ∀ t (c : Cfg), c.raised ≤ (stepN S P t c).raised := by
  intro t
  induction t with
  | zero => intro c; exact Nat.le_refl _
  | succ t ih =>
    intro c
    have h1 := ih (step S P c)
    rcases raised_cases S P c with h | h
    · simp only [stepN]; omega
    · simp only [stepN]; omega

/-- **interrupt_not_lost.**  No transition of the executor clears `Async` without raising the interrupt
    panic: as long as no interrupt was raised, a pending `Async` is still pending (whatever the program
    does: calls, returns, deferred calls, panics of an earlier interrupt being unwound). -/
theorem interrupt_not_lost (S : Sites) (P : Prog) : ∀ t (c : Cfg), c.async = true →
    (stepN S P t c).raised = c.raised → (stepN S P t c).async = true := by
  intro t
  induction t with
  | zero => intro c ha _; exact ha
  | succ t ih =>
    intro c ha hr
    simp only [stepN] at hr ⊢
    rcases async_kept S P c ha with h | h
    · apply ih _ h
      have := raised_mono S P t (step S P c)
      rcases raised_cases S P c with h' | h'
      · omega
      · omega
    · have := raised_mono S P t (step S P c)
      omega

/-- the interrupt panic is raised only for a pending `Async` (no spurious interrupt), and raising consumes it -/
theorem raise_needs_async (S : Sites) (P : Prog) (c : Cfg) (h : (step S P c).raised ≠ c.raised) :
    c.async = true ∧ (step S P c).raised = c.raised + 1 ∧ (step S P c).panic = true := by
  rcases raised_cases S P c with h' | h'
  · exact absurd h' h
  · exact ⟨h'.2.1, h'.1, h'.2.2⟩

/-- the one other place that clears `Async`: `prepareEnv`, between evaluations -/
theorem prepareEnv_clears (c : Cfg) : (prepareEnv c).async = false ∧ (prepareEnv c).sync = .none := ⟨rfl, rfl⟩

/-! ## afterwards the interpreter is usable (signal part; ExecFlags/CurrEnv/... are C12's `abort_restores`) -/

/-- **after_interrupt_usable.**  Whatever state the aborted evaluation left in the signal word, after
    `prepareEnv` the word is empty and the first poll of the next evaluation (function `f`, interrupt
    schedule `k`) does not raise: a stale interrupt cannot kill a later evaluation. -/
theorem after_interrupt_usable (S : Sites) (P : Prog) (c : Cfg) (f : Nat) :
    (prepareEnv c).isEmpty = true ∧
    (step S P { prepareEnv c with stack := [{ fn := f, birth := c.clock }], panic := false }).raised = c.raised ∧
    (step S P { prepareEnv c with stack := [{ fn := f, birth := c.clock }], panic := false }).panic = false := by
  have hr : ∀ (p : Prop) [Decidable p] (a b : Cfg), a.raised = c.raised → b.raised = c.raised →
      (if p then a else b).raised = c.raised := by intro p _ a b h1 h2; split <;> assumption
  have hq : ∀ (p : Prop) [Decidable p] (a b : Cfg), a.panic = false → b.panic = false →
      (if p then a else b).panic = false := by intro p _ a b h1 h2; split <;> assumption
  refine ⟨by simp [prepareEnv, Cfg.isEmpty], ?_, ?_⟩ <;>
    simp only [step, prepareEnv, Bool.false_eq_true, ↓reduceIte, Bool.and_false]
  · exact hr _ _ _ rfl rfl
  · exact hq _ _ _ rfl rfl

/-! ## non-vacuity -/

/-- `for { hook() }` : hook, jump, hook, jump, ... -/
def exLoop : Prog := { body := fun _ n => if n % 2 = 0 then .hook false else .simple, withDefers := fun _ => false }

theorem exLoop_noDefers : DeferRunsLE exLoop 0 := by
  intro f n
  simp only [defRun, exLoop]
  split <;> simp_all [isDfr]

/-- after 6 steps the hook has interrupted (3rd call = 5th statement), code is still running:
    the hypotheses of `interrupt_bound_reachable` hold -/
example : (stepN sites exLoop 6 (start 0 3)).stack ≠ [] ∧ (stepN sites exLoop 6 (start 0 3)).panic = false ∧
    (stepN sites exLoop 6 (start 0 3)).async = true ∧ (stepN sites exLoop 6 (start 0 3)).stmts = 5 := by decide

/-- ... and the raise indeed happens 9 statements later (end of the first round of 14), as the real interpreter does -/
example : (stepN sites exLoop 18 (start 0 3)).panic = true ∧ (stepN sites exLoop 18 (start 0 3)).raised = 1 ∧
    (stepN sites exLoop 18 (start 0 3)).stmts = 14 ∧ (stepN sites exLoop 17 (start 0 3)).panic = false := by decide

example : ∃ t, (stepN sites exLoop t (stepN sites exLoop 6 (start 0 3))).panic = true ∧
      (stepN sites exLoop t (stepN sites exLoop 6 (start 0 3))).raised = (stepN sites exLoop 6 (start 0 3)).raised + 1 ∧
      (stepN sites exLoop t (stepN sites exLoop 6 (start 0 3))).stmts ≤ (stepN sites exLoop 6 (start 0 3)).stmts + 15 + 0 :=
  interrupt_bound_reachable exLoop_noDefers 0 3 6 (by decide) (by decide) (by decide)

/-- a function with a deferred call interrupted in its body: the deferred function (opened after the raise) runs, the body does not -/
def exDefer : Prog :=
  { body := fun f n => if f = 0 then (if n = 0 then .dfr 1 false else if n < 40 then .hook false else .ret)
                       else (if n = 0 then .hook true else .ret),
    withDefers := fun f => f == 0 }

example : (stepN sites exDefer 20 (start 0 2)).panic = true ∧ (stepN sites exDefer 20 (start 0 2)).raised = 1 := by decide
/-- hypothesis of `no_stmt_after_interrupt` satisfiable with a statement really executed after the raise (by the deferred function) -/
example : (step sites exDefer (stepN sites exDefer 3 (stepN sites exDefer 20 (start 0 2)))).stmts ≠
    (stepN sites exDefer 3 (stepN sites exDefer 20 (start 0 2))).stmts := by decide

end Interrupt
