import Model.Imports
import Proofs.Imports
import Gen.ImportTables

/-!
# C31  Precompiled import tables bind each name to exactly that exported symbol

`Gen.ImportTables.allFiles` is regenerated from /repo on every run (harness/c31_extract.go): every
`Packages[path] = Package{...}` table of imports/*.go, imports/thirdparty/*.go, imports/syscall/*.go
(all platforms) with the syntax of every bound expression, the import clauses, and every proxy
struct with its methods.  Each chunk module `Gen.ImportTables<i>` carries the kernel-checked fact
`files_ok : files.all fileOk = true`; the theorems below state, entry by entry, what that means.
A source change that breaks one of them (a key bound to another symbol, a swapped package alias, a
proxy forwarding to the wrong field or in the wrong order, an unrecognised expression) makes the
build of this module fail.

What "the same function / variable / constant" means for the Go expression `ValueOf(pkg.Sym)` is
Go's own semantics (trusted); its run-time counterpart (code pointer / address / exact value
identity against the harness's own compiled references) is the oracle in harness/c31.go.
-/
namespace Imports
open Gen.ImportTables

/-- every regenerated table file passes the well-formedness check (kernel-evaluated per chunk) -/
theorem tables_ok : ∀ f ∈ allFiles, fileOk f = true := by
  intro f hf
  have h := chunks_ok
  simp only [List.all_eq_true] at h
  obtain ⟨ch, hch, hfc⟩ := List.mem_flatten.mp hf
  exact h ch hch f hfc

theorem tables_spec : ∀ f ∈ allFiles, FileSpec f := fun f hf => fileOk_spec f (tables_ok f hf)

/-- **Binds.**  Every entry `"Key": <expr>` of every `Binds` map has one of the recognised shapes
    `ValueOf(a.Sym)`, `ValueOf(&a.Sym).Elem()`, `ValueOf(T(a.Sym))` (T a basic numeric type), the
    selector name `Sym` IS the key, and the file's import clause maps the alias `a` to the path
    under which the table is registered (inside the package itself: unqualified `Sym`, and the
    table path is the file's own package). -/
theorem binds_name_eq_symbol : ∀ f ∈ allFiles, ∀ ch ∈ f.binds, ∀ e ∈ ch,
    declaresPkg f e.path = true ∧
    ((∃ a, (e.form = .plain a e.key ∨ e.form = .addr a e.key ∨
            ∃ t, e.form = .conv t a e.key ∧ basicConvTypes.contains t = true) ∧
           lookupAlias f a = some e.path) ∨
     (f.kind = .inception ∧ e.path = f.ownPath ∧
        (e.form = .localPlain e.key ∨ e.form = .localAddr e.key ∨
         ∃ t, e.form = .localConv t e.key ∧ basicConvTypes.contains t = true))) := by
  intro f hf ch hch e he
  have h := (tables_spec f hf).binds ch hch e he
  exact ⟨h.1, valTarget_spec f e.form e.path e.key h.2⟩

/-- **Types.**  Every entry of every `Types` map is `TypeOf((*a.Key)(nil)).Elem()` with `a` imported
    from the table's path: the listed type is the type of that name in that package. -/
theorem types_name_eq_symbol : ∀ f ∈ allFiles, ∀ ch ∈ f.types, ∀ e ∈ ch,
    declaresPkg f e.path = true ∧
    ((∃ a, e.form = .named a e.key ∧ lookupAlias f a = some e.path) ∨
     (f.kind = .inception ∧ e.path = f.ownPath ∧ e.form = .localNamed e.key)) := by
  intro f hf ch hch e he
  have h := (tables_spec f hf).types ch hch e he
  exact ⟨h.1, typeTarget_spec f e.form e.path e.key h.2⟩

/-- **Aliases.**  In every file an import alias names one package only, an alias that resolves is a
    member of the import clause, and a file living inside a package registers only that package. -/
theorem alias_is_path : ∀ f ∈ allFiles,
    (f.aliases.map (·.1)).Nodup ∧
    (∀ a p, lookupAlias f a = some p → (a, p) ∈ f.aliases) ∧
    (f.kind = .inception → ∀ p ∈ f.pkgs, p.1 = f.ownPath) := by
  intro f hf
  have h := (tables_spec f hf).aliases
  simp only [aliasesOk, Bool.and_eq_true, decide_eq_true_eq, List.all_eq_true, Bool.or_eq_true,
    bne_iff_ne, ne_eq, beq_iff_eq] at h
  refine ⟨h.1, fun a p => lookupAlias_mem f a p, ?_⟩
  intro hk p hp
  rcases h.2 p hp with h1 | h1
  · exact absurd hk h1
  · exact h1

/-- **Proxies.**  Every proxy struct declared in the tables is well formed (`proxyOk`: first field
    `Object interface{}`, then exactly one func field `M_` per method `M` whose first parameter is
    `interface{}` and whose remaining parameter and result types are the method's; the method body is
    `[return] P.M_(P.Object, p1, ..., pn[...])` with the parameters in order), and every `Proxies`
    entry refers to such a struct of the same file, for an interface listed in `Types`. -/
theorem proxy_wellformed : ∀ f ∈ allFiles,
    (∀ d ∈ f.decls, proxyOk d = true) ∧
    (∀ ch ∈ f.proxies, ∀ e ∈ ch, ∃ s, e.form = .localNamed s ∧ (∃ d ∈ f.decls, d.name = s) ∧
        ∃ cht ∈ f.types, ∃ t ∈ cht, t.path = e.path ∧ t.key = e.key) := by
  intro f hf
  refine ⟨(tables_spec f hf).decls, ?_⟩
  intro ch hch e he
  have h := ((tables_spec f hf).proxies ch hch e he).2
  simp only [proxyEntryOk, Bool.and_eq_true, List.any_eq_true, beq_iff_eq] at h
  obtain ⟨h1, cht, hcht, t, ht, hp, hk⟩ := h
  cases hform : e.form with
  | named a s => simp [hform] at h1
  | opaq => simp [hform] at h1
  | localNamed s =>
    simp only [hform, List.any_eq_true, beq_iff_eq] at h1
    obtain ⟨d, hd, hn⟩ := h1
    exact ⟨s, rfl, ⟨d, hd, hn⟩, cht, hcht, t, ht, hp, hk⟩

/-- **Forwarding, general.**  For EVERY proxy declaration accepted by `proxyOk` (not only the
    extracted ones), every method, every proxy value, argument list of the right length and state:
    the call runs the func field `M_` exactly once on `object :: args` and returns its results. -/
theorem proxy_forwarding {V σ : Type} (d : ProxyDecl) (hd : proxyOk d = true) (m : MethodDecl)
    (hm : m ∈ d.methods) (p : Proxy V σ) (args : List V) (s : σ) (fn : List V → σ → List V × σ)
    (hl : args.length = m.params.length) (hf : p.field (Str.underscore m.name) = some fn) :
    callMethod d p m.name args s =
      some (if m.results.isEmpty then ([], (fn (p.object :: args) s).2) else fn (p.object :: args) s) :=
  Imports.proxy_forwarding_gen d hd m hm p args s fn hl hf

/-- **Forwarding on the tables.**  Every proxy method of every table file forwards. -/
theorem proxy_forwarding_tables {V σ : Type} : ∀ f ∈ allFiles, ∀ d ∈ f.decls, ∀ m ∈ d.methods,
    ∀ (p : Proxy V σ) (args : List V) (s : σ) (fn : List V → σ → List V × σ),
    args.length = m.params.length → p.field (Str.underscore m.name) = some fn →
    callMethod d p m.name args s =
      some (if m.results.isEmpty then ([], (fn (p.object :: args) s).2) else fn (p.object :: args) s) :=
  fun f hf d hd m hm p args s fn hl hfn =>
    Imports.proxy_forwarding_gen d ((tables_spec f hf).decls d hd) m hm p args s fn hl hfn

/-- the func field has the method's signature with the object (`interface{}`) prepended -/
theorem proxy_field_signature_tables : ∀ f ∈ allFiles, ∀ d ∈ f.decls, ∀ m ∈ d.methods,
    ∃ fd p0 rest, fd ∈ d.fields ∧ fd.name = Str.underscore m.name ∧ fd.isFunc = true ∧
      fd.params = p0 :: rest ∧ p0.ty = interfaceEmpty ∧
      paramTypes rest = paramTypes m.params ∧ paramTypes fd.results = paramTypes m.results :=
  fun f hf d hd m hm => proxy_field_signature d ((tables_spec f hf).decls d hd) m hm

/-- **Untyped constants.**  Every `Untypeds` string has the form `kind:ExactString` and decodes to a
    value (`untypedDecode`: canonical decimal integers, fractions in lowest terms), and the same name
    is bound in `Binds` by a constant-shaped expression (the loader consults `Untypeds` through
    `Binds`).  Equality of the decoded value with the value Go assigns is the run-time oracle. -/
theorem untyped_decodes : ∀ f ∈ allFiles, ∀ ch ∈ f.untypeds, ∀ e ∈ ch,
    (∃ v, untypedDecode e.val = some v) ∧
    ∃ b ∈ f.binds.flatten, b.path = e.path ∧ b.key = e.key ∧ constShaped b.form = true := by
  intro f hf ch hch e he
  have h := ((tables_spec f hf).untypeds ch hch e he).2
  have hb := (tables_spec f hf).untypedsBound
  refine ⟨Option.isSome_iff_exists.mp (by simpa [untypedOk] using h), ?_⟩
  have hmem : (e.path, e.key) ∈ (f.untypeds.flatten.map (fun e => (e.path, e.key))) :=
    List.mem_map.mpr ⟨e, List.mem_flatten.mpr ⟨ch, hch, he⟩, rfl⟩
  have := subseqKeys_mem _ _ hb _ hmem
  obtain ⟨b, hbm, hbe⟩ := List.mem_map.mp this
  simp only [List.mem_filter] at hbm
  simp only [Prod.mk.injEq] at hbe
  exact ⟨b, hbm.1, hbe.1, hbe.2, hbm.2⟩

/-- **Wrappers.**  Every wrapper list is non-empty, duplicate free and belongs to a type listed in
    `Types` of the same package.  (That the listed methods are promoted ones is checked against
    go/types method sets by the run-time oracle.) -/
theorem wrappers_for_listed_types : ∀ f ∈ allFiles, ∀ ch ∈ f.wrappers, ∀ e ∈ ch,
    e.methods ≠ [] ∧ e.methods.Nodup ∧
    ∃ cht ∈ f.types, ∃ t ∈ cht, t.path = e.path ∧ t.key = e.key := by
  intro f hf ch hch e he
  have h := ((tables_spec f hf).wrappers ch hch e he).2
  simp only [wrapperOk, Bool.and_eq_true, List.any_eq_true, beq_iff_eq, decide_eq_true_eq,
    Bool.not_eq_true', List.isEmpty_eq_false_iff] at h
  obtain ⟨⟨h1, h2⟩, cht, hcht, t, ht, hp, hk⟩ := h
  exact ⟨h1, h2, cht, hcht, t, ht, hp, hk⟩

/-- the `Str` encoding used by the tables is injective: equal codes are equal byte strings -/
theorem str_encoding_injective (l₁ l₂ : List Nat) (h₁ : ∀ b ∈ l₁, b < 256) (h₂ : ∀ b ∈ l₂, b < 256)
    (h : Str.ofBytes l₁ = Str.ofBytes l₂) : l₁ = l₂ := Str.ofBytes_injective l₁ l₂ h₁ h₂ h

/-! ## Non-vacuity -/

/-- the regenerated tables are not empty: more than 100 files, more than 20000 bind entries -/
example : allFiles.length > 100 ∧ (allFiles.map (fun f => (f.binds.map List.length).sum)).sum > 20000 := by
  decide +kernel

/-- a concrete proxy (io.ReadWriter-like, with a variadic and a result-less method) is well formed,
    and the forwarding theorem computes on it -/
def exProxy : ProxyDecl := {
  name := 0x1505f78
  fields := [
    ⟨objectName, false, interfaceEmpty, [], []⟩,
    ⟨Str.underscore 0x152656164, true, 1, [⟨1, interfaceEmpty, false⟩, ⟨0x170, 0x15b5d62797465, false⟩],
      [⟨0x16e, 0x1696e74, false⟩, ⟨0x1657272, 0x16572726f72, false⟩]⟩,
    ⟨Str.underscore 0x14c6f67, true, 1, [⟨1, interfaceEmpty, false⟩, ⟨0x166, 0x1737472696e67, false⟩, ⟨0x161, interfaceEmpty, true⟩], []⟩ ]
  methods := [
    ⟨0x150, 0x1505f78, 0x152656164, [⟨0x170, 0x15b5d62797465, false⟩],
      [⟨0x16e, 0x1696e74, false⟩, ⟨0x1657272, 0x16572726f72, false⟩],
      .ret ⟨0x150, Str.underscore 0x152656164, [.recvField 0x150 objectName, .ident 0x170 false]⟩⟩,
    ⟨0x150, 0x1505f78, 0x14c6f67, [⟨0x166, 0x1737472696e67, false⟩, ⟨0x161, interfaceEmpty, true⟩], [],
      .expr ⟨0x150, Str.underscore 0x14c6f67, [.recvField 0x150 objectName, .ident 0x166 false, .ident 0x161 true]⟩⟩ ] }

example : proxyOk exProxy = true := by decide

/-- a proxy whose body swaps two arguments, or forwards to another field, is rejected -/
example : proxyOk { exProxy with methods := exProxy.methods.map (fun m =>
    { m with body := match m.body with
      | .expr c => .expr { c with args := [.recvField 0x150 objectName, .ident 0x161 true, .ident 0x166 false] }
      | b => b }) } = false := by decide

example : callMethod (V := Nat) (σ := List (List Nat)) exProxy
    ⟨7, fun n => if n == Str.underscore 0x152656164 then some (fun a s => ([a.length, 0], a :: s)) else none⟩
    0x152656164 [42] [] = some ([2, 0], [[7, 42]]) := by decide

/-- untyped strings decode: "int:-5", "float:1/3"; "int:007" and "float:2/4" are rejected -/
example : untypedDecode 0x1696e743a2d35 = some (.int (-5)) := by decide
example : untypedDecode 0x1666c6f61743a312f33 = some (.float 1 3) := by decide
example : untypedDecode 0x1696e743a303037 = none := by decide
example : untypedDecode 0x1666c6f61743a322f34 = none := by decide

end Imports
