import Proofs.ReadMulti
/-! C26 — the multiline reader splits input losslessly at complete-statement boundaries.

Theorems about `Model/ReadMulti.lean` (the transcription of base/read.go as repaired by
fixes/C26-*.diff) against the reference lexer `GoSpec/Lex.lean`.  All statements quantify over
every byte string / every list of lines; the Readline contract `WF` (a line without EOF ends in its
only newline) is the only assumption about the input. -/
namespace ReadMulti
open GoLex

/-- **mode_tracks_reference** (one byte): the mode and `paren` of the machine, read through `abs`,
    move exactly like the reference lexer; the machine reports a literal error exactly when the
    reference sees a newline inside an interpreted string or rune literal.  (Inside a line comment
    the newline is handled after the byte loop: see `mode_tracks_reference_line`.) -/
theorem mode_tracks_reference (s : St) (pos : Int) (ch : UInt8)
    (h : ¬(s.m = .lineComment ∧ classify ch = .nl)) :
    match step s pos ch with
    | .ok s' _ => rstep (abs s) ch = abs s'
    | .err _ => (rstep (abs s) ch).lex = .bad := by
  have := step_tracks s pos ch h
  cases hst : step s pos ch <;> simp [hst] at this ⊢ <;> exact this.1

/-- **mode_tracks_reference** (one complete line `body ++ ['\n']`, any start state, any length):
    after the byte loop and the reset of `mLineComment` the machine state abstracts to the reference
    state; an error return means the reference state is `bad`; the index panic is impossible
    to reach from a line start only via `#` pending from an unterminated previous line. -/
theorem mode_tracks_reference_line (base : Int) (body : List UInt8) (nl : UInt8) (hnl : classify nl = .nl)
    (s : St) (hn : NoNl body) :
    match runLine base s 0 (body ++ [nl]) [] with
    | .done s' _ => rlexFrom (abs s) (body ++ [nl]) = abs (eolMode s')
    | .err _ _ _ => (rlexFrom (abs s) (body ++ [nl])).lex = .bad
    | .panic => True :=
  runLine_line base body nl hnl s hn

/-- **chunk_end_outside_literal**: when a call of ReadMultiline returns a chunk without error
    (i.e. it decided to cut), the reference lexer, run over exactly the bytes the call consumed,
    is in code context: not inside a string, raw string, rune, line or block comment, and not
    between the two bytes of `//`, `/*`, `#!`, `~'`. -/
theorem chunk_end_outside_literal (optAll : Bool) (reads : List Read) (hwf : WF reads)
    (h : (readMultiline optAll reads).1.err = .nil) :
    (rlex (readMultiline optAll reads).1.orig).lex = .code := by
  obtain ⟨d, hd, _⟩ := (readLoop_tracks optAll reads init [] [] hwf rfl).1 h
  unfold readMultiline; rw [hd]

/-- **chunk_end_balanced** (one call): at a cut the reference bracket depth of the consumed bytes
    is not positive — no bracket is open. -/
theorem chunk_end_balanced (optAll : Bool) (reads : List Read) (hwf : WF reads)
    (h : (readMultiline optAll reads).1.err = .nil) :
    (rlex (readMultiline optAll reads).1.orig).depth ≤ 0 := by
  obtain ⟨d, hd, hle⟩ := (readLoop_tracks optAll reads init [] [] hwf rfl).1 h
  unfold readMultiline; rw [hd]; exact hle

/-- **chunk_end_balanced** (whole stream, any number of calls): if the reference bracket depth of the
    stream never goes negative (`NonNeg`: no closing bracket without its opening one) and the calls
    before reported no error, then at EVERY cut the reference lexer, run over the whole stream read so
    far, is in code context at bracket depth exactly 0 — every chunk boundary is outside literals and
    comments with all brackets closed.  (`pre` = what was read before, ending at such a boundary.) -/
theorem chunk_end_balanced_stream (optAll : Bool) (fuel : Nat) (reads : List Read) (pre : List UInt8)
    (hwf : WF reads) (hpre : rlex pre = ⟨.code, 0⟩) (hnn : NonNeg pre (reads.map (·.line)).flatten)
    (cs₁ : List Chunk) (c : Chunk) (cs₂ : List Chunk) (hsplit : readAll optAll fuel reads = cs₁ ++ c :: cs₂)
    (hall : ∀ c' ∈ cs₁, c'.err = .nil) (hc : c.err = .nil) :
    rlex (pre ++ (cs₁.map (·.orig)).flatten ++ c.orig) = ⟨.code, 0⟩ :=
  readAll_balanced optAll fuel reads pre hwf hpre hnn cs₁ c cs₂ hsplit hall hc

/-- **literal_error_sound**: "unexpected character inside string/rune literal" is returned only
    for input in which a newline occurs inside an interpreted string or rune literal
    (so never for lexically valid source: tabs and other control characters are accepted). -/
theorem literal_error_sound (optAll : Bool) (reads : List Read) (hwf : WF reads) (b : Bool)
    (h : (readMultiline optAll reads).1.err = .lit b) :
    (rlex (readMultiline optAll reads).1.orig).lex = .bad :=
  (readLoop_tracks optAll reads init [] [] hwf rfl).2 b h

/-- **no_cut_after_continuation**: in the middle of any call (state `s`, bytes `buf`/`orig` so far),
    if the next line is `pre ++ ch :: ws` with `ws` blank and `ch` a trailing binary operator or comma
    (`ContTail`: one of ! * , % & : < = > ^ | in code context; a '/' not completing `//`; a '+'/'-'
    not completing `++`/`--`) at bracket depth 0, the chunk does not end at this line: the same call
    goes on with the next Read. -/
theorem no_cut_after_continuation (optAll : Bool) (rd : Read) (rest : List Read) (s : St)
    (buf orig pre ws : List UInt8) (ch : UInt8) (s₁ : St) (acc₁ : List UInt8)
    (hline : rd.line = pre ++ ch :: ws) (heof : rd.eof = false)
    (hpre : runLine (↑buf.length) s 0 pre [] = .done s₁ acc₁)
    (hws : ∀ c ∈ ws, isBlank (classify c) = true) (htail : ContTail s₁ ch ws) :
    ∃ s'' buf'', readLoop optAll (rd :: rest) s buf orig = readLoop optAll rest s'' buf'' (orig ++ rd.line) := by
  obtain ⟨s₂, out, hrun, _, hig⟩ := tail_continues (↑buf.length) s₁ ch ws (0 + pre.length) acc₁.reverse hws htail
  have hfull : runLine (↑buf.length) s 0 rd.line [] = .done s₂ out := by
    rw [hline, runLine_append, hpre]; exact hrun
  obtain ⟨s'', h⟩ := readLoop_continues optAll rd rest s buf orig s₂ out hfull heof (Or.inl hig)
  exact ⟨s'', _, h⟩

/-- **no_cut_inside_bracket**: if the machine is in step with the reference at the start of a line
    and the reference bracket depth after the line is positive, the chunk does not end there. -/
theorem no_cut_inside_bracket (optAll : Bool) (rd : Read) (rest : List Read) (s : St)
    (buf orig : List UInt8) (hinv : rlex orig = abs s) (hterm : TermLine rd.line) (heof : rd.eof = false)
    (s' : St) (out : List UInt8) (hrun : runLine (↑buf.length) s 0 rd.line [] = .done s' out)
    (hopen : (rlex (orig ++ rd.line)).depth > 0) :
    ∃ s'', readLoop optAll (rd :: rest) s buf orig = readLoop optAll rest s'' (buf ++ out) (orig ++ rd.line) := by
  obtain ⟨body, nl, hl, hnl, hbody⟩ := hterm
  have hline := runLine_line (↑buf.length) body nl hnl s hbody
  rw [← hl, hrun] at hline
  simp only at hline
  have hd : (rlex (orig ++ rd.line)).depth = s'.paren := by
    rw [rlex_append, hinv, hline]; unfold abs eolMode; split <;> rfl
  exact readLoop_continues optAll rd rest s buf orig s' out hrun heof (Or.inr (by omega))

/-- **chunks_concat** (one call): the returned bytes are the consumed input with `#!` turned into `//`
    (`Rw`: equal except that adjacent input bytes `#` `!` may appear as `/` `/`); after a literal
    error they are such an image of a prefix of the consumed input.  For ALL lists of lines. -/
theorem chunk_is_input (optAll : Bool) (reads : List Read) :
    ChunkRw (readMultiline optAll reads).1 :=
  readLoop_rw optAll reads init [] [] Rw.nil

/-- **chunks_concat** (the caller's loop, any number of calls): if no call reported a literal error,
    the concatenation of all returned chunks followed by the lines not yet read is the input stream,
    modulo the `#!` -> `//` rewrite.  Nothing is lost, duplicated or reordered. -/
theorem chunks_concat (optAll : Bool) (fuel : Nat) (reads : List Read)
    (hok : ∀ c ∈ readAll optAll fuel reads, (∀ b, c.err ≠ .lit b) ∧ c.err ≠ .panic) :
    Rw (reads.map (·.line)).flatten
      (((readAll optAll fuel reads).map (·.bytes)).flatten ++ ((readAllRest optAll fuel reads).map (·.line)).flatten) := by
  rw [← readAll_consumes optAll fuel reads]
  exact Rw.append (readAll_rw optAll fuel reads hok) (Rw.refl _)

/-- ... and byte-for-byte equal when the stream contains no `#!` at all -/
theorem chunks_concat_exact (optAll : Bool) (fuel : Nat) (reads : List Read)
    (hok : ∀ c ∈ readAll optAll fuel reads, (∀ b, c.err ≠ .lit b) ∧ c.err ≠ .panic)
    (hno : ∀ p q : List UInt8, (reads.map (·.line)).flatten ≠ p ++ 35 :: 33 :: q) :
    (reads.map (·.line)).flatten =
      ((readAll optAll fuel reads).map (·.bytes)).flatten ++ ((readAllRest optAll fuel reads).map (·.line)).flatten :=
  Rw.eq_of_no_hashbang (chunks_concat optAll fuel reads hok) hno

/-! ### obligations over the regenerated keyword table (etoken.Lookup) -/

/-- every word of the table can be the result of the a-z scan of `lastIsKeywordIgnoresNl` -/
theorem keywords_lowercase : ∀ w ∈ Gen.ReadKeywords.continuing, w ≠ [] ∧ w.all isLower = true := by decide

/-- break/continue/fallthrough/return end a statement; func/go/var/type/else/... continue it -/
theorem keywords_split :
    [98, 114, 101, 97, 107] ∉ Gen.ReadKeywords.continuing ∧
    [99, 111, 110, 116, 105, 110, 117, 101] ∉ Gen.ReadKeywords.continuing ∧
    [102, 97, 108, 108, 116, 104, 114, 111, 117, 103, 104] ∉ Gen.ReadKeywords.continuing ∧
    [114, 101, 116, 117, 114, 110] ∉ Gen.ReadKeywords.continuing ∧
    [102, 117, 110, 99] ∈ Gen.ReadKeywords.continuing ∧ [103, 111] ∈ Gen.ReadKeywords.continuing ∧
    [118, 97, 114] ∈ Gen.ReadKeywords.continuing ∧ [116, 121, 112, 101] ∈ Gen.ReadKeywords.continuing ∧
    [101, 108, 115, 101] ∈ Gen.ReadKeywords.continuing ∧ [100, 101, 102, 101, 114] ∈ Gen.ReadKeywords.continuing := by
  decide

/-! ### non-vacuity: concrete runs -/

/-- "y = a/(\n" "b)\n" "z\n": F6's input — the repaired machine keeps both lines in one chunk and cuts there -/
example :
    let r := readMultiline false
      [⟨[121, 32, 61, 32, 97, 47, 40, 10], false⟩, ⟨[98, 41, 10], false⟩, ⟨[122, 10], false⟩]
    r.1.err = .nil ∧ r.1.bytes.length = 11 ∧ r.1.firstToken = 0 ∧ r.2.length = 1 := by decide

/-- the reference lexer on the same bytes: code context, depth 0 at the cut, depth 1 after the first line -/
example : rlex [121, 32, 61, 32, 97, 47, 40, 10, 98, 41, 10] = ⟨.code, 0⟩ ∧
    rlex [121, 32, 61, 32, 97, 47, 40, 10] = ⟨.code, 1⟩ := by decide

/-- "q := a/'x'\n": no literal error (F6's second input) -/
example : (readMultiline false [⟨[113, 32, 58, 61, 32, 97, 47, 39, 120, 39, 10], false⟩]).1.err = .nil := by decide

/-- "s = \"a\n": a newline inside a string literal is the error case of `literal_error_sound` -/
example : (readMultiline false [⟨[115, 32, 61, 32, 34, 97, 10], false⟩]).1.err = .lit false ∧
    (rlex [115, 32, 61, 32, 34, 97, 10]).lex = .bad := by decide

/-- hypotheses of `no_cut_after_continuation` hold for the line "y = x *\n" (pre = "y = x ", ch = '*') -/
example : ∃ s₁ acc₁, runLine 0 init 0 [121, 32, 61, 32, 120, 32] [] = .done s₁ acc₁ ∧ ContTail s₁ 42 [10] :=
  ⟨_, _, rfl, by unfold ContTail; decide⟩

/-- ... and for "y = x /\n" and "y = x -\n" -/
example : ∃ s₁ acc₁, runLine 0 init 0 [121, 32, 61, 32, 120, 32] [] = .done s₁ acc₁ ∧
    ContTail s₁ 47 [10] ∧ ContTail s₁ 45 [32, 10] :=
  ⟨_, _, rfl, by unfold ContTail; decide, by unfold ContTail; decide⟩

/-- `WF` is satisfiable by a non-trivial stream, and "#!" is rewritten -/
example : (readMultiline true [⟨[35, 33, 120, 10], false⟩, ⟨[97, 10], false⟩]).1.bytes = [47, 47, 120, 10, 97, 10] := by
  decide

/-- the caller's loop on "#!x\n" "a +\n" "b\n" "c\n": three calls (the last reports EOF), everything read,
    no error: the hypotheses of `chunks_concat` hold and its conclusion is not trivial -/
example :
    let reads : List Read := [⟨[35, 33, 120, 10], false⟩, ⟨[97, 32, 43, 10], false⟩, ⟨[98, 10], false⟩, ⟨[99, 10], false⟩]
    (readAll false 9 reads).map (·.bytes) = [[47, 47, 120, 10], [97, 32, 43, 10, 98, 10], [99, 10], []] ∧
    readAllRest false 9 reads = [] ∧
    (∀ c ∈ readAll false 9 reads, (∀ b, c.err ≠ .lit b) ∧ c.err ≠ .panic) := by decide

/-- `chunk_end_balanced_stream` is not vacuous: "f(\n" "1)\n" "g()\n" gives cuts after line 2 and line 3,
    the first two chunks have err = nil, and the depth of the stream is never negative -/
example :
    let reads : List Read := [⟨[102, 40, 10], false⟩, ⟨[49, 41, 10], false⟩, ⟨[103, 40, 41, 10], false⟩]
    (readAll false 9 reads).map (·.err) = [.nil, .nil, .eof] ∧
    (readAll false 9 reads).map (·.orig) = [[102, 40, 10, 49, 41, 10], [103, 40, 41, 10], []] ∧
    (∀ k, k ≤ 10 → 0 ≤ (rlex ((reads.map (·.line)).flatten.take k)).depth) := by decide

end ReadMulti
