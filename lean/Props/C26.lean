import Model.ReadMulti
namespace ReadMulti
theorem wip : init.paren = 0 := rfl
end ReadMulti
