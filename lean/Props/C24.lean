import Model.ParseTop
import Model.ParseExpr
import Model.ParseWhitelist
import Gen.ParseDispatch
import Proofs.ParseTop
import Proofs.ParseExpr
import Proofs.GoTables
/-!
# C24 — the forked parser parses extension-free Go like go/parser (see notes/C24.md)

What is proved here, on the model:
* `top_dispatch_file`: on a token stream that go/parser's parseFile accepts, Parser.Parse's loop (global.go) returns
  the package clause followed by exactly parseFile's Decls in order, without error, never taking the
  statement/expression arm — for ALL productions (parameters), under the `Sane` facts.
* `parse_binary_prec`, `parse_binary_unique`, `parse_binary_sound`: the expression core (precedence climbing,
  prefix operators, primary expressions) returns THE tree that respects precedence and left associativity.
* obligations over the tables regenerated from both parsers' sources (`decide`).
PARTIAL: the ~2700 lines of other productions are compared by the differential run only (harness/c24.go).
-/
namespace ParseTop

open Gen.ParseDispatch

/-- **top_dispatch_file** -/
theorem top_dispatch_file {τ ν : Type} (P : Parsers τ ν) (hs : Sane P) (toks : List τ) (pk : ν) (ds : List ν)
    (hstd : stdFile P toks = some (pk, ds, 0)) :
    (forkParse P toks).out = pk :: ds ∧ (forkParse P toks).errs = 0 ∧ (forkParse P toks).toks = [] ∧
    (∀ p ∈ (forkParse P toks).prods, p ≠ .stmt) :=
  fork_eq_std_on_valid P hs toks pk ds hstd

/-- the result on a valid file does not depend on the statement/expression production at all -/
theorem top_dispatch_file_indep {τ ν : Type} (P : Parsers τ ν) (hs : Sane P) (toks : List τ) (pk : ν) (ds : List ν)
    (hstd : stdFile P toks = some (pk, ds, 0)) (stmt' : List τ → Res τ ν) :
    (forkParse { P with stmt := stmt' } toks).out = (forkParse P toks).out := by
  have h1 := (top_dispatch_file P hs toks pk ds hstd).1
  have hs' : Sane { P with stmt := stmt' } := ⟨hs.pkgStart, hs.declStart, hs.progPkg, hs.progImp, hs.progDecl⟩
  have hi : ∀ g toks, stdImports { P with stmt := stmt' } g toks = stdImports P g toks := by
    intro g; induction g with
    | zero => intro toks; rfl
    | succ g ih => intro toks; cases toks <;> simp [stdImports, ih]
  have hd : ∀ g b toks, stdDecls { P with stmt := stmt' } g b toks = stdDecls P g b toks := by
    intro g; induction g with
    | zero => intro b toks; rfl
    | succ g ih => intro b toks; cases toks <;> simp [stdDecls, ih]
  have h2 := (top_dispatch_file { P with stmt := stmt' } hs' toks pk ds (by
    rw [← hstd]; simp [stdFile, hi, hd])).1
  rw [h1, h2]

/-! ### non-vacuity: a toy token language where every production eats up to the next `;` -/
namespace Demo
inductive T where | kw (k : TK) | word (n : Nat) | semi
  deriving DecidableEq, Repr
def kind : T → TK | .kw k => k | _ => .other
/-- consume through the first `semi`; node = the consumed tokens -/
def eat : List T → List T → List T × List T
  | acc, [] => (acc, [])
  | acc, .semi :: ts => (acc ++ [.semi], ts)
  | acc, t :: ts => eat (acc ++ [t]) ts
def prod (want : TK → Bool) (toks : List T) : Res T (List T) :=
  match toks with
  | [] => { node := [], rest := [], errs := 1 }
  | t :: ts => let r := eat [t] ts
               { node := r.1, rest := r.2, errs := if want (kind t) then 0 else 1 }
def P : Parsers T (List T) :=
  { kind := kind
    pkg := prod (· == .package)
    imp := prod (· == .import_)
    decl := prod (fun k => dispatch k == .decl)
    stmt := prod (fun _ => true) }
def file : List T :=
  [.kw .package, .word 1, .semi, .kw .import_, .word 2, .semi, .kw .func_, .word 3, .semi, .kw .var_, .word 4, .semi]
example : stdFile P file = some ([.kw .package, .word 1, .semi],
    [[.kw .import_, .word 2, .semi], [.kw .func_, .word 3, .semi], [.kw .var_, .word 4, .semi]], 0) := by decide
example : (forkParse P file).out = [[.kw .package, .word 1, .semi],
    [.kw .import_, .word 2, .semi], [.kw .func_, .word 3, .semi], [.kw .var_, .word 4, .semi]] := by decide
/-- the hypothesis "parseFile accepts" is needed: on `package p; x; var y;` the fork takes the statement arm -/
example : (forkParse P [.kw .package, .word 1, .semi, .word 9, .semi]).prods = [.pkg, .stmt] := by decide
example : (stdFile P [.kw .package, .word 1, .semi, .word 9, .semi]).map (·.2.2) = some 1 := by decide
end Demo

/-! ### obligations over the regenerated tables -/

/-- all token names the dispatch is checked on: every go/token constant and every extension token -/
def allTokNames : List String := tokNames ++ forkExtTokens.map (·.1)

/-- the model's `dispatch` is the regenerated switch of parseAny, on every token -/
theorem dispatch_matches_table :
    (allTokNames.all fun n => tableDispatch forkTopArms n == some (dispatch (TK.ofName n))) = true := by decide

/-- parseAny outside the arms, the loop of Parse, parseFile of the reference and both parseDecl switches are the
    texts the model transcribes -/
theorem top_level_pinned :
    forkTopPrelude = ParseWhitelist.topPrelude ∧ forkTopDefault = ParseWhitelist.topDefault ∧
    forkParseLoopHash = ParseWhitelist.parseLoopHash ∧ stdFileSteps = ParseWhitelist.stdFileSteps ∧
    forkDeclArms = ParseWhitelist.forkDeclArms ∧ stdDeclArms = ParseWhitelist.stdDeclArms ∧
    forkDeclDefault = ParseWhitelist.forkDeclDefault ∧ stdDeclDefault = ParseWhitelist.stdDeclDefault :=
  ⟨rfl, rfl, rfl, rfl, rfl, rfl, rfl, rfl⟩

/-- the tokens that start a declaration for the reference (other than IMPORT, handled before) start the same
    kind of declaration for the fork: same arm text modulo the `tok` argument of parseFuncDecl; and the fork's
    additional arms are extension tokens only -/
theorem decl_arms_agree :
    (["CONST", "VAR"], "f = p . parseValueSpec") ∈ forkDeclArms ∧ (["CONST", "VAR"], "f = p . parseValueSpec") ∈ stdDeclArms ∧
    (["TYPE"], "f = p . parseTypeSpec") ∈ forkDeclArms ∧ (["TYPE"], "f = p . parseTypeSpec") ∈ stdDeclArms ∧
    ((forkDeclArms.map (·.1)).flatten.filter (fun n => !(stdDeclArms.map (·.1)).flatten.contains n)).all
      (fun n => (forkExtTokens.map (·.1)).contains n) = true := by decide

/-- the functions transcribed by the model have the pinned token text -/
theorem model_functions_pinned :
    (ParseWhitelist.pinnedFuncs.all fun p => forkFuncs.any fun f => f.1 == p.1 && f.2.1 == p.2) = true := by decide

/-- every function of the fork's parser has the committed token text (golden table) -/
theorem all_parse_functions_pinned :
    forkFuncs.map (fun f => (f.1, f.2.1)) = ParseWhitelist.allFuncs := by decide

/-! ### precedence tables -/

/-- **precedence_equal**: the fork's tokPrec is token-identical to the reference's, calls go/token's Precedence,
    and the evaluated table equals the reference's source table on every token -/
theorem precedence_equal :
    tokPrecSame = true ∧ forkPrecVia = "go/token.Token.Precedence" ∧
    (tokNames.zipIdx.all fun (n, i) => forkPrecOf i == stdPrecOf n) = true := by decide

/-- the extension tokens are no binary operators (precedence LowestPrec), so they end every binary expression -/
theorem ext_tokens_lowest : (forkExtTokens.all fun e => e.2.2 == lowestPrec && forkPrecOf e.2.1 == 0) = true := by decide

/-- the prefix operators of parseUnaryExpr: the reference has exactly one more, TILDE (go1.18 type sets) -/
theorem unary_ops_equal_modulo_tilde :
    forkUnaryArms = stdUnaryArms.map (fun g => g.filter (· != "TILDE")) := by decide

end ParseTop

namespace ParseExpr
open Gen.ParseDispatch

/-- **parse_binary_prec**: for every expression tree that respects precedence and left associativity
    (`WF`: left operand binds at least as tightly, right operand strictly tighter, prefix operators apply to
    unary/primary expressions, postfix forms to primary expressions), precedence climbing with the extracted table
    over its token sequence yields exactly that tree. -/
theorem parse_binary_prec (t : Expr) (h : WF goTables t) : parseExpr goTables (flatten t) = some t :=
  parseExpr_flatten goTables goTables_le5 t h

/-- whatever the parser returns is such a tree over exactly the input tokens -/
theorem parse_binary_sound (ts : List Tok) (t : Expr) (h : parseExpr goTables ts = some t) :
    flatten t = ts ∧ WF goTables t :=
  parseExpr_sound goTables goTables_le5 ts t h

/-- ... hence the parse tree is THE unique well-formed tree over the token sequence (both parsers, which run the
    same loop over the same table, build the same shapes) -/
theorem parse_binary_unique (t1 t2 : Expr) (w1 : WF goTables t1) (w2 : WF goTables t2)
    (h : flatten t1 = flatten t2) : t1 = t2 :=
  wf_unique goTables goTables_le5 t1 t2 w1 w2 h

/-- the statement for arbitrary tables (any precedence function bounded by 5 = below `UnaryPrec`) -/
theorem parse_binary_prec_any_table (T : Tables) (hp : ∀ o, T.binPrec o ≤ 5) (ts : List Tok) (t : Expr) :
    parseExpr T ts = some t ↔ (flatten t = ts ∧ WF T t) :=
  parseExpr_iff T hp ts t

/-! non-vacuity: `a + b * c - -d.f(e)[g]`  (ADD=12 SUB=13 MUL=14) -/
example : parseExpr goTables
    [.atom 0, .op 12, .atom 1, .op 14, .atom 2, .op 13, .op 13, .atom 3, .period, .atom 5, .lparen, .atom 4, .rparen,
     .lbrack, .atom 6, .rbrack] =
    some (.bin (.bin (.atom 0) 12 (.bin (.atom 1) 14 (.atom 2))) 13
      (.un 13 (.index (.call (.sel (.atom 3) 5) (.atom 4)) (.atom 6)))) := by decide
/-- a tree that does NOT respect precedence is not what its tokens parse to: `(a + b) * c` without parentheses -/
example : ¬ WF goTables (.bin (.bin (.atom 0) 12 (.atom 1)) 14 (.atom 2)) := by
  rw [← wfb_iff]; decide
example : parseExpr goTables (flatten (.bin (.bin (.atom 0) 12 (.atom 1)) 14 (.atom 2))) =
    some (.bin (.atom 0) 12 (.bin (.atom 1) 14 (.atom 2))) := by decide

end ParseExpr
