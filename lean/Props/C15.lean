import Model.Journal
/-!
# C15  A failed evaluation leaves earlier definitions intact

Theorems about `Model/Journal.lean`.  `Cfg.fixed` = the code with fixes/C15-compile-journal.diff and
fixes/C15-named-type-redefinition.diff (what the correspondence run executes), `Cfg.orig` = before.
-/
namespace Journal

/-! ## frames of the compiler: it never touches the run-time environment -/

theorem newBind_env (st : St) (name : Nat) (cls : Cls) (ty d0 cval : Nat) :
    (newBind st name cls ty d0 cval).1.ints = st.ints ∧ (newBind st name cls ty d0 cval).1.vals = st.vals ∧
    (newBind st name cls ty d0 cval).1.types = st.types ∧ (newBind st name cls ty d0 cval).1.objs = st.objs ∧
    (newBind st name cls ty d0 cval).1.nObj = st.nObj ∧
    ∃ e, (newBind st name cls ty d0 cval).1.binds = (name, e) :: st.binds ∧ e.ty = ty := by
  unfold newBind
  cases cls <;> simp only [] <;> (try split) <;> simp

theorem compileItem_env (cfg : Cfg) (st : St) (it : Item) :
    (compileItem cfg st it).1.ints = st.ints ∧ (compileItem cfg st it).1.vals = st.vals := by
  cases it with
  | var name ty val => simp [compileItem, newBind_env]
  | varT name tname val => simp only [compileItem]; split <;> simp [newBind_env]
  | const name ty val => simp [compileItem, newBind_env]
  | func name ty body ok => simp only [compileItem]; split <;> simp [newBind_env]
  | typ tname d => simp only [compileItem]; split <;> (try split) <;> simp
  | alias tname target => simp only [compileItem]; split <;> simp
  | bad => simp [compileItem]
  | boom => simp [compileItem]

theorem compileAll_env (cfg : Cfg) (st : St) (l : List Item) (acc : List Act) :
    (compileAll cfg st l acc).1.ints = st.ints ∧ (compileAll cfg st l acc).1.vals = st.vals := by
  induction l generalizing st acc with
  | nil => simp [compileAll]
  | cons it rest ih =>
    simp only [compileAll]
    have h1 := compileItem_env cfg st it
    split
    · rename_i st1 heq
      rw [heq] at h1; exact h1
    · rename_i st1 code heq
      rw [heq] at h1
      have h2 := ih st1 (acc ++ code)
      exact ⟨h2.1.trans h1.1, h2.2.trans h1.2⟩

/-- **no_exec_on_failed_compile**: `Interp.Eval = compile; run` — when the compile fails (syntax error,
    or any item failing at any position) nothing of the input has run: the run-time environment
    (every slot of env.Ints and env.Vals) is untouched.  Holds for the original code as well. -/
theorem no_exec_on_failed_compile (cfg : Cfg) (st : St) (inp : Input) (h : (eval cfg st inp).2 = .cfail) :
    (eval cfg st inp).1.ints = st.ints ∧ (eval cfg st inp).1.vals = st.vals := by
  cases inp with
  | syntaxError => simp [eval]
  | items l =>
    have he := compileAll_env cfg st l []
    cases hc : compileAll cfg st l [] with
    | mk st1 oc =>
      rw [hc] at he
      cases oc with
      | some code =>
        simp only [eval, hc] at h
        split at h <;> cases h
      | none =>
        simp only [eval, hc]
        split <;> exact he

/-! ## well-formed states: every named type object a bind or a type name refers to exists -/

structure WF (st : St) : Prop where
  bindObj : ∀ p ∈ st.binds, 4 ≤ p.2.ty → p.2.ty - 4 < st.nObj
  typeObj : ∀ p ∈ st.types, p.2 < st.nObj

theorem WF_init : WF St.init := by constructor <;> simp [St.init]

theorem lookup_mem {α : Type} (l : List (Nat × α)) (n : Nat) (a : α) (h : l.lookup n = some a) : (n, a) ∈ l := by
  induction l with
  | nil => simp at h
  | cons p rest ih =>
    obtain ⟨k, b⟩ := p
    simp only [List.lookup_cons] at h
    by_cases hk : (n == k) = true
    · simp [hk] at h; subst h
      have : n = k := by simpa using hk
      subst this; simp
    · have hk' : (n == k) = false := by simpa using hk
      simp [hk'] at h
      exact List.mem_cons_of_mem _ (ih h)

theorem newBind_WF (st : St) (name : Nat) (cls : Cls) (ty d0 cval : Nat) (h : WF st)
    (hty : 4 ≤ ty → ty - 4 < st.nObj) : WF (newBind st name cls ty d0 cval).1 := by
  obtain ⟨_, _, h3, _, h5, e, h6, h7⟩ := newBind_env st name cls ty d0 cval
  constructor
  · intro p hp
    rw [h6] at hp
    rw [h5]
    simp only [List.mem_cons] at hp
    rcases hp with rfl | hp
    · simpa [h7] using hty
    · exact h.bindObj p hp
  · intro p hp; rw [h3] at hp; rw [h5]; exact h.typeObj p hp

theorem compileItem_WF (cfg : Cfg) (st : St) (it : Item) (h : WF st) : WF (compileItem cfg st it).1 := by
  cases it with
  | var name ty val =>
    simp only [compileItem]; apply newBind_WF _ _ _ _ _ _ h; intro h2
    have : basicTy ty < 4 := by unfold basicTy; split <;> omega
    omega
  | varT name tname val =>
    simp only [compileItem]
    split
    · exact h
    · rename_i o ho
      apply newBind_WF _ _ _ _ _ _ h
      intro _
      have := h.typeObj (tname, o) (lookup_mem _ _ _ ho)
      simp at this ⊢; omega
  | const name ty val =>
    simp only [compileItem]; apply newBind_WF _ _ _ _ _ _ h; intro h2; split at h2 <;> omega
  | func name ty body ok =>
    simp only [compileItem]
    split
    · apply newBind_WF _ _ _ _ _ _ h; intro h2; split at h2 <;> omega
    · obtain ⟨_, _, h3, _, h5, _⟩ := newBind_env st name .func (if ty = 0 then 0 else 1) 0 0
      constructor
      · intro p hp; simp only [] at hp ⊢; rw [h5]; exact h.bindObj p hp
      · intro p hp; simp only [] at hp ⊢; rw [h3] at hp; rw [h5]; exact h.typeObj p hp
  | typ tname d =>
    simp only [compileItem]
    have fresh : WF { st with types := (tname, st.nObj) :: st.types, objs := (st.nObj, d) :: st.objs, nObj := st.nObj + 1 } := by
      constructor
      · intro p hp h2; have := h.bindObj p hp h2; simp only []; omega
      · intro p hp; simp only [List.mem_cons] at hp
        rcases hp with rfl | hp
        · simp
        · have := h.typeObj p hp; simp only []; omega
    split
    · split
      · exact fresh
      · exact ⟨h.bindObj, h.typeObj⟩
    · exact fresh
  | alias tname target =>
    simp only [compileItem]
    split
    · exact h
    · rename_i o ho
      have hlt := h.typeObj (target, o) (lookup_mem _ _ _ ho)
      constructor
      · intro p hp h2; exact h.bindObj p hp h2
      · intro p hp; simp only [List.mem_cons] at hp
        rcases hp with rfl | hp
        · exact hlt
        · exact h.typeObj p hp
  | bad => exact h
  | boom => exact h

theorem compileAll_WF (cfg : Cfg) (st : St) (l : List Item) (acc : List Act) (h : WF st) :
    WF (compileAll cfg st l acc).1 := by
  induction l generalizing st acc with
  | nil => exact h
  | cons it rest ih =>
    simp only [compileAll]
    have h1 := compileItem_WF cfg st it h
    split
    · rename_i st1 heq; rw [heq] at h1; exact h1
    · rename_i st1 code heq; rw [heq] at h1; exact ih st1 _ h1

theorem runCode_frame (st : St) (code : List Act) :
    (runCode st code).1.binds = st.binds ∧ (runCode st code).1.types = st.types ∧
    (runCode st code).1.objs = st.objs ∧ (runCode st code).1.nObj = st.nObj := by
  induction code generalizing st with
  | nil => simp [runCode]
  | cons a rest ih =>
    cases a with
    | setI i v => simp only [runCode]; have := ih { st with ints := (i, v) :: st.ints }; simpa using this
    | setV i v => simp only [runCode]; have := ih { st with vals := (i, v) :: st.vals }; simpa using this
    | boom => simp [runCode]

/-! ## the named type objects under `freshType`: existing objects are never modified -/

theorem compileItem_objs (st : St) (it : Item) (cfg : Cfg) (hf : cfg.freshType = true) (o : Nat) (ho : o < st.nObj) :
    (compileItem cfg st it).1.objs.lookup o = st.objs.lookup o ∧ st.nObj ≤ (compileItem cfg st it).1.nObj := by
  have hne : (o == st.nObj) = false := by simp; omega
  cases it with
  | var name ty val => simp [compileItem, newBind_env]
  | varT name tname val => simp only [compileItem]; split <;> simp [newBind_env]
  | const name ty val => simp [compileItem, newBind_env]
  | func name ty body ok => simp only [compileItem]; split <;> simp [newBind_env]
  | typ tname d =>
    simp only [compileItem, hf, if_true]
    split <;> simp [List.lookup_cons, hne]
  | alias tname target => simp only [compileItem]; split <;> simp
  | bad => simp [compileItem]
  | boom => simp [compileItem]

theorem compileAll_objs (st : St) (l : List Item) (acc : List Act) (cfg : Cfg) (hf : cfg.freshType = true)
    (o : Nat) (ho : o < st.nObj) :
    (compileAll cfg st l acc).1.objs.lookup o = st.objs.lookup o := by
  induction l generalizing st acc with
  | nil => simp [compileAll]
  | cons it rest ih =>
    simp only [compileAll]
    have h1 := compileItem_objs st it cfg hf o ho
    split
    · rename_i st1 heq; rw [heq] at h1; exact h1.1
    · rename_i st1 code heq; rw [heq] at h1
      rw [ih st1 _ (Nat.lt_of_lt_of_le ho h1.2)]; exact h1.1

theorem compileItem_nObj (cfg : Cfg) (st : St) (it : Item) : st.nObj ≤ (compileItem cfg st it).1.nObj := by
  cases it with
  | var name ty val => simp [compileItem, newBind_env]
  | varT name tname val => simp only [compileItem]; split <;> simp [newBind_env]
  | const name ty val => simp [compileItem, newBind_env]
  | func name ty body ok => simp only [compileItem]; split <;> simp [newBind_env]
  | typ tname d => simp only [compileItem]; split <;> (try split) <;> simp
  | alias tname target => simp only [compileItem]; split <;> simp
  | bad => simp [compileItem]
  | boom => simp [compileItem]

theorem compileAll_nObj (cfg : Cfg) (st : St) (l : List Item) (acc : List Act) :
    st.nObj ≤ (compileAll cfg st l acc).1.nObj := by
  induction l generalizing st acc with
  | nil => simp [compileAll]
  | cons it rest ih =>
    simp only [compileAll]
    have h1 := compileItem_nObj cfg st it
    split
    · rename_i st1 heq; rw [heq] at h1; exact h1
    · rename_i st1 code heq; rw [heq] at h1; exact Nat.le_trans h1 (ih st1 _)

/-- the full statement: a failing input changes what no earlier name resolves to -/
def FailedCompilePreserves (cfg : Cfg) : Prop :=
  ∀ (st : St) (inp : Input), WF st → (eval cfg st inp).2 = .cfail →
    (∀ n, resolve (eval cfg st inp).1 n = resolve st n) ∧
    (∀ t, resolveType (eval cfg st inp).1 t = resolveType st t)

theorem resolve_congr {st st' : St} (hb : st'.binds = st.binds) (hi : st'.ints = st.ints) (hv : st'.vals = st.vals)
    (ho : ∀ p ∈ st.binds, 4 ≤ p.2.ty → st'.objs.lookup (p.2.ty - 4) = st.objs.lookup (p.2.ty - 4)) (n : Nat) :
    resolve st' n = resolve st n := by
  unfold resolve
  rw [hb]
  cases hl : st.binds.lookup n with
  | none => rfl
  | some e =>
    simp only [hi, hv]
    have hm := lookup_mem _ _ _ hl
    by_cases h2 : e.ty < 4
    · simp [h2]
    · have := ho (n, e) hm (by simp; omega)
      simp only [] at this
      simp [h2, this]

/-- **failed_compile_preserves**: on the repaired code, after an input that fails to compile — syntax
    error, undefined identifier, type error, failing function body, at ANY position, after ANY number of
    successful re-declarations of variables, constants, functions and types earlier in the same input —
    every name resolves to the same class, type (including the definition of its named type), slot and
    value as before, and every type name to the same type. -/
theorem failed_compile_preserves : FailedCompilePreserves Cfg.fixed := by
  intro st inp hwf h
  have henv := no_exec_on_failed_compile Cfg.fixed st inp h
  cases inp with
  | syntaxError => simp [eval]
  | items l =>
    have hob := compileAll_objs st l [] Cfg.fixed rfl
    cases hc : compileAll Cfg.fixed st l [] with
    | mk st1 oc =>
      rw [hc] at hob
      cases oc with
      | some code =>
        simp only [eval, hc] at h
        split at h <;> cases h
      | none =>
        have hev : eval Cfg.fixed st (.items l) =
            ({ st1 with binds := st.binds, types := st.types, nI := st.nI, nV := st.nV }, .cfail) := by
          simp only [eval, hc]; rfl
        rw [hev] at henv ⊢
        simp only [] at henv hob ⊢
        refine ⟨fun n => resolve_congr (st := st)
          (st' := { st1 with binds := st.binds, types := st.types, nI := st.nI, nV := st.nV }) rfl henv.1 henv.2
          (fun p hp h2 => hob _ (hwf.bindObj p hp h2)) n, fun t => ?_⟩
        unfold resolveType
        simp only []
        cases hl : st.types.lookup t with
        | none => rfl
        | some o =>
          simp only []
          rw [hob o (hwf.typeObj (t, o) (lookup_mem _ _ _ hl))]

/-- the state reached by any history is well formed, so `failed_compile_preserves` applies after
    every history -/
theorem eval_WF (cfg : Cfg) (st : St) (i : Input) (hwf : WF st) : WF (eval cfg st i).1 := by
  cases i with
  | syntaxError => exact hwf
  | items l =>
    have h1 := compileAll_WF cfg st l [] hwf
    have hmono := compileAll_nObj cfg st l []
    cases hc : compileAll cfg st l [] with
    | mk st1 oc =>
      rw [hc] at h1 hmono
      cases oc with
      | none =>
        simp only [eval, hc]
        split
        · exact ⟨fun p hp h2 => Nat.lt_of_lt_of_le (hwf.bindObj p hp h2) hmono,
                 fun p hp => Nat.lt_of_lt_of_le (hwf.typeObj p hp) hmono⟩
        · exact h1
      | some code =>
        simp only [eval, hc]
        have hf := runCode_frame st1 code
        cases hr : runCode st1 code with
        | mk st2 b =>
          rw [hr] at hf
          have : WF st2 := ⟨fun p hp => by rw [hf.1] at hp; rw [hf.2.2.2]; exact h1.bindObj p hp,
                            fun p hp => by rw [hf.2.1] at hp; rw [hf.2.2.2]; exact h1.typeObj p hp⟩
          cases b <;> exact this

/-- the state reached by any history is well formed, so `failed_compile_preserves` applies after
    every history -/
theorem run_WF (cfg : Cfg) (st : St) (h : List Input) (hwf : WF st) : WF (run cfg st h).1 := by
  induction h generalizing st with
  | nil => exact hwf
  | cons i is ih => simp only [run]; exact ih _ (eval_WF cfg st i hwf)

/-! ## what holds on the ORIGINAL code (`_partial`), and the witnesses that the rest fails -/

/-- every item is atomic: when ITS compile fails, no name resolves differently (a failing function body
    is undone by `DeclFunc`'s deferred restore; the other failures happen before `NewBind`) -/
theorem compileItem_fail_preserves (cfg : Cfg) (st : St) (it : Item) (h : (compileItem cfg st it).2 = none) :
    (compileItem cfg st it).1.binds = st.binds ∧ (compileItem cfg st it).1.types = st.types ∧
    (compileItem cfg st it).1.objs = st.objs ∧ (compileItem cfg st it).1.ints = st.ints ∧
    (compileItem cfg st it).1.vals = st.vals := by
  cases it with
  | var name ty val => simp [compileItem] at h
  | varT name tname val =>
    simp only [compileItem] at h ⊢
    split at h
    · rename_i hl; simp [hl]
    · simp at h
  | const name ty val => simp [compileItem] at h
  | func name ty body ok =>
    simp only [compileItem] at h ⊢
    split at h
    · simp at h
    · rename_i hok; simp [hok, newBind_env]
  | typ tname d => simp only [compileItem] at h; split at h <;> (try split at h) <;> simp at h
  | alias tname target => simp only [compileItem] at h ⊢; split at h <;> simp_all
  | bad => simp [compileItem]
  | boom => simp [compileItem] at h

/-- **failed_compile_preserves_partial** (original code, no journal): an input whose FIRST item fails to
    compile — in particular every single-statement input, the way a REPL line usually looks, and every
    failing function (re)declaration (`_funcs` of the design) — and every syntax error, leaves every name
    resolving to the same class, type, slot and value.  What is missing for the full statement: the
    items compiled BEFORE the failing one keep their bind mutations (F10), see the witness below. -/
theorem failed_compile_preserves_partial (cfg : Cfg) (st : St) (it : Item) (rest : List Item)
    (h : (compileItem cfg st it).2 = none) :
    (eval cfg st (.items (it :: rest))).2 = .cfail ∧
    (∀ n, resolve (eval cfg st (.items (it :: rest))).1 n = resolve st n) ∧
    (∀ t, resolveType (eval cfg st (.items (it :: rest))).1 t = resolveType st t) := by
  have hp := compileItem_fail_preserves cfg st it h
  cases hc : compileItem cfg st it with
  | mk st1 oc =>
    rw [hc] at h hp
    simp only [] at h hp
    subst h
    have hev : eval cfg st (.items (it :: rest)) =
        (if cfg.rollback then { st1 with binds := st.binds, types := st.types, nI := st.nI, nV := st.nV } else st1, .cfail) := by
      simp only [eval, compileAll, hc]
    rw [hev]
    obtain ⟨h1, h2, h3, h4, h5⟩ := hp
    refine ⟨rfl, fun n => ?_, fun t => ?_⟩
    · split
      · exact resolve_congr (st := st) (st' := { st1 with binds := st.binds, types := st.types, nI := st.nI, nV := st.nV })
          rfl h4 h5 (fun p _ _ => by simp [h3]) n
      · exact resolve_congr h1 h4 h5 (fun p _ _ => by rw [h3]) n
    · unfold resolveType
      by_cases hr : cfg.rollback = true
      · simp [hr, h3]
      · simp [hr, h2, h3]

theorem syntax_error_preserves (cfg : Cfg) (st : St) : eval cfg st .syntaxError = (st, .cfail) := rfl

/-- DESIGN F10, replayed on the real code by corpus/C15/01-*: `var n0 int = 7`, then the input
    `var n0 string = 5; <undefined identifier>` -/
def stF10 : St := (eval Cfg.orig St.init (.items [.var 0 0 7])).1
def inF10 : Input := .items [.var 0 1 5, .bad]

/-- **failed_compile_clobbers_var**: on the original code the full statement is FALSE: after the failing
    input `n0` is a string variable in another slot whose value was never set. -/
theorem failed_compile_clobbers_var : ¬ FailedCompilePreserves Cfg.orig := by
  intro h
  have hw : WF stF10 := eval_WF Cfg.orig St.init _ WF_init
  have := (h stF10 inF10 hw (by decide)).1 0
  revert this
  decide

example : resolve stF10 0 = some ⟨.ivar, 0, some 0, some 7, true⟩ := by decide
example : resolve (eval Cfg.orig stF10 inF10).1 0 = some ⟨.bvar, 1, some 0, none, true⟩ := by decide
example : resolve (eval Cfg.fixed stF10 inF10).1 0 = some ⟨.ivar, 0, some 0, some 7, true⟩ := by decide

/-! ## redefinition -/

def declares : Item → Nat → Bool
  | .var n _ _, m => n == m
  | .varT n _ _, m => n == m
  | .const n _ _, m => n == m
  | .func n _ _ _, m => n == m
  | _, _ => false

/-- the full statement: after ANY input (successful, failing or panicking) a name that the input does
    not declare keeps its class, its type INCLUDING the definition of its named type, and its slot -/
def RedefinitionKeepsOldTypes (cfg : Cfg) : Prop :=
  ∀ (st : St) (l : List Item) (n : Nat), WF st → (∀ it ∈ l, declares it n = false) →
    (resolve (eval cfg st (.items l)).1 n).map (fun o => (o.cls, o.ty, o.idx, o.typeOk)) =
    (resolve st n).map (fun o => (o.cls, o.ty, o.idx, o.typeOk))

theorem newBind_lookup (st : St) (name : Nat) (cls : Cls) (ty d0 cval n : Nat) (h : (name == n) = false) :
    (newBind st name cls ty d0 cval).1.binds.lookup n = st.binds.lookup n := by
  obtain ⟨_, _, _, _, _, e, h6, _⟩ := newBind_env st name cls ty d0 cval
  have : (n == name) = false := by simp at h ⊢; omega
  rw [h6, List.lookup_cons, this]

theorem compileItem_lookup (cfg : Cfg) (st : St) (it : Item) (n : Nat) (h : declares it n = false) :
    (compileItem cfg st it).1.binds.lookup n = st.binds.lookup n := by
  cases it with
  | var name ty val => simp only [compileItem]; exact newBind_lookup _ _ _ _ _ _ _ (by simpa [declares] using h)
  | varT name tname val =>
    simp only [compileItem]; split
    · rfl
    · exact newBind_lookup _ _ _ _ _ _ _ (by simpa [declares] using h)
  | const name ty val => simp only [compileItem]; exact newBind_lookup _ _ _ _ _ _ _ (by simpa [declares] using h)
  | func name ty body ok =>
    simp only [compileItem]; split
    · exact newBind_lookup _ _ _ _ _ _ _ (by simpa [declares] using h)
    · rfl
  | typ tname d => simp only [compileItem]; split <;> (try split) <;> rfl
  | alias tname target => simp only [compileItem]; split <;> rfl
  | bad => rfl
  | boom => rfl

theorem compileAll_lookup (cfg : Cfg) (st : St) (l : List Item) (acc : List Act) (n : Nat)
    (h : ∀ it ∈ l, declares it n = false) :
    (compileAll cfg st l acc).1.binds.lookup n = st.binds.lookup n := by
  induction l generalizing st acc with
  | nil => rfl
  | cons it rest ih =>
    simp only [compileAll]
    have h1 := compileItem_lookup cfg st it n (h it (by simp))
    split
    · rename_i st1 heq; rw [heq] at h1; exact h1
    · rename_i st1 code heq; rw [heq] at h1
      rw [ih st1 _ (fun it' hm => h it' (by simp [hm]))]; exact h1

/-- **redefinition_keeps_old_types**: on the repaired code (a redefined named type is a NEW type object)
    no input changes the class, type, type definition or slot of a name it does not itself declare —
    whether it redefines variables, constants, functions or types, succeeds, fails or panics.
    (That the VALUE in the slot is not overwritten by the other names' declarations is the slot
    disjointness proved for the slot model: `Globals.slot_reuse_safe` of C14.) -/
theorem redefinition_keeps_old_types (cfg : Cfg) (hf : cfg.freshType = true) : RedefinitionKeepsOldTypes cfg := by
  intro st l n hwf hd
  have hlk := compileAll_lookup cfg st l [] n hd
  have hob := compileAll_objs st l [] cfg hf
  have key : ∀ st' : St, st'.binds.lookup n = st.binds.lookup n →
      (∀ o, o < st.nObj → st'.objs.lookup o = st.objs.lookup o) →
      (resolve st' n).map (fun o => (o.cls, o.ty, o.idx, o.typeOk)) =
      (resolve st n).map (fun o => (o.cls, o.ty, o.idx, o.typeOk)) := by
    intro st' hb ho
    unfold resolve
    rw [hb]
    cases hl : st.binds.lookup n with
    | none => rfl
    | some e =>
      have hm := lookup_mem _ _ _ hl
      by_cases h2 : e.ty < 4
      · simp [h2]
      · have := ho _ (hwf.bindObj (n, e) hm (by simp; omega))
        simp only [] at this
        simp [h2, this]
  cases hc : compileAll cfg st l [] with
  | mk st1 oc =>
    rw [hc] at hlk hob
    simp only [] at hlk hob
    cases oc with
    | none =>
      simp only [eval, hc]
      split
      · exact key _ rfl hob
      · exact key _ hlk hob
    | some code =>
      simp only [eval, hc]
      have hfr := runCode_frame st1 code
      cases hr : runCode st1 code with
      | mk st2 b =>
        rw [hr] at hfr
        have : (resolve st2 n).map (fun o => (o.cls, o.ty, o.idx, o.typeOk)) =
            (resolve st n).map (fun o => (o.cls, o.ty, o.idx, o.typeOk)) :=
          key st2 (by rw [hfr.1]; exact hlk) (fun o ho => by rw [hfr.2.2.1]; exact hob o ho)
        cases b <;> exact this

/-- DESIGN F11, replayed on the real code by corpus/C15/02-*: `type T0 struct{F1 int}; var n0 = T0{5}`,
    then `type T0 struct{F2 int}` -/
def stF11 : St := (eval Cfg.orig St.init (.items [.typ 0 1, .varT 0 0 5])).1

/-- **redefinition_changes_old_var**: on the original code the statement is FALSE: after the type is
    redefined, `n0.F1` no longer compiles (`typeOk = false`) -/
theorem redefinition_changes_old_var : ¬ RedefinitionKeepsOldTypes Cfg.orig := by
  intro h
  have hw : WF stF11 := eval_WF Cfg.orig St.init _ WF_init
  have := h stF11 [.typ 0 2] 0 hw (by decide)
  revert this
  decide

example : (resolve stF11 0).map (·.typeOk) = some true := by decide
example : (resolve (eval Cfg.orig stF11 (.items [.typ 0 2])).1 0).map (·.typeOk) = some false := by decide
example : (resolve (eval Cfg.fixed (eval Cfg.fixed St.init (.items [.typ 0 1, .varT 0 0 5])).1 (.items [.typ 0 2])).1 0).map (·.typeOk) = some true := by decide

/-! ## non-vacuity of the main theorems -/

/-- a failing input on the repaired code that re-declares a variable, a constant, a function and a type
    before it fails: the hypothesis of `failed_compile_preserves` is satisfiable and non-trivial -/
def stBusy : St := (eval Cfg.fixed St.init (.items [.var 0 0 7, .const 1 0 3, .func 2 0 9 true, .typ 0 1, .varT 3 0 5])).1
def inBusy : Input := .items [.var 0 1 5, .const 1 1 4, .func 2 1 8 true, .typ 0 2, .varT 3 0 6, .func 4 0 1 false]
example : (eval Cfg.fixed stBusy inBusy).2 = .cfail := by decide
example : (eval Cfg.fixed stBusy inBusy).1.nObj ≠ stBusy.nObj := by decide
example : ∀ n, n < 5 → resolve (eval Cfg.fixed stBusy inBusy).1 n = resolve stBusy n := by decide
example : WF stBusy := eval_WF Cfg.fixed St.init _ WF_init

end Journal
