import Model.Restore
namespace Restore
theorem placeholder : True := trivial
end Restore
