import Model.Restore
import Proofs.Restore
import Gen.RunFields
/-!
# C12  A panic escaping an evaluation at any point leaves later evaluations unaffected

Theorems about the big-step model `Restore.evalTop` (Model/Restore.lean) of `fast.Run`'s bookkeeping:
for EVERY program (function table over pad/hook/call/defer/recover/panic/try, recursion allowed), every
fault point `K` of the injected hook, every fuel.
-/
namespace Restore

/-- **abort_restores / restored_fields** (code as it stands and repaired code): whatever an evaluation
    does and wherever it is aborted by a panic (any hook call `K`, any `panic` statement, inside deferred
    calls, during an earlier panic, recovered by compiled code or not), afterwards `EFStartDefer` is clear
    and `EFDefer`, `DeferOfFun`, `CurrEnv` have their values from before the evaluation. -/
theorem abort_restores (P : Prog) (fuel : Nat) (dbg : Bool) (kind : Kind) (f : Nat) (s : St) (h : s.run.efStart = false) :
    (evalTop P fuel dbg kind f s).2.run.efStart = false ∧
    (evalTop P fuel dbg kind f s).2.run.efDefer = s.run.efDefer ∧
    (evalTop P fuel dbg kind f s).2.run.deferOfFun = s.run.deferOfFun ∧
    (evalTop P fuel dbg kind f s).2.run.currEnv = s.run.currEnv := by
  have fr := frame_all P fuel
  unfold evalTop
  cases kind with
  | callF =>
    simp only
    have hb := fr.2.1 f { s with run := applyDebugOp dbg { s.run with sync := .none, currEnv := some 0 } }
    rcases hcf : callFn P fuel f { s with run := applyDebugOp dbg { s.run with sync := .none, currEnv := some 0 } } with ⟨o, s1⟩
    rw [hcf] at hb
    exact ⟨hb.2.2 h, hb.1, hb.2.1, trivial⟩
  | topCode =>
    simp only
    have hb := fr.2.2.1 f 0 { s with run := applyDebugOp dbg { s.run with sync := .none, currEnv := some 0 } }
    rcases hcf : execFn P fuel f 0 { s with run := applyDebugOp dbg { s.run with sync := .none, currEnv := some 0 } } with ⟨o, s1⟩
    rw [hcf] at hb
    exact ⟨hb.2.2 h, hb.1, hb.2.1, trivial⟩


/-- the two states agree except for `Interrupt` and `Sync` -/
def SameLive (t' t : St) : Prop := ∃ j z, t' = { t with run := { t.run with interrupt := j, sync := z } }

theorem execFn_dead (P : Prog) (fuel f env : Nat) (s : St) (i : Intr) (y : Sig) :
    (execFn P fuel f env { s with run := { s.run with interrupt := i, sync := y } }).1 = (execFn P fuel f env s).1 ∧
    SameLive (execFn P fuel f env { s with run := { s.run with interrupt := i, sync := y } }).2 (execFn P fuel f env s).2 := by
  cases fuel with
  | zero => simp only [execFn]; exact ⟨trivial, i, y, rfl⟩
  | succ fuel =>
    simp only [execFn]
    split
    · rcases hro : runOps P fuel (P.body f) { env := env, flags := true }
          { s with run := { s.run with sync := .none, efDefer := s.run.efStart, efStart := false, interrupt := .nil, efDebug := s.run.sigDebug }, atc := s.atc || s.run.sigDebug } with ⟨o, a1, s1⟩
      rcases hrd : runDefers P fuel env a1.defers o none s1 with ⟨o2, sv2, s2⟩
      simp only
      cases sv2 <;> exact ⟨trivial, i, .none, rfl⟩
    · rcases hro : runOps P fuel (P.body f) { env := env, flags := false }
          { s with run := { s.run with sync := .none, interrupt := .nil }, atc := s.atc || s.run.sigDebug } with ⟨o, a1, s1⟩
      cases o with
      | ok => exact ⟨rfl, i, .none, rfl⟩
      | panic v => exact ⟨rfl, s1.run.interrupt, s1.run.sync, rfl⟩


/-- the state in which `RunExpr` / `DebugExpr` start running the code -/
def baseSt (dbg : Bool) (s : St) : St :=
  { s with run := applyDebugOp dbg { s.run with sync := .none, currEnv := some 0 } }

theorem evalTop_eq (P : Prog) (fuel : Nat) (dbg : Bool) (kind : Kind) (f : Nat) (s : St) :
    evalTop P fuel dbg kind f s =
      ((match kind with
        | .callF => callFn P fuel f (baseSt dbg s)
        | .topCode => execFn P fuel f 0 (baseSt dbg s)).1,
       { (match kind with
        | .callF => callFn P fuel f (baseSt dbg s)
        | .topCode => execFn P fuel f 0 (baseSt dbg s)).2 with
         run := { (match kind with
        | .callF => callFn P fuel f (baseSt dbg s)
        | .topCode => execFn P fuel f 0 (baseSt dbg s)).2.run with currEnv := s.run.currEnv } }) := by
  unfold evalTop baseSt
  cases kind <;> rfl

theorem callFn_dead (P : Prog) (fuel f : Nat) (s : St) (i : Intr) (y : Sig) :
    (callFn P fuel f { s with run := { s.run with interrupt := i, sync := y } }).1 = (callFn P fuel f s).1 ∧
    SameLive (callFn P fuel f { s with run := { s.run with interrupt := i, sync := y } }).2 (callFn P fuel f s).2 := by
  cases fuel with
  | zero => simp only [callFn]; exact ⟨trivial, i, y, rfl⟩
  | succ fuel =>
    simp only [callFn]
    have h := execFn_dead P fuel f s.nextEnv
      { s with nextEnv := s.nextEnv + 1, run := { s.run with currEnv := some s.nextEnv } } i y
    generalize execFn P fuel f s.nextEnv
      { s with nextEnv := s.nextEnv + 1, run := { s.run with currEnv := some s.nextEnv } } = r at h
    generalize execFn P fuel f s.nextEnv _ = r' at h ⊢
    obtain ⟨o, t⟩ := r
    obtain ⟨o', t'⟩ := r'
    obtain ⟨ho, j, z, ht⟩ := h
    simp only at ho ht
    subst ho ht
    cases o' <;> exact ⟨rfl, j, z, rfl⟩

/-- **dead_fields.**  `Run.Interrupt` and `Signals.Sync` are dead at the start of an evaluation: whatever an
    aborted evaluation left in them, the next evaluation has the same outcome, the same `recover()`/`try`
    observations and leaves the same state (up to these two fields, which are dead again). -/
theorem dead_fields (P : Prog) (fuel : Nat) (dbg : Bool) (kind : Kind) (f : Nat) (s : St) (i : Intr) (y : Sig) :
    (evalTop P fuel dbg kind f { s with run := { s.run with interrupt := i, sync := y } }).1 = (evalTop P fuel dbg kind f s).1 ∧
    SameLive (evalTop P fuel dbg kind f { s with run := { s.run with interrupt := i, sync := y } }).2 (evalTop P fuel dbg kind f s).2 := by
  rw [evalTop_eq, evalTop_eq]
  have key : baseSt dbg { s with run := { s.run with interrupt := i, sync := y } } =
      { baseSt dbg s with run := { (baseSt dbg s).run with interrupt := i, sync := .none } } := rfl
  rw [key]
  cases kind with
  | callF =>
    simp only
    obtain ⟨h1, j, z, h2⟩ := callFn_dead P fuel f (baseSt dbg s) i .none
    rw [h2]
    exact ⟨h1, j, z, rfl⟩
  | topCode =>
    simp only
    obtain ⟨h1, j, z, h2⟩ := execFn_dead P fuel f 0 (baseSt dbg s) i .none
    rw [h2]
    exact ⟨h1, j, z, rfl⟩

/-- **the debugger mode is dead at the start of an evaluation**: `RunExpr` / `DebugExpr` rewrite `EFDebug`,
    `DebugDepth` and `Signals.Debug` (`applyDebugOp`, BEFORE the code runs -- obligation `debug_op_calls`), so
    whatever an aborted single-step evaluation left there, the next evaluation is exactly the same. -/
theorem debug_fields_dead (P : Prog) (fuel : Nat) (dbg : Bool) (kind : Kind) (f : Nat) (s : St) (a b c : Bool) :
    evalTop P fuel dbg kind f { s with run := { s.run with efDebug := a, debugDepth := b, sigDebug := c } } =
    evalTop P fuel dbg kind f s := by
  rw [evalTop_eq, evalTop_eq]
  have key : baseSt dbg { s with run := { s.run with efDebug := a, debugDepth := b, sigDebug := c } } = baseSt dbg s := rfl
  rw [key]

/-- **debugger mode after an evaluation**: nothing inside an evaluation changes it, so afterwards it is what
    `RunExpr` (`dbg = false`: off) / `DebugExpr` (`dbg = true`: single-step) set at the start -- also when the
    evaluation is aborted by a panic at any point.  In particular a plain evaluation never runs in single-step mode
    and never calls the debugger (`atc` unchanged), whatever happened before. -/
theorem debug_mode_after (P : Prog) (fuel : Nat) (dbg : Bool) (kind : Kind) (f : Nat) (s : St) :
    (evalTop P fuel dbg kind f s).2.run.sigDebug = dbg ∧ (evalTop P fuel dbg kind f s).2.run.debugDepth = dbg ∧
    (evalTop P fuel dbg kind f s).2.run.efDebug = dbg := by
  rw [evalTop_eq]
  have da := debug_all P fuel
  cases kind with
  | callF =>
    simp only
    have h := da.2.1 f (baseSt dbg s)
    exact ⟨h.1, h.2.1, h.2.2 rfl⟩
  | topCode =>
    simp only
    have h := da.2.2.1 f 0 (baseSt dbg s)
    exact ⟨h.1, h.2.1, h.2.2 rfl⟩

/-- **panic bookkeeping restored** (code with gomacro a642365, `savesPanic = true`): if no panic is recorded
    when the evaluation starts, none is recorded when it is over (normally or aborted at any point), and `Panic`
    has its old value: nothing is left for a later `recover()` (`stale_panicfun_harmless`, for all programs). -/
theorem panic_bookkeeping_restored (P : Prog) (hfix : P.savesPanic = true) (fuel : Nat) (dbg : Bool) (kind : Kind) (f : Nat) (s : St)
    (h0 : s.run.panicFun = none) (hn : 0 < s.nextEnv) :
    (evalTop P fuel dbg kind f s).2.run.panicFun = none ∧
    (evalTop P fuel dbg kind f s).2.run.panicVal = s.run.panicVal ∧
    s.nextEnv ≤ (evalTop P fuel dbg kind f s).2.nextEnv := by
  have pr := pair_all P hfix fuel
  have hinv : Inv [] { s with run := applyDebugOp dbg { s.run with sync := .none, currEnv := some 0 } } :=
    ⟨fun e he => by simp [applyDebugOp, h0] at he, fun e he => by cases he⟩
  unfold evalTop
  cases kind with
  | callF =>
    simp only
    have hb := pr.2.1 [] f { s with run := applyDebugOp dbg { s.run with sync := .none, currEnv := some 0 } } hinv
    rcases hcf : callFn P fuel f { s with run := applyDebugOp dbg { s.run with sync := .none, currEnv := some 0 } } with ⟨o, s1⟩
    rw [hcf] at hb
    have hp := hb.2.2 (fun _ e _ he => by cases he)
    exact ⟨hp.1.trans h0, hp.2, hb.2.1⟩
  | topCode =>
    simp only
    have hb := pr.2.2.1 [] f 0 { s with run := applyDebugOp dbg { s.run with sync := .none, currEnv := some 0 } } hinv (by simp) hn
    rcases hcf : execFn P fuel f 0 { s with run := applyDebugOp dbg { s.run with sync := .none, currEnv := some 0 } } with ⟨o, s1⟩
    rw [hcf] at hb
    have hp := hb.2.2 (fun _ e _ he => by cases he)
    exact ⟨hp.1.trans h0, hp.2, hb.2.1⟩

/-- the state of `fast.Run` between evaluations -/
def Idle (s : St) : Prop :=
  s.run.efStart = false ∧ s.run.efDefer = false ∧ s.run.deferOfFun = none ∧ s.run.currEnv = none ∧
  s.run.panicFun = none ∧ 0 < s.nextEnv

/-- **abort_restores, all live fields.**  Every evaluation -- whatever the program, wherever it is aborted --
    takes an idle interpreter back to an idle interpreter with the same `Panic`; by `dead_fields` the two
    remaining fields (`Interrupt`, `Sync`) cannot influence what follows.  Hence, by induction, this holds
    after any history of evaluations. -/
theorem idle_preserved (P : Prog) (hfix : P.savesPanic = true) (fuel : Nat) (dbg : Bool) (kind : Kind) (f : Nat) (s : St) (h : Idle s) :
    Idle (evalTop P fuel dbg kind f s).2 ∧ (evalTop P fuel dbg kind f s).2.run.panicVal = s.run.panicVal := by
  obtain ⟨h1, h2, h3, h4, h5, h6⟩ := h
  have ha := abort_restores P fuel dbg kind f s h1
  have hp := panic_bookkeeping_restored P hfix fuel dbg kind f s h5 h6
  exact ⟨⟨ha.1, ha.2.1.trans h2, ha.2.2.1.trans h3, ha.2.2.2.trans h4, hp.1, Nat.lt_of_lt_of_le h6 hp.2.2⟩, hp.2.1⟩

/-- any history of evaluations (each with its own program, fault point and fuel) from a fresh interpreter -/
def evalHistory : List (Prog × Nat × Bool × Kind × Nat) → St → St
  | [], s => s
  | (P, fuel, dbg, kind, f) :: rest, s => evalHistory rest (evalTop P fuel dbg kind f s).2

theorem idle_after_history (h : List (Prog × Nat × Bool × Kind × Nat)) (hfix : ∀ x ∈ h, x.1.savesPanic = true) (s : St) (hs : Idle s) :
    Idle (evalHistory h s) ∧ (evalHistory h s).run.panicVal = s.run.panicVal := by
  induction h generalizing s with
  | nil => exact ⟨hs, rfl⟩
  | cons x rest ih =>
    obtain ⟨P, fuel, dbg, kind, f⟩ := x
    have h1 := idle_preserved P (hfix (P, fuel, dbg, kind, f) (List.Mem.head _)) fuel dbg kind f s hs
    have h2 := ih (fun y hy => hfix y (List.Mem.tail _ hy)) _ h1.1
    exact ⟨h2.1, h2.2.trans h1.2⟩

theorem idle_fresh : Idle ({} : St) := ⟨rfl, rfl, rfl, rfl, rfl, by decide⟩

/-! ## the three defects found with this machinery, as facts about the model
(the evaluator is defined by well-founded recursion, so concrete runs are computed with its equation lemmas) -/

def U0 : Unroll := { rounds := 5, chain := 14, spin := 15 }

/-- f0: `{ defer f1(); panic(5) }`, f1: `nop++`, f2: `{ defer f3(); nop++ }`, f3: `rec(recover())` -/
def exStale (saves : Bool) : Prog :=
  { body := fun f => match f with
      | 0 => [.dfr 1, .panic 5] | 1 => [.pad 1] | 2 => [.dfr 3, .pad 1] | 3 => [.recover] | _ => [],
    K := 0, U := U0, savesPanic := saves }

set_option maxRecDepth 8000 in
/-- before gomacro a642365: after the aborted top-level evaluation f0, the later evaluation f2 (which does not
    panic) recovers the stale value 5; a fresh interpreter logs nil.  (finding `stale-panic-recovered-by-later-evaluation`) -/
theorem stale_panic_observable_before_fix :
    (evalTop (exStale false) 30 false .topCode 2 (evalTop (exStale false) 30 false .topCode 0 {}).2).2.log = [5] ∧
    (evalTop (exStale false) 30 false .topCode 2 {}).2.log = [0] := by
  simp [evalTop, applyDebugOp, callFn, execFn, runOps, runDefers, exStale, Prog.withDefers, Op.isDfr, advance, nextRound, U0, nilStmtCrash, recoverOp]

set_option maxRecDepth 8000 in
/-- with the code as it is now the later evaluation is unaffected -/
theorem stale_panic_gone :
    (evalTop (exStale true) 30 false .topCode 2 (evalTop (exStale true) 30 false .topCode 0 {}).2).2.log = [0] ∧
    (evalTop (exStale true) 30 false .topCode 0 {}).1 = .panic 5 ∧
    (evalTop (exStale true) 30 false .topCode 0 {}).2.run.panicFun = none := by
  simp [evalTop, applyDebugOp, callFn, execFn, runOps, runDefers, exStale, Prog.withDefers, Op.isDfr, advance, nextRound, U0, nilStmtCrash, recoverOp]

/-- f0: `defer f1(); panic(5)`, f1: `f2()`, f2: `defer f3(); panic(6)`, f3: `rec(recover())` -/
def exNested (saves : Bool) : Prog :=
  { body := fun f => match f with
      | 0 => [.dfr 1, .panic 5] | 1 => [.call 2] | 2 => [.dfr 3, .panic 6] | 3 => [.recover] | _ => [],
    K := 0, U := U0, savesPanic := saves }

set_option maxRecDepth 8000 in
/-- before a642365 the outer panic 5 was dropped (finding `nested-recover-swallows-outer-panic`); now it propagates as in Go -/
theorem nested_recover_outer_panic :
    (evalTop (exNested false) 30 false .callF 0 {}).1 = .ok ∧ (evalTop (exNested true) 30 false .callF 0 {}).1 = .panic 5 := by
  simp [evalTop, applyDebugOp, callFn, execFn, runOps, runDefers, exNested, Prog.withDefers, Op.isDfr, advance, nextRound, U0, nilStmtCrash, recoverOp]

/-- f0: 4 statements (past the first phase of the small unrolling `U1`), `try(f1)`, return; f1: `panic(7)`.
    The compiled `try` recovers the panic of `f1`, whose `exec` had set `run.Interrupt = nil`; `f0` is in its
    second phase and its return jumps to a nil statement: Go runtime panic instead of a normal return
    (finding `nil-statement-after-panic-recovered-by-compiled-code`, still present).  The same with the real
    constants (80 statements) is what the correspondence run observes. -/
def exNilStmt : Prog :=
  { body := fun f => match f with | 0 => [.pad 4, .try_ 1] | 1 => [.panic 7] | _ => [],
    K := 0, U := { rounds := 2, chain := 2, spin := 3 }, savesPanic := true }

set_option maxRecDepth 8000 in
theorem nil_statement_crash :
    (evalTop exNilStmt 30 false .callF 0 {}).1 = .panic crash ∧ (evalTop exNilStmt 30 false .callF 0 {}).2.log = [7] := by
  simp [evalTop, applyDebugOp, callFn, execFn, runOps, runDefers, exNilStmt, Prog.withDefers, Op.isDfr, advance, nextRound, nilStmtCrash, recoverOp, crash]

/-! ## obligations over the regenerated table `Gen/RunFields.lean` -/

/-- the executor reinstates `Panic`/`PanicFun` (commit a642365 is present in the tree under test) -/
theorem saves_panic : Gen.RunFields.savesPanic = true := by decide

/-- `RunExpr` resets and `DebugExpr` arms the debugger mode BEFORE running the code, by plain statements -/
theorem debug_op_calls : Gen.RunFields.debugOpCalls =
    [("RunExpr", "DebugOpContinue", "before"), ("DebugExpr", "DebugOpStep", "before")] := by decide

/-- every read / write site of the fields whose staleness matters (`PanicFun`, `DeferOfFun`, `CurrEnv`, and
    `Panic` outside the debugger's `DebugOp.Panic`): a new reader or writer breaks this obligation and has
    to be transcribed into the model. -/
theorem run_field_sites :
    Gen.RunFields.sites.filter (fun x => (x.1 == "PanicFun" || x.1 == "DeferOfFun" || x.1 == "CurrEnv" || x.1 == "Panic")
      && x.2.1 != "fast/debug.go:applyDebugOp") =
    [("CurrEnv", "fast/code.go:reExecWithFlags", "read", 1),
     ("CurrEnv", "fast/code.go:restore", "write", 1),
     ("CurrEnv", "fast/compile.go:FreeEnv", "write", 1),
     ("CurrEnv", "fast/compile.go:NewEnv", "write", 1),
     ("CurrEnv", "fast/compile.go:freeEnv4Func", "write", 1),
     ("CurrEnv", "fast/compile.go:newEnv4Func", "read", 1),
     ("CurrEnv", "fast/compile.go:newEnv4Func", "write", 1),
     ("CurrEnv", "fast/repl.go:setCurrEnv", "read", 1),
     ("CurrEnv", "fast/repl.go:setCurrEnv", "write", 1),
     ("DeferOfFun", "fast/builtin.go:callRecover", "read", 2),
     ("DeferOfFun", "fast/code.go:popDefer", "write", 1),
     ("DeferOfFun", "fast/code.go:pushDefer", "read", 1),
     ("DeferOfFun", "fast/code.go:pushDefer", "write", 1),
     ("Panic", "fast/builtin.go:callRecover", "read", 1),
     ("Panic", "fast/builtin.go:callRecover", "write", 1),
     ("Panic", "fast/code.go:maybeRepanic", "read", 1),
     ("Panic", "fast/code.go:reExecWithFlags", "read", 1),
     ("Panic", "fast/code.go:reExecWithFlags", "write", 2),
     ("PanicFun", "fast/builtin.go:callRecover", "read", 3),
     ("PanicFun", "fast/builtin.go:callRecover", "write", 1),
     ("PanicFun", "fast/code.go:maybeRepanic", "read", 1),
     ("PanicFun", "fast/code.go:pushDefer", "write", 1),
     ("PanicFun", "fast/code.go:reExecWithFlags", "read", 1),
     ("PanicFun", "fast/code.go:reExecWithFlags", "write", 1)] := by decide

end Restore
