import Proofs.MacroExpand
/-!
# C20  Macro expansion rewrites exactly the macro calls and leaves other code unchanged

Theorems about `Model/MacroExpand.lean` (the transcription of `fast/macroexpand.go`,
`base/quasiquote.go`, `ast2/unwrap.go` with `fixes/C20-sole-macro-call.diff` applied).
All are for every tree, every macro table (macros are arbitrary functions), every fuel, and speak
about runs that end (`= .ok _`; the real loop has no bound either).
-/
namespace MacroExpand
open Tree

/-- **Macro-free code comes out unchanged up to meaning-free wrappers.**
    With no name bound to a macro, for every well-slotted tree (every child fits the go/ast type of
    its field, as for every tree the parser or the ast2 constructors build), every depth and fuel:
    the walk reports "nothing expanded" and its result equals the input after erasing parentheses,
    `ExprStmt`/`DeclStmt` wrappers, one-element blocks and `~macro{}` block expressions. -/
theorem macrofree_identity (f : Nat) (d : Int) (t t' : Tree) (e : Bool) (hws : ws t = true)
    (h : codewalk noMac f t d = .ok (t', e)) : e = false ∧ erase t' = erase t :=
  let r := (codewalk_macrofree f d).2 t t' e hws h
  ⟨r.1, r.2.1⟩

/-- ... and a list (statement list, expression list, block of two or more statements, declaration
    group, ...) comes out as a list of the same kind with the same attributes. -/
theorem macrofree_keeps_lists (f : Nat) (d : Int) (t t' : Tree) (e : Bool) (hws : ws t = true)
    (h : codewalk noMac f t d = .ok (t', e)) (k : Kind) (c : Cat) (a : String) (es : Slot) (ks : List Tree)
    (hu : unwrap true t = .list k c a es ks) : ∃ ks', t' = .list k c a es ks' :=
  (codewalk_macrofree f d).2 t t' e hws h |>.2.2 k c a es ks hu

/-- the wrapper removal keeps a one-statement block that holds a declaration (`{ x := 1 }`, `{ var x int }`) -/
theorem decl_block_kept (b : Bool) (c : Cat) (a : String) (s : Slot) (x : Tree) (hd : isDeclish x = true) :
    unwrap b (.list .blockStmt c a s [x]) = .list .blockStmt c a s [x] := by
  rw [unwrap]; simp [hd]

/-- **Each macro call consumes exactly `arity` following elements and is replaced by its results in
    order.**  In a list `pre ++ head :: args ++ rest` where no element of `pre` is a macro call, `head`
    is a call of `m` and `args` has `m.arity` elements, one `MacroExpand1` scan yields: `pre`
    unchanged (converted for the list type), then the values `m` returns for exactly `args` (lists
    spliced, nil dropped), then the scan of `rest` — the scan resumes right behind the consumed elements. -/
theorem consume_exact (tbl : Tbl) (es : Slot) (m : Macro) (head : Tree) (pre args rest : List Tree)
    (hpre : ∀ x ∈ pre, macroOf tbl x = none) (hm : macroOf tbl head = some m) (hlen : args.length = m.arity) :
    scan tbl es (pre ++ head :: (args ++ rest)) = (do
      let pre' ← pre.mapM (conv es)
      let args' ← args.mapM toNode
      let rs ← (spliceResults (m.run args')).mapM (conv es)
      let (o, _) ← scan tbl es rest
      pure (pre' ++ (rs ++ o), true)) :=
  scan_consume tbl es m head args rest pre hpre hm hlen

/-- a call with fewer following elements than parameters is an error, nothing is consumed silently -/
theorem consume_too_few (tbl : Tbl) (es : Slot) (m : Macro) (head : Tree) (pre rest : List Tree)
    (hpre : ∀ x ∈ pre, macroOf tbl x = none) (hm : macroOf tbl head = some m) (hlt : rest.length < m.arity) :
    ∃ err, scan tbl es (pre ++ head :: rest) = .error err := by
  induction pre with
  | nil => exact ⟨_, scan_too_few tbl es head rest m hm hlt⟩
  | cons y ys ih =>
    have hy : macroOf tbl y = none := hpre y (List.mem_cons_self ..)
    obtain ⟨err, he⟩ := ih (fun x hx => hpre x (List.mem_cons_of_mem _ hx))
    rw [List.cons_append, scan_nomacro tbl es y _ hy, he]
    cases conv es y with
    | error e' => exact ⟨e', rfl⟩
    | ok y' => exact ⟨err, rfl⟩

/-- **Expansion repeats until no macro call remains at that position.**  Whatever `MacroExpand`
    returns, if it is a list then none of its elements is a macro call any more. -/
theorem fixpoint_at_position (tbl : Tbl) (fuel : Nat) (t t' : Tree) (e : Bool)
    (h : macroExpand tbl fuel t = .ok (t', e)) (k : Kind) (c : Cat) (a : String) (es : Slot) (ks : List Tree)
    (ht : t' = .list k c a es ks) : ∀ x ∈ ks, macroOf tbl x = none :=
  macroExpandLoop_fixpoint tbl fuel t t' false e h k c a es ks ht

/-- the same for a single step that reports "nothing expanded" -/
theorem expand1_done (tbl : Tbl) (f : Nat) (t t' : Tree) (h : expand1 tbl f t = .ok (t', false))
    (k : Kind) (c : Cat) (a : String) (es : Slot) (ks : List Tree) (ht : t' = .list k c a es ks) :
    ∀ x ∈ ks, macroOf tbl x = none :=
  expand1_false_nomacro tbl f t t' h k c a es ks ht

/-- **Code inside a quote is never expanded.**  At quasiquote depth 0 a `~quote` form with any
    content whatsoever is returned as it is, whatever the macro table. -/
theorem quote_opaque (tbl : Tbl) (f : Nat) (c : Cat) (ss : List Slot) (k0 : Tree) (ks : List Tree) :
    codewalk tbl (f+3) (.node .unaryExpr c opQuote ss (k0 :: ks)) 0
      = .ok (.node .unaryExpr c opQuote ss (k0 :: ks), false) :=
  quote_walk tbl f c ss k0 ks

/-- **Code inside a quasiquote is expanded only where it is unquoted.**  At depth `d ≥ 1`, on a tree in
    which no chain of `~unquote`/`~unquote_splice` reaches back to depth 0 (`escapes t d = false`), the
    walk does not depend on the macro table: with any macros it does what it does with none. -/
theorem quasiquote_expands_only_unquoted (tbl tbl' : Tbl) (f : Nat) (t : Tree) (d : Int) (hd : 1 ≤ d)
    (he : escapes t d = false) : codewalk tbl f t d = codewalk tbl' f t d :=
  codewalk_indep tbl tbl' f t d hd he

/-- in particular such code comes out unchanged up to erased wrappers and is reported as not expanded -/
theorem quasiquote_body_unchanged (tbl : Tbl) (f : Nat) (t t' : Tree) (d : Int) (e : Bool) (hd : 1 ≤ d)
    (he : escapes t d = false) (hws : ws t = true) (h : codewalk tbl f t d = .ok (t', e)) :
    e = false ∧ erase t' = erase t := by
  rw [codewalk_indep tbl noMac f t d hd he] at h
  exact macrofree_identity f d t t' e hws h

/-! ## non-vacuity -/

section examples
def idX : Tree := .node .ident .expr "nx" [] []
def idM : Tree := .node .ident .expr "nm1" [] []
def stmt (x : Tree) : Tree := mkExprStmt x
/-- `m1` has one parameter and returns it twice wrapped: here simply the argument and `nil` -/
def tbl1 : Tbl := fun n => if n = "nm1" then some { arity := 1, run := fun args => args ++ [.nil] } else none

example : macroOf tbl1 (stmt idM) = some { arity := 1, run := fun args => args ++ [.nil] } := by
  simp [macroOf, stmt, mkExprStmt, idM, unwrap, tbl1]
example : macroOf tbl1 (stmt idX) = none := by
  simp [macroOf, stmt, mkExprStmt, idX, unwrap, tbl1]
-- consume_exact applies to  x; m1; x; x
example : ∃ r, scan tbl1 .stmt ([stmt idX] ++ stmt idM :: ([stmt idX] ++ [stmt idX])) = r :=
  ⟨_, consume_exact tbl1 .stmt { arity := 1, run := fun args => args ++ [.nil] } (stmt idM) [stmt idX] [stmt idX] [stmt idX]
    (by intro x hx; simp at hx; subst hx; simp [macroOf, stmt, mkExprStmt, idX, unwrap, tbl1])
    (by simp [macroOf, stmt, mkExprStmt, idM, unwrap, tbl1]) rfl⟩
-- a well-slotted tree with wrappers: ((x)) as statement
def parens : Tree := mkExprStmt (.node .parenExpr .expr "-" [.expr] [.node .parenExpr .expr "-" [.expr] [idX]])
example : ws parens = true := by simp [parens, mkExprStmt, idX, ws, wsL, slotsOk, slotOk, kindOk]
example : erase parens = idX := by simp [parens, mkExprStmt, idX, erase, eraseL, eraseNode]
example : isDeclish (.node .assignStmt .stmt ":=" [.exprs, .exprs] [.nil, .nil]) = true := by simp [isDeclish]
-- escapes: ~unquote{x} escapes depth 1, x does not
example : escapes idX 1 = false := by simp [idX, escapes, escapesL]
example : escapes (mkQuoteForm opUnquote (mkBlock [stmt idM])) 1 = true := by
  simp [mkQuoteForm, escapes, escapesL, isQuoteAttr, depthAfter, opUnquote, opQuasiquote, opMacro, opQuote, opUnquoteSplice]
example : escapes (mkQuoteForm opQuasiquote (mkBlock [stmt idM])) 1 = false := by
  simp [mkQuoteForm, mkBlock, mkFieldList, stmt, mkExprStmt, idM, escapes, escapesL, isQuoteAttr, depthAfter, firstIsUnary,
    opUnquote, opQuasiquote, opMacro, opQuote, opUnquoteSplice]
end examples

end MacroExpand
