import Model.MacroExpand
namespace MacroExpand
end MacroExpand
