import Proofs.ClassicOps
import Proofs.ClassicFlow
import Gen.ClassicBinary

/-!
# C38 — the classic interpreter matches Go on its documented subset

Model: `Model/ClassicOps.lean` (operators: arms regenerated from classic/binaryexpr.go and unaryexpr.go into
`Gen/ClassicBinary.lean`, interpreted), `Model/Classic.lean` (statements: direct evaluator with control panics).
Specification side: `GoSpec.binop` / `GoSpec.unop` (C01) and `Flow.Ref` (C05).

Proved here, for ALL operand values / ALL programs of the supported fragment / every fuel:

* `tables_accepted`, `frames_accepted`, `dispatch_accepted` — the regenerated tables are the accepted ones
  (kernel-checked; a source change breaks them);
* `classic_binop_sound` — same-kind integer operands of any width ≤ 64, signed or unsigned, every operator except
  shifts: wide arithmetic + conversion back = the Go operator (wrap-around, division by zero, MinInt / -1,
  comparisons), for BOTH code variants;
* `classic_binop_sound_kinds` — the same statement for the eleven Go integer kinds;
* `classic_scalar_sound` — strings (concatenation, comparisons), bools, float64 (operator selection; IEEE
  arithmetic is the parameter `F`);
* `classic_shift_sound` — the repaired `evalShift` is Go's shift for every operand kind × count kind × value;
  `orig_shift_negative_count_no_panic`, `orig_shift_assign_count_converted` — the ORIGINAL code is not;
* `classic_unary_sound` — unary `+ - ^` on the integer kinds;
* `classic_flow_eq_ref`, `classic_block_eq_ref`, `classic_run_eq_ref` — the statement evaluator of the repaired
  tree computes the reference semantics on every supported program (blocks, if/else with init, the three for
  forms, range over slices/strings, switch with default anywhere and fallthrough, labelled and unlabelled
  break/continue, return), fuel for fuel, time-outs included;
* `classic_switch_selects_go_clause` — the two loops of evalSwitch select the clause Go selects;
* `orig_labelled_loop_never_ends`, `orig_range_without_vars_skips_body` — the ORIGINAL code deviates.

PARTIAL (see props/C38.json): float32 (double rounding is an IEEE fact, not proved), complex, mixed operand
kinds (documented as inaccurate), scopes (by-name lookup, frames only for declaring scopes), closures, calls,
defer/recover: correspondence and compiled-Go oracle only.
-/

namespace Classic
open GoSpec Flow

/-- the tables the driver evaluates -/
def genTables : Tables :=
  { boolBool := Gen.ClassicBinary.boolBoolArms, intInt := Gen.ClassicBinary.intIntArms,
    uintUint := Gen.ClassicBinary.uintUintArms, float := Gen.ClassicBinary.floatArms,
    string := Gen.ClassicBinary.stringArms, unary := Gen.ClassicBinary.unaryArms }

/-- every extracted arm is an accepted one -/
theorem tables_accepted : genTables = golden := by decide +kernel

/-- the statements around the `switch op` of every operator function are the accepted ones -/
theorem frames_accepted :
    Gen.ClassicBinary.intIntFrame = goldenIntIntFrame ∧ Gen.ClassicBinary.uintUintFrame = goldenUintUintFrame ∧
    Gen.ClassicBinary.boolBoolFrame = goldenBoolBoolFrame ∧ Gen.ClassicBinary.floatFrame = goldenFloatFrame ∧
    Gen.ClassicBinary.stringFrame = goldenStringFrame ∧ Gen.ClassicBinary.unaryFrame = goldenUnaryFrame := by
  decide +kernel

/-- the kind dispatch of evalBinaryExpr is the accepted one; the prologue is that of the original tree, of
    the tree with the shift repair, or of the tree with the shift and the nil-comparison repairs -/
theorem dispatch_accepted :
    Gen.ClassicBinary.dispatch = goldenDispatch ∧
    ((Gen.ClassicBinary.dispatchFrame = goldenDispatchFrameOrig ∧ Gen.ClassicBinary.shiftFrame = []) ∨
     (Gen.ClassicBinary.dispatchFrame = goldenDispatchFrameShift ∧ Gen.ClassicBinary.shiftFrame = goldenShiftFrame) ∨
     (Gen.ClassicBinary.dispatchFrame = goldenDispatchFrameFixed ∧ Gen.ClassicBinary.shiftFrame = goldenShiftFrame)) := by
  decide +kernel

/-! ## operators -/

theorem classic_binop_sound (c : Cfg) (F : FloatOps) (op : BinOp) (hs : op.isShift = false)
    (hl : op ≠ .land ∧ op ≠ .lor) (k : Kind) (ik : IKind) (hw : ik.w ≤ 64) (x y : BitVec ik.w) :
    projV (binary c golden F op false ⟨k, .int ik x⟩ ⟨k, .int ik y⟩) = GoSpec.binop F op (.int ik x) (.int ik y) :=
  binary_int_sound c F op hs hl k ik hw x y

theorem ikind_le (k : Kind) (ik : IKind) (h : k.ikind? = some ik) : ik.w ≤ 64 := by
  cases k <;> simp [Kind.ikind?] at h <;> subst h <;> decide

/-- for int, int8 … int64, uint, uint8 … uint64, uintptr -/
theorem classic_binop_sound_kinds (c : Cfg) (F : FloatOps) (op : BinOp) (hs : op.isShift = false)
    (hl : op ≠ .land ∧ op ≠ .lor) (k : Kind) (ik : IKind) (hk : k.ikind? = some ik) (x y : BitVec ik.w) :
    projV (binary c golden F op false ⟨k, .int ik x⟩ ⟨k, .int ik y⟩) = GoSpec.binop F op (.int ik x) (.int ik y) :=
  binary_int_sound c F op hs hl k ik (ikind_le k ik hk) x y

/-- the same holds with the regenerated tables (by `tables_accepted`) -/
theorem classic_binop_sound_gen (c : Cfg) (F : FloatOps) (op : BinOp) (hs : op.isShift = false)
    (hl : op ≠ .land ∧ op ≠ .lor) (k : Kind) (ik : IKind) (hk : k.ikind? = some ik) (x y : BitVec ik.w) :
    projV (binary c genTables F op false ⟨k, .int ik x⟩ ⟨k, .int ik y⟩) = GoSpec.binop F op (.int ik x) (.int ik y) := by
  rw [tables_accepted]; exact classic_binop_sound_kinds c F op hs hl k ik hk x y

theorem classic_scalar_sound (c : Cfg) (F : FloatOps) (op : BinOp) :
    (∀ x y : List UInt8, projV (binary c golden F op false ⟨.string, .str x⟩ ⟨.string, .str y⟩) = GoSpec.binop F op (.str x) (.str y)) ∧
    (∀ x y : Bool, projV (binary c golden F op false ⟨.bool, .bool x⟩ ⟨.bool, .bool y⟩) = GoSpec.binop F op (.bool x) (.bool y)) ∧
    (∀ x y : BitVec 64, projV (binary c golden F op false ⟨.float64, .f64 x⟩ ⟨.float64, .f64 y⟩) = GoSpec.binop F op (.f64 x) (.f64 y)) := by
  refine ⟨?_, ?_, ?_⟩ <;> intro x y <;> cases op <;>
    simp [binary, golden, goldenString, goldenBoolBool, goldenFloat, cmpArms, findArm, tokOf, BinOp.name, headStmt,
      rhsString, rhsBool, rhsFloat, projV, GoSpec.binop, bind, Option.bind]

theorem classic_shift_sound (F : FloatOps) (op : BinOp) (hop : op = .shl ∨ op = .shr) (assign : Bool)
    (kx ky : Kind) (ikx iky : IKind) (hx : kx.ikind? = some ikx) (hy : ky.ikind? = some iky)
    (x : BitVec ikx.w) (y : BitVec iky.w) :
    projV (binary fixedCfg golden F op assign ⟨kx, .int ikx x⟩ ⟨ky, .int iky y⟩) = GoSpec.binop F op (.int ikx x) (.int iky y) :=
  shift_sound F op hop assign kx ky ikx iky (ikind_le kx ikx hx) (ikind_le ky iky hy) x y

def int64k : IKind := ⟨64, true⟩
def int8k : IKind := ⟨8, true⟩

/-- ORIGINAL code: `1 << -1` on int operands yields 0 where Go panics -/
theorem orig_shift_negative_count_no_panic (F : FloatOps) :
    projV (binary origCfg golden F .shl false ⟨.int, .int int64k 1⟩ ⟨.int, .int int64k (-1)⟩) = some (.ok (.int int64k 0)) ∧
    GoSpec.binop F .shl (.int int64k 1) (.int int64k (-1)) = some (.panic .negShift) := by
  constructor <;> rfl

/-- ORIGINAL code: `x <<= c` converts the count to the type of x first: int8(1) <<= 257 gives 2, Go gives 0 -/
theorem orig_shift_assign_count_converted (F : FloatOps) :
    projV (assignOp origCfg golden F .shl ⟨.int8, .int int8k 1⟩ ⟨.int, .int int64k 257⟩) = some (.ok (.int int8k 2)) ∧
    projV (assignOp fixedCfg golden F .shl ⟨.int8, .int int8k 1⟩ ⟨.int, .int int64k 257⟩) = some (.ok (.int int8k 0)) ∧
    GoSpec.binop F .shl (.int int8k 1) (.int int64k 257) = some (.ok (.int int8k 0)) := by
  refine ⟨?_, ?_, ?_⟩ <;> rfl

theorem classic_unary_sound (F : FloatOps) (op : UnOp) (k : Kind) (ik : IKind) (hk : k.ikind? = some ik) (x : BitVec ik.w) :
    projV (unary golden F op ⟨k, .int ik x⟩) = GoSpec.unop F op (.int ik x) := by
  have hw := ikind_le k ik hk
  have h1 : I.conv ik.signed (widen ik x) ik.w = x := by
    unfold widen
    cases hs : ik.signed
    · simp [conv_false, zext_trunc hw]
    · simp [conv_true hw, sext_trunc hw]
  have h2 : ∀ v : BitVec ik.w, I.conv ik.signed v ik.w = v := by
    intro v; cases ik.signed <;> simp [I.conv]
  cases k <;> simp [Kind.ikind?] at hk <;> subst hk <;> cases op <;>
    simp [unary, golden, goldenUnary, mkU, signedUn, unsignedUn, Kind.rname, Kind.isNumeric, Kind.isInteger, Kind.isFloat,
      Kind.isComplex, Kind.ikind?, convOf, findArm, tokOfUn, headStmt, projV, GoSpec.unop, bind, Option.bind] <;>
    first
      | (have e := h1; have e2 := h2; simp_all [I.neg, I.not])
      | skip

/-! ## statements -/

/-- the statement evaluator of the repaired tree computes the reference semantics, fuel for fuel -/
theorem classic_flow_eq_ref (n : Nat) (s : Stmt) (st : St) (h : Sup false s = true) :
    exec fixedCfg n s st = Ref.exec n s st := (all_claims n).1 s st h

theorem classic_block_eq_ref (n : Nat) (b : Stmt) (st : St) (h : Sup false b = true) :
    execBlock fixedCfg n b st = Ref.execBlock n b st := (all_claims n).2.1 b st h

/-- whole function bodies: a supported body has no goto target, so `Ref.run` does not restart anywhere -/
theorem classic_run_eq_ref (s : Stmt) (fuel : Nat) (frame : Frame) (h : Sup false s = true) :
    run fixedCfg s (fuel + 1) frame = Ref.run s (fuel + 2) frame := by
  unfold run Ref.run
  rw [execFrom_sup (fuel + 1) s _ h, classic_flow_eq_ref (fuel + 1) s _ h]
  rfl

/-- the clause at which evalSwitch starts executing is the one Go selects, and the case expressions evaluated
    on the way (left to right, top to bottom, until the first match) leave the same side effects -/
theorem classic_switch_selects_go_clause (tagv : Int) (st : St) (cls : Stmt) (h : numDefaults cls ≤ 1) :
    pickCase tagv st cls = selectCaseSt tagv st cls ∧ pickDefault none cls = selectDefault cls :=
  ⟨pickCase_eq tagv cls st, pickDefault_eq cls h⟩

/-- ORIGINAL code: a labelled loop never ends, whatever the fuel -/
theorem orig_labelled_loop_never_ends (n : Nat) (l : Label) (init post body : Stmt) (c : Option Cond) (st : St) :
    exec origCfg n (.for [l] init c post body) st = .timeout := by
  cases n <;> simp [exec, origCfg]

/-- ORIGINAL code: `for range x { body }` runs its body zero times -/
theorem orig_range_without_vars_skips_body (n : Nat) (str dfn : Bool) (keys vals : List Int) (body : Stmt) (st : St) :
    exec origCfg (n + 1) (.range [] str dfn none none keys vals body) st = .ok .normal st := by
  simp [exec, origCfg]

/-! ## non-vacuity -/

/-- a program of the supported fragment: labelled continue out of a switch inside a nested loop, a case
    expression with a side effect, a block with a local, return from inside the loop -/
def demo : Stmt :=
  .seq (.for [7] (.define 10 (.lit 0)) (some (.lt (.var 10) (.lit 3))) (.assign 10 (.add (.var 10) (.lit 1)))
    (.seq (.emit 1 (.var 10))
      (.seq (.for [] (.define 11 (.lit 0)) (some (.lt (.var 11) (.lit 2))) (.assign 11 (.add (.var 11) (.lit 1)))
        (.seq (.switch [] .skip (some (.var 11))
            (.clause (some [.eff 6 (.lit 7), .val (.lit 1)]) false (.cont (some 7))
              (.clause none true (.emit 2 (.var 11))
                (.clause (some [.val (.lit 5)]) false (.block (.seq (.define 4 (.lit 9)) (.seq (.emit 3 (.var 4)) .skip))) .skip))))
          .skip))
        (.seq (.ite .skip (.eq (.var 10) (.lit 2)) (.seq .ret .skip) .skip) .skip))))
    .skip

example : Sup false demo = true := by decide
example : run fixedCfg demo 40 [(0, 0)] = Ref.run demo 41 [(0, 0)] := classic_run_eq_ref demo 39 _ (by decide)
example : (match run fixedCfg demo 40 [(0, 0)] with | .done tr _ => tr.length | _ => 0) = 15 := by decide +kernel
example : run origCfg demo 40 [(0, 0)] = .timeout := by decide +kernel

/-- int8: 100 + 100 wraps to -56; -128 / -1 = -128; 1 / 0 panics -/
example (F : FloatOps) : projV (binary fixedCfg golden F .add false ⟨.int8, .int int8k 100⟩ ⟨.int8, .int int8k 100⟩) =
    some (.ok (.int int8k (-56))) := by rfl
example (F : FloatOps) : projV (binary fixedCfg golden F .quo false ⟨.int8, .int int8k (-128)⟩ ⟨.int8, .int int8k (-1)⟩) =
    some (.ok (.int int8k (-128))) := by rfl
example (F : FloatOps) : projV (binary fixedCfg golden F .quo false ⟨.int8, .int int8k 1⟩ ⟨.int8, .int int8k 0⟩) =
    some (.panic .divide) := by rfl

end Classic
