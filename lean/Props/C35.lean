import Model.Generic
import Proofs.Generic
import Proofs.GenericSubst

/-!
# C35  Generic instantiation behaves like textual specialisation and is memoised

Theorems about `Model/Generic.lean` (the transcription of `genericMaker`, `injectBinds`,
`instantiateType`, `instantiateFunc`, `Comp.Type`, `Expr1OrType`), for ALL generic tables, scope
chains, template bodies, argument lists, cache states and fuel.
-/
namespace Generic

/-- **alias = substitution.**  Compiling a template body in the scope that `injectBinds` creates
    (type parameters as aliases in `Types`, constant parameters as constants in `Binds`) on top of
    the declaring scope chain `U` gives the same type AND has the same effect on every instance
    cache as compiling, in `U`, the body in which the parameters have been textually replaced by
    the already resolved arguments (`subst`).  No capture is possible: the substituted
    arguments are closed (`lit`, `clit`). -/
theorem alias_eq_substitution (G : List GenDecl) (fuel : Nat) (params : List String) (key : Ty)
    (U : Env) (body : TExpr) (st : St) :
    resolve G fuel st (bindParams params key ⟨[], []⟩ :: U) body =
      resolve G fuel st U (subst (bindParams params key ⟨[], []⟩) body) :=
  resolve_subst G fuel _ (paramScope_bindParams params key _ paramScope_empty) U body st

/-- the hand-specialised copy of a generic declaration for the argument list `key` -/
def specialise (d : GenDecl) (key : Ty) : GenDecl :=
  { d with params := []
           body := subst (bindParams d.params key ⟨[], []⟩) d.body
           refs := subst (bindParams d.params key ⟨[], []⟩) d.refs }

/-- **instance = specialised copy.**  Instantiating a generic (type: forward declaration, body;
    function: signature, cache, generic references of the body) is, state for state, the
    instantiation of its textually specialised copy that has no parameters left. -/
theorem instantiate_eq_specialised (G : List GenDecl) (fuel : Nat) (st : St) (U : Env) (gid : Nat)
    (d : GenDecl) (key : Ty) :
    instantiate (some (resolve G fuel)) st U gid d key =
      instantiate (some (resolve G fuel)) st U gid (specialise d key) key := by
  have hb : ∀ st x, resolve G fuel st (bindParams d.params key ⟨[], []⟩ :: U) x =
      resolve G fuel st (⟨[], []⟩ :: U) (subst (bindParams d.params key ⟨[], []⟩) x) := by
    intro st x
    rw [alias_eq_substitution, resolve_empty_scope]
  unfold instantiate
  simp only [specialise, bindParams, hb]

/-- **arguments are resolved in the caller's scope, bodies never are.**  The compilation of
    `G#[args]` depends on the caller's scope chain only through the generic the name denotes
    (with the chain suffix that holds it) and through what the arguments resolve to: two call
    sites that agree on these get the same instance and the same cache effects, whatever else
    their scopes bind (in particular names equal to the parameter names). -/
theorem args_resolved_in_caller_scope (G : List GenDecl) (fuel : Nat) (st : St) (E1 E2 : Env)
    (fn : Bool) (g1 g2 : String) (a1 a2 : TExpr)
    (hg : lookupBind E1 g1 = lookupBind E2 g2)
    (har : arity a1 = arity a2)
    (ha : resolve G fuel st E1 a1 = resolve G fuel st E2 a2) :
    resolve G fuel st E1 (.gen fn g1 a1) = resolve G fuel st E2 (.gen fn g2 a2) := by
  cases fuel with
  | zero =>
    simp only [resolve] at ha ⊢
    simp only [resolveX, hg, har, ha]
  | succ n =>
    simp only [resolve] at ha ⊢
    simp only [resolveX, hg, har, ha]

/-- key equality is argument-list identity: the keys of two argument lists coincide iff the
    lists have the same length and pairwise identical (resolved) arguments -/
def keyOf : List Ty → Ty
  | [] => .anil
  | a :: rest => .acons a (keyOf rest)

theorem key_eq_iff_args_identical (as bs : List Ty) : keyOf as = keyOf bs ↔ as = bs := by
  induction as generalizing bs with
  | nil => cases bs <;> simp [keyOf]
  | cons a rest ih =>
    cases bs with
    | nil => simp [keyOf]
    | cons b rest' => simp [keyOf, ih]

/-- a constant argument is identified by its value AND its type (the repaired `GenericKey`) -/
theorem const_key_distinguishes_types (v : Int) (t u : Ty) (h : t ≠ u) :
    keyOf [Ty.cval v t] ≠ keyOf [Ty.cval v u] := by
  simp [keyOf, h]

/-- **cache invariant, all histories**: from the empty caches, after any sequence of
    compilations (any scopes, expressions, fuel; successful or failing), no generic holds two
    instances for the same argument key and all instance objects are distinct. -/
theorem cache_no_duplicates (G : List GenDecl) (st : St) (h : Reach G St.empty st) :
    st.cache.Pairwise (fun a b => ¬ (a.gid = b.gid ∧ a.key = b.key)) ∧
    st.cache.Pairwise (fun a b => a.obj ≠ b.obj) :=
  let i := reach_inv h inv_empty
  ⟨i.keys, i.objs⟩

/-- **an instance, once cached, is never evicted, replaced or altered** by later compilations -/
theorem cached_instance_stable (G : List GenDecl) (st st' : St) (h : Reach G st st') (e : Entry)
    (he : e ∈ st.cache) : e ∈ st'.cache :=
  reach_mem h he

/-- **memoisation.**  If `g1#[args1]` compiled from scope `E1` yields type `t`, then after ANY
    further history of compilations, `g2#[args2]` compiled from any other scope `E2`, where `g2`
    denotes the same generic and `args2` resolve there to the same key, yields the identical
    `t` from the cache: the state after it is the state after evaluating the arguments (no new
    instance object, nothing recompiled). -/
theorem instantiate_memoized (G : List GenDecl) (f1 f2 : Nat) (st st1 st2 st3 : St) (E1 E2 : Env)
    (fn : Bool) (g1 g2 : String) (a1 a2 : TExpr) (gid : Nat) (U1 U2 : Env) (key t : Ty)
    (hi : Inv st)
    (hg1 : lookupBind E1 g1 = some (.gen gid, U1))
    (hk1 : (resolve G f1 st E1 a1).2 = some key)
    (h1 : resolve G f1 st E1 (.gen fn g1 a1) = (st1, some t))
    (hreach : Reach G st1 st2)
    (hg2 : lookupBind E2 g2 = some (.gen gid, U2))
    (har : arity a2 = arity a1)
    (hk2 : resolve G f2 st2 E2 a2 = (st3, some key)) :
    resolve G f2 st2 E2 (.gen fn g2 a2) = (st3, some t) := by
  -- the first instantiation registered an entry (gid, key) ↦ t
  have hreg : ∃ e ∈ st1.cache, e.gid = gid ∧ e.key = key ∧ e.res = t := by
    cases f1 with
    | zero =>
      simp only [resolve] at h1 hk1
      simp only [resolveX, hg1] at h1
      split at h1
      · cases h1
      · split at h1
        · cases h1
        · split at h1
          · cases h1
          · simp only [hk1] at h1
            split at h1
            · rename_i e he
              cases h1
              obtain ⟨h1, h2, h3⟩ := findEntry_some he
              exact ⟨e, h1, h2, h3, rfl⟩
            · simp [instantiate] at h1
    | succ n =>
      simp only [resolve] at h1 hk1
      simp only [resolveX, hg1] at h1
      split at h1
      · cases h1
      · split at h1
        · cases h1
        · split at h1
          · cases h1
          · simp only [hk1] at h1
            split at h1
            · rename_i e he
              cases h1
              obtain ⟨h1, h2, h3⟩ := findEntry_some he
              exact ⟨e, h1, h2, h3, rfl⟩
            · exact instantiate_registers _ (resolve_stable G n) _ _ _ _ _ _ _ h1
  obtain ⟨e, he, heg, hek, her⟩ := hreg
  -- it survives the history and the evaluation of the second argument list
  have hi1 : Inv st1 := by rw [← show (resolve G f1 st E1 (.gen fn g1 a1)).1 = st1 from by rw [h1]]; exact resolve_inv G f1 st E1 _ hi
  have he2 : e ∈ st2.cache := reach_mem hreach he
  have hi2 : Inv st2 := reach_inv hreach hi1
  have he3 : e ∈ st3.cache := by
    rw [← show (resolve G f2 st2 E2 a2).1 = st3 from by rw [hk2]]; exact resolve_stable G f2 st2 E2 a2 e he2
  have hi3 : Inv st3 := by
    rw [← show (resolve G f2 st2 E2 a2).1 = st3 from by rw [hk2]]; exact resolve_inv G f2 st2 E2 a2 hi2
  have hfind : findEntry st3.cache gid key = some e := by
    rw [← heg, ← hek]; exact findEntry_of_mem hi3.keys he3
  -- class and arity checks passed the first time, they pass again
  have hchk : ∃ d, G[gid]? = some d ∧ classOK fn d.kind = true ∧ arity a1 = d.params.length := by
    cases f1 with
    | zero =>
      simp only [resolve, resolveX, hg1] at h1
      split at h1
      · cases h1
      · rename_i d hd
        split at h1
        · cases h1
        · rename_i hc
          split at h1
          · cases h1
          · rename_i ha
            exact ⟨d, hd, by simpa using hc, by simpa using ha⟩
    | succ n =>
      simp only [resolve, resolveX, hg1] at h1
      split at h1
      · cases h1
      · rename_i d hd
        split at h1
        · cases h1
        · rename_i hc
          split at h1
          · cases h1
          · rename_i ha
            exact ⟨d, hd, by simpa using hc, by simpa using ha⟩
  obtain ⟨d, hd, hc, ha⟩ := hchk
  cases f2 with
  | zero =>
    simp only [resolve] at hk2 ⊢
    simp [resolveX, hg2, hd, hc, har, ha, hk2, hfind, her]
  | succ n =>
    simp only [resolve] at hk2 ⊢
    simp [resolveX, hg2, hd, hc, har, ha, hk2, hfind, her]

/-! ## non-vacuity: a concrete generic `Box#[T] struct{ V T; Next *Box#[T] }` -/

def exBox : GenDecl :=
  ⟨.named, ["T"], .strct (.fcons "V" (.name "T") (.fcons "Next" (.ptr (.gen false "Box" (.acons (.name "T") .anil))) .fnil)), .anil⟩
def exTop : Scope := ⟨[("int", .basic 2), ("string", .basic 4)], [("Box", .gen 0)]⟩
/-- the caller's scope shadows the parameter name `T` -/
def exCaller : Env := [⟨[("T", .basic 4)], []⟩, exTop]

-- the instance is `Box#[int]`, its body sees T = int (not the caller's T = string), one cache entry
example : (resolve [exBox] 3 St.empty exCaller (.gen false "Box" (.acons (.name "int") .anil))).2
    = some (.inst 0 (.acons (.basic 2) .anil)) := by decide
example : ((resolve [exBox] 3 St.empty exCaller (.gen false "Box" (.acons (.name "int") .anil))).1.cache.map (·.under))
    = [some (.strct (.fcons "V" (.basic 2) (.fcons "Next" (.ptr (.inst 0 (.acons (.basic 2) .anil))) .fnil)))] := by decide
-- substitution image of the body for T := int
example : subst (bindParams ["T"] (.acons (.basic 2) .anil) ⟨[], []⟩) exBox.body
    = .strct (.fcons "V" (.lit (.basic 2)) (.fcons "Next" (.ptr (.gen false "Box" (.acons (.lit (.basic 2)) .anil))) .fnil)) := by decide
-- memoisation hypotheses are satisfiable: second instantiation from another scope, through the caller's alias T = string
example : (resolve [exBox] 3 (resolve [exBox] 3 St.empty [exTop] (.gen false "Box" (.acons (.name "string") .anil))).1
      exCaller (.gen false "Box" (.acons (.name "T") .anil))).1.cache.length = 1 := by decide
example : Reach [exBox] St.empty (resolve [exBox] 3 St.empty exCaller (.gen false "Box" (.acons (.name "int") .anil))).1 :=
  Reach.step 3 exCaller _ (Reach.refl _)
example : keyOf [Ty.cval 3 (.named 0)] ≠ keyOf [Ty.cval 3 (.named 1)] :=
  const_key_distinguishes_types 3 _ _ (by decide)

end Generic
