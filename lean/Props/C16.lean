import Proofs.EvalSort
/-!
# C16  Package-level declarations in one evaluation may be written in any order

`Comp.Compile` evaluates the declarations of one evaluation in the order `dep.Sorter.All()` returns
(Model/Dep.lean, theorems in Props/C17.lean).  Here: for declarations whose value is a function of
the values of the names they depend on (`Eval.ADecl`, `Eval.Respects`), ANY two orders in which
dependencies come first give every name the same value (`eval_order_independent`); the order of the
Go specification (repeatedly a variable all of whose dependencies are initialised) is such an
order (`go_order_is_topological`, `go_values_agree`), and so is every order the sorter model returns
for an acyclic declaration set, whatever the textual order was (`sorted_orders_agree`).
-/
namespace Eval
open DepScope (Name)

variable {V : Type}

/-- **eval_order_independent**: two orders of the same declarations (distinct names), each listing
    dependencies first, give every name the same value. -/
theorem eval_order_independent (ds1 ds2 : List (ADecl V)) (env : Name → Option V)
    (hperm : ds1.Perm ds2) (hnd : (namesA ds1).Nodup)
    (ht1 : TopoOn (namesA ds1) ds1) (ht2 : TopoOn (namesA ds1) ds2)
    (hresp : ∀ d ∈ ds1, Respects d) :
    runA ds1 env = runA ds2 env := by
  have hnames : (namesA ds1).Perm (namesA ds2) := hperm.map _
  have hnd2 : (namesA ds2).Nodup := hnames.nodup_iff.mp hnd
  have hresp2 : ∀ d ∈ ds2, Respects d := fun d hd => hresp d (hperm.mem_iff.mpr hd)
  have ht2' : TopoOn (namesA ds2) ds2 := by
    intro pre d post h n hn hN
    exact ht2 pre d post h n hn (hnames.mem_iff.mpr hN)
  have f1 := runA_fixpoint ds1 env hnd ht1 hresp
  have f2 := runA_fixpoint ds2 env hnd2 ht2' hresp2
  funext n
  apply fixpoint_unique ds1 (namesA ds1) (fun d hd => List.mem_map.mpr ⟨d, hd, rfl⟩) ht1 hresp
    (runA ds1 env) (runA ds2 env) f1 (fun d hd => f2 d (hperm.mem_iff.mp hd)) _ (fun n hn => hn)
  intro m hm
  rw [runA_not_mem _ _ _ hm, runA_not_mem _ _ _ (fun h => hm (hnames.mem_iff.mpr h))]

/-- The initialisation order of the Go specification: the next declaration initialised is one whose
    dependencies (among the declared names) are all initialised already.  (The specification also
    picks the EARLIEST such variable; that choice cannot influence the values, by the theorem above.) -/
inductive GoOrder (all : List (ADecl V)) : List (ADecl V) → Prop where
  | nil : GoOrder all []
  | snoc (pre : List (ADecl V)) (d : ADecl V) : GoOrder all pre →
      (∀ n ∈ d.deps, n ∈ namesA all → n ∈ namesA pre) → GoOrder all (pre ++ [d])

/-- **go_order_is_topological** -/
theorem go_order_is_topological (all ds : List (ADecl V)) (h : GoOrder all ds) : TopoOn (namesA all) ds := by
  induction h with
  | nil => intro pre d post h; simp at h
  | snoc pre0 d0 _ hready ih =>
    intro pre d post h n hn hN
    rcases List.append_eq_append_iff.mp h with ⟨l, h1, h2⟩ | ⟨l, h1, h2⟩
    · -- pre = pre0 ++ l, [d0] = l ++ d :: post
      cases l with
      | nil =>
        simp only [List.nil_append] at h2
        injection h2 with h2 h3
        subst h2
        rw [h1, List.append_nil]
        exact hready n hn hN
      | cons x l' =>
        simp only [List.cons_append] at h2
        injection h2 with _ h3
        cases l' <;> simp at h3
    · -- pre0 = pre ++ l, d :: post = l ++ [d0]
      cases l with
      | nil =>
        simp only [List.nil_append] at h2
        injection h2 with h2 h3
        subst h2
        rw [h1, List.append_nil] at hready
        exact hready n hn hN
      | cons x l' =>
        simp only [List.cons_append] at h2
        injection h2 with h2 h3
        subst h2
        exact ih pre d l' h1 n hn hN

/-- **go_values_agree**: the values computed in the sorter's order (any order listing dependencies
    first) are the values Go's initialisation order gives. -/
theorem go_values_agree (sorted goOrd : List (ADecl V)) (env : Name → Option V)
    (hperm : sorted.Perm goOrd) (hnd : (namesA sorted).Nodup)
    (hs : TopoOn (namesA sorted) sorted) (hg : GoOrder sorted goOrd)
    (hresp : ∀ d ∈ sorted, Respects d) :
    runA sorted env = runA goOrd env :=
  eval_order_independent sorted goOrd env hperm hnd hs (go_order_is_topological sorted goOrd hg) hresp

theorem TopoOn.congr {N N' : List Name} {ds : List (ADecl V)} (h : ∀ n, n ∈ N' → n ∈ N)
    (ht : TopoOn N ds) : TopoOn N' ds :=
  fun pre d post hs n hn hN => ht pre d post hs n hn (h n hN)

theorem declared_congr {ds1 ds2 : List DepScope.Decl}
    (h : (ds1.map (·.name)).Perm (ds2.map (·.name))) : Dep.declared ds1 = Dep.declared ds2 := by
  funext n
  have e1 : ∀ ds : List DepScope.Decl, Dep.declared ds n = true ↔ n ∈ ds.map (·.name) := by
    intro ds; simp [Dep.declared, List.any_eq_true, List.mem_map]
  cases h1 : Dep.declared ds1 n <;> cases h2 : Dep.declared ds2 n <;> try rfl
  · exact absurd (h.mem_iff.mpr ((e1 ds2).mp h2)) (by rw [← e1, h1]; simp)
  · exact absurd (h.mem_iff.mp ((e1 ds1).mp h1)) (by rw [← e1, h2]; simp)

/-- **sorted_orders_agree**: the same declarations (same names and dependencies) written in two
    textual orders `ds1`, `ds2` and sorted under any two map iteration orders are evaluated to the
    same values, provided the set is acyclic (no forward declaration needed) and every value is a
    function of the values of the declared dependencies.  Built on C17's `sort_perm` and
    `sort_topological` (through `sorted_order_is_topological`). -/
theorem sorted_orders_agree (sem : Name → (Name → Option V) → V) (env : Name → Option V)
    (ord1 ord2 : Dep.Ord) (ho1 : ord1.OK) (ho2 : ord2.OK)
    (ds1 ds2 out1 out2 : List DepScope.Decl) (hg1 : Dep.GoodDecls ds1) (hg2 : Dep.GoodDecls ds2)
    (hk1 : ∀ d ∈ ds1, d.kind ≠ DepScope.Kind.typeFwd) (hk2 : ∀ d ∈ ds2, d.kind ≠ DepScope.Kind.typeFwd)
    (hsame : (ds1.map fun d => (d.name, d.deps)).Perm (ds2.map fun d => (d.name, d.deps)))
    (hnd : (ds1.map (·.name)).Nodup)
    (hs1 : Dep.sortDecls ord1 ds1 = some out1) (hs2 : Dep.sortDecls ord2 ds2 = some out2)
    (hf1 : ∀ d ∈ out1, d.kind ≠ DepScope.Kind.typeFwd) (hf2 : ∀ d ∈ out2, d.kind ≠ DepScope.Kind.typeFwd)
    (hresp : ∀ d ∈ out1, Respects (toA sem d)) :
    runA (out1.map (toA sem)) env = runA (out2.map (toA sem)) env := by
  have hnames : (ds1.map (·.name)).Perm (ds2.map (·.name)) := by
    have := hsame.map Prod.fst
    simpa [List.map_map, Function.comp_def] using this
  have hp1 := Dep.sort_perm ord1 ho1 ds1 out1 hg1 hk1 hs1
  have hp2 := Dep.sort_perm ord2 ho2 ds2 out2 hg2 hk2 hs2
  rw [List.filter_eq_self.mpr (fun x hx => by simp [Dep.notFwd, hf1 x hx])] at hp1
  rw [List.filter_eq_self.mpr (fun x hx => by simp [Dep.notFwd, hf2 x hx])] at hp2
  -- the resolved declarations of both orders are the same abstract declarations
  have hres : ∀ ds : List DepScope.Decl, (Dep.resolve ds).map (toA sem) =
      (ds.map fun d => (d.name, d.deps)).map
        (fun p => (⟨p.1, p.2.filter (Dep.declared ds), sem p.1⟩ : ADecl V)) := by
    intro ds; simp [Dep.resolve, toA, List.map_map, Function.comp_def]
  have hmid : ((Dep.resolve ds1).map (toA sem)).Perm ((Dep.resolve ds2).map (toA sem)) := by
    rw [hres ds1, hres ds2, declared_congr hnames]
    exact hsame.map _
  have hperm : (out1.map (toA sem)).Perm (out2.map (toA sem)) :=
    ((hp1.map _).trans hmid).trans (hp2.map _).symm
  have hn1 : (namesA (out1.map (toA sem))).Perm (ds1.map (·.name)) := by
    have := (hp1.map (·.name))
    simpa [namesA, toA, Dep.resolve, List.map_map, Function.comp_def] using this
  have hn2 : (namesA (out2.map (toA sem))).Perm (ds2.map (·.name)) := by
    have := (hp2.map (·.name))
    simpa [namesA, toA, Dep.resolve, List.map_map, Function.comp_def] using this
  apply eval_order_independent _ _ env hperm (hn1.nodup_iff.mpr hnd)
  · exact TopoOn.congr (fun n hn => hn1.mem_iff.mp hn)
      (sorted_order_is_topological sem ord1 ho1 ds1 out1 hg1 hk1 hs1 hf1)
  · exact TopoOn.congr (fun n hn => hnames.mem_iff.mp (hn1.mem_iff.mp hn))
      (sorted_order_is_topological sem ord2 ho2 ds2 out2 hg2 hk2 hs2 hf2)
  · intro a ha
    obtain ⟨d, hd, rfl⟩ := List.mem_map.mp ha
    exact hresp d hd

/-! ## the concrete evaluator on sample declaration sets (non-vacuity, and the findings) -/

def exItems : List Item :=
  [.var "a" [] (.add (.ref "b") (.lit 1)),                     -- var a = b + 1
   .func "f" ["a"] (.add (.ref "a") (.ref "c")),               -- func f(a int) int { return a + c }   (a shadows)
   .var "b" [] (.call "f" [.lit 2]),                           -- var b = f(2)
   .const "c" (.lit 10)]                                       -- const c = 10

/-- `var a = b + 1; func f(a int) int { return a + c }; var b = f(2); const c = 10` : a = 13, b = 12 -/
example : (match evalItems Dep.Ord.id exItems with
    | .values vs => (lookup "a" vs, lookup "b" vs, lookup "c" vs)
    | _ => (none, none, none)) = (some 13, some 12, some 10) := by decide
/-- the same declarations written in reverse order give the same values -/
example : (match evalItems Dep.Ord.id exItems.reverse with
    | .values vs => (lookup "a" vs, lookup "b" vs, lookup "c" vs)
    | _ => (none, none, none)) = (some 13, some 12, some 10) := by decide

/-- finding F2b: two mutually recursive functions (valid Go) are a declaration loop -/
example : (match evalItems Dep.Ord.id
      [.func "f" ["n"] (.ite (.ref "n") (.call "g" [.add (.ref "n") (.lit (-1))]) (.lit 0)),
       .func "g" ["n"] (.ite (.ref "n") (.call "f" [.add (.ref "n") (.lit (-1))]) (.lit 0))] with
    | .loop => true | _ => false) = true := by decide

/-- finding F27: an initialiser that calls a method is not ordered after the method:
    `type T int; var x T = T(1); var y = x.m(); func (r T) m() int { return int(r) }` does not compile -/
example : (match evalItems Dep.Ord.id
      [.typ "T" [], .var "x" ["T"] (.lit 1), .var "y" [] (.mcall "x" "m" []), .method "T" "r" "m" [] (.ref "r")] with
    | .error => true | _ => false) = true := by decide

end Eval
