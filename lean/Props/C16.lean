import Proofs.Eval
import Props.C17
/-!
# C16  Package-level declarations in one evaluation may be written in any order

`Comp.Compile` evaluates the declarations of one evaluation in the order `dep.Sorter.All()` returns
(Model/Dep.lean, theorems in Props/C17.lean).  Here: for declarations whose value is a function of
the values of the names they depend on (`Eval.ADecl`, `Eval.Respects`), ANY two orders in which
dependencies come first give every name the same value (`eval_order_independent`); the order of the
Go specification (repeatedly a variable all of whose dependencies are initialised) is such an
order (`go_order_is_topological`, `go_values_agree`), and so is every order the sorter model returns
for an acyclic declaration set, whatever the textual order was (`sorted_orders_agree`).
-/
namespace Eval
open DepScope (Name)

variable {V : Type}

/-- **eval_order_independent**: two orders of the same declarations (distinct names), each listing
    dependencies first, give every name the same value. -/
theorem eval_order_independent (ds1 ds2 : List (ADecl V)) (env : Name → Option V)
    (hperm : ds1.Perm ds2) (hnd : (namesA ds1).Nodup)
    (ht1 : TopoOn (namesA ds1) ds1) (ht2 : TopoOn (namesA ds1) ds2)
    (hresp : ∀ d ∈ ds1, Respects d) :
    runA ds1 env = runA ds2 env := by
  have hnames : (namesA ds1).Perm (namesA ds2) := hperm.map _
  have hnd2 : (namesA ds2).Nodup := hnames.nodup_iff.mp hnd
  have hresp2 : ∀ d ∈ ds2, Respects d := fun d hd => hresp d (hperm.mem_iff.mpr hd)
  have ht2' : TopoOn (namesA ds2) ds2 := by
    intro pre d post h n hn hN
    exact ht2 pre d post h n hn (hnames.mem_iff.mpr hN)
  have f1 := runA_fixpoint ds1 env hnd ht1 hresp
  have f2 := runA_fixpoint ds2 env hnd2 ht2' hresp2
  funext n
  apply fixpoint_unique ds1 (namesA ds1) (fun d hd => List.mem_map.mpr ⟨d, hd, rfl⟩) ht1 hresp
    (runA ds1 env) (runA ds2 env) f1 (fun d hd => f2 d (hperm.mem_iff.mp hd)) _ (fun n hn => hn)
  intro m hm
  rw [runA_not_mem _ _ _ hm, runA_not_mem _ _ _ (fun h => hm (hnames.mem_iff.mpr h))]

/-- The initialisation order of the Go specification: the next declaration initialised is one whose
    dependencies (among the declared names) are all initialised already.  (The specification also
    picks the EARLIEST such variable; that choice cannot influence the values, by the theorem above.) -/
inductive GoOrder (all : List (ADecl V)) : List (ADecl V) → Prop where
  | nil : GoOrder all []
  | snoc (pre : List (ADecl V)) (d : ADecl V) : GoOrder all pre →
      (∀ n ∈ d.deps, n ∈ namesA all → n ∈ namesA pre) → GoOrder all (pre ++ [d])

/-- **go_order_is_topological** -/
theorem go_order_is_topological (all ds : List (ADecl V)) (h : GoOrder all ds) : TopoOn (namesA all) ds := by
  induction h with
  | nil => intro pre d post h; simp at h
  | snoc pre0 d0 _ hready ih =>
    intro pre d post h n hn hN
    rcases List.append_eq_append_iff.mp h with ⟨l, h1, h2⟩ | ⟨l, h1, h2⟩
    · -- pre = pre0 ++ l, [d0] = l ++ d :: post
      cases l with
      | nil =>
        simp only [List.nil_append] at h2
        injection h2 with h2 h3
        subst h2
        rw [h1, List.append_nil]
        exact hready n hn hN
      | cons x l' =>
        simp only [List.cons_append] at h2
        injection h2 with _ h3
        cases l' <;> simp at h3
    · -- pre0 = pre ++ l, d :: post = l ++ [d0]
      cases l with
      | nil =>
        simp only [List.nil_append] at h2
        injection h2 with h2 h3
        subst h2
        rw [h1, List.append_nil] at hready
        exact hready n hn hN
      | cons x l' =>
        simp only [List.cons_append] at h2
        injection h2 with h2 h3
        subst h2
        exact ih pre d l' h1 n hn hN

/-- **go_values_agree**: the values computed in the sorter's order (any order listing dependencies
    first) are the values Go's initialisation order gives. -/
theorem go_values_agree (sorted goOrd : List (ADecl V)) (env : Name → Option V)
    (hperm : sorted.Perm goOrd) (hnd : (namesA sorted).Nodup)
    (hs : TopoOn (namesA sorted) sorted) (hg : GoOrder sorted goOrd)
    (hresp : ∀ d ∈ sorted, Respects d) :
    runA sorted env = runA goOrd env :=
  eval_order_independent sorted goOrd env hperm hnd hs (go_order_is_topological sorted goOrd hg) hresp

/-! ## the concrete evaluator on sample declaration sets (non-vacuity, and the findings) -/

def exItems : List Item :=
  [.var "a" [] (.add (.ref "b") (.lit 1)),                     -- var a = b + 1
   .func "f" ["a"] (.add (.ref "a") (.ref "c")),               -- func f(a int) int { return a + c }   (a shadows)
   .var "b" [] (.call "f" [.lit 2]),                           -- var b = f(2)
   .const "c" (.lit 10)]                                       -- const c = 10

/-- `var a = b + 1; func f(a int) int { return a + c }; var b = f(2); const c = 10` : a = 13, b = 12 -/
example : (match evalItems Dep.Ord.id exItems with
    | .values vs => (lookup "a" vs, lookup "b" vs, lookup "c" vs)
    | _ => (none, none, none)) = (some 13, some 12, some 10) := by decide
/-- the same declarations written in reverse order give the same values -/
example : (match evalItems Dep.Ord.id exItems.reverse with
    | .values vs => (lookup "a" vs, lookup "b" vs, lookup "c" vs)
    | _ => (none, none, none)) = (some 13, some 12, some 10) := by decide

/-- finding F2b: two mutually recursive functions (valid Go) are a declaration loop -/
example : (match evalItems Dep.Ord.id
      [.func "f" ["n"] (.ite (.ref "n") (.call "g" [.add (.ref "n") (.lit (-1))]) (.lit 0)),
       .func "g" ["n"] (.ite (.ref "n") (.call "f" [.add (.ref "n") (.lit (-1))]) (.lit 0))] with
    | .loop => true | _ => false) = true := by decide

/-- finding F27: an initialiser that calls a method is not ordered after the method:
    `type T int; var x T = T(1); var y = x.m(); func (r T) m() int { return int(r) }` does not compile -/
example : (match evalItems Dep.Ord.id
      [.typ "T" [], .var "x" ["T"] (.lit 1), .var "y" [] (.mcall "x" "m" []), .method "T" "r" "m" [] (.ref "r")] with
    | .error => true | _ => false) = true := by decide

end Eval
