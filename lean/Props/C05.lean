import Proofs.FlowTop
import Proofs.FlowDiv
import Proofs.FlowSwitch

/-!
# C05 — statement control flow is executed exactly as in Go

Model: `Model/Flow.lean` (`compile` = the flat-code + patched-jump scheme of fast/statement.go,
switch.go, range.go; `Flat.run` = the closure-threading loop of code.go; `Ref.run` = structured
big-step semantics = Go's meaning).  The theorems below are about ALL programs of the Core fragment
(`Core`: emit/assign/declarations, blocks with and without locals, if/else with init and constant
conditions, the three `for` forms, labelled and unlabelled break/continue across nested blocks and
loops, return), all fuels, all initial frames.
-/

namespace Flow
open Ref

/-- FULL statement of the property on the model (kept visible; proved below only for `Core`):
    for every statement (switch with fallthrough, range, backward goto included) the flat machine and
    the structured semantics produce the same result whenever one of them terminates. -/
def CompileCorrectFull : Prop :=
  ∀ (s : Stmt) (frame : Frame) (r : Res), r ≠ .timeout →
    ((∃ k, Flat.run (compileTop s) k frame = r) ↔ (∃ n, Ref.run s n frame = r))

/-- `size` is exactly what `compile` emits, for EVERY statement kind (truncated dead code of constant
    conditions, switch slots, range prologue included): the addresses computed from `size` are the
    addresses of the emitted instructions. -/
theorem compile_length_all (s : Stmt) (base : Nat) (ctx : Ctx) : (compile s base ctx).length = size s :=
  compile_length s base ctx

/-- `jumpOut_depth`: the `upn` accumulated by the walk along the Comp chain (`Comp.Break`) is additive:
    starting the walk with `u` Envs already counted yields the same target with `u` more hops ... -/
theorem jumpOut_depth_break (ctx : Ctx) (l : Option Label) (u : Nat) :
    resolveBreak ctx l u = (resolveBreak ctx l 0).map (fun p => (p.1 + u, p.2)) := resolveBreak_acc ctx l u

theorem jumpOut_depth_continue (ctx : Ctx) (l : Option Label) (u : Nat) :
    resolveCont ctx l u = (resolveCont ctx l 0).map (fun p => (p.1 + u, p.2)) := resolveCont_acc ctx l u

/-- ... and at run time leaving a construct that owns `u` Envs and then `k` more is `jumpOut(k+u)`:
    an abrupt outcome observed inside a construct with accumulated cost `u` is the same outcome observed
    outside it after `u` Envs have been dropped. -/
theorem jumpOut_depth {C : Code} {ctx : Ctx} {u : Nat} {c : Cfg} {e e' : Nat} {o : Outcome} {st1 : St}
    (ho : o ≠ .normal) (h : Post C ctx u c e o st1) : Post C ctx 0 c e' o (st1.dropn u) := Post.shift ho h

/-- `patched_targets` (for): the code of a `for` statement is `[pushEnv] init LOOP [popEnv]` where, in LOOP,
    `jump.Cond` is the first instruction, `jump.Post` the post statement (or `jump.Cond` when there is none),
    `jump.Break` the instruction after the back jump; every break/continue compiled in the body resolves to
    these addresses (`loopCtx`). -/
theorem patched_targets_for (ls : List Label) (init : Stmt) (c : Option Cond) (post body : Stmt) (base : Nat) (ctx : Ctx)
    (hc : loopCondConstFalse c = false) :
    compile (.for ls init c post body) base ctx =
      pushIf (hasDefs init) ++ compile init (base + b2n (hasDefs init)) ({ upCost := b2n (hasDefs init) } :: ctx) ++
      loopCode (b2n (hasDefs init)) ls c post body (base + b2n (hasDefs init) + size init) ctx ++
      popIf (hasDefs init) := compile_for ls init c post body base ctx hc

/-- `patched_targets` (for false): body, post and back jump are truncated away. -/
theorem patched_targets_for_false (ls : List Label) (init : Stmt) (c : Option Cond) (post body : Stmt) (base : Nat) (ctx : Ctx)
    (hc : loopCondConstFalse c = true) :
    compile (.for ls init c post body) base ctx =
      pushIf (hasDefs init) ++ compile init (base + b2n (hasDefs init)) ({ upCost := b2n (hasDefs init) } :: ctx) ++
      popIf (hasDefs init) := compile_for_false ls init c post body base ctx hc

/-- `patched_targets` (if): `jump.Then/Else/End` after truncation of the dead branch. -/
theorem patched_targets_if (init : Stmt) (c : Cond) (thn els : Stmt) (base : Nat) (ctx : Ctx) :
    compile (.ite init c thn els) base ctx =
      pushIf (hasDefs init) ++ compile init (base + b2n (hasDefs init)) ({ upCost := b2n (hasDefs init) } :: ctx) ++
      iteInner c thn els (base + b2n (hasDefs init) + size init) ({ upCost := b2n (hasDefs init) } :: ctx) ++
      popIf (hasDefs init) := compile_ite init c thn els base ctx

/-- The simulation (statement level): wherever the code of a Core statement `s` sits in a function's
    code `C` and whatever the enclosing Comp chain `ctx` is, a run of the structured semantics with outcome
    `o` is reproduced by the machine: normal end -> IP just after the code of `s`, same state;
    break/continue -> IP at the target patched into the enclosing loop's jump struct, having left exactly the
    Envs of the blocks the structured semantics unwinds; return -> a `stmtReturn` is reached with the same
    trace and the kept frames at the bottom of the Env chain; unresolvable break -> compile error. -/
theorem stmt_simulation (n : Nat) (s : Stmt) (st : St) (o : Outcome) (st' : St) (C : Code) (base : Nat) (ctx : Ctx)
    (hcore : Core s = true) (he : exec n s st = .ok o st') (hcode : CodeAt C base (compile s base ctx)) :
    Post C ctx 0 ⟨base, st⟩ (base + size s) o st' :=
  (sim_all n).1 s st o st' C base ctx hcore he hcode

/-- The simulation for the iterations of a `for` loop (any number of iterations). -/
theorem loop_simulation (n : Nat) (ls : List Label) (c : Option Cond) (post body : Stmt) (st : St) (o : Outcome) (st' : St)
    (C : Code) (condAddr upc : Nat) (ctx : Ctx)
    (hp : SimpleS post = true) (hb : Core body = true) (hc : loopCondConstFalse c = false)
    (he : execLoop n ls c post body st = .ok o st')
    (hcode : CodeAt C condAddr (loopCode upc ls c post body condAddr ctx)) :
    Post C ctx upc ⟨condAddr, st⟩ (loopBrk c post body condAddr) o st' :=
  (sim_all n).2.2.2 ls c post body st o st' C condAddr upc ctx hp hb hc he hcode

/-- The structured semantics keeps the height of the frame stack (every Env it enters it leaves) and a Core
    statement never ends in a `goto`. -/
theorem ref_stack_balanced (n : Nat) (s : Stmt) (st : St) (o : Outcome) (st' : St)
    (hcore : Core s = true) (he : exec n s st = .ok o st') (hne : st.stack ≠ []) :
    st'.stack.length = st.stack.length := ((good_all n).1 s st o st' hcore he).2 hne

/-- A finished run of the flat machine does not depend on the fuel. -/
theorem flat_run_mono (C : Code) (k m : Nat) (frame : Frame) (r : Res)
    (h : Flat.run C k frame = r) (hr : r ≠ .timeout) (hm : k ≤ m) : Flat.run C m frame = r :=
  runCfg_mono k _ r h hr m hm

/-- **compile_correct** (Core fragment, terminating runs): if the structured semantics finishes with result
    `r` (event trace + final function frame, or `stuck` for a stray break/continue that the compiler rejects)
    then the flat machine finishes with the same result. -/
theorem compile_correct (s : Stmt) (hcore : Core s = true) (fuel : Nat) (frame : Frame) (r : Res)
    (h : Ref.run s fuel frame = r) (hr : r ≠ .timeout) :
    ∃ k, Flat.run (compileTop s) k frame = r := by
  unfold Ref.run at h
  cases he : execFrom fuel s s ⟨[frame], []⟩ with
  | timeout => rw [he] at h; exact absurd h.symm hr
  | ok o st' =>
    rw [he] at h
    have hpost := (sim_all fuel).2.2.1 s _ o st' (compileTop s) 0 funcCtx hcore he (CodeAt.self _)
    have hgood := (good_all fuel).2.2.1 s _ o st' hcore he
    have hlen : st'.stack.length = 1 := by simpa using hgood.2 (by simp)
    cases o with
    | normal =>
      simp only at h
      obtain ⟨k, hk⟩ := hpost
      refine ⟨k + 1, ?_⟩
      unfold Flat.run
      rw [runCfg_steps k hk 1]
      have hnone : (compileTop s)[0 + size s]? = none := by
        apply List.getElem?_eq_none
        simp [compileTop, compile_length]
      simp [Flat.runCfg, step, hnone, compileTop, compile_length, h]
    | ret =>
      simp only at h
      obtain ⟨c', ⟨k, hk⟩, hret, htr, pre, hst⟩ := hpost
      refine ⟨k + 1, ?_⟩
      unfold Flat.run
      rw [runCfg_steps k hk 1]
      simp only [Flat.runCfg, step, hret]
      rw [← h]
      obtain ⟨f, hf⟩ : ∃ f, st'.stack = [f] := by
        match hs : st'.stack, hlen with
        | [f], _ => exact ⟨f, rfl⟩
      simp [finalOf, htr, hst, hf]
    | brk l =>
      simp only at h
      simp only [Post, funcCtx, resolveBreak, if_true, JumpTo] at hpost
      obtain ⟨c', ⟨k, hk⟩, hinv⟩ := hpost
      refine ⟨k + 1, ?_⟩
      unfold Flat.run
      rw [runCfg_steps k hk 1]
      simp [Flat.runCfg, step, hinv, h]
    | cont l =>
      simp only at h
      simp only [Post, funcCtx, resolveCont, if_true, JumpTo] at hpost
      obtain ⟨c', ⟨k, hk⟩, hinv⟩ := hpost
      refine ⟨k + 1, ?_⟩
      unfold Flat.run
      rw [runCfg_steps k hk 1]
      simp [Flat.runCfg, step, hinv, h]
    | goto l => exact absurd rfl (hgood.1 l)

/-- ... and no run of the flat machine finishes with anything else. -/
theorem compile_correct_unique (s : Stmt) (hcore : Core s = true) (fuel : Nat) (frame : Frame) (r : Res)
    (h : Ref.run s fuel frame = r) (hr : r ≠ .timeout) (k : Nat) (r' : Res)
    (h' : Flat.run (compileTop s) k frame = r') (hr' : r' ≠ .timeout) : r' = r := by
  obtain ⟨k0, h0⟩ := compile_correct s hcore fuel frame r h hr
  have a := flat_run_mono _ k0 (max k0 k) frame r h0 hr (Nat.le_max_left _ _)
  have b := flat_run_mono _ k (max k0 k) frame r' h' hr' (Nat.le_max_right _ _)
  rw [a] at b
  exact b.symm

/-- **Divergence is preserved** (Core fragment): if the structured semantics runs out of fuel `n`, the flat
    machine is still running after `n - (1 + wt s)` steps (`wt s` = syntactic weight of the program).  Each loop
    iteration of the structured semantics costs the machine at least one step (the back jump, or the `continue`
    jump itself). -/
theorem compile_diverges (s : Stmt) (hcore : Core s = true) (n : Nat) (frame : Frame)
    (h : Ref.run s n frame = .timeout) :
    Flat.run (compileTop s) (n - (1 + wt s)) frame = .timeout := by
  unfold Ref.run at h
  cases he : execFrom n s s ⟨[frame], []⟩ with
  | timeout =>
    exact ((div_all n).2.2.1 s _ (compileTop s) 0 funcCtx hcore he (CodeAt.self _)).timeout
  | ok o st' =>
    rw [he] at h
    cases o <;> simp [finalOf] at h

/-- a Core program diverges in the structured semantics iff its compiled code diverges on the flat machine -/
theorem diverges_iff (s : Stmt) (hcore : Core s = true) (frame : Frame) :
    (∀ n, Ref.run s n frame = .timeout) ↔ (∀ k, Flat.run (compileTop s) k frame = .timeout) := by
  constructor
  · intro h k
    have := compile_diverges s hcore (k + (1 + wt s)) frame (h _)
    simpa using this
  · intro h n
    cases hr : Ref.run s n frame with
    | timeout => rfl
    | done tr f =>
      obtain ⟨k, hk⟩ := compile_correct s hcore n frame _ hr (by simp)
      rw [h k] at hk; cases hk
    | stuck =>
      obtain ⟨k, hk⟩ := compile_correct s hcore n frame _ hr (by simp)
      rw [h k] at hk; cases hk

/-- **compile_correct, total form**: `CompileCorrectFull` holds for every Core program, without any
    termination hypothesis: the flat machine finishes with result `r` iff the structured semantics does.
    Together with `diverges_iff`: `Flat.run (compile s)` and `Ref.run s` have the same behaviour
    (same event trace, same final frame, same termination kind) on the whole Core fragment.
    Missing for the full statement: switch (linear chain + jump table + fallthrough), range and backward goto are in
    `compile`, `Flat.run` and `Ref.run` and are checked differentially against the real interpreter and compiled
    Go on every run, but their simulation is not proved; select / type switch are outside the model. -/
theorem compile_correct_goto_range_select_partial (s : Stmt) (hcore : Core s = true) (frame : Frame)
    (r : Res) (hr : r ≠ .timeout) :
    (∃ k, Flat.run (compileTop s) k frame = r) ↔ (∃ n, Ref.run s n frame = r) := by
  constructor
  · rintro ⟨k, hk⟩
    refine ⟨k + (1 + wt s), ?_⟩
    cases hn : Ref.run s (k + (1 + wt s)) frame with
    | timeout =>
      have := compile_diverges s hcore _ frame hn
      simp only [Nat.add_sub_cancel] at this
      rw [this] at hk
      exact absurd hk.symm hr
    | done tr f =>
      exact (compile_correct_unique s hcore _ frame _ hn (by simp) k r hk hr).symm
    | stuck =>
      exact (compile_correct_unique s hcore _ frame _ hn (by simp) k r hk hr).symm
  · rintro ⟨n, hn⟩
    exact compile_correct s hcore n frame r hn hr

/-- **switch_dispatch_equiv** (dispatch forms): the jump table built by `switchGotoSlice`
    (`slice[key-min] = ip+1`, holes = 0, range check) and the map built by `switchGotoMap` select the same
    body address for EVERY tag value and every table; so the `swgoto` closure behaves the same whichever form
    `useSlice` picks.  (That the linear comparison chain reaches the same body, that `default` may stand
    anywhere and that `fallthrough` enters the next body is exercised differentially — `Flat.run (compile s)`
    vs `Ref.run s` vs the real interpreter vs compiled Go — but not proved: see
    `compile_correct_goto_range_select_partial`.) -/
theorem switch_dispatch_equiv_partial (slice : Bool) (v : Int) (t : List (Int × Nat)) :
    (if slice then sliceLookup v t else tableLookup v t) = tableLookup v t := by
  cases slice
  · rfl
  · exact sliceLookup_eq_tableLookup v t

/-! ## Non-vacuity: a concrete Core program exercising labelled continue out of a block with locals,
    a return from inside the loop, `for` with init/cond/post -/

def exProg : Stmt :=
  .seq (.for [1] (.define 10 (.lit 0)) (some (.lt (.var 10) (.lit 3))) (.assign 10 (.add (.var 10) (.lit 1)))
    (.seq (.block (.seq (.define 4 (.var 10))
                  (.seq (.ite .skip (.eq (.var 4) (.lit 1)) (.seq (.cont (some 1)) .skip) .skip)
                  (.seq (.emit 1 (.var 4)) .skip))))
    (.seq (.ite .skip (.eq (.var 10) (.lit 2)) (.seq (.assign 0 (.lit 7)) (.seq .ret .skip)) .skip)
    .skip)))
  (.seq (.emit 9 (.lit 0)) .skip)

example : Core exProg = true := by decide
/-- hypotheses of `compile_correct` are satisfiable with a non-trivial trace ... -/
example : Ref.run exProg 30 [(0, 0)] = .done [(1, 0), (1, 2)] [(0, 7)] := by decide
/-- ... and the conclusion is what the machine really computes (`jmp 1 12` = leave one Env, go to `jump.Post`) -/
example : Flat.run (compileTop exProg) 60 [(0, 0)] = .done [(1, 0), (1, 2)] [(0, 7)] := by decide
example : (compileTop exProg)[6]? = some (.jmp 1 12) := by decide
/-- `for false`: dead code is truncated, `size` follows -/
example : compileTop (.for [] (.define 10 (.lit 0)) (some (.const false)) .skip (.seq (.emit 1 (.lit 0)) .skip))
    = [.push, .define 10 (.lit 0), .pop] := by decide
/-- a stray `break` is a compile error on both sides -/
example : Ref.run (.seq (.brk none) .skip) 5 [] = .stuck ∧ Flat.run (compileTop (.seq (.brk none) .skip)) 5 [] = .stuck := by decide
/-- dispatch forms agree on a sparse table (hit, hole, out of range) -/
example : sliceLookup 3 [(1, 10), (3, 30), (7, 70)] = some 30 ∧ sliceLookup 4 [(1, 10), (3, 30), (7, 70)] = none
    ∧ sliceLookup 9 [(1, 10), (3, 30), (7, 70)] = none := by decide

end Flow
