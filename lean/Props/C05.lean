import Model.Flow
namespace Flow

theorem placeholder_size_skip : size .skip = 0 := rfl

end Flow
