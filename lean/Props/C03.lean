import Model.Convert
import Model.ConvertGolden
import Gen.ConvertArms
import Proofs.Convert
/-!
# C03 — conversions between basic, string and byte/rune slice types match Go

Theorems about `Model/Convert.lean` (the transcription of `fast/convert.go`) against the Go
specification (`GoSpec/Int.lean` conversions, `GoSpec/Str.lean` UTF-8, `GoSpec/Const.lean`
representability).  The per-kind read-back arms are NOT transcribed by hand: the theorems that
mention them hold for every arm table satisfying `tableSound`, and `readback_arms_sound` checks
that predicate on the table regenerated from the source.
-/
namespace Convert
open GoSpec GoSpec.Str

/-! ## 1. the regenerated read-back arms -/

/-- what a sound arm for target kind `d` and a source of category `c` looks like: the closure
    returns `d`; it reads the value `reflect.Convert` produced with the accessor of `d`'s category
    and casts to `d` (no cast only where the accessor already returns `d`); the only arms that
    bypass `reflect.Convert` are `float32(fun(env).Int())` / `float32(fun(env).Uint())` -/
def armSound (s : ArmShape) (d : Kind) (c : Cat) : Bool :=
  s.ret == d &&
  (if s.viaConvert then
     s.acc == accOf d && (s.cast == some d || (s.cast == none && s.acc.native == d))
   else
     d == .float32 && (c == .int || c == .uint) &&
       s.acc == (if c == .int then Acc.aInt else Acc.aUint) && s.cast == some .float32)

def cats : List Cat := [.bool, .int, .uint, .float, .complex, .string]

def tableSound (arms : List ClosureIR.Entry) : Bool :=
  Kind.all.all fun d => cats.all fun c =>
    match lookupArm arms d c with
    | some s => armSound s d c
    | none => false

/-- every one of the 17 kinds has an arm for every source category, and every arm of the table
    regenerated from fast/convert.go is sound (kernel-checked on each run) -/
theorem readback_arms_sound : tableSound Gen.ConvertArms.convertArms = true := by decide +kernel

theorem tableSound_lookup {arms : List ClosureIR.Entry} (h : tableSound arms = true) (d : Kind) (c : Cat) :
    ∃ s, lookupArm arms d c = some s ∧ armSound s d c = true := by
  unfold tableSound at h
  rw [List.all_eq_true] at h
  have hd : d ∈ Kind.all := by cases d <;> simp [Kind.all]
  have h1 := h d hd
  rw [List.all_eq_true] at h1
  have hc : c ∈ cats := by cases c <;> simp [cats]
  have h2 := h1 c hc
  cases hl : lookupArm arms d c with
  | none => simp [hl] at h2
  | some s => exact ⟨s, rfl, by simpa [hl] using h2⟩


/-! ## 2. integer conversions, end to end -/

theorem conv_self {w : Nat} (signed : Bool) (x : BitVec w) : I.conv signed x w = x := by
  unfold I.conv; cases signed <;> simp

theorem ikind_w_le {k : Kind} {ik : IKind} (h : k.ikind? = some ik) : ik.w ≤ 64 := by
  cases k <;> simp [Kind.ikind?] at h <;> subst h <;> decide

theorem cat_of_ikind {k : Kind} {ik : IKind} (h : k.ikind? = some ik) :
    cat k = if ik.signed then Cat.int else Cat.uint := by
  cases k <;> simp [Kind.ikind?] at h <;> subst h <;> rfl

theorem convertOp_int {sk dk : Kind} {ik ik' : IKind} (hs : sk.ikind? = some ik) (hd : dk.ikind? = some ik') :
    convertOp (.basic sk) (.basic dk) = some (if ik.signed then Op.cvtInt else Op.cvtUint) := by
  unfold convertOp
  simp only [cat_of_ikind hs, cat_of_ikind hd]
  cases ik.signed <;> cases ik'.signed <;> rfl

theorem ne_float32_of_ikind {k : Kind} {ik : IKind} (h : k.ikind? = some ik) : (k == Kind.float32) = false := by
  cases k <;> simp [Kind.ikind?] at h <;> rfl

/-- **Integer conversions.**  For every pair of the 11 integer kinds (named or not), every value:
    the compiled conversion of a non-constant operand — gate, `reflect.Value.Convert`
    (`cvtInt`/`cvtUint`, `makeInt`), then the read-back arm found in ANY sound arm table —
    yields Go's conversion: sign-extend a signed / zero-extend an unsigned source, truncate to the
    target width. -/
theorem int_conv_spec (arms : List ClosureIR.Entry) (hT : tableSound arms = true) (tr : Tree)
    (ts td : Nat) (sk dk : Kind) (ik ik' : IKind)
    (hts : ts ≠ 3) (htd : td ≠ 3)
    (hs : sk.ikind? = some ik) (hd : dk.ikind? = some ik') (x : BitVec ik.w) :
    convert arms tr (.var ⟨ts, .basic sk⟩ (.b (.int ik x))) ⟨td, .basic dk⟩
      = .val (.b (.int ik' (I.conv ik.signed x ik'.w))) := by
  by_cases hk : sk = dk
  · subst hk
    have : ik = ik' := Option.some.inj (hs.symm.trans hd)
    subst this
    rw [conv_self]
    unfold convert
    simp only []
    have hsk : sameKindConvertible ⟨ts, .basic sk⟩ ⟨td, .basic sk⟩ = true := by
      have a : (ts == 3) = false := by simp [hts]
      have b : (td == 3) = false := by simp [htd]
      simp [sameKindConvertible, a, b]
    split
    · rfl
    · simp [hsk]
  · have h1 : (⟨ts, .basic sk⟩ : Ty) ≠ ⟨td, .basic dk⟩ := by
      intro h; injection h with _ h2; injection h2 with h3; exact hk h3
    have h2 : (K.basic sk) ≠ K.basic dk := by intro h; injection h with h3; exact hk h3
    have hop := convertOp_int hs hd
    have hgate : convertibleTo (.basic sk) (.basic dk) = true := by
      unfold convertibleTo; rw [hop]; rfl
    unfold convert
    simp only [h1, h2, if_false, hgate, if_true, hop]
    -- the run-time closure
    unfold runtimeBasic
    have hsc : srcCat (.b (.int ik x)) = some (if ik.signed then Cat.int else Cat.uint) := rfl
    simp only [hsc]
    obtain ⟨s, hl, hsnd⟩ := tableSound_lookup hT dk (if ik.signed then Cat.int else Cat.uint)
    simp only [hl]
    unfold armSound at hsnd
    have hnf := ne_float32_of_ikind hd
    cases hv : s.viaConvert
    · simp [hv, hnf] at hsnd
    · simp only [hv, if_true, Bool.and_eq_true, beq_iff_eq, Bool.or_eq_true] at hsnd
      obtain ⟨hret, hacc, hcast⟩ := hsnd
      have hrc : reflectConvert (if ik.signed then Op.cvtInt else Op.cvtUint) (.b (.int ik x)) (.basic dk)
          = .val (.b (.int ik' (cvtIntBits ik.signed x ik'.w))) := by
        cases hsg : ik.signed <;> simp [reflectConvert, hd] <;> rw [hsg]
      simp only [hrc, if_true]
      unfold runArmConverted
      have c1 : (s.acc != accOf dk) = false := by simp [hacc]
      have c2 : (s.ret != dk) = false := by simp [hret]
      have c3 : (!(s.cast == some dk || (s.cast == none && s.acc.native == dk))) = false := by
        rcases hcast with h | ⟨h, h'⟩
        · simp [h]
        · simp [h, h']
      simp only [c1, c2, c3, Bool.false_eq_true, if_false]
      rw [readInt_cvtIntBits (ikind_w_le hd)]

/-- instance for the table regenerated from the source -/
theorem int_conv_spec_gen (tr : Tree) (ts td : Nat) (sk dk : Kind) (ik ik' : IKind)
    (hts : ts ≠ 3) (htd : td ≠ 3)
    (hs : sk.ikind? = some ik) (hd : dk.ikind? = some ik') (x : BitVec ik.w) :
    convert Gen.ConvertArms.convertArms tr (.var ⟨ts, .basic sk⟩ (.b (.int ik x))) ⟨td, .basic dk⟩
      = .val (.b (.int ik' (I.conv ik.signed x ik'.w))) :=
  int_conv_spec _ readback_arms_sound tr ts td sk dk ik ik' hts htd hs hd x


/-! ## 3. the gate -/

/-- Go specification, "Conversions", non-constant `x` of type `V` converted to `T`, on the kinds in
    scope (underlying types): identical underlying types; both integer or floating point; both
    complex; integer or `[]byte`/`[]rune` to string; string to `[]byte`/`[]rune` -/
def specConvertible (s d : K) : Bool :=
  match s, d with
  | .basic a, .basic b =>
    a == b
    || ((a.isInteger || a.isFloat) && (b.isInteger || b.isFloat))
    || (a.isComplex && b.isComplex)
    || (a.isInteger && b == .string)
  | .basic .string, .bytes | .basic .string, .runes => true
  | .bytes, .basic .string | .runes, .basic .string => true
  | .bytes, .bytes | .runes, .runes => true
  | _, _ => false

/-- **The gate.**  On all 19 x 19 pairs of kinds the model's gate (`reflect.convertOp` as
    transcribed, or go/types' rule) is exactly Go's conversion table; and the reflect table alone
    already is. -/
theorem convertible_basic_iff_spec (s d : K) :
    convertibleTo s d = specConvertible s d ∧ (convertOp s d).isSome = specConvertible s d := by
  cases s with
  | basic a => cases d with
    | basic b => cases a <;> cases b <;> decide
    | bytes => cases a <;> decide
    | runes => cases a <;> decide
  | bytes => cases d with
    | basic b => cases b <;> decide
    | bytes => decide
    | runes => decide
  | runes => cases d with
    | basic b => cases b <;> decide
    | bytes => decide
    | runes => decide

/-- what the table says about the pairs the property text singles out -/
theorem gate_examples :
    -- integer -> string allowed, string -> number rejected
    (∀ k : Kind, k.isInteger = true → specConvertible (.basic k) (.basic .string) = true) ∧
    (∀ k : Kind, k.isNumeric = true → specConvertible (.basic .string) (.basic k) = false) ∧
    -- bool <-> number rejected
    (∀ k : Kind, k.isNumeric = true → specConvertible (.basic .bool) (.basic k) = false ∧
        specConvertible (.basic k) (.basic .bool) = false) ∧
    -- complex <-> real rejected
    (∀ k : Kind, (k.isInteger || k.isFloat) = true →
        specConvertible (.basic k) (.basic .complex128) = false ∧ specConvertible (.basic .complex64) (.basic k) = false) ∧
    -- float -> string rejected, string <-> []byte / []rune allowed
    specConvertible (.basic .float64) (.basic .string) = false ∧
    specConvertible (.basic .string) .bytes = true ∧ specConvertible .runes (.basic .string) = true ∧
    specConvertible .bytes .runes = false := by
  refine ⟨?_, ?_, ?_, ?_, ?_⟩
  · intro k; cases k <;> decide
  · intro k; cases k <;> decide
  · intro k; cases k <;> decide
  · intro k; cases k <;> decide
  · decide

theorem specConvertible_refl (k : K) : specConvertible k k = true := by
  cases k with
  | basic a => cases a <;> decide
  | bytes => rfl
  | runes => rfl

/-- a non-constant operand whose kind Go does not allow to convert is rejected at compile time
    (`Res.rej`: no closure is built, nothing is executed), whatever its value, tags, arm table -/
theorem var_rejected_of_not_convertible (arms : List ClosureIR.Entry) (tr : Tree) (s t : Ty) (v : CV)
    (h : specConvertible s.k t.k = false) : convert arms tr (.var s v) t = .rej := by
  have hk : s.k ≠ t.k := by
    intro e; rw [e, specConvertible_refl] at h; cases h
  have hst : s ≠ t := by intro e; exact hk (by rw [e])
  have hg : convertibleTo s.k t.k = false := by rw [(convertible_basic_iff_spec s.k t.k).1]; exact h
  unfold convert
  simp [hst, hk, hg]

/-! ## 4. strings -/

/-- `[]rune(string(rs)) = rs` with every invalid code point (surrogate, `> 0x10FFFF`, negative)
    replaced by U+FFFD — for ALL rune slices. -/
theorem utf8_roundtrip (rs : List Int) : decode (encode rs) = rs.map sanitize := by
  induction rs with
  | nil => rfl
  | cons c rs ih =>
    simp only [encode, List.map_cons]
    unfold encodeRune
    rw [decode_encodeNat_append _ (sanitize_valid c), ih]

theorem ofBytes_strBytes (s : List UInt8) : ofBytes (strBytes s) = s := by
  unfold ofBytes strBytes
  induction s with
  | nil => rfl
  | cons b s ih => simp only [List.map_cons, ih]; congr 1; simp

/-- `string([]byte(s)) = s` for every string, on the model's `reflect` conversions -/
theorem bytes_roundtrip (s : List UInt8) :
    (match reflectConvert .cvtStringBytes (.b (.str s)) .bytes with
     | .val b => reflectConvert .cvtBytesString b (.basic .string)
     | r => r) = .val (.b (.str s)) := by
  simp [reflectConvert, ofBytes_strBytes]

/-- **`string(i)`.**  For an integer of any kind and any value, `reflect`'s
    `cvtIntString`/`cvtUintString` (`if int64(rune(x)) == x`, resp. `uint64(rune(x)) == x`) yields
    the UTF-8 encoding of the code point `i`, and U+FFFD for every value that is not a valid code
    point (negative, surrogate, above 0x10FFFF, beyond 32 bits). -/
theorem int_to_string_spec (ik : IKind) (hw : ik.w ≤ 64) (x : BitVec ik.w) :
    cvtIntStringBits (ext64 ik.signed x) = Str.ofInt (I.toInt ik.signed x) := by
  rw [cvtIntStringBits_eq]
  unfold Str.ofInt encodeRune ext64 I.toInt
  cases ik.signed
  · simp only [Bool.false_eq_true, if_false]
    rw [← sanitize_toNat_eq_toInt]
    have : (BitVec.setWidth 64 x).toNat = x.toNat := by
      rw [BitVec.toNat_setWidth]
      apply Nat.mod_eq_of_lt
      exact Nat.lt_of_lt_of_le x.isLt (Nat.pow_le_pow_right (by decide) hw)
    rw [this]
  · simp only [if_true]
    rw [BitVec.toInt_signExtend_of_le hw]

theorem ne_string_of_ikind {k : Kind} {ik : IKind} (h : k.ikind? = some ik) : k ≠ Kind.string := by
  intro e; subst e; simp [Kind.ikind?] at h

theorem convertOp_int_string {sk : Kind} {ik : IKind} (hs : sk.ikind? = some ik) :
    convertOp (.basic sk) (.basic .string) = some (if ik.signed then Op.cvtIntString else Op.cvtUintString) := by
  unfold convertOp
  simp only [cat_of_ikind hs]
  cases ik.signed <;> rfl

/-- **`string(i)`, end to end.**  A non-constant integer operand of any kind (named or not)
    converted to a string type: gate, `cvtIntString`/`cvtUintString`, the `String` arm of any
    sound table — the UTF-8 encoding of the code point, U+FFFD for invalid values. -/
theorem int_to_string_conv_spec (arms : List ClosureIR.Entry) (hT : tableSound arms = true) (tr : Tree)
    (ts td : Nat) (sk : Kind) (ik : IKind) (hs : sk.ikind? = some ik) (x : BitVec ik.w) :
    convert arms tr (.var ⟨ts, .basic sk⟩ (.b (.int ik x))) ⟨td, .basic .string⟩
      = .val (.b (.str (ofBytes (Str.ofInt (I.toInt ik.signed x))))) := by
  have hk := ne_string_of_ikind hs
  have h1 : (⟨ts, .basic sk⟩ : Ty) ≠ ⟨td, .basic .string⟩ := by
    intro h; injection h with _ h2; injection h2 with h3; exact hk h3
  have h2 : (K.basic sk) ≠ K.basic .string := by intro h; injection h with h3; exact hk h3
  have hop := convertOp_int_string hs
  have hgate : convertibleTo (.basic sk) (.basic .string) = true := by
    unfold convertibleTo; rw [hop]; rfl
  unfold convert
  simp only [h1, h2, if_false, hgate, if_true, hop]
  unfold runtimeBasic
  have hsc : srcCat (.b (.int ik x)) = some (if ik.signed then Cat.int else Cat.uint) := rfl
  simp only [hsc]
  obtain ⟨s, hl, hsnd⟩ := tableSound_lookup hT .string (if ik.signed then Cat.int else Cat.uint)
  simp only [hl]
  unfold armSound at hsnd
  cases hv : s.viaConvert
  · simp [hv] at hsnd
  · simp only [hv, if_true, Bool.and_eq_true, beq_iff_eq, Bool.or_eq_true] at hsnd
    obtain ⟨hret, hacc, hcast⟩ := hsnd
    have hrc : reflectConvert (if ik.signed then Op.cvtIntString else Op.cvtUintString) (.b (.int ik x)) (.basic .string)
        = .val (.b (.str (ofBytes (cvtIntStringBits (ext64 ik.signed x))))) := by
      cases hsg : ik.signed <;> simp [reflectConvert] <;> rw [hsg]
    simp only [hrc, if_true]
    unfold runArmConverted
    have c1 : (s.acc != accOf .string) = false := by simp [hacc]
    have c2 : (s.ret != Kind.string) = false := by simp [hret]
    have c3 : (!(s.cast == some Kind.string || (s.cast == none && s.acc.native == Kind.string))) = false := by
      rcases hcast with h | ⟨h, h'⟩
      · simp [h]
      · simp [h, h']
    simp only [c1, c2, c3, Bool.false_eq_true, if_false]
    rw [int_to_string_spec ik (ikind_w_le hs)]


/-- **`[]rune(string(rs))`, on the model's reflect conversions**: every element comes back, invalid
    code points (surrogates, above 0x10FFFF, negative) as U+FFFD — for ALL rune slices. -/
theorem runes_roundtrip (l : List (BitVec 32)) :
    (match reflectConvert .cvtRunesString (.runes l) (.basic .string) with
     | .val s => reflectConvert .cvtStringRunes s .runes
     | r => r) = .val (.runes (l.map fun r => BitVec.ofNat 32 (sanitize r.toInt))) := by
  simp only [reflectConvert]
  rw [strBytes_ofBytes _ (encode_lt _), utf8_roundtrip]
  simp [List.map_map, Function.comp_def]


/-! ## 5. typed constants (repair `convertNumericConst`) -/

theorem targetOf_int {k : Kind} {ik : IKind} (h : k.ikind? = some ik) :
    targetOf k = some (.int (intTarget ik)) := by
  cases k <;> simp [Kind.ikind?] at h <;> subst h <;> rfl

theorem intTarget_std {k : Kind} {ik : IKind} (h : k.ikind? = some ik) : Untyped.IntT.std (intTarget ik) := by
  cases k <;> simp [Kind.ikind?] at h <;> subst h <;> simp [Untyped.IntT.std, intTarget]

theorem isNumeric_of_ikind {k : Kind} {ik : IKind} (h : k.ikind? = some ik) : isNumericKind (.basic k) = true := by
  cases k <;> simp [Kind.ikind?] at h <;> rfl

/-- **Typed integer constants.**  On the repaired tree a typed integer constant converted to
    another integer kind is accepted iff its value lies within the target range (Go: "x is
    representable by a value of type T"), and the value is then unchanged; otherwise the
    conversion is a compile-time error.  (C04's `convert_int_eq` for `Lit.Convert`, reused.) -/
theorem roundtrip_check_iff_in_range (arms : List ClosureIR.Entry) (tr : Tree) (hfix : tr.numericConst = true)
    (ts td : Nat) (sk dk : Kind) (ik ik' : IKind) (hne : sk ≠ dk)
    (hs : sk.ikind? = some ik) (hd : dk.ikind? = some ik') (x : BitVec ik.w) :
    convert arms tr (.const ⟨ts, .basic sk⟩ (.b (.int ik x))) ⟨td, .basic dk⟩ =
      if IKind.min ik' ≤ I.toInt ik.signed x ∧ I.toInt ik.signed x ≤ IKind.max ik'
      then .val (.b (intVal ik' (I.toInt ik.signed x))) else .rej := by
  have h1 : (⟨ts, .basic sk⟩ : Ty) ≠ ⟨td, .basic dk⟩ := by
    intro h; injection h with _ h2; injection h2 with h3; exact hne h3
  have h2 : (K.basic sk) ≠ K.basic dk := by intro h; injection h with h3; exact hne h3
  have n1 := isNumeric_of_ikind hs
  have n2 := isNumeric_of_ikind hd
  unfold convert
  simp only [h1, h2, if_false, hfix, n1, n2, Bool.and_self, Bool.or_true, if_true, litOfTyped, litConvert,
    targetOf_int hd]
  have hwf : (⟨.int, .int (I.toInt ik.signed x)⟩ : Untyped.Lit).wf = true := rfl
  rw [Untyped.convert_int_eq _ hwf _ (intTarget_std hd)]
  simp only [Untyped.abs, GoSpec.Const.Cx.ofInt]
  have emin : GoSpec.Const.IntT.min (intTarget ik') = IKind.min ik' := rfl
  have emax : GoSpec.Const.IntT.max (intTarget ik') = IKind.max ik' := rfl
  simp only [emin, emax]
  by_cases hr : IKind.min ik' ≤ I.toInt ik.signed x ∧ I.toInt ik.signed x ≤ IKind.max ik'
  · simp [hr, materialize, hd]
  · simp [hr]

/-- an accepted constant conversion gives the same value as the run-time conversion
    (`BitVec.ofInt` of the exact value is sign or zero extension, then truncation) -/
theorem const_int_value_eq_conv (ik ik' : IKind) (x : BitVec ik.w) :
    intVal ik' (I.toInt ik.signed x) = .int ik' (I.conv ik.signed x ik'.w) := by
  unfold intVal I.toInt I.conv
  cases ik.signed
  · simp only [Bool.false_eq_true, if_false]
    congr 1
    apply BitVec.eq_of_toNat_eq
    simp [BitVec.toNat_setWidth]
  · simp only [if_true]
    rfl

/-! ## 6. the compile-time part of convert.go is the one that was transcribed -/

/-- the regenerated statements of `Comp.convert` outside the closures and the source of its
    helpers are the golden copy `Model/ConvertGolden.lean` that `Model/Convert.lean` transcribes -/
theorem decision_procedure_accepted :
    Gen.ConvertArms.convertActions = Golden.convertActions ∧
    Gen.ConvertArms.convertHelperSrc = Golden.convertHelperSrc ∧
    Gen.ConvertArms.convertNumericConstSrc = Golden.convertNumericConstSrc ∧
    Gen.ConvertArms.isNumericKindSrc = Golden.isNumericKindSrc := by
  refine ⟨?_, ?_, ?_, ?_⟩ <;> decide +kernel

/-! ## non-vacuity -/

-- the regenerated table has an arm for int8 fed by an unsigned source, and it is the expected one
example : lookupArm Gen.ConvertArms.convertArms .int8 .uint = some ⟨.int8, true, .aInt, some .int8⟩ := by
  decide +kernel
example : lookupArm Gen.ConvertArms.convertArms .float32 .int = some ⟨.float32, false, .aInt, some .float32⟩ := by
  decide +kernel
-- int_conv_spec on a concrete value: int8(int64(300)) = 44, uint64(int8(-1)) = MaxUint64
example : I.conv true (300 : BitVec 64) 8 = (44 : BitVec 8) := by decide
example : I.conv true (0xff : BitVec 8) 64 = (0xffffffffffffffff : BitVec 64) := by decide
example : I.conv false (0xff : BitVec 8) 64 = (0xff : BitVec 64) := by decide
example : decode (encode [0x41, 0xD800, 0x110000, -1, 0x10FFFF, 0x20AC]) = [0x41, 0xFFFD, 0xFFFD, 0xFFFD, 0x10FFFF, 0x20AC] := by
  decide
-- invalid UTF-8: every offending byte becomes U+FFFD, width 1
example : decode [0x61, 0xFF, 0xC0, 0x80, 0xED, 0xA0, 0x80, 0xE2, 0x82] = [0x61, 0xFFFD, 0xFFFD, 0xFFFD, 0xFFFD, 0xFFFD, 0xFFFD, 0xFFFD, 0xFFFD] := by
  decide
example : Str.ofInt 0x20AC = [0xE2, 0x82, 0xAC] ∧ Str.ofInt (-1) = [0xEF, 0xBF, 0xBD] ∧ Str.ofInt 0xD800 = [0xEF, 0xBF, 0xBD] := by
  decide
-- the defect repaired by convertNumericConst, on the model of the ORIGINAL tree: const int 300 -> int8 is accepted as 44
example : (match convert [] Tree.original (.const ⟨0, .basic .int⟩ (.b (.int ⟨64, true⟩ 300))) ⟨0, .basic .int8⟩ with
    | .val (.b (.int _ v)) => v.toNat | _ => 0) = 44 := by decide +kernel
example : (match convert [] Tree.repaired (.const ⟨0, .basic .int⟩ (.b (.int ⟨64, true⟩ 300))) ⟨0, .basic .int8⟩ with
    | .rej => true | _ => false) = true := by decide +kernel
-- rejected pair
example : convert [] Tree.repaired (.var ⟨0, .basic .bool⟩ (.b (.bool true))) ⟨0, .basic .int⟩ = .rej :=
  var_rejected_of_not_convertible _ _ _ _ _ (by decide)

end Convert
