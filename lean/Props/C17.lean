import Proofs.DepLoad
import Proofs.DepFuel
import Proofs.DepScope
/-!
# C17  The dependency sorter returns a deterministic, source-stable topological order

Property theorems about `Model/Dep.lean` and `Model/DepScope.lean` (transcriptions of
base/dep/{graph,sorter,decl,scope,util}.go after the repairs fixes/C17-*.diff).

Vocabulary (Proofs/*.lean): `Ord` = the iteration order of every Go map (an arbitrary
rearrangement per iteration site and round), `Ord.OK` = every rearrangement is a permutation;
`GoodDecls ds` = the declarations are listed with ascending positions (what the scope walk
produces, `load_good`); `WF g` = a graph as `build` makes it (`build_wf`); `depOk g0 e0 pre n` =
the dependency of entry `e0` on name `n` is satisfied by the prefix `pre` (every declaration named
`n` is in `pre`, or `e0` declares a type and `n` is forward-declared in `pre`); `ready` = all
dependencies satisfied; `headPos` = position of the first declaration of an entry.
-/
namespace Dep
open DepScope (Name Kind Decl)

theorem allDecls_build_foldl (ds : List Decl) (g : Graph) :
    (allDecls (ds.foldl (fun g d => addDecl d g) g)).Perm (allDecls g ++ ds) := by
  induction ds generalizing g with
  | nil => simp
  | cons d r ih =>
    simp only [List.foldl_cons]
    refine (ih _).trans ?_
    refine ((allDecls_addDecl d g).append_right r).trans ?_
    simp

/-- the graph contains exactly the declarations it was built from -/
theorem allDecls_build (ds : List Decl) : (allDecls (build ds)).Perm ds := by
  simpa [build, allDecls] using allDecls_build_foldl ds []

/-- `sort_perm` (graph level): when the sort succeeds, the result without the forward
    declarations is a permutation of the declarations of the graph, for every iteration order. -/
theorem sort_perm_graph (ord : Ord) (hord : ord.OK) (g : Graph) (out : List Decl)
    (hnames : (names g).Nodup) (hkinds : ∀ d ∈ allDecls g, d.kind ≠ Kind.typeFwd)
    (h : sortGraph ord g = some out) :
    (out.filter notFwd).Perm (allDecls g) := by
  unfold sortGraph at h
  have := sortLoop_perm ord hord _ 0 _ [] out (by rw [names_removeUnresolvable]; exact hnames) h
  rw [allDecls_removeUnresolvable] at this
  simp only [List.filter_nil, List.nil_append] at this
  refine this.trans ?_
  rw [List.filter_eq_self.mpr]
  intro d hd
  simp [notFwd, hkinds d hd]

theorem resolve_kinds {ds : List Decl} (h : ∀ d ∈ ds, d.kind ≠ Kind.typeFwd) :
    ∀ d ∈ resolve ds, d.kind ≠ Kind.typeFwd := by
  intro d hd
  unfold resolve at hd
  obtain ⟨d', hd', rfl⟩ := List.mem_map.mp hd
  exact h d' hd'

/-- **sort_perm**: every declared name exactly once.  When `Sorter.popDecls` succeeds on the
    declarations `ds`, the result without the forward type declarations is a permutation of `ds`
    (with dependencies restricted to declared names), and every forward declaration is a copy,
    with kind `TypeFwd`, of a type declaration of `ds`. -/
theorem sort_perm (ord : Ord) (hord : ord.OK) (ds out : List Decl) (hds : GoodDecls ds)
    (hk : ∀ d ∈ ds, d.kind ≠ Kind.typeFwd) (h : sortDecls ord ds = some out) :
    (out.filter notFwd).Perm (resolve ds) := by
  have hwf := build_wf hds
  have hperm := allDecls_build (resolve ds)
  refine (sort_perm_graph ord hord _ out hwf.names_nodup ?_ h).trans hperm
  intro d hd
  exact resolve_kinds hk d (hperm.mem_iff.mp hd)

/-- **sort_deterministic**: the result (success or declaration loop, and the order) does not
    depend on the iteration order of any Go map. -/
theorem sort_deterministic (ord1 ord2 : Ord) (h1 : ord1.OK) (h2 : ord2.OK) (ds : List Decl)
    (hds : GoodDecls ds) : sortDecls ord1 ds = sortDecls ord2 ds := by
  have hwf := (build_wf hds).removeUnresolvable
  unfold sortDecls sortGraph
  rw [sortLoop_det ord1 h1 _ 0 0 _ [] hwf, sortLoop_det ord2 h2 _ 0 0 _ [] hwf]

theorem noFwd_removeUnresolvable {g : Graph} (h : NoFwd g) : NoFwd (removeUnresolvable g) := by
  intro d hd; rw [allDecls_removeUnresolvable] at hd; exact h d hd

theorem sortGraph_topo_greedy (ord : Ord) (hord : ord.OK) (g : Graph) (hwf : WF g) (hnf : NoFwd g)
    (out : List Decl) (h : sortGraph ord g = some out) :
    AllFrom (TopoAt (removeUnresolvable g)) [] out ∧ AllFrom (GreedyAt (removeUnresolvable g)) [] out :=
  sortLoop_topo ord hord hwf.removeUnresolvable (closed_removeUnresolvable g) (noFwd_removeUnresolvable hnf)
    _ 0 _ [] out hwf.removeUnresolvable (Inv.init (closed_removeUnresolvable g)) trivial trivial h

/-- **sort_topological**: in the result `pre ++ d :: post`, a declaration `d` (not a forward
    declaration) of entry `e0` comes after every declaration of every name `n` its entry depends
    on -- except that, when `e0` declares a type, a forward declaration of `n` in `pre` suffices. -/
theorem sort_topological (ord : Ord) (hord : ord.OK) (g : Graph) (hwf : WF g) (hnf : NoFwd g)
    (out pre post : List Decl) (d : Decl) (h : sortGraph ord g = some out) (hs : out = pre ++ d :: post)
    (hk : d.kind ≠ Kind.typeFwd) (e0 : Entry) (he0 : e0 ∈ removeUnresolvable g) (hd : d ∈ e0.decls)
    (n : Name) (hn : n ∈ e0.edges) :
    (∀ e ∈ removeUnresolvable g, e.name = n → ∀ d' ∈ e.decls, d' ∈ pre) ∨
    (isTypeEntry e0 = true ∧ fwdIn pre n = true) :=
  allFrom_split _ (sortGraph_topo_greedy ord hord g hwf hnf out h).1 hs hk e0 he0 hd n hn

/-- **sort_greedy_min_pos**: when the first declaration `d` of an entry `e0` is placed after
    `pre`, every other entry `e1` not yet placed whose dependencies are all satisfied by `pre`
    starts at a position that is not smaller: among the declarations allowed next the sorter takes
    the earliest in the source (hence unconstrained declarations keep their source order). -/
theorem sort_greedy_min_pos (ord : Ord) (hord : ord.OK) (g : Graph) (hwf : WF g) (hnf : NoFwd g)
    (out pre post : List Decl) (d : Decl) (h : sortGraph ord g = some out) (hs : out = pre ++ d :: post)
    (hk : d.kind ≠ Kind.typeFwd) (e0 : Entry) (he0 : e0 ∈ removeUnresolvable g) (hd : d ∈ e0.decls)
    (hfirst : ∀ x ∈ e0.decls, x ∉ pre)
    (e1 : Entry) (he1 : e1 ∈ removeUnresolvable g) (hnot : ∀ x ∈ e1.decls, x ∉ pre)
    (hready : ready (removeUnresolvable g) e1 pre) :
    headPos e0 ≤ headPos e1 :=
  allFrom_split _ (sortGraph_topo_greedy ord hord g hwf hnf out h).2 hs hk e0 he0 hd hfirst e1 he1 hnot hready

theorem exists_first {α : Type} (P : α → Prop) [DecidablePred P] (l : List α) (h : ∃ x ∈ l, P x) :
    ∃ pre d post, l = pre ++ d :: post ∧ P d ∧ ∀ x ∈ pre, ¬ P x := by
  induction l with
  | nil => obtain ⟨x, hx, _⟩ := h; cases hx
  | cons a r ih =>
    by_cases ha : P a
    · exact ⟨[], a, r, rfl, ha, by intro x hx; cases hx⟩
    · obtain ⟨x, hx, hpx⟩ := h
      have : ∃ x ∈ r, P x := by
        rcases List.mem_cons.mp hx with rfl | hx
        · exact absurd hpx ha
        · exact ⟨x, hx, hpx⟩
      obtain ⟨pre, d, post, hl, hd, hpre⟩ := ih this
      refine ⟨a :: pre, d, post, by rw [hl]; rfl, hd, ?_⟩
      intro y hy
      rcases List.mem_cons.mp hy with rfl | hy
      · exact ha
      · exact hpre y hy

/-- **cycle_without_type_is_error**: if some non-empty set `S` of entries, none of which declares a
    type, is closed under "depends on a member of `S`" (i.e. the graph has a dependency cycle through
    declarations that are not types), the sort reports a declaration loop, for every map order. -/
theorem cycle_without_type_is_error (ord : Ord) (hord : ord.OK) (g : Graph) (hwf : WF g) (hnf : NoFwd g)
    (S : List Entry) (hne : S ≠ [])
    (hS : ∀ e ∈ S, e ∈ removeUnresolvable g ∧ isTypeEntry e = false ∧ ∃ e' ∈ S, e'.name ∈ e.edges) :
    sortGraph ord g = none := by
  cases hres : sortGraph ord g with
  | none => rfl
  | some out =>
    exfalso
    have hwf0 := hwf.removeUnresolvable
    have hperm := sort_perm_graph ord hord g out hwf.names_nodup hnf hres
    let P : Decl → Prop := fun d => ∃ e ∈ S, d ∈ e.decls
    have hdec : DecidablePred P := fun d => by
      unfold P
      exact List.decidableBEx (fun e => d ∈ e.decls) S
    -- some declaration of S is in the result
    have hex : ∃ x ∈ out, P x := by
      cases S with
      | nil => exact absurd rfl hne
      | cons e r =>
        have he := (hS e List.mem_cons_self).1
        cases hd : e.decls with
        | nil => exact absurd hd (hwf0.nonempty e he)
        | cons d rd =>
          have hde : d ∈ e.decls := by rw [hd]; exact List.mem_cons_self
          have hda : d ∈ allDecls g := by
            rw [← allDecls_removeUnresolvable]; exact mem_allDecls.mpr ⟨e, he, hde⟩
          have := (List.mem_filter.mp (hperm.mem_iff.mpr hda)).1
          exact ⟨d, this, e, List.mem_cons_self, hde⟩
    obtain ⟨pre, d, post, hout, ⟨e, heS, hde⟩, hpre⟩ := @exists_first _ P hdec out hex
    obtain ⟨he0, hnt, e', he'S, hedge⟩ := hS e heS
    have hk : d.kind ≠ Kind.typeFwd :=
      hnf d (by rw [← allDecls_removeUnresolvable]; exact mem_allDecls.mpr ⟨e, he0, hde⟩)
    rcases sort_topological ord hord g hwf hnf out pre post d hres hout hk e he0 hde e'.name hedge with hall | ⟨ht, _⟩
    · have he'0 := (hS e' he'S).1
      cases hd' : e'.decls with
      | nil => exact hwf0.nonempty e' he'0 hd'
      | cons d' rd' =>
        have hd'e : d' ∈ e'.decls := by rw [hd']; exact List.mem_cons_self
        exact hpre d' (hall e' he'0 rfl d' hd'e) ⟨e', he'S, hd'e⟩
    · rw [hnt] at ht; cases ht

/-- **sort_fuel_sufficient**: the fuel of the model's loop is never the reason for `none`: with any
    larger amount of fuel the result is the same (every round removes a node or at least one edge),
    so `none` always stands for the declaration-loop error of the code. -/
theorem sort_fuel_sufficient (ord : Ord) (hord : ord.OK) (g : Graph) (hwf : WF g) (extra : Nat) :
    sortLoop ord (sortFuel (removeUnresolvable g) + extra) 0 (removeUnresolvable g) [] = sortGraph ord g := by
  unfold sortGraph
  apply sortLoop_fuel ord hord _ _ 0 _ [] hwf.removeUnresolvable <;>
    (unfold sortFuel measure; omega)

/-- the declarations the scope walk produces are in creation order with ascending positions
    and none is a forward declaration: the hypotheses of the theorems above always hold -/
theorem load_good (gensym pos : Nat) (ts : List DepScope.Top) :
    GoodDecls (DepScope.loadTops { gensym := gensym, pos := pos } ts).out ∧
    ∀ d ∈ (DepScope.loadTops { gensym := gensym, pos := pos } ts).out, d.kind ≠ Kind.typeFwd :=
  let h := (LoadOK.init gensym pos).loadTops ts
  ⟨h.1, h.2.2⟩

/-- **all_deterministic**: what `Sorter.All()` returns does not depend on map iteration order. -/
theorem all_deterministic (ord1 ord2 : Ord) (h1 : ord1.OK) (h2 : ord2.OK) :
    ∀ (fuel : Nat) (s : SState) (q : List Item2), all ord1 fuel s q = all ord2 fuel s q := by
  intro fuel
  induction fuel with
  | zero => intros; rfl
  | succ fuel ih =>
    intro s q
    have hsome : some1 ord1 s q = some1 ord2 s q := by
      unfold some1
      cases q with
      | nil => rfl
      | cons i r =>
        simp only
        split
        · rw [sort_deterministic ord1 ord2 h1 h2 _ (load_good _ _ _).1]
        · rfl
    simp only [all, hsome]
    split
    · rfl
    · split
      · rfl
      · rw [ih]

/-- **phases_preserved**: `Sorter.All()` returns the maximal runs of package clauses / imports /
    declarations / statements one after the other: the first part `ds` of the result comes from
    the first run only (for declarations: a permutation of that run's declarations plus forward
    declarations), the remainder `more` is what `All()` returns for the rest of the queue. -/
theorem phases_preserved (ord : Ord) (hord : ord.OK) (fuel : Nat) (s : SState) (i : Item2) (q : List Item2)
    (out : List Decl) (h : all ord (fuel + 1) s (i :: q) = some out) :
    ∃ (s' : SState) (ds more : List Decl), out = ds ++ more ∧
      all ord fuel s' (popRun i.cls (i :: q)).2 = some more ∧
      (i.cls ≠ Class.decl → ds = (simpleRun s (popRun i.cls (i :: q)).1).2) ∧
      (i.cls = Class.decl → (ds.filter notFwd).Perm
        (resolve (DepScope.loadTops { gensym := s.gensym, pos := s.pos } (tops (popRun i.cls (i :: q)).1)).out)) := by
  simp only [all, List.isEmpty_cons, Bool.false_eq_true, if_false] at h
  split at h
  · cases h
  · rename_i s' ds rest hsome
    split at h
    · cases h
    · rename_i more hmore
      injection h with h
      unfold some1 at hsome
      simp only at hsome
      split at hsome
      · rename_i hcls
        split at hsome
        · rename_i sorted hsorted
          injection hsome with hsome
          injection hsome with hs1 hs2
          injection hs2 with hs2 hs3
          refine ⟨s', ds, more, h.symm, by rw [hs3]; exact hmore, fun hne => absurd hcls hne, fun _ => ?_⟩
          rw [← hs2]
          exact sort_perm ord hord _ _ (load_good _ _ _).1 (load_good _ _ _).2 hsorted
        · cases hsome
      · rename_i hcls
        injection hsome with hsome
        injection hsome with hs1 hs2
        injection hs2 with hs2 hs3
        refine ⟨s', ds, more, h.symm, by rw [hs3]; exact hmore, fun _ => by rw [← hs2], fun hc => absurd hc hcls⟩

/-! ## the hypotheses are satisfiable, the conclusions not trivial -/

def exA : Decl := { kind := .var, name := "a", pos := 0, deps := ["b"] }
def exB : Decl := { kind := .var, name := "b", pos := 1, deps := [] }
def exT : Decl := { kind := .type, name := "T", pos := 2, deps := ["U"] }
def exU : Decl := { kind := .type, name := "U", pos := 3, deps := ["T"] }
def exF : Decl := { kind := .func, name := "f", pos := 4, deps := ["g"] }
def exG : Decl := { kind := .func, name := "g", pos := 5, deps := ["f"] }

/-- `var a = b; var b = 1` is reordered; mutually recursive types get a forward declaration -/
example : sortDecls Ord.id [exA, exB, exT, exU] =
    some [exB, exA, { exU with kind := .typeFwd }, exT, exU] := by decide
/-- the same under another iteration order of the maps -/
example : sortDecls ⟨fun _ l => l.reverse⟩ [exA, exB, exT, exU] =
    some [exB, exA, { exU with kind := .typeFwd }, exT, exU] := by decide
/-- a cycle without a type is a declaration loop (finding F2b, property C16) -/
example : sortDecls Ord.id [exF, exG] = none := by decide
example : GoodDecls [exA, exB, exT, exU] := by simp [GoodDecls, exA, exB, exT, exU]
example : Ord.OK ⟨fun _ l => l.reverse⟩ := fun _ l => List.reverse_perm l

end Dep

namespace DepScope

/-- **deps_eq_free_names**: the names `Scope.AstExpr` collects with its chain of scopes are
    exactly the free names of the node under lexical scoping (`free`, the reference analysis:
    parameters, results, receiver, locals declared by var/const/type/`:=`/range shadow from their
    declaration to the end of their block, nothing else does), for every node and every
    non-empty scope chain. -/
theorem deps_eq_free_names (n : Node) (st : Stack) (h : st ≠ []) :
    (walk n st).1 = (free n (abs st)).1 := (walk_free n st h).1

/-- the same for the dependencies recorded for a function declaration -/
theorem func_deps_eq_free_names (top : Frame) (ps rs body : List Node) :
    (walk (.funcType ps rs) [[], top]).1 ++
      (walk (.scope body) (declare (fieldNames ps ++ fieldNames rs) [[], top])).1 =
    (free (.funcType ps rs) ⟨[], true⟩).1 ++
      (free (.scope body) ⟨fieldNames ps ++ fieldNames rs, true⟩).1 := by
  rw [deps_eq_free_names _ _ (by simp), deps_eq_free_names _ _ (declare_ne_nil _ (by simp))]
  have h1 : abs [[], top] = ⟨[], true⟩ := by simp [abs]
  have h2 : abs (declare (fieldNames ps ++ fieldNames rs) [[], top]) = ⟨fieldNames ps ++ fieldNames rs, true⟩ := by
    simp [abs, declare]
  rw [h1, h2]

/-- `func f(a int) int { return a }` has no free names although `a` is declared at top level -/
example : (walk (.scope [.other [.ident "a"]]) (declare ["a"] [[], ["a", "f"]])).1 = [] := by decide
/-- `func g() int { { x := a; _ = x }; return a }` : `a` is free -/
example : (walk (.scope [.scope [.define [.ident "x"] [.ident "a"], .other [.ident "x"]], .other [.ident "a"]]) [[], ["a"]]).1
    = ["a", "a"] := by decide

/-- finding F1: the loop of `isLocal` before the repair (`isLocalOld`) skips the enclosing scope
    and tests the top-level one: with the frames `[[], ["p"], ["a"]]` (block, function scope with
    parameter `p`, top level declaring `a`) it answers "not local" for `p` and "local" for `a`. -/
theorem isLocalOld_wrong :
    isLocalOld "p" 3 [[], ["p"], ["a"]] [["p"], ["a"]] = false ∧ isLocal "p" [[], ["p"], ["a"]] = true ∧
    isLocalOld "a" 3 [[], ["p"], ["a"]] [["p"], ["a"]] = true ∧ isLocal "a" [[], ["p"], ["a"]] = false := by
  decide

end DepScope
