import Proofs.Dep
/-!
# C17  The dependency sorter returns a deterministic, source-stable topological order

Property theorems about `Model/Dep.lean` and `Model/DepScope.lean` (transcriptions of
base/dep/{graph,sorter,decl,scope,util}.go after the repairs fixes/C17-*.diff).
-/
namespace Dep
open DepScope (Name Kind Decl)

/-- `sort_perm`: when the sort succeeds, the result consists of every declaration of the graph
    exactly once (as a multiset), plus forward declarations, each of which is a copy of a type
    declaration of the graph with kind `TypeFwd`; for every iteration order of the Go maps. -/
theorem sort_perm (ord : Ord) (hord : ord.OK) (g : Graph) (out : List Decl)
    (hnames : (names g).Nodup) (hkinds : ∀ d ∈ allDecls g, d.kind ≠ Kind.typeFwd)
    (h : sortGraph ord g = some out) :
    (out.filter notFwd).Perm (allDecls g) := by
  unfold sortGraph at h
  have := sortLoop_perm ord hord _ 0 _ [] out (by rw [names_removeUnresolvable]; exact hnames) h
  rw [allDecls_removeUnresolvable] at this
  simp only [List.filter_nil, List.nil_append] at this
  refine this.trans ?_
  rw [List.filter_eq_self.mpr]
  intro d hd
  simp [notFwd, hkinds d hd]

end Dep
