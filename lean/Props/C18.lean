import Model.Options
import Model.OptionSites
import Proofs.Options
/-!
# C18 — program results do not depend on semantics-neutral interpreter options

Model: `Model/Options.lean` (REPL pipeline of fast/repl.go around a small statement machine, the
option bits split into semantic and observation-only ones), `Model/OptionSites.lean` (hand
classification of every use of an option flag), `Gen/OptionUses.lean` (regenerated from the sources).
-/
namespace Options
open OptionUses

/-! ## Neutrality -/

/-- **options_neutral.**  For every program (list of REPL chunks, including chunks that flip neutral
option bits while the program runs), every fuel, and any two initial states with the same semantic
part — i.e. differing arbitrarily in the neutral options `Obs.n` (OptDebugger, OptCollect*,
OptTrapPanic, OptPanicStackTrace, OptShowEval, OptShowEvalType, OptShowTime) and in everything the
neutral options write (collected declarations, DebugComp/debugC, breakpoint log, extra Stdout lines,
trap log) — the per-chunk results (values and panics) are identical and the final semantic states
(globals, functions, line counter, the program's own output, OptMacroExpandOnly, OptKeepUntyped)
are identical. -/
theorem options_neutral (fuel : Nat) (prog : List Chunk) (sem : Sem) (obs obs' : Obs) :
    (runChunks true fuel prog ⟨sem, obs⟩).1 = (runChunks true fuel prog ⟨sem, obs'⟩).1 ∧
    (runChunks true fuel prog ⟨sem, obs⟩).2.sem = (runChunks true fuel prog ⟨sem, obs'⟩).2.sem :=
  runChunks_ni fuel prog ⟨sem, obs⟩ ⟨sem, obs'⟩ rfl

/-- the same, stated for two option records -/
theorem options_neutral_opts (fuel : Nat) (prog : List Chunk) (sem : Sem) (o o' : NOpts) :
    (runChunks true fuel prog ⟨sem, { n := o }⟩).1 = (runChunks true fuel prog ⟨sem, { n := o' }⟩).1 ∧
    (runChunks true fuel prog ⟨sem, { n := o }⟩).2.sem.out = (runChunks true fuel prog ⟨sem, { n := o' }⟩).2.sem.out ∧
    (runChunks true fuel prog ⟨sem, { n := o }⟩).2.sem.globals = (runChunks true fuel prog ⟨sem, { n := o' }⟩).2.sem.globals := by
  have h := options_neutral fuel prog sem { n := o } { n := o' }
  exact ⟨h.1, by rw [h.2], by rw [h.2]⟩

/-- the statement machine alone: `debugC` of the executing code, `DebugComp` of the current frame and
the whole observation state never influence a result or the semantic state -/
theorem run_neutral (fuel : Nat) (cd cd' : Bool) (cx cx' : Ctx) (c : Code) (s s' : St)
    (hp : cx.p = cx'.p) (hl : cx.l = cx'.l) (hs : s.sem = s'.sem) :
    RelRes Eq (run fuel cd cx c s).1 (run fuel cd' cx' c s').1 ∧
    (run fuel cd cx c s).2.sem = (run fuel cd' cx' c s').2.sem :=
  run_ni fuel cd cd' cx cx' c ⟨hp, hl⟩ s s' hs

/-- one REPL chunk (ParseEvalPrint): trapping a panic, printing a stack trace, the eval time, the
values, collecting the AST and the ':' forced evaluation leave result and semantic state alone -/
theorem chunk_neutral (fuel : Nat) (ch : Chunk) (s s' : St) (hs : s.sem = s'.sem) :
    RelRes Eq (parseEvalPrint true fuel ch s).1 (parseEvalPrint true fuel ch s').1 ∧
    (parseEvalPrint true fuel ch s).2.sem = (parseEvalPrint true fuel ch s').2.sem :=
  parseEvalPrint_ni fuel ch s s' hs

/-! ### the theorem is about something: the observation parts do differ -/

def demoProg : List Chunk :=
  [ .defn false 0 [.brk, .emit .par] (.bin .mul .par (.lit 2)),
    .code true [.set 0 (.lit 20)] .none,
    .code false [.brk, .emit (.call 0 (.bin .add (.glob 0) (.lit 1)))] (.kint 7),
    .code false [.panic (.lit 3)] .none,
    .code false [.emit (.glob 0)] .none ]

def demoAll : NOpts :=
  { debugger := true, collectDecl := true, collectStmt := true, trapPanic := true, stackTrace := true,
    showEval := true, showEvalType := true, showTime := true }

example : ((runChunks true 50 demoProg ⟨{}, {}⟩).1.map (·.panic)) = [none, none, none, some "3", none] := by decide +kernel
example : (runChunks true 50 demoProg ⟨{}, {}⟩).2.sem.out = [21, 42, 20] := by decide +kernel
example : (runChunks true 50 demoProg ⟨{}, { n := demoAll }⟩).2.sem.out = [21, 42, 20] := by decide +kernel
example : (runChunks true 50 demoProg ⟨{}, {}⟩).2.obs.brkLog = [false, false] ∧
    (runChunks true 50 demoProg ⟨{}, { n := demoAll }⟩).2.obs.brkLog = [true, true] := by decide +kernel +kernel
example : (runChunks true 50 demoProg ⟨{}, {}⟩).2.obs.decls = 0 ∧
    (runChunks true 50 demoProg ⟨{}, { n := demoAll }⟩).2.obs.decls = 1 ∧
    (runChunks true 50 demoProg ⟨{}, { n := demoAll }⟩).2.obs.stmts = 5 := by decide +kernel +kernel
example : (runChunks true 50 demoProg ⟨{}, { n := demoAll }⟩).2.obs.trapped = [true] ∧
    (runChunks true 50 demoProg ⟨{}, {}⟩).2.obs.trapped = [false] := by decide +kernel +kernel

/-! ## The ':' forced evaluation as found is NOT neutral -/

def forceProg : List Chunk :=
  [ .code true [.set 0 (.lit 1)] .none, .code false [.emit (.glob 0)] .none ]

/-- **forceEval_buggy_not_neutral.**  With `cmdOptForceEval` as found (`return todisable`), switching
OptCollectDeclarations on changes what a program computes: after one ':' command the interpreter is
in OptMacroExpandOnly mode and the next input is no longer evaluated.  (Replayed on the real code by
the Go-side oracle: key options-changed-by-program-under-Declarations.Collect.) -/
theorem forceEval_buggy_not_neutral :
    (runChunks false 20 forceProg ⟨{}, {}⟩).2.sem.out = [1] ∧
    (runChunks false 20 forceProg ⟨{}, { n := { collectDecl := true } }⟩).2.sem.out = [] ∧
    (runChunks false 20 forceProg ⟨{}, { n := { collectDecl := true } }⟩).2.sem.meo = true := by decide +kernel +kernel

/-- the repaired function restores exactly the bits that were set -/
theorem forceEval_restores (forced : Bool) (s : St) :
    (bnd (forceBegin forced) forceEnd s).2.sem.meo = s.sem.meo ∧
    (bnd (forceBegin forced) forceEnd s).2.obs.n.collectDecl = s.obs.n.collectDecl ∧
    (bnd (forceBegin forced) forceEnd s).2.obs.n.collectStmt = s.obs.n.collectStmt := by
  cases forced <;> simp [bnd, forceBegin, forceEnd]

/-- obligation on the sources: `cmdOptForceEval` no longer returns the whole constant -/
theorem forceEval_source_repaired : OptionUses.forceEvalReturnsConst = false := by decide

/-! ## OptKeepUntyped -/

/-- same first computation, continuations that agree up to `Q` -/
theorem bnd_same {α β} {Q : β → β → Prop} {m : M α} {f f' : α → M β}
    (h : ∀ a s1, RelRes Q (f a s1).1 (f' a s1).1 ∧ (f a s1).2 = (f' a s1).2) (s : St) :
    RelRes Q (bnd m f s).1 (bnd m f' s).1 ∧ (bnd m f s).2 = (bnd m f' s).2 := by
  unfold bnd
  generalize m s = r
  obtain ⟨r, s1⟩ := r
  cases r with
  | ok a => exact h a s1
  | panic msg => exact ⟨rfl, rfl⟩
  | oof => exact ⟨trivial, rfl⟩

/-- **keep_untyped_value_same.**  For every statement list, final expression and state: running the
compiled chunk with and without OptKeepUntyped executes the same statements (identical final state,
identical panic) and returns the same values up to `Val.toDefault`, which maps the untyped constant to
the typed constant of the same value. -/
theorem keep_untyped_value_same (fuel : Nat) (stmts : List Stmt) (fin : Fin) (s : St) :
    RelRes (fun v v' => v' = v.map Val.toDefault) (runTop fuel true stmts fin s).1 (runTop fuel false stmts fin s).1 ∧
    (runTop fuel true stmts fin s).2 = (runTop fuel false stmts fin s).2 := by
  unfold runTop withN
  refine bnd_same (fun a s1 => ?_) s
  cases fin with
  | none => exact ⟨rfl, rfl⟩
  | expr e =>
    refine bnd_same (Q := fun (v v' : List Val) => v' = v.map Val.toDefault)
      (f := fun v => ret [Val.int v]) (f' := fun v => ret [Val.int v]) (fun v s2 => ⟨?_, rfl⟩) s1
    show [Val.int v] = [Val.int v].map Val.toDefault
    rfl
  | kint c => exact ⟨rfl, rfl⟩
  | krune c => exact ⟨rfl, rfl⟩
  | kbool b => exact ⟨rfl, rfl⟩

/-- the compile-time gate: with OptKeepUntyped no final constant is rejected; without it exactly the
constants that do not fit their default type are -/
theorem keep_untyped_gate (fin : Fin) :
    finOverflows true fin = false ∧
    (finOverflows false fin = true ↔
      (∃ c, fin = .kint c ∧ fitsInt c = false) ∨ (∃ c, fin = .krune c ∧ fitsI32 c = false)) := by
  cases fin <;> simp [finOverflows]

example : (runTop 10 true [.set 0 (.lit 4)] (.kint 7) {}).1 matches .ok [.uint 7] := by decide +kernel
example : (runTop 10 false [.set 0 (.lit 4)] (.kint 7) {}).1 matches .ok [.int 7] := by decide +kernel

/-! ## `Interp.Repl` stops at the first untrapped panic, otherwise it is the same run -/

theorem repl_prefix (fuel : Nat) : ∀ (prog : List Chunk) (s : St),
    (repl true fuel prog s).1 <+: (runChunks true fuel prog s).1
  | [], _ => List.prefix_refl _
  | ch :: rest, s => by
    unfold repl runChunks
    generalize parseEvalPrint true fuel ch s = r
    obtain ⟨r, s1⟩ := r
    have ih := repl_prefix fuel rest s1
    cases r with
    | ok a =>
      simp only []
      split
      · exact List.prefix_cons_inj a |>.mpr (List.nil_prefix)
      · exact List.prefix_cons_inj a |>.mpr ih
    | panic m => exact List.prefix_cons_inj _ |>.mpr (List.nil_prefix)
    | oof => exact List.prefix_cons_inj _ |>.mpr (List.nil_prefix)

example : (repl true 50 demoProg ⟨{}, {}⟩).1.length = 4 ∧ (runChunks true 50 demoProg ⟨{}, {}⟩).1.length = 5 := by decide +kernel
example : (repl true 50 demoProg ⟨{}, { n := { trapPanic := true } }⟩).1.length = 5 := by decide +kernel

/-! ## Obligations over the regenerated table of option uses -/

/-- **all_sites_classified.**  The hand classification lists exactly the uses of option flags found in
the sources (same file, enclosing function, flag, syntactic position, fingerprint of the guarded code
and number of occurrences, in the same order): a new, moved or re-purposed use breaks this. -/
theorem all_sites_classified : classified.map (·.site) = OptionUses.sites := by decide +kernel

/-- no use of a neutral flag is classified as deciding what is computed -/
theorem neutral_sites_observation_only :
    classified.all (fun e => !(neutralFlags.contains e.site.opt) || e.cls != .semantic) = true := by decide +kernel

/-- `semantic` is used for the three semantic flags only, and every flag is either neutral or semantic -/
theorem semantic_sites_semantic_flags :
    classified.all (fun e => (e.cls != .semantic || semanticFlags.contains e.site.opt) &&
      (neutralFlags.contains e.site.opt || semanticFlags.contains e.site.opt)) = true := by decide +kernel

/-- every use the model transcribes exists in the sources -/
theorem modelled_sites_exist :
    modelled.all (fun m => classified.any fun e => e.site.file == m.1 && e.site.fn == m.2.1 && e.site.opt == m.2.2) = true := by
  decide +kernel

example : classified.length = OptionUses.sites.length := by rw [← all_sites_classified, List.length_map]
example : 100 < classified.length := by decide +kernel

end Options
