import Proofs.Cmds
/-!
# C37  REPL command lookup resolves unique prefixes and reports ambiguity

Property theorems about `Model/Cmds.lean` (the transcription of fast/cmd.go).
-/
namespace Cmds

/-- The set of registered names of a state. -/
def State.has (s : State) (n : Name) : Prop :=
  match n with
  | [] => False
  | c :: _ => n ∈ s.m c

instance (s : State) (n : Name) : Decidable (s.has n) := by
  unfold State.has; cases n <;> infer_instance

/-- Table invariant: every vector is strictly sorted (hence duplicate free) and filed under
    the first byte of its names. -/
def Inv (s : State) : Prop :=
  ∀ c, Sorted (s.m c) ∧ ∀ n ∈ s.m c, ∃ t, n = c :: t

theorem inv_empty : Inv State.empty := by
  intro c; simp [State.empty, Sorted]

/-- `binarySearch_spec`: on a sorted vector it finds exactly the members, at their index. -/
theorem binarySearch_spec {vec : List Name} {x : Name} (hs : Sorted vec) :
    ((binarySearch vec x).2 = true ↔ x ∈ vec) ∧
    ((binarySearch vec x).2 = true → vec.getD (binarySearch vec x).1 [] = x ∧ (binarySearch vec x).1 < vec.length) :=
  ⟨binarySearch_found_iff hs, fun h => ⟨(binarySearch_found hs h).2, (binarySearch_found hs h).1⟩⟩

/-- `removeCmd_spec`: the shorter-side in-place copy removes exactly the element at `pos`. -/
theorem removeCmd_is_eraseIdx (vec : List Name) (pos : Nat) (h : pos < vec.length) :
    removeCmd vec pos = vec.eraseIdx pos := removeCmd_spec vec pos h

/-! ## Add -/

theorem add_result (s : State) (x : Name) : (add s x).2 = (x != []) := by
  unfold add
  cases x with
  | nil => rfl
  | cons c t =>
    simp only
    generalize binarySearch (s.m c) (c :: t) = b
    obtain ⟨pos, ok⟩ := b
    cases ok <;> simp

theorem add_m (s : State) (c : Nat) (t : Name) (hi : Inv s) :
    (add s (c :: t)).1.m = upd s.m c (if (c :: t) ∈ s.m c then s.m c else insertSorted (c :: t) (s.m c)) := by
  unfold add
  simp only
  have hs := (hi c).1
  cases hb : (binarySearch (s.m c) (c :: t)).2 with
  | true =>
    have hm := (binarySearch_found_iff hs).mp hb
    obtain ⟨h1, h2⟩ := binarySearch_found hs hb
    generalize hbb : binarySearch (s.m c) (c :: t) = b at *
    obtain ⟨pos, ok⟩ := b
    simp only at hb h1 h2
    subst hb
    simp only [hm, if_true]
    congr 1
    rw [← h2]
    simp [List.getD_eq_getElem?_getD, h1]
  | false =>
    have hm : ¬ (c :: t) ∈ s.m c := by
      intro h; have := (binarySearch_found_iff hs).mpr h; simp [hb] at this
    generalize hbb : binarySearch (s.m c) (c :: t) = b at *
    obtain ⟨pos, ok⟩ := b
    simp only at hb
    subst hb
    simp [hm]

theorem add_inv (s : State) (x : Name) (hi : Inv s) : Inv (add s x).1 := by
  cases x with
  | nil => simpa [add] using hi
  | cons c t =>
    rw [Inv]
    intro d
    rw [add_m s c t hi]
    unfold upd
    by_cases hd : d = c
    · subst hd
      simp only [if_true]
      by_cases hm : (d :: t) ∈ s.m d
      · simp only [hm, if_true]; exact hi d
      · simp only [hm, if_false]
        refine ⟨sorted_insertSorted (hi d).1 hm, ?_⟩
        intro n hn
        rcases mem_insertSorted.mp hn with rfl | hn
        · exact ⟨t, rfl⟩
        · exact (hi d).2 n hn
    · simp only [hd, if_false]; exact hi d

/-- After `Add x` exactly `x` has been added to the set of names. -/
theorem add_has (s : State) (x : Name) (hx : x ≠ []) (hi : Inv s) (n : Name) :
    (add s x).1.has n ↔ (n = x ∨ s.has n) := by
  cases x with
  | nil => exact absurd rfl hx
  | cons c t =>
    cases n with
    | nil => simp [State.has]
    | cons d u =>
      unfold State.has
      rw [add_m s c t hi]
      unfold upd
      by_cases hd : d = c
      · subst hd
        simp only [if_true]
        by_cases hm : (d :: t) ∈ s.m d
        · simp only [hm, if_true]
          constructor
          · intro h; exact Or.inr h
          · rintro (h | h)
            · rw [h]; exact hm
            · exact h
        · simp only [hm, if_false]; exact mem_insertSorted
      · simp only [hd, if_false]
        constructor
        · intro h; exact Or.inr h
        · rintro (h | h)
          · simp at h; exact absurd h.1 hd
          · exact h

/-! ## Del -/

theorem del_m (s : State) (c : Nat) (t : Name) (hi : Inv s) :
    ((del s (c :: t)).2 = true ↔ (c :: t) ∈ s.m c) ∧
    ∃ v, (del s (c :: t)).1.m = upd s.m c v ∧ List.Sublist v (s.m c) ∧
      ∀ n, n ∈ v ↔ (n ∈ s.m c ∧ n ≠ c :: t) := by
  unfold del
  simp only
  have hs := (hi c).1
  cases hb : (binarySearch (s.m c) (c :: t)).2 with
  | true =>
    have hm := (binarySearch_found_iff hs).mp hb
    obtain ⟨h1, h2⟩ := binarySearch_found hs hb
    generalize hbb : binarySearch (s.m c) (c :: t) = b at *
    obtain ⟨pos, ok⟩ := b
    simp only at hb h1 h2
    subst hb
    simp only [if_true, hm, true_iff, true_and]
    refine ⟨(s.m c).eraseIdx pos, by rw [removeCmd_spec _ _ h1], List.eraseIdx_sublist .., ?_⟩
    intro n
    rw [List.mem_eraseIdx_iff_getElem]
    have hp : (s.m c)[pos] = c :: t := by
      simpa [List.getD_eq_getElem?_getD, h1] using h2
    constructor
    · rintro ⟨i, hil, hne, rfl⟩
      refine ⟨List.getElem_mem _, ?_⟩
      intro he
      have hlt : ltN ((s.m c)[i]) ((s.m c)[pos]) = true ∨ ltN ((s.m c)[pos]) ((s.m c)[i]) = true := by
        rcases Nat.lt_or_gt_of_ne hne with h | h
        · exact Or.inl ((List.pairwise_iff_getElem.mp hs) i pos hil h1 h)
        · exact Or.inr ((List.pairwise_iff_getElem.mp hs) pos i h1 hil h)
      rw [hp, he] at hlt
      simp [ltN_irrefl] at hlt
    · rintro ⟨hn, hne⟩
      obtain ⟨i, hil, rfl⟩ := List.getElem_of_mem hn
      refine ⟨i, hil, ?_, rfl⟩
      intro he; subst he; exact hne hp
  | false =>
    have hm : ¬ (c :: t) ∈ s.m c := by
      intro h; have := (binarySearch_found_iff hs).mpr h; simp [hb] at this
    generalize hbb : binarySearch (s.m c) (c :: t) = b at *
    obtain ⟨pos, ok⟩ := b
    simp only at hb
    subst hb
    simp only [Bool.false_eq_true, if_false, hm, iff_self, true_and]
    refine ⟨s.m c, ?_, List.Sublist.refl _, ?_⟩
    · funext d; unfold upd; by_cases hd : d = c <;> simp [hd]
    · intro n; constructor
      · intro h; exact ⟨h, fun e => hm (e ▸ h)⟩
      · exact fun h => h.1

theorem del_inv (s : State) (x : Name) (hi : Inv s) : Inv (del s x).1 := by
  cases x with
  | nil => simpa [del] using hi
  | cons c t =>
    obtain ⟨_, v, hv, hsub, hmem⟩ := del_m s c t hi
    intro d
    rw [hv]; unfold upd
    by_cases hd : d = c
    · subst hd
      simp only [if_true]
      exact ⟨List.Pairwise.sublist hsub (hi d).1, fun n hn => (hi d).2 n ((hmem n).mp hn).1⟩
    · simp only [hd, if_false]; exact hi d

/-- `Del x` returns whether `x` was registered, and removes exactly `x`. -/
theorem del_has (s : State) (x : Name) (hi : Inv s) :
    ((del s x).2 = true ↔ s.has x) ∧ ∀ n, (del s x).1.has n ↔ (n ≠ x ∧ s.has n) := by
  cases x with
  | nil =>
    refine ⟨by simp [del, State.has], ?_⟩
    intro n; cases n <;> simp [del, State.has]
  | cons c t =>
    obtain ⟨hr, v, hv, _, hmem⟩ := del_m s c t hi
    refine ⟨by simpa [State.has] using hr, ?_⟩
    intro n
    cases n with
    | nil => simp [State.has]
    | cons d u =>
      unfold State.has
      rw [hv]; unfold upd
      by_cases hd : d = c
      · subst hd
        simp only [if_true, hmem]
        exact And.comm
      · simp only [hd, if_false]
        constructor
        · intro h; exact ⟨by intro e; simp at e; exact hd e.1, h⟩
        · exact fun h => h.2

/-! ## Every history of Add/Del keeps the invariant -/

inductive Op where
  | add (n : Name)
  | del (n : Name)

def step (s : State) : Op → State
  | .add n => (add s n).1
  | .del n => (del s n).1

theorem table_sorted_inv (ops : List Op) : Inv (ops.foldl step State.empty) := by
  suffices h : ∀ s, Inv s → Inv (ops.foldl step s) from h _ inv_empty
  induction ops with
  | nil => intro s h; exact h
  | cons op ops ih =>
    intro s h
    apply ih
    cases op with
    | add n => exact add_inv s n h
    | del n => exact del_inv s n h

/-! ## Lookup -/

/-- candidates: registered names that start with the typed prefix, in name order -/
def candidates (s : State) (p : Name) : List Name :=
  match p with
  | [] => []
  | c :: _ => (s.m c).filter (pfx p)

theorem candidates_iff (s : State) (p : Name) (hp : p ≠ []) (hi : Inv s) (n : Name) :
    n ∈ candidates s p ↔ (s.has n ∧ hasPrefix n p = true) := by
  cases p with
  | nil => exact absurd rfl hp
  | cons c t =>
    simp only [candidates, List.mem_filter, pfx]
    constructor
    · rintro ⟨h1, h2⟩
      obtain ⟨u, rfl⟩ := (hi c).2 n h1
      exact ⟨h1, h2⟩
    · rintro ⟨h1, h2⟩
      cases n with
      | nil => simp [hasPrefix] at h2
      | cons d u =>
        simp only [hasPrefix, Bool.and_eq_true, beq_iff_eq] at h2
        obtain ⟨rfl, _⟩ := h2
        exact ⟨h1, by simp [hasPrefix, *]⟩

theorem candidates_sorted (s : State) (p : Name) (hi : Inv s) : Sorted (candidates s p) := by
  cases p with
  | nil => simp [candidates, Sorted]
  | cons c t => exact List.Pairwise.sublist List.filter_sublist (hi c).1

/-- **lookup_spec** (full statement of the property's first sentence).  In every reachable
    table: a prefix equal to a registered name returns that command; otherwise the result
    is decided by the list of registered names starting with the prefix: none → no match,
    exactly one → that command, several → ambiguity listing all of them in name order. -/
theorem lookup_spec (s : State) (p : Name) (hi : Inv s) :
    lookup s p =
      if s.has p then .one p
      else match candidates s p with
        | [] => .none
        | [x] => .one x
        | xs => .ambig xs := by
  cases p with
  | nil => simp [lookup, lookupG, State.has, candidates]
  | cons c t =>
    have := prefixSearch_spec (vec := s.m c) (p := c :: t) (hi c).1
    unfold lookup lookupG
    unfold prefixSearch at this
    simp only
    rw [this]
    unfold specVec State.has candidates
    by_cases hm : (c :: t) ∈ s.m c
    · simp [hm]
    · simp only [hm, if_false]
      cases (s.m c).filter (pfx (c :: t)) with
      | nil => rfl
      | cons y ys => cases ys <;> rfl

theorem lookup_spec_history (ops : List Op) (p : Name) :
    let s := ops.foldl step State.empty
    lookup s p = if s.has p then .one p
      else match candidates s p with
        | [] => .none
        | [x] => .one x
        | xs => .ambig xs :=
  lookup_spec _ p (table_sorted_inv ops)

/-- What the code did *before* the repair (`exactFirst = false`): the exact-name clause is
    missing — a registered name that is a proper prefix of another one is ambiguous. -/
theorem lookup_prefix_only_spec (s : State) (p : Name) (hi : Inv s) :
    lookupG false s p = match candidates s p with
        | [] => .none
        | [x] => .one x
        | xs => .ambig xs := by
  cases p with
  | nil => simp [lookupG, candidates]
  | cons c t =>
    unfold lookupG candidates
    simp only
    rw [prefixSearchG_noexact_spec (hi c).1]
    cases (s.m c).filter (pfx (c :: t)) with
    | nil => rfl
    | cons y ys => cases ys <;> rfl

/-- witness of defect F15 on the unrepaired lookup: names "env" and "envx" -/
example : let s := (add (add State.empty [101,110,118]).1 [101,110,118,120]).1
    lookupG false s [101,110,118] = .ambig [[101,110,118],[101,110,118,120]] ∧
    lookupG true s [101,110,118] = .one [101,110,118] := by decide

/-! ## Dispatch of a REPL line (`Interp.Cmd`) -/

theorem blankFirstColon_ws (ws rest : List Nat) (h : ∀ b ∈ ws, isSpace b = true) :
    blankFirstColon (ws ++ 58 :: rest) = ws ++ 32 :: rest := by
  induction ws with
  | nil => simp [blankFirstColon]
  | cons b ws ih =>
    have hb : b ≠ 58 := by
      intro e; have := h b (by simp); subst e; simp [isSpace] at this
    simp only [List.cons_append, blankFirstColon, hb, if_false]
    rw [ih (fun c hc => h c (by simp [hc]))]

/-- A line whose first non-blank character is ':' and whose first word matches no command is
    handed back for evaluation as code: the ':' (wherever the leading blanks put it) is
    replaced by one blank, so columns are preserved and no ':' reaches the parser. -/
theorem cmd_dispatch_unknown (s : State) (ws rest tr : List Nat)
    (hws : ∀ b ∈ ws, isSpace b = true)
    (htrim : trimSpace (ws ++ 58 :: rest) = 58 :: tr)
    (hno : lookup s (split2 tr).1 = .none) :
    dispatch s (ws ++ 58 :: rest) = .evalCode (ws ++ 32 :: rest) := by
  unfold dispatch
  rw [htrim]
  simp only
  generalize hsp : split2 tr = sp at *
  obtain ⟨a, b⟩ := sp
  simp only at hno ⊢
  rw [hno]
  simp only
  rw [blankFirstColon_ws ws rest hws]

theorem cmd_dispatch_known (s : State) (src tr : List Nat) (c : Name)
    (htrim : trimSpace src = 58 :: tr)
    (h : lookup s (split2 tr).1 = .one c) :
    dispatch s src = .call c (split2 tr).2 := by
  unfold dispatch
  rw [htrim]
  simp only
  generalize hsp : split2 tr = sp at *
  obtain ⟨a, b⟩ := sp
  simp only at h ⊢
  rw [h]

/-! ## Non-vacuity: a concrete reachable table meets the hypotheses and shows all four outcomes -/

def demo : State := [Op.add [101,110,118], .add [101,110,118,120], .add [104], .del [104], .add [101,120]].foldl step State.empty

example : lookup demo [101,110,118] = .one [101,110,118] := by decide            -- exact name wins
example : lookup demo [101,110] = .ambig [[101,110,118],[101,110,118,120]] := by decide
example : lookup demo [101,120] = .one [101,120] := by decide
example : lookup demo [104] = .none := by decide
example : Inv demo := table_sorted_inv _
-- "\t:zz 1+1" : unknown command after a leading tab
example : dispatch demo [9, 58, 122, 122, 32, 49, 43, 49] = .evalCode [9, 32, 122, 122, 32, 49, 43, 49] := by decide
example : dispatch demo [58, 101, 120, 32, 49] = .call [101, 120] [49] := by decide

end Cmds
