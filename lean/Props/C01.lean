import GoSpec.Val
import Model.Dispatch
import Proofs.Pow2
import Proofs.C01Tables
import Proofs.C01Sound
import Proofs.C01Shift
import Proofs.C01Misc
import Proofs.C01Ident
import Proofs.C01Pow2E2E
/-! # C01 — typed expressions over basic types evaluate exactly as compiled Go

Structure of the argument (see notes/C01.md):

1. `tables_accepted` — kernel-checked: every table of arms regenerated from the Go source of
   binary_ops.go, binary_shifts.go, binary_relops.go, binary_eqlneq.go, unary_ops.go, binary.go
   (`Land`/`Lor`), util.go (`AsUint64`), identifier.go **equals** the table of expected arms
   (`Model/C01Arms.lean`: one template per arm family, instantiated at every kind), and every list
   of non-closure statements (guards, shortcuts, prologues, helper functions) equals the transcription
   the dispatch model was written from (`Model/C01Prologue.lean`).  78 obligations, one per Go function.
2. `binary_table_sound`, `shift_table_sound`, `unary_table_sound`, `exprZero_sound`, `logic_sound`,
   `pow2_arms_eval` — an expected arm, evaluated on ANY operand values / operand panics, computes
   the Go-specification operator `GoSpec.binop`/`unop` of its (operator, kind), including panics
   and evaluation order.  Proved per family, generically in the kind; float/complex arithmetic is
   the parameter `F : FloatOps` (operator selection, operand order, conversions are what is proved).
3. `quoPow2_correct`, `quoPow2_neg_correct`, `remPow2_correct`, `mulPow2_correct`, `quoPow2U_correct`,
   `remPow2U_correct`, `isPowerOfTwo_spec` — the shift/mask rewrites equal Go's `/ % *`, for every width.
4. `shiftCount_correct`, `identity_shortcuts_int`, `ident_read_sound_boxed/unboxed`, `coverage_complete`. -/
namespace C01
open GoSpec GoSpec.Outcome ClosureIR C01Arms

/-! ## 1. the regenerated tables are the expected tables -/

/-- all binary-operator arm tables regenerated from the source are the templates instantiated at
    every kind Go defines the operator on -/
theorem tables_accepted :
    Gen.C01BinaryOps.add = binTable addFn ∧ Gen.C01BinaryOps.sub = binTable subFn ∧
    Gen.C01BinaryOps.mul = binTable mulFn ∧ Gen.C01BinaryOps.quo = binTable quoFn ∧
    Gen.C01BinaryOps.rem = binTable remFn ∧ Gen.C01BinaryOps.and = binTable andFn ∧
    Gen.C01BinaryOps.or = binTable orFn ∧ Gen.C01BinaryOps.xor = binTable xorFn ∧
    Gen.C01BinaryOps.andnot = binTable andnotFn ∧
    Gen.C01BinaryRelops.lss = binTable lssFn ∧ Gen.C01BinaryRelops.gtr = binTable gtrFn ∧
    Gen.C01BinaryRelops.leq = binTable leqFn ∧ Gen.C01BinaryRelops.geq = binTable geqFn ∧
    Gen.C01BinaryEqlneq.eql = binTable eqlFn ∧ Gen.C01BinaryEqlneq.neq = binTable neqFn ∧
    Gen.C01BinaryShifts.shl = shiftTable "Shl" .shl ∧ Gen.C01BinaryShifts.shr = shiftTable "Shr" .shr ∧
    Gen.C01BinaryOps.mulPow2 = mulPow2Table ∧ Gen.C01BinaryOps.quoPow2 = quoPow2Table ∧
    Gen.C01BinaryOps.remPow2 = remPow2Table ∧ Gen.C01BinaryOps.exprZero = exprZeroTable ∧
    Gen.C01UnaryOps.unaryMinus = unaryMinusTable ∧ Gen.C01UnaryOps.unaryXor = unaryXorTable ∧
    Gen.C01UnaryOps.unaryNot = unaryNotTable ∧ Gen.C01UnaryOps.unaryPlus = [] ∧
    Gen.C01Binary.land = landTable ∧ Gen.C01Binary.lor = lorTable ∧ Gen.C01Util.asUint64 = asUint64Table ∧
    Gen.C01Identifier.bind_expr = bindExprTable ∧ Gen.C01Identifier.bind_intExpr = bindIntExprTable ∧
    Gen.C01Identifier.symbol_expr = symbolExprTable ∧ Gen.C01Identifier.symbol_intExpr = symbolIntExprTable :=
  ⟨C01Tables.table_binaryops_add, C01Tables.table_binaryops_sub, C01Tables.table_binaryops_mul, C01Tables.table_binaryops_quo,
   C01Tables.table_binaryops_rem, C01Tables.table_binaryops_and, C01Tables.table_binaryops_or, C01Tables.table_binaryops_xor,
   C01Tables.table_binaryops_andnot, C01Tables.table_binaryrelops_lss, C01Tables.table_binaryrelops_gtr,
   C01Tables.table_binaryrelops_leq, C01Tables.table_binaryrelops_geq, C01Tables.table_binaryeqlneq_eql,
   C01Tables.table_binaryeqlneq_neq, C01Tables.table_binaryshifts_shl, C01Tables.table_binaryshifts_shr,
   C01Tables.table_binaryops_mulPow2, C01Tables.table_binaryops_quoPow2, C01Tables.table_binaryops_remPow2,
   C01Tables.table_binaryops_exprZero, C01Tables.table_unaryops_unaryMinus, C01Tables.table_unaryops_unaryXor,
   C01Tables.table_unaryops_unaryNot, C01Tables.table_unaryops_unaryPlus, C01Tables.table_binary_land, C01Tables.table_binary_lor,
   C01Tables.table_util_asUint64, C01Tables.table_identifier_bind_expr, C01Tables.table_identifier_bind_intExpr,
   C01Tables.table_identifier_symbol_expr, C01Tables.table_identifier_symbol_intExpr⟩

/-- the guards of the shortcuts and the prologues the dispatch model transcribes are the ones in
    the source (three representative ones here; all 42 are in `Proofs/C01Tables.lean`) -/
theorem prologues_accepted :
    Gen.C01BinaryOps.mulPow2Actions = C01Prologue.binaryops_mulPow2Actions ∧
    Gen.C01BinaryOps.quoPow2Actions = C01Prologue.binaryops_quoPow2Actions ∧
    Gen.C01BinaryOps.remPow2Actions = C01Prologue.binaryops_remPow2Actions ∧
    Gen.C01BinaryOps.addActions = C01Prologue.binaryops_addActions ∧
    Gen.C01BinaryOps.isPowerOfTwoSrc = C01Prologue.binaryops_isPowerOfTwoSrc ∧
    Gen.C01BinaryOps.integerLenSrc = C01Prologue.binaryops_integerLenSrc ∧
    Gen.C01Binary.binaryExpr1Actions = C01Prologue.binary_binaryExpr1Actions :=
  ⟨C01Tables.prologue_binaryops_mulPow2Actions, C01Tables.prologue_binaryops_quoPow2Actions,
   C01Tables.prologue_binaryops_remPow2Actions, C01Tables.prologue_binaryops_addActions,
   C01Tables.prologue_binaryops_isPowerOfTwoSrc, C01Tables.prologue_binaryops_integerLenSrc,
   C01Tables.prologue_binary_binaryExpr1Actions⟩

/-! ## 2. an expected arm computes the Go operator -/

/-- **binary_table_sound.**  For each of `Add Sub Mul Quo Rem And Or Xor Andnot Lss Gtr Leq Geq Eql Neq`,
    every kind `k` and every operand shape, the arm evaluated in ANY store that binds the operands
    gives Go's operator applied left-to-right to the operand results — same value, same panic
    (`divide`), stuck exactly when Go rejects the operand kinds.  `rx`, `ry` are the results of the
    operand closures (values of any kind, or panics); `c` is a constant operand of the arm's kind. -/
theorem binary_table_sound (F : FloatOps) (hF : C01Sound.FloatRoundTrip F) (f : BinFn) (hf : f ∈ binFns) (k : Kind)
    (rx ry : Outcome Val) (c : Val) (hc : c.hasKind k = true) (ρ : Store) :
    (lookup ρ "xe.Fun" = some (.closure k rx) → lookup ρ "ye.Fun" = some (.closure k ry) →
      evalArm F ρ (binArm f .vv k) = C01Sound.seq2 rx ry (binop F f.op)) ∧
    (lookup ρ "xe.Fun" = some (.closure k rx) → lookup ρ "ye.Value" = some (.iface c) →
      evalArm F ρ (binArm f .vc k) = C01Sound.seq2 rx (.ok c) (binop F f.op)) ∧
    (lookup ρ "xe.Value" = some (.iface c) → lookup ρ "ye.Fun" = some (.closure k ry) →
      evalArm F ρ (binArm f .cv k) = C01Sound.seq2 (.ok c) ry (binop F f.op)) :=
  ⟨fun hx hy => C01Sound.bin_vv_sound F f hf k rx ry ρ hx hy,
   fun hx hy => C01Sound.bin_vc_sound F hF f hf k rx c ρ hc hx hy,
   fun hx hy => C01Sound.bin_cv_sound F hF f hf k ry c ρ hc hx hy⟩

/-- the static result type of every binary arm is Go's: `bool` for comparisons, the operand type otherwise -/
theorem binary_result_type (f : BinFn) (sh : Shape) (k : Kind) :
    (binArm f sh k).ret = .kind (if f.op.isComparison then .bool else k) := by
  simp [binArm, BinOp.resultKind]

/-- **shiftCount_correct.**  The count closure built by `Expr.AsUint64` for a count of any integer
    kind `ic` (width ≤ 64): panics with `negShift` iff the count's type is signed and the value is
    negative, otherwise it is the count's value — exactly `GoSpec.I.shiftCount`; and each per-kind arm
    of `AsUint64` computes that closure. -/
theorem shiftCount_correct (F : FloatOps) (kc : Kind) (ic : IKind) (hk : kc.ikind? = some ic) (hw : ic.w ≤ 64) (c : BitVec ic.w) (ρ : Store)
    (hf : lookup ρ "e.Fun" = some (.closure kc (.ok (.int ic c))))
    (herr : lookup ρ "negativeShiftAmount" = some .negShiftErr) :
    C01Shift.countOutcome (.ok (.int ic c)) =
      some ((I.shiftCount ic.signed c).map (fun n => Val.int ⟨64, false⟩ (BitVec.ofNat 64 n))) ∧
    (ic.signed = true → evalArm F ρ (asUint64Signed kc).arm = C01Shift.countOutcome (.ok (.int ic c))) ∧
    (ic.signed = false → evalArm F ρ (asUint64Unsigned kc).arm = C01Shift.countOutcome (.ok (.int ic c))) :=
  ⟨C01Shift.shiftCount_correct ic hw c,
   fun hs => C01Shift.asUint64_signed_sound F kc ic hk hs _ (fun v h => ⟨c, by cases h; rfl⟩) ρ hf herr,
   fun hs => C01Shift.asUint64_unsigned_sound F kc ic hk hs _ (fun v h => ⟨c, by cases h; rfl⟩) ρ hf⟩

/-- **shift_table_sound.**  `x << y`, `x >> y` for `x` of integer kind `ik`, count of any integer kind
    `ic`: the `Shl`/`Shr` arm composed with the `AsUint64` count closure is Go's shift, including the
    negative-count panic and counts ≥ the width. -/
theorem shift_table_sound (F : FloatOps) (op : BinOp) (hop : op = .shl ∨ op = .shr) (k : Kind) (ik ic : IKind)
    (hk : k.ikind? = some ik) (hw : ic.w ≤ 64)
    (rx ry : Outcome Val) (htx : ∀ v, rx = .ok v → ∃ x, v = .int ik x) (hty : ∀ v, ry = .ok v → ∃ c, v = .int ic c)
    (rc : Outcome Val) (hrc : C01Shift.countOutcome ry = some rc) (ρ : Store)
    (hx : lookup ρ "xe.Fun" = some (.closure k rx)) (hy : lookup ρ "ye.AsUint64()" = some (.closure .uint64 rc)) :
    evalArm F ρ (shiftArm op .vv k) = C01Sound.seq2 rx ry (binop F op) :=
  C01Shift.shift_vv_sound F op hop k ik hk ic hw rx ry htx hty rc hrc ρ hx hy

/-- shift by a constant count / of a constant left operand -/
theorem shift_const_sound (F : FloatOps) (hF : C01Sound.FloatRoundTrip F) (op : BinOp) (hop : op = .shl ∨ op = .shr)
    (k : Kind) (ik : IKind) (hk : k.ikind? = some ik) (ic : IKind) (hw : ic.w ≤ 64) (ρ : Store) :
    (∀ (rx : Outcome Val) (c : BitVec ic.w), (ic.signed && c.msb) = false → (∀ v, rx = .ok v → ∃ x, v = .int ik x) →
      lookup ρ "xe.Fun" = some (.closure k rx) → lookup ρ "ye.Value" = some (.iface (.int ic c)) →
      evalArm F ρ (shiftArm op .vc k) = C01Sound.seq2 rx (.ok (.int ic c)) (binop F op)) ∧
    (∀ (x : BitVec ik.w) (ry rc : Outcome Val), (∀ v, ry = .ok v → ∃ c, v = .int ic c) → C01Shift.countOutcome ry = some rc →
      lookup ρ "xe.Value" = some (.iface (.int ik x)) → lookup ρ "ye.AsUint64()" = some (.closure .uint64 rc) →
      evalArm F ρ (shiftArm op .cv k) = C01Sound.seq2 (.ok (.int ik x)) ry (binop F op)) :=
  ⟨fun rx c hc htx hx hy => C01Shift.shift_vc_sound F op hop k ik ic hw rx c hc htx ρ hx hy,
   fun x ry rc hty hrc hx hy => C01Shift.shift_cv_sound F hF op hop k ik hk ic hw x ry hty rc hrc ρ hx hy⟩

/-- **unary_table_sound.**  `-x`, `^x`, `!x` -/
theorem unary_table_sound (F : FloatOps) (fn : String) (op : UnOp) (k : Kind) (rx : Outcome Val) (ρ : Store)
    (hx : lookup ρ "xe.Fun" = some (.closure k rx)) :
    evalArm F ρ (unEntry fn op k).arm = C01Misc.unopR rx (unop F op) :=
  C01Misc.unary_sound F fn op k rx ρ hx

/-- `exprZero` (the annihilator shortcuts `x*0`, `x&0`, `x%1`, `x&^-1`): the operand is still evaluated
    (its panic propagates), the result is the zero value of the kind -/
theorem exprZero_sound (F : FloatOps) (k : Kind) (rx : Outcome Val) (ρ : Store)
    (hx : lookup ρ "xe.Fun" = some (.closure k rx)) :
    evalArm F ρ (exprZeroEntry k).arm = C01Misc.unopR rx (fun _ => some (.ok (Val.zero k))) :=
  C01Misc.exprZero_sound F k rx ρ hx

/-- `&&`, `||`: short-circuit evaluation (the right operand's panic is not raised when it is not needed) -/
theorem logic_sound (F : FloatOps) (rx ry : Outcome Val) (ρ : Store) (vx vy : V)
    (hx : lookup ρ "x.TryAsPred()" = some (.pair vx (.closure .bool rx)))
    (hy : lookup ρ "y.TryAsPred()" = some (.pair vy (.closure .bool ry))) :
    evalArm F ρ (landTable.getD 1 default).arm = C01Misc.logicSpec true rx ry ∧
    evalArm F ρ (lorTable.getD 1 default).arm = C01Misc.logicSpec false rx ry :=
  C01Misc.land_sound F rx ry ρ vx vy hx hy

/-! ## 3. power-of-two rewrites -/

/-- the IR of the `quoPow2`/`remPow2`/`mulPow2` arms computes exactly the `Pow2` functions, with
    `y_1 = T(y-1)` and `shift = integerLen(y)-1` taken from their defining expressions -/
theorem pow2_arms_eval (F : FloatOps) (k : Kind) (ik : IKind) (hk : k.ikind? = some ik) (x : BitVec ik.w)
    (y : BitVec 64) (L : BitVec 8) (ρ : Store) (h : C01Misc.pow2Ctx ρ k (.ok (.int ik x)) y L) :
    (ik.signed = true → ∀ neg : Bool, evalArm F ρ ((quoPow2Signed k).getD (if neg then 1 else 0) default).arm =
      some (.ok (.int ik (Pow2.quoPow2 x ((y - 1#64).setWidth ik.w) (L - 1).toNat (!neg))))) ∧
    (ik.signed = false → evalArm F ρ (quoPow2Unsigned k).arm = some (.ok (.int ik (Pow2.quoPow2U x (L - 1).toNat)))) ∧
    (ik.signed = true → evalArm F ρ (remPow2Signed k).arm = some (.ok (.int ik (Pow2.remPow2 x ((y - 1#64).setWidth ik.w))))) ∧
    (ik.signed = false → evalArm F ρ (remPow2Unsigned k).arm = some (.ok (.int ik (Pow2.remPow2U x ((y - 1#64).setWidth ik.w))))) ∧
    (∀ sub, evalArm F ρ (mulPow2Default k sub).arm = some (.ok (.int ik (Pow2.mulPow2 x (L - 1).toNat true)))) ∧
    evalArm F ρ (mulPow2Neg k).arm = some (.ok (.int ik (Pow2.mulPow2 x (L - 1).toNat false))) :=
  ⟨fun hs neg => C01Misc.quoPow2_eval F k ik hk hs x y L ρ h neg,
   fun hs => C01Misc.quoPow2U_eval F k ik hs x y L ρ h,
   fun hs => C01Misc.remPow2_eval F k ik hk hs x y ρ h.1 h.2.1,
   fun hs => C01Misc.remPow2U_eval F k ik hk hs x y ρ h.1 h.2.1,
   fun sub => (C01Misc.mulPow2_default_eval F k ik sub x y L ρ h).1,
   (C01Misc.mulPow2_default_eval F k ik [] x y L ρ h).2⟩

/-- the prologue of mulPow2/quoPow2/remPow2 (hand model `Dispatch.pow2Prologue`, transcribing `sy := yv.Int();
    if sy < 0 { ypositive = false; y = uint64(-sy) } else { y = uint64(sy) }` / `y = yv.Uint()`): when the guard
    `isPowerOfTwo(y)` holds, the constant is `±2^j` with `j < w` (positive: `j ≤ w-2`), `shift = j`, and the mask
    `T(y-1)` is `2^j - 1` at the operand width — also for the constant `MinInt` where `uint64(-sy)` wraps -/
theorem pow2Prologue_spec (ik : IKind) (hw0 : 0 < ik.w) (hw : ik.w ≤ 64) (c : BitVec ik.w) (p : Dispatch.Pow2Info)
    (hp : Dispatch.pow2Prologue (.int ik c) = some p) (hpow : Pow2.isPowerOfTwo p.y = true) :
    ∃ j, j < ik.w ∧ p.y = BitVec.twoPow 64 j ∧ Pow2.integerLen p.y = j + 1 ∧
      (p.y - 1#64).setWidth ik.w = BitVec.twoPow ik.w j - 1#ik.w ∧
      (if ik.signed then (if p.ypositive then c = BitVec.twoPow ik.w j ∧ j + 1 < ik.w else c = -(BitVec.twoPow ik.w j))
       else (p.ypositive = true ∧ c = BitVec.twoPow ik.w j)) :=
  C01Pow2.pow2Prologue_spec ik hw0 hw c p hp hpow

/-- **pow2_const_sound (end to end).**  For a constant `c` of an integer kind that passes the guard, the
    arm selected by the prologue, run with the prologue's captured variables, computes Go's `x / c`,
    `x % c`, `x * c` for every `x` (signed: truncated division / remainder with the dividend's sign,
    incl. `MinInt` as dividend or divisor; unsigned: `udiv`/`umod`). -/
theorem pow2_const_sound (F : FloatOps) (k : Kind) (ik : IKind) (hk : k.ikind? = some ik) (hw0 : 0 < ik.w) (hw : ik.w ≤ 64)
    (c x : BitVec ik.w) (p : Dispatch.Pow2Info) (hp : Dispatch.pow2Prologue (.int ik c) = some p)
    (hpow : Pow2.isPowerOfTwo p.y = true) (ρ : Store)
    (h : C01Misc.pow2Ctx ρ k (.ok (.int ik x)) p.y (BitVec.ofNat 8 (Pow2.integerLen p.y))) :
    (ik.signed = true →
      evalArm F ρ ((quoPow2Signed k).getD (if p.ypositive then 0 else 1) default).arm = some (.ok (.int ik (x.sdiv c))) ∧
      evalArm F ρ (remPow2Signed k).arm = some (.ok (.int ik (x.srem c))) ∧
      (p.ypositive = true → ∀ sub, evalArm F ρ (mulPow2Default k sub).arm = some (.ok (.int ik (x * c)))) ∧
      (p.ypositive = false → evalArm F ρ (mulPow2Neg k).arm = some (.ok (.int ik (x * c))))) ∧
    (ik.signed = false →
      evalArm F ρ (quoPow2Unsigned k).arm = some (.ok (.int ik (x / c))) ∧
      evalArm F ρ (remPow2Unsigned k).arm = some (.ok (.int ik (x % c))) ∧
      (∀ sub, evalArm F ρ (mulPow2Default k sub).arm = some (.ok (.int ik (x * c))))) :=
  C01Pow2.pow2_const_sound F k ik hk hw0 hw c x p hp hpow ρ h

/-- **quoPow2_correct**: `x / 2^k` as add-`2^k-1`-if-negative then arithmetic shift, every width, every `x` -/
theorem quoPow2_correct {w : Nat} (x : BitVec w) (k : Nat) (hk : k + 1 < w) :
    Pow2.quoPow2 x (BitVec.twoPow w k - 1#w) k true = x.sdiv (BitVec.twoPow w k) :=
  Pow2.quoPow2_correct x k hk

/-- **quoPow2_neg_correct**: divisor `-(2^k)` for every `k < w`, including the divisor `MinInt` -/
theorem quoPow2_neg_correct {w : Nat} (x : BitVec w) (k : Nat) (hk : k < w) :
    Pow2.quoPow2 x (BitVec.twoPow w k - 1#w) k false = x.sdiv (-(BitVec.twoPow w k)) :=
  Pow2.quoPow2_neg_correct x k hk

/-- **remPow2_correct**: mask / negate-mask-negate equals `%` for divisors `±2^k`, including `MinInt` operands -/
theorem remPow2_correct {w : Nat} (x : BitVec w) (k : Nat) (hk : k < w) :
    Pow2.remPow2 x (BitVec.twoPow w k - 1#w) = x.srem (BitVec.twoPow w k) ∧
    Pow2.remPow2 x (BitVec.twoPow w k - 1#w) = x.srem (-(BitVec.twoPow w k)) :=
  Pow2.remPow2_correct x k hk

/-- **mulPow2_correct** -/
theorem mulPow2_correct {w : Nat} (x : BitVec w) (k : Nat) :
    Pow2.mulPow2 x k true = x * BitVec.twoPow w k ∧ Pow2.mulPow2 x k false = x * -(BitVec.twoPow w k) :=
  Pow2.mulPow2_correct x k

/-- unsigned variants: `x >> k = x / 2^k`, `x & (2^k-1) = x % 2^k` -/
theorem pow2_unsigned_correct {w : Nat} (x : BitVec w) (k : Nat) (hk : k < w) :
    Pow2.quoPow2U x k = x / BitVec.twoPow w k ∧ Pow2.remPow2U x (BitVec.twoPow w k - 1#w) = x % BitVec.twoPow w k :=
  ⟨Pow2.quoPow2U_correct x k hk, Pow2.remPow2U_correct x k hk⟩

/-- **integerLen_spec**: the guard `isPowerOfTwo(y)` implies `y = 2^k` with `k = integerLen(y) - 1 < 64` -/
theorem integerLen_spec (n : BitVec 64) (h : Pow2.isPowerOfTwo n = true) :
    ∃ k, k < 64 ∧ n = BitVec.twoPow 64 k ∧ Pow2.integerLen n = k + 1 :=
  Pow2.isPowerOfTwo_spec n h

/-! ## 4. shortcuts, variable reads, coverage -/

/-- **identity_shortcuts_int**: every identity/annihilator shortcut taken by `Add .. Andnot`, `Shl`, `Shr`,
    `mulPow2`, `quoPow2`, `remPow2` is exact for every integer kind (any width, any signedness) -/
theorem identity_shortcuts_int (k : IKind) (x : BitVec k.w) :
    intBin .add k x 0 = some (ok (.int k x)) ∧ intBin .add k 0 x = some (ok (.int k x)) ∧
    intBin .sub k x 0 = some (ok (.int k x)) ∧
    intBin .mul k x 0 = some (ok (.int k 0)) ∧ intBin .mul k 0 x = some (ok (.int k 0)) ∧
    intBin .mul k x 1 = some (ok (.int k x)) ∧ intBin .mul k 1 x = some (ok (.int k x)) ∧
    intBin .mul k x (-1) = some (ok (.int k (I.neg x))) ∧ intBin .mul k (-1) x = some (ok (.int k (I.neg x))) ∧
    intBin .and k x 0 = some (ok (.int k 0)) ∧ intBin .and k 0 x = some (ok (.int k 0)) ∧
    intBin .and k x (-1) = some (ok (.int k x)) ∧ intBin .and k (-1) x = some (ok (.int k x)) ∧
    intBin .or k x 0 = some (ok (.int k x)) ∧ intBin .or k 0 x = some (ok (.int k x)) ∧
    intBin .xor k x 0 = some (ok (.int k x)) ∧ intBin .xor k 0 x = some (ok (.int k x)) ∧
    intBin .andNot k x 0 = some (ok (.int k x)) ∧ intBin .andNot k x (-1) = some (ok (.int k 0)) ∧
    intBin .andNot k 0 x = some (ok (.int k 0)) ∧
    I.shl x 0 = x ∧ I.shr k.signed x 0 = x := by
  simp [intBin, I.add, I.sub, I.mul, I.and, I.or, I.xor, I.andNot, I.neg, I.shl_eq, I.shr_eq,
    BitVec.neg_one_eq_allOnes]
  rw [← BitVec.neg_one_eq_allOnes]
  constructor
  · rw [BitVec.mul_neg, BitVec.mul_one]
  · rw [BitVec.neg_mul, BitVec.one_mul]

/-- `x / 1 = x`, `x % 1 = 0` for every integer kind; `x / -1 = -x` for signed kinds (including
    `MinInt / -1 = MinInt`).  For an UNSIGNED kind the constant that `isLiteralNumber(y, -1)` also
    matches is `MaxUint64`, and `x / MaxUint64 ≠ -x` (finding `QUO-uint-vc-*-cmax`): there is
    deliberately no such lemma. -/
theorem quo_rem_shortcuts_int (k : IKind) (hw : 0 < k.w) (x : BitVec k.w) :
    I.quo k.signed x 1#k.w = ok x ∧ I.rem k.signed x 1#k.w = ok 0#k.w ∧ I.quo true x (-1#k.w) = ok (I.neg x) := by
  have h1 : (1#k.w) ≠ 0#k.w := by
    intro h
    have := congrArg BitVec.toNat h
    simp at this
    omega
  have hm1 : (-1#k.w) ≠ 0#k.w := by
    intro h
    have h2 : (1#k.w) = 0#k.w := by
      have := congrArg (fun z => -z) h
      simpa using this
    exact h1 h2
  refine ⟨?_, ?_, ?_⟩
  · unfold I.quo
    rw [if_neg h1]
    cases k.signed <;> simp [BitVec.sdiv_one]
  · unfold I.rem
    rw [if_neg h1]
    cases k.signed <;> simp [BitVec.srem_one, BitVec.umod_one]
  · unfold I.quo I.neg
    rw [if_neg hm1]
    simp only [if_true]
    congr 1
    apply BitVec.toInt_inj.mp
    have hneg1 : (-1#k.w).toInt = -1 := by
      rw [BitVec.neg_one_eq_allOnes, BitVec.toInt_allOnes]; simp [hw]
    rw [BitVec.toInt_sdiv, hneg1, BitVec.toInt_neg, Int.tdiv_neg, Int.tdiv_one]

/-- strings: `x + "" = x = "" + x` -/
theorem identity_shortcut_string (F : FloatOps) (s : List UInt8) :
    binop F .add (.str s) (.str []) = some (ok (.str s)) ∧ binop F .add (.str []) (.str s) = some (ok (.str s)) := by
  simp [binop]

/-- **ident_read_sound (boxed).**  Every arm of `Bind.expr`/`Symbol.expr` returns the value stored in
    box `idx` of exactly the frame named by its path (`upn` = 0, 1, 2, `FileEnv`, `FileEnv.Outer`,
    `env.Up(upn)`), at the kind of the arm. -/
theorem ident_read_sound_boxed (F : FloatOps) (hF : C01Sound.FloatRoundTrip F) (obj : String) (hobj : obj = "bind" ∨ obj = "sym")
    (h : Hops) (k : Kind) (upn idx : Nat) (cur file : List Frame) (fr : Frame) (v : Val) (hv : v.hasKind k = true)
    (hfr : C01Ident.hopsFrame h upn cur file = some fr) (hval : fr.vals[idx]? = some v) (ρ : Store)
    (henv : lookup ρ "env" = some (.env cur file))
    (hidx : lookup ρ (obj ++ ".Desc.Index()") = some (.nat idx))
    (hupn : lookup ρ (obj ++ ".Upn") = some (.nat upn)) :
    evalArm F ρ (valsRead obj h k) = some (.ok v) :=
  C01Ident.vals_read_sound F hF obj hobj h k upn idx cur file fr v hv hfr hval ρ henv hidx hupn

/-- **ident_read_sound (unboxed).**  Every arm of `Bind.intExpr`/`Symbol.intExpr` reinterprets slot
    `idx` of `Ints` of exactly the frame named by its path at the kind of the arm (little endian
    truncation; `complex128` takes two slots; `uint64` the slot itself).
    On the unrepaired source the `uint64` arm for `upn ≥ 3` reads `env.Up(upn).Outer.Outer`: then the
    regenerated table differs from `symbolIntExprTable` and obligation `table_identifier_symbol_intExpr` breaks. -/
theorem ident_read_sound_unboxed (F : FloatOps) (obj : String) (hobj : obj = "bind" ∨ obj = "sym")
    (h : Hops) (htop : h ≠ .top) (k : Kind) (hk : k ∈ intsKinds) (upn idx : Nat) (cur file : List Frame) (fr : Frame)
    (hfr : C01Ident.hopsFrame h upn cur file = some fr) (ρ : Store)
    (henv : lookup ρ "env" = some (.env cur file))
    (hidx : lookup ρ (obj ++ ".Desc.Index()") = some (.nat idx))
    (hupn : lookup ρ (obj ++ ".Upn") = some (.nat upn)) :
    evalArm F ρ (intsRead obj h k) = (readSlot k fr.ints idx).map Outcome.ok :=
  C01Ident.ints_read_sound F obj hobj h htop k hk upn idx cur file fr hfr ρ henv hidx hupn

/-- an integer read back from a slot is the stored value whatever the bytes above it hold -/
theorem readSlot_int (ik : IKind) (k : Kind) (hk : k.ikind? = some ik) (hw : ik.w ≤ 64) (v : BitVec ik.w) (junk : BitVec 64)
    (pre post : List (BitVec 64)) :
    readSlot k (pre ++ ((junk <<< ik.w) ||| v.setWidth 64) :: post) pre.length = some (.int ik v) := by
  have hget : (pre ++ ((junk <<< ik.w) ||| v.setWidth 64) :: post)[pre.length]? = some ((junk <<< ik.w) ||| v.setWidth 64) := by
    simp
  have hv : ((junk <<< ik.w) ||| v.setWidth 64).setWidth ik.w = v := by
    ext i hi
    simp [BitVec.getElem_setWidth, BitVec.getLsbD_or, BitVec.getLsbD_shiftLeft, hi]
    intro _
    omega
  unfold readSlot
  rw [hget]
  cases k <;> simp [Kind.ikind?] at hk <;> subst hk <;> simp [Kind.ikind?, hv]

/-- **coverage_complete.**  For every binary operator the kinds that have a specialised arm (in
    each of the three operand shapes) are exactly the kinds on which Go defines the operator — except
    `!=` on `bool`, which has no arm and is served by the generic `eqlneqMisc` comparison.
    Every other kind reaches `invalidBinaryExpr` (`default:` of the kind switch, checked in `prologues_accepted`). -/
theorem coverage_complete :
    (∀ f ∈ binFns, ∀ k : Kind, (k ∈ f.kinds ↔ (f.op.definedOn k = true ∧ ¬ (f.op = .neq ∧ k = .bool)))) ∧
    (∀ k : Kind, k ∈ intKinds ↔ BinOp.shl.definedOn k = true) ∧
    (∀ k : Kind, (k ∈ numKinds ↔ UnOp.neg.definedOn k = true) ∧ (k ∈ intKinds ↔ UnOp.xor.definedOn k = true)) := by
  refine ⟨?_, ?_, ?_⟩
  · intro f hf k
    simp only [binFns, List.mem_cons, List.mem_nil_iff, or_false] at hf
    rcases hf with rfl | rfl | rfl | rfl | rfl | rfl | rfl | rfl | rfl | rfl | rfl | rfl | rfl | rfl | rfl <;>
      cases k <;> decide
  · intro k; cases k <;> decide
  · intro k; cases k <;> decide

/-! ## non-vacuity: concrete stores, operands and arms satisfying the hypotheses above -/

/-- the `Quo` arm for `int8` operands raises Go's divide panic on `x / 0`, and wraps `MinInt8 / -1` -/
example (F : FloatOps) :
    evalArm F [("xe.Fun", .closure .int8 (.ok (.int ⟨8, true⟩ 0x80#8))), ("ye.Fun", .closure .int8 (.ok (.int ⟨8, true⟩ 0xFF#8)))]
      (binArm quoFn .vv .int8) = some (.ok (.int ⟨8, true⟩ 0x80#8)) ∧
    evalArm F [("xe.Fun", .closure .int8 (.ok (.int ⟨8, true⟩ 5#8))), ("ye.Fun", .closure .int8 (.ok (.int ⟨8, true⟩ 0#8)))]
      (binArm quoFn .vv .int8) = some (.panic .divide) := by
  constructor
  · rw [C01Sound.bin_vv_sound F quoFn (by simp [binFns]) .int8 _ _ _ rfl rfl]
    simp [C01Sound.seq2, quoFn, binop, BinOp.isShift, intBin, I.quo, Outcome.map]
  · rw [C01Sound.bin_vv_sound F quoFn (by simp [binFns]) .int8 _ _ _ rfl rfl]
    simp [C01Sound.seq2, quoFn, binop, BinOp.isShift, intBin, I.quo, Outcome.map]

/-- `-7 / 4 = -1`, `-7 / -4 = 1`, `-7 % 4 = -3`, `-128 / -128 = 1`, `-128 % 64 = 0` through the rewrites -/
example : Pow2.quoPow2 (0xF9#8) (BitVec.twoPow 8 2 - 1#8) 2 true = 0xFF#8 ∧
    Pow2.quoPow2 (0xF9#8) (BitVec.twoPow 8 2 - 1#8) 2 false = 1#8 ∧
    Pow2.remPow2 (0xF9#8) (BitVec.twoPow 8 2 - 1#8) = 0xFD#8 ∧
    Pow2.quoPow2 (0x80#8) (BitVec.twoPow 8 7 - 1#8) 7 false = 1#8 ∧
    Pow2.remPow2 (0x80#8) (BitVec.twoPow 8 6 - 1#8) = 0#8 := by decide

example : Pow2.isPowerOfTwo 0x8000000000000000#64 = true ∧ Pow2.integerLen 0x8000000000000000#64 = 64 ∧
    Pow2.isPowerOfTwo 6#64 = false := by decide

/-- a negative `int8` count panics, `uint8` 200 does not -/
example : I.shiftCount true (0xFF#8) = .panic .negShift ∧ I.shiftCount false (200#8) = .ok 200 := by decide

/-- reading an int16 at `upn = 2` from a three-frame environment picks frame 2, not frames 0/1 -/
example : C01Ident.hopsFrame .h2 2 [⟨[1#64], []⟩, ⟨[2#64], []⟩, ⟨[0xAAAA1234#64], []⟩] [] = some ⟨[0xAAAA1234#64], []⟩ ∧
    readSlot .int16 [0xAAAA1234#64] 0 = some (.int ⟨16, true⟩ 0x1234#16) := ⟨rfl, rfl⟩

end C01
