import GoSpec.Val
import Proofs.Pow2
import Proofs.C01Tables
/-! # C01 — typed expressions over basic types evaluate exactly as compiled Go (property theorems) -/
namespace C01
open GoSpec GoSpec.Outcome

/-! ## identity / annihilator shortcuts taken by `Comp.Add .. Comp.Andnot, Shl, Shr, mulPow2, quoPow2,
    remPow2` are exact for every integer kind (any width, any signedness) -/

theorem identity_shortcuts_int (k : IKind) (x : BitVec k.w) :
    -- x + 0, 0 + x, x - 0
    intBin .add k x 0 = some (ok (.int k x)) ∧ intBin .add k 0 x = some (ok (.int k x)) ∧
    intBin .sub k x 0 = some (ok (.int k x)) ∧
    -- x * 0, 0 * x, x * 1, 1 * x, x * -1, -1 * x
    intBin .mul k x 0 = some (ok (.int k 0)) ∧ intBin .mul k 0 x = some (ok (.int k 0)) ∧
    intBin .mul k x 1 = some (ok (.int k x)) ∧ intBin .mul k 1 x = some (ok (.int k x)) ∧
    intBin .mul k x (-1) = some (ok (.int k (I.neg x))) ∧ intBin .mul k (-1) x = some (ok (.int k (I.neg x))) ∧
    -- x & 0, 0 & x, x & -1, -1 & x
    intBin .and k x 0 = some (ok (.int k 0)) ∧ intBin .and k 0 x = some (ok (.int k 0)) ∧
    intBin .and k x (-1) = some (ok (.int k x)) ∧ intBin .and k (-1) x = some (ok (.int k x)) ∧
    -- x | 0, 0 | x, x ^ 0, 0 ^ x, x &^ 0, x &^ -1, 0 &^ x
    intBin .or k x 0 = some (ok (.int k x)) ∧ intBin .or k 0 x = some (ok (.int k x)) ∧
    intBin .xor k x 0 = some (ok (.int k x)) ∧ intBin .xor k 0 x = some (ok (.int k x)) ∧
    intBin .andNot k x 0 = some (ok (.int k x)) ∧ intBin .andNot k x (-1) = some (ok (.int k 0)) ∧
    intBin .andNot k 0 x = some (ok (.int k 0)) ∧
    -- x << 0, x >> 0
    I.shl x 0 = x ∧ I.shr k.signed x 0 = x := by
  simp [intBin, I.add, I.sub, I.mul, I.and, I.or, I.xor, I.andNot, I.neg, I.shl_eq, I.shr_eq,
    BitVec.neg_one_eq_allOnes]
  rw [← BitVec.neg_one_eq_allOnes]
  constructor
  · rw [BitVec.mul_neg, BitVec.mul_one]
  · rw [BitVec.neg_mul, BitVec.one_mul]

end C01
