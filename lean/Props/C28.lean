import Model.TypeId
import Model.TypeMap
namespace TypeId
theorem placeholder : identB .nil .nil = true := by simp [identB, identR]
end TypeId
