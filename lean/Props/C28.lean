import Proofs.TypeId
import Proofs.TypeIdSymm
import Proofs.TypeIdTrans
import Proofs.TypeIdTotal
import Proofs.TypeIdHash
import Proofs.TypeIdTags
import Proofs.TypeMapSpec

/-! # C28 — type identity is a total equivalence consistent with type hashing and type maps

`TypeId.identR c` transcribes `typeutil.identical(x, y, cmpTags, p)` (result `panic` = index out of
range), `TypeId.hash nh` transcribes `Hasher.hashFor`, `TypeMap.set/get/delete/len/iterate`
transcribe `typeutil.Map` (go/typeutil/predicates.go, map.go, after the repairs
fixes/C28-numembeddeds.diff and fixes/C28-delete-identical.diff).  All statements quantify over
every type tree / every history. -/

namespace TypeId

/-- `identical` never fails: every `y.Field(i)`, `y.At(i)`, `y.Method(i)`, `y.Embedded(i)` is guarded by
    an equality of the corresponding lengths (and then the result is the boolean `ident`). -/
theorem identical_total (c : Bool) (x y : Ty) : identR c x y ≠ .panic ∧ ∃ b, identR c x y = .ok b := by
  rw [identR_eq]; exact ⟨by simp, _, rfl⟩

theorem identical_refl (c : Bool) (x : Ty) : identR c x x = .ok true := by
  rw [identR_eq, ident_refl]

theorem identical_symm (c : Bool) (x y : Ty) : identR c x y = identR c y x := by
  rw [identR_eq, identR_eq, ident_symm]

theorem identical_trans (c : Bool) (x y z : Ty) (h1 : identR c x y = .ok true) (h2 : identR c y z = .ok true) :
    identR c x z = .ok true := by
  rw [identR_eq] at *
  simp only [Res.ok.injEq] at *
  exact ident_trans c x y z h1 h2

/-- `Identical(x, y) ⇒ Hash(x) == Hash(y)`, for completed interfaces (`WF`), whatever the addresses
    of the type names (`nh`).  The hash is coarser than identity: it ignores packages, receivers of
    interface methods and reads the explicit methods where identity reads the complete method set. -/
theorem identical_hash (env : Nat → List String) (nh : Nat → UInt32) (x y : Ty) (wx : WF env x) (wy : WF env y)
    (h : Identical x y = .ok true) : hash nh x = hash nh y := by
  unfold Identical at h
  rw [identR_eq] at h
  simp only [Res.ok.injEq] at h
  exact hash_eq env nh x y wx wy h

/-- the relation that compares struct tags is the finer one -/
theorem identical_ignoreTags (x y : Ty) (h : Identical x y = .ok true) : IdenticalIgnoreTags x y = .ok true := by
  unfold Identical at h
  unfold IdenticalIgnoreTags
  rw [identR_eq] at *
  simp only [Res.ok.injEq] at *
  exact ident_tags x y h

theorem identB_eq (x y : Ty) : identB x y = ident true x y := by
  unfold identB; rw [identR_eq]; cases ident true x y <;> rfl

/-! non-vacuity: distinct trees that are identical; an interface with an embedded interface -/
def exK : Method := .mk "K" (some "p") false .self [.basic 2] []
def exK' : Method := .mk "K" (some "q") false .self [.basic 2] []
def exU5 : Ty := .iface [.mk "M" (some "p") false .self [] []] [.mk "M" (some "p") false .self [] []] []
def exM : Method := .mk "M" (some "p") false (.ty exU5) [] []
/-- `interface{ K(int); N5 }` with `N5 = interface{ M() }`, methods in package p resp. q -/
def exI1 : Ty := .iface [exK, exM] [exK] [5]
def exI2 : Ty := .iface [exK', exM] [exK'] [5]
def exI3 : Ty := .iface [exK, exM] [exK] [5]
def exEnv : Nat → List String := fun i => if i = 5 then ["M"] else []

example : WF exEnv exI1 ∧ WF exEnv exI2 := by
  constructor <;>
  simp [exI1, exI2, exK, exK', exM, exEnv, WF, WFMs, WFL, inheritedIds, Method.id, Method.name, Method.pkg, objId, isExported]
example : identR true exI1 exI2 = .ok true ∧ identR true exI2 exI3 = .ok true := by
  constructor <;> (rw [identR_eq]; simp [exI1, exI2, exI3, exK, exK', exM, exU5, ident, identMs, identRv, identL, sameName, isExported])
example : identR true (.struct [.mk "a" (some "p") false "" (.basic 2)]) (.struct [.mk "a" (some "q") false "" (.basic 2)]) = .ok false := by
  rw [identR_eq]; simp [ident, identFs, sameName, isExported]

/-- DESIGN F7: what the second interface loop does without a guard on the corresponding lengths
    (before the repair the guard compared `x.NumEmbeddeds()` with itself): `interface{N4}` against
    `interface{}` panics — `identical_total` is the statement that the repaired guards exclude this. -/
theorem embLoop_unguarded_panics : (identMethods true [] []).andThen (fun _ => embLoop [4] []) = .panic := by
  simp [identMethods, embLoop, Res.andThen]

end TypeId

namespace TypeMap
open TypeId

/-- the key operations of the interpreter's type map -/
def tyOps (nh : Nat → UInt32) : Ops Ty := ⟨identB, hash nh⟩

theorem ty_equiv (env : Nat → List String) (nh : Nat → UInt32) : Equiv (tyOps nh) (WF env) where
  refl a _ := by simp [tyOps, identB_eq, ident_refl]
  symm a b _ _ h := by simp only [tyOps, identB_eq] at *; rw [ident_symm]; exact h
  trans a b c _ _ _ h1 h2 := by simp only [tyOps, identB_eq] at *; exact ident_trans true a b c h1 h2
  hash a b wa wb h := by simp only [tyOps, identB_eq] at *; exact hash_eq env nh a b wa wb h

/-- Every history of Set/At/Delete/Len on the hash map returns exactly what the same history returns
    on a plain association list scanned linearly with `Identical`, and ends in a state that satisfies
    the bucket invariant (every entry in the bucket of its hash, no two identical entries, one bucket
    per hash, `length` = number of entries) and agrees with the list on every key. -/
theorem map_refines_alist (env : Nat → List String) (nh : Nat → UInt32) (ops : List (Op Ty))
    (hk : ∀ op ∈ ops, ∀ k, op.key? = some k → WF env k) :
    (runMap (tyOps nh) empty ops).2 = (runAL (tyOps nh) [] ops).2 ∧
    Sim (tyOps nh) (WF env) (runMap (tyOps nh) empty ops).1 (runAL (tyOps nh) [] ops).1 := by
  have h := sim_run (ty_equiv env nh) ops (sim_empty _ _) hk
  exact ⟨h.2, h.1⟩

/-- `Iterate` in any reachable state: it visits `Len()` entries, every visited pair is what `At`
    returns for its key, and every key `At` finds is visited (under an identical key). -/
theorem map_iterate_spec (env : Nat → List String) (nh : Nat → UInt32) (ops : List (Op Ty))
    (hk : ∀ op ∈ ops, ∀ k, op.key? = some k → WF env k) :
    let m := (runMap (tyOps nh) empty ops).1
    len m = (iterate m).length ∧
    (∀ k v, (k, v) ∈ iterate m → get (tyOps nh) m k = some v) ∧
    (∀ k v, get (tyOps nh) m k = some v → ∃ k', identB k k' = true ∧ (k', v) ∈ iterate m) := by
  have h := (sim_run (ty_equiv env nh) ops (sim_empty _ _) hk).1.1
  exact ⟨len_iterate h, fun k v hm => iterate_get (ty_equiv env nh) h hm, fun k v hg => get_iterate hg⟩

/-- the same for any key type whose `ident`/`hash` satisfy the four laws (C29 reuses this) -/
theorem map_refines_alist_generic {K : Type} {o : Ops K} {good : K → Prop} (E : Equiv o good) (ops : List (Op K))
    (hk : ∀ op ∈ ops, ∀ k, op.key? = some k → good k) :
    (runMap o empty ops).2 = (runAL o [] ops).2 ∧ Sim o good (runMap o empty ops).1 (runAL o [] ops).1 := by
  have h := sim_run E ops (sim_empty _ _) hk
  exact ⟨h.2, h.1⟩

/-! non-vacuity: a history with two identical-but-different keys and a deletion -/
example :
    let a : Ty := .struct [.mk "B" (some "p") false "" (.basic 2)]
    let b : Ty := .struct [.mk "B" (some "q") false "" (.basic 2)]
    (runAL (tyOps fun _ => 0) [] [.set a 1, .set b 2, .get a, .len, .del b, .get a]).2
      = [.prev none, .prev (some 1), .val (some 2), .len 1, .found true, .val none] := by
  simp [runAL, stepAL, alSet, alGet, alDel, tyOps, identB_eq, ident, identFs, sameName, isExported]

end TypeMap
