import Proofs.Complete
import Gen.CompleteKw
/-!
# C36  Code completion returns exactly the matching in-scope names, sorted and unique

Property theorems about `Model/Complete.lean` (transcription of fast/repl.go completion,
fast/selector.go listFieldsAndMethods, xreflect VisitFields, util.TailIdentifier) and about the
keyword table regenerated from fast/repl.go (`Gen/CompleteKw.lean`).
-/
namespace Complete

/-! ## sortUnique -/

/-- `sortUnique_spec`: for every list the result is strictly increasing (hence duplicate free)
    and has exactly the members of the input. -/
theorem sortUnique_spec (v : List Str) :
    StrictSorted (sortUnique v) ∧ (sortUnique v).Nodup ∧ ∀ y, y ∈ sortUnique v ↔ y ∈ v :=
  ⟨strictSorted_sortUnique v, (strictSorted_sortUnique v).nodup, fun _ => mem_sortUnique⟩

/-- the in-place compaction loop computes "drop every element equal to its predecessor" of the
    sorted slice, for every input -/
theorem sortUnique_is_dedup_of_sort (v : List Str) : sortUnique v = dedupAdj (sortS v) :=
  sortUnique_eq v

/-- `sortUnique_canonical`: the result depends only on the SET of collected names -- not on the
    iteration order of the Go maps, nor on how often a name was collected. -/
theorem sortUnique_canonical {v1 v2 : List Str} (h : ∀ y, y ∈ v1 ↔ y ∈ v2) :
    sortUnique v1 = sortUnique v2 :=
  strictSorted_ext (strictSorted_sortUnique v1) (strictSorted_sortUnique v2)
    (fun y => by rw [mem_sortUnique, mem_sortUnique]; exact h y)

/-- and it is the only strictly sorted list with these members -/
theorem sortUnique_unique {v l : List Str} (hs : StrictSorted l) (h : ∀ y, y ∈ l ↔ y ∈ v) :
    l = sortUnique v :=
  strictSorted_ext hs (strictSorted_sortUnique v) (fun y => by rw [mem_sortUnique]; exact h y)

example : sortUnique [[102, 111], [97], [102, 111], [98], [97]] = [[97], [98], [102, 111]] := by decide

/-! ## a single word -/

/-- the names in scope: keys of `Binds` and `Types` of every `Comp` on the `Outer` chain -/
def InScope (chain : List Scope) (y : Str) : Prop :=
  ∃ s ∈ chain, y ∈ s.binds.map (·.1) ∨ y ∈ s.types.map (·.1)

/-- `complete_word_exact`: the completions of a word are exactly the keywords and the in-scope
    names that start with it (none for the empty word), strictly sorted. -/
theorem complete_word_exact (kw : List Str) (chain : List Scope) (w : Str) :
    StrictSorted (completeWord kw chain w) ∧
    ∀ y, y ∈ completeWord kw chain w ↔ w ≠ [] ∧ w <+: y ∧ (y ∈ kw ∨ InScope chain y) := by
  refine ⟨strictSorted_sortUnique _, fun y => ?_⟩
  unfold completeWord InScope
  rw [mem_sortUnique]
  by_cases hw : w = []
  · subst hw; simp
  · have : (w.length != 0) = true := by
      simp only [bne_iff_ne, ne_eq, List.length_eq_zero_iff]; exact hw
    simp only [this, if_true, List.mem_append, mem_scopeNames, mem_prefixed]
    constructor
    · rintro (⟨p, h⟩ | ⟨h, p⟩)
      · exact ⟨hw, p, Or.inr h⟩
      · exact ⟨hw, p, Or.inl h⟩
    · rintro ⟨_, p, h | h⟩
      · exact Or.inr ⟨h, p⟩
      · exact Or.inl ⟨p, h⟩

/-- with the regenerated keyword table -/
theorem complete_word_exact_gen (chain : List Scope) (w : Str) :
    ∀ y, y ∈ completeWord Gen.completeKeywords chain w ↔
      w ≠ [] ∧ w <+: y ∧ (y ∈ Gen.completeKeywords ∨ InScope chain y) :=
  (complete_word_exact _ chain w).2

example : completeWord [[102, 111, 114], [102, 117, 110, 99]]
    [⟨[([102, 111, 111], .val .basic), ([120], .val .basic)], []⟩, ⟨[([102, 111], .val .basic)], [([102, 111, 111], .basic)]⟩]
    [102, 111] = [[102, 111], [102, 111, 111], [102, 111, 114]] := by decide

/-! ## members of a package -/

/-- `complete_package_exact`: after `pkg.` the completions are exactly the Binds and Types of the
    import that start with the typed prefix, strictly sorted. -/
theorem complete_package_exact (st : State) (im : Import) (w : Str) :
    ∃ l, completeLastWord st (.imp im) w = .ok l ∧ StrictSorted l ∧
      ∀ y, y ∈ l ↔ w <+: y ∧ (y ∈ im.binds.map (·.1) ∨ y ∈ im.types.map (·.1)) := by
  refine ⟨_, rfl, strictSorted_sortUnique _, fun y => ?_⟩
  rw [mem_sortUnique, List.mem_append, mem_prefixed, mem_prefixed]
  constructor
  · rintro (⟨h, p⟩ | ⟨h, p⟩)
    · exact ⟨p, Or.inl h⟩
    · exact ⟨p, Or.inr h⟩
  · rintro ⟨p, h | h⟩
    · exact Or.inl ⟨h, p⟩
    · exact Or.inr ⟨h, p⟩

/-! ## fields and methods -/

/-- `y` is a field or method name found on `t` by walking the embedded fields (any depth):
    * a method of `t` itself (of `*t`'s element; nothing for a pointer to an interface),
    * a field of a struct reachable from `t` through embedded (pointer-to-)struct fields,
    * a method of the type of an embedded field of such a struct. -/
def Member (tbl : Table) (t : Ty) (y : Str) : Prop :=
  let t1 := if kindOf tbl t == .ptr then elemOf t else t
  ¬ (kindOf tbl t == .ptr ∧ kindOf tbl t1 == .iface) ∧
  (y ∈ methodsVia tbl t1 ∨
    ∃ id0 fs0, structOf tbl t1 = some (id0, fs0) ∧ kindOf tbl t1 = .struct ∧
      ∃ id fs, Reach tbl id0 id ∧ fieldsOf tbl id = some fs ∧
        ∃ f ∈ fs, y = f.name ∨ (f.anon = true ∧ y ∈ methodsVia tbl f.ty))

theorem kind_struct {tbl : Table} {t : Ty} (h : kindOf tbl t = .struct) :
    ∃ id fs, structOf tbl t = some (id, fs) := by
  cases t with
  | named id =>
    simp only [kindOf] at h
    simp only [structOf]
    split at h <;> simp_all
  | _ => simp [kindOf] at h

/-- `complete_member_exact`: the completions after `x.` (x of type `t`) are exactly the names
    `Member tbl t` that start with the typed prefix, strictly sorted -- for every type table
    (cyclic embeddings included: the fuel of the breadth-first walk always suffices). -/
theorem complete_member_exact (st : State) (t : Ty) (w : Str) (l : List Str)
    (h : completeLastWord st (.typ t) w = .ok l) :
    StrictSorted l ∧ ∀ y, y ∈ l ↔ w <+: y ∧ Member st.tbl t y := by
  unfold completeLastWord at h
  simp only at h
  split at h
  · cases h
  · rename_i l0 hl0
    cases h
    refine ⟨strictSorted_sortUnique _, fun y => ?_⟩
    rw [mem_sortUnique]
    unfold listFieldsAndMethods at hl0
    unfold Member
    generalize ht1 : (if kindOf st.tbl t == Kind.ptr then elemOf t else t) = t1 at hl0 ⊢
    split at hl0
    · -- the nil type of the predeclared `nil`: no member
      rename_i hinv
      cases hl0
      have ht : t = .invalid := by
        cases t <;> simp [kindOf] at hinv ⊢
        rename_i id
        split at hinv <;> simp at hinv
      subst ht
      simp only [kindOf] at ht1
      subst ht1
      simp [kindOf, methodsVia, methodNames, structOf, elemOf]
    · simp only at hl0
      split at hl0
      · rename_i hpi
        cases hl0
        simp only [Bool.and_eq_true] at hpi
        simp [hpi.1, hpi.2]
      · rename_i hpi
        split at hl0
        · cases hl0
        · cases hl0
          have hnot : ¬ ((kindOf st.tbl t == Kind.ptr) = true ∧ (kindOf st.tbl t1 == Kind.iface) = true) := by
            intro hc; apply hpi; simp [hc.1, hc.2]
          rw [List.mem_append, mem_collectMethods]
          by_cases hk : kindOf st.tbl t1 = .struct
          · obtain ⟨id0, fs0, hs⟩ := kind_struct hk
            have hk' : (kindOf st.tbl t1 == Kind.struct) = true := by simp [hk]
            simp only [hk', if_true, mem_visitFields hs]
            constructor
            · rintro (⟨p, hm⟩ | ⟨id, fs, hr, hf, hy⟩)
              · exact ⟨p, hnot, Or.inl hm⟩
              · obtain ⟨p, f, hfm, hy⟩ := mem_emitFields.1 hy
                exact ⟨p, hnot, Or.inr ⟨id0, fs0, hs, hk, id, fs, hr, hf, f, hfm, hy⟩⟩
            · rintro ⟨p, _, hm | ⟨id0', fs0', hs', _, id, fs, hr, hf, f, hfm, hy⟩⟩
              · exact Or.inl ⟨p, hm⟩
              · rw [hs] at hs'; cases hs'
                exact Or.inr ⟨id, fs, hr, hf, mem_emitFields.2 ⟨p, f, hfm, hy⟩⟩
          · have hk' : (kindOf st.tbl t1 == Kind.struct) = false := by simp [hk]
            simp only [hk', Bool.false_eq_true, if_false, List.not_mem_nil, or_false]
            constructor
            · rintro ⟨p, hm⟩
              exact ⟨p, hnot, Or.inl hm⟩
            · rintro ⟨p, _, hm | ⟨_, _, _, hk2, _⟩⟩
              · exact ⟨p, hm⟩
              · exact absurd hk2 hk

/-- every name of the embedding closure is offered even when the embedding graph is cyclic
    (`type A struct{ *A }`): the walk visits each struct once and its fuel suffices -/
theorem visitFields_complete {tbl : Table} {pre y : Str} {t : Ty} {id0 id : Nat} {fs0 fs : List Field}
    (ht : structOf tbl t = some (id0, fs0)) (hr : Reach tbl id0 id) (hf : fieldsOf tbl id = some fs)
    (hy : y ∈ emitFields tbl pre fs) : y ∈ visitFields tbl pre (tbl.length + 1) [t] [] :=
  (mem_visitFields ht).2 ⟨id, fs, hr, hf, hy⟩

/-- A: struct{X; *A}, methods M.  B: struct{A; Y}.  Completing "" on a B -/
example : listFieldsAndMethods
    [⟨.struct [⟨[88], false, .basic, true⟩, ⟨[65], true, .ptr (.named 0), true⟩], [⟨[77], true⟩]⟩,
     ⟨.struct [⟨[65], true, .named 0, true⟩, ⟨[89], false, .basic, true⟩], []⟩]
    (.ptr (.named 1)) [] = some [[65], [77], [89], [88], [65], [77]] := by decide

/-! ## reassembly of the line -/

theorem list_prefix {tbl : Table} {t : Ty} {pre : Str} {l : List Str}
    (h : listFieldsAndMethods tbl t pre = some l) : ∀ y ∈ l, pre <+: y := by
  intro y hy
  unfold listFieldsAndMethods at h
  generalize (if kindOf tbl t == Kind.ptr then elemOf t else t) = t1 at h
  split at h
  · cases h; cases hy
  · simp only at h
    split at h
    · cases h; cases hy
    · split at h
      · cases h
      · cases h
        rcases List.mem_append.1 hy with hm | hm
        · exact (mem_collectMethods.1 hm).1
        · split at hm
          · obtain ⟨_, _, _, _, _, _, _, _, _, he⟩ := visitFields_sound _ _ _ hm
            exact (mem_emitFields.1 he).1
          · cases hm

theorem completeLastWord_prefix {st : State} {node : Node} {w : Str} {l : List Str}
    (h : completeLastWord st node w = .ok l) : ∀ y ∈ l, w <+: y := by
  intro y hy
  cases node with
  | imp im =>
    simp only [completeLastWord] at h
    cases h
    rw [mem_sortUnique, List.mem_append, mem_prefixed, mem_prefixed] at hy
    rcases hy with ⟨_, p⟩ | ⟨_, p⟩ <;> exact p
  | typ t =>
    simp only [completeLastWord] at h
    split at h
    · cases h
    · rename_i l0 hl0
      cases h
      exact list_prefix hl0 y (mem_sortUnique.1 hy)

theorem completeWords_prefix {st : State} : ∀ (ws : List Str) (node : Node) (i : Nat) (l : List Str),
    completeWords st node i ws = .ok l → ∀ y ∈ l, ∃ w, ws.getLast? = some w ∧ w <+: y
  | [], _, _, l, h, y, hy => by simp [completeWords] at h; subst h; cases hy
  | [w], node, _, l, h, y, hy => by
    simp only [completeWords] at h
    exact ⟨w, rfl, completeLastWord_prefix h y hy⟩
  | w :: w2 :: ws, .imp im, i, l, h, y, hy => by
    simp only [completeWords] at h
    rw [List.getLast?_cons_cons]
    split at h
    · cases h; cases hy
    · split at h
      · exact completeWords_prefix (w2 :: ws) _ _ l h y hy
      · split at h
        · exact completeWords_prefix (w2 :: ws) _ _ l h y hy
        · cases h; cases hy
  | w :: w2 :: ws, .typ t, i, l, h, y, hy => by
    simp only [completeWords] at h
    rw [List.getLast?_cons_cons]
    split at h
    · cases h; cases hy
    · split at h
      · cases h; cases hy
      · exact completeWords_prefix (w2 :: ws) _ _ l h y hy
      · cases h; cases hy

theorem compCompleteWords_prefix {kw : List Str} {st : State} {ws : List Str} {l : List Str}
    (h : compCompleteWords kw st ws = .ok l) : ∀ y ∈ l, ∃ w, ws.getLast? = some w ∧ w <+: y := by
  intro y hy
  match ws, h with
  | [], h => simp [compCompleteWords] at h; subst h; cases hy
  | [w], h =>
    simp only [compCompleteWords] at h
    cases h
    exact ⟨w, rfl, ((complete_word_exact kw st.chain w).2 y).1 hy |>.2.1⟩
  | w :: w2 :: rest, h =>
    simp only [compCompleteWords] at h
    rw [List.getLast?_cons_cons]
    split at h
    · exact completeWords_prefix _ _ _ l h y hy
    · split at h
      · exact completeWords_prefix _ _ _ l h y hy
      · cases h; cases hy

/-- `reassemble`: for every line, cursor and interpreter state (no panic), with
    `typed = TailIdentifier(text before the cursor)`:
    * the tail is the text after the cursor;
    * without completions the head is the text before the cursor;
    * with completions the head is the text before the cursor minus `typed`, every completion
      starts with `typed`, and `head ++ c ++ tail` is the original line with the completion's
      remaining characters inserted at the cursor. -/
theorem reassemble {cl : Classes} (hcl : cl.Sane) (kw : List Str) (st : State) (head tail : Str)
    (r : Result) (h : completeAt cl kw st head tail = some r) :
    r.tail = tail ∧
    (r.completions = [] → r.head = head) ∧
    (r.completions ≠ [] →
      r.head ++ tailIdentifier cl head = head ∧
      ∀ c ∈ r.completions, ∃ ext, c = tailIdentifier cl head ++ ext ∧
        r.head ++ c ++ r.tail = head ++ ext ++ tail) := by
  unfold completeAt at h
  simp only at h
  split at h
  · cases h
  · rename_i comps hcomps
    cases h
    refine ⟨rfl, ?_, ?_⟩
    · intro he
      simp only at he
      simp [he]
    · intro hne
      simp only at hne
      have hlen : (comps.length != 0) = true := by
        simp only [bne_iff_ne, ne_eq, List.length_eq_zero_iff]; exact hne
      have hta := take_append_tailIdentifier cl head
      have key : ∀ H : Str, H = head.take (head.length - (tailIdentifier cl head).length) →
          H ++ tailIdentifier cl head = head ∧
          ∀ c ∈ comps, ∃ ext, c = tailIdentifier cl head ++ ext ∧ H ++ c ++ tail = head ++ ext ++ tail := by
        intro H hH
        subst hH
        refine ⟨hta, ?_⟩
        intro c hc
        obtain ⟨w, hw, hp⟩ := compCompleteWords_prefix hcomps c hc
        have hlast : w = tailIdentifier cl head := by
          rcases scan_last hcl head with he | hl
          · rw [he] at hw; cases hw
          · rw [hl] at hw; cases hw; rfl
        subst hlast
        obtain ⟨ext, rfl⟩ := hp
        refine ⟨ext, rfl, ?_⟩
        conv => rhs; rw [← hta]
        simp
      apply key
      rw [if_pos hlen]
      cases hli : lastIndex 46 head with
      | none => rfl
      | some pos =>
        have := lastIndex_lt_fixed cl head pos hli
        have hn : ¬ pos ≥ head.length - (tailIdentifier cl head).length := by omega
        simp only [ge_iff_le] at hn ⊢
        rw [if_neg hn]

/-- the typed prefix that is replaced is a valid identifier (or empty): identifier characters only,
    never starting with a digit -/
theorem typed_prefix_is_identifier (cl : Classes) (head : Str) :
    (∀ c ∈ tailIdentifier cl head, identCh cl c = true) ∧
    (∀ c rest, tailIdentifier cl head = c :: rest → isLetterCh cl c = true) :=
  ⟨tailIdentifier_all_ident cl head, tailIdentifier_head_letter cl head⟩

/-- `reassemble_line`: `Interp.CompleteWords(line, pos)` for EVERY line and EVERY cursor `pos` (an index
    in runes; negative and past-the-end included), with `k = cutIndex line pos` runes before the cursor and
    `typed = TailIdentifier(line[:k])`:  head ++ typed ++ tail is the line; every completion `c` extends
    `typed`, and `head ++ c ++ tail` is the line with the missing characters of `c` inserted at the cursor. -/
theorem reassemble_line {cl : Classes} (hcl : cl.Sane) (kw : List Str) (st : State) (line : Str) (pos : Int)
    (r : Result) (h : interpComplete cl kw st line pos = some r) :
    let k := cutIndex line pos
    let typed := tailIdentifier cl (line.take k)
    r.tail = line.drop k ∧
    (r.completions = [] → r.head ++ r.tail = line) ∧
    (r.completions ≠ [] →
      r.head ++ typed ++ r.tail = line ∧
      ∀ c ∈ r.completions, ∃ ext, c = typed ++ ext ∧
        r.head ++ c ++ r.tail = line.take k ++ ext ++ line.drop k) := by
  intro k typed
  obtain ⟨h1, h2, h3⟩ := reassemble hcl kw st _ _ r h
  refine ⟨h1, ?_, ?_⟩
  · intro he
    rw [h2 he, h1]; exact List.take_append_drop _ _
  · intro hne
    obtain ⟨h4, h5⟩ := h3 hne
    refine ⟨?_, h5⟩
    show r.head ++ tailIdentifier cl (line.take (cutIndex line pos)) ++ r.tail = line
    rw [h4, h1]; exact List.take_append_drop _ _

/-- the cursor is clamped to the line -/
theorem cutIndex_le (line : Str) (pos : Int) : cutIndex line pos ≤ line.length := Nat.min_le_right _ _

/-- "fo" typed after "x := " with the cursor before ")" : head drops "fo", completions extend it -/
example : completeAt ⟨fun _ => false, fun _ => false, fun _ => false⟩ [[102, 111, 114]]
    ⟨[⟨[([102, 111, 111], .val .basic)], []⟩], [], []⟩ [120, 32, 58, 61, 32, 102, 111] [41]
    = some ⟨[120, 32, 58, 61, 32], [[102, 111, 111], [102, 111, 114]], [41]⟩ := by decide

example : Classes.Sane ⟨fun _ => false, fun _ => false, fun _ => false⟩ := by
  intro c h; cases h

/-! ## the regenerated keyword table (fast/repl.go `keywords`) -/

/-- the 25 keywords of the Go specification -/
def goKeywords : List Str := [[98, 114, 101, 97, 107], [100, 101, 102, 97, 117, 108, 116], [102, 117, 110, 99], [105, 110, 116, 101, 114, 102, 97, 99, 101], [115, 101, 108, 101, 99, 116], [99, 97, 115, 101], [100, 101, 102, 101, 114], [103, 111], [109, 97, 112], [115, 116, 114, 117, 99, 116], [99, 104, 97, 110], [101, 108, 115, 101], [103, 111, 116, 111], [112, 97, 99, 107, 97, 103, 101], [115, 119, 105, 116, 99, 104], [99, 111, 110, 115, 116], [102, 97, 108, 108, 116, 104, 114, 111, 117, 103, 104], [105, 102], [114, 97, 110, 103, 101], [116, 121, 112, 101], [99, 111, 110, 116, 105, 110, 117, 101], [102, 111, 114], [105, 109, 112, 111, 114, 116], [114, 101, 116, 117, 114, 110], [118, 97, 114]]

/-- "macro", "template": the identifiers gomacro adds -/
def gomacroKeywords : List Str := [[109, 97, 99, 114, 111], [116, 101, 109, 112, 108, 97, 116, 101]]

/-- every Go keyword is in the table -/
theorem keywords_complete : ∀ k ∈ goKeywords, k ∈ Gen.completeKeywords := by decide

/-- the table holds nothing but the Go keywords and gomacro's two -/
theorem keywords_sound : ∀ k ∈ Gen.completeKeywords, k ∈ goKeywords ∨ k ∈ gomacroKeywords := by decide

/-- no duplicates, and every entry is a non-empty lower-case ASCII word (an identifier, so that a
    keyword can only complete a typed prefix that `TailIdentifier` accepts) -/
theorem keywords_wellformed : Gen.completeKeywords.Nodup ∧
    ∀ k ∈ Gen.completeKeywords, k ≠ [] ∧ ∀ c ∈ k, 97 ≤ c ∧ c ≤ 122 := by decide

end Complete
