import Model.Complete
namespace Complete
end Complete
