import Model.Composite
import GoSpec.Heap
import Proofs.Composite
import Gen.IndexArms

/-!
# C08 — composite data types and builtins behave as in Go

What is proved (for ALL values, lengths, capacities, element lists):

* `index_conv_preserves_panic`, `index_outcome_spec`: gomacro converts every index to `int` before
  handing it to `reflect`; for every integer kind and every value of that kind the converted index
  is in range iff the original is, so the run-time panic is kept (uint64 above MaxInt64 included).
* `slice_bounds_spec2`, `slice_bounds_spec3`, `slice_nil_pointer_panics`, `slice_const_negative_rejected`:
  `SliceExpr` panics iff !(0 <= lo <= hi (<= max) <= cap) with Go's defaults and Go's notion of
  capacity (cap for slices, len for arrays, pointers to arrays, strings), and otherwise yields Go's
  offset / length / capacity.
* `complit_indices`, `complit_complete`, `complit_value`: keyed + positional elements get Go's
  indices, no index repeats, size = max index + 1, array bounds respected; conversely every literal
  valid by Go's rule is accepted; the value has the elements at their indices.
* `index_table_sound` (regenerated table, `decide`) + `arm_read_identity`: every per-kind arm of
  `vectorIndex` / `mapIndex1` reads the element selected by the converted index with the accessor
  of its kind, hence returns the stored element unchanged.
* spec side (`GoSpec.Heap`, validated against compiled Go on every run): `append_alias_spec`,
  `append_realloc_spec`, `copy_overlap_spec`, `array_assign_copies`.
-/

namespace Composite

/-! ## index conversion -/

/-- an index of any integer kind, converted to `int` as `vectorIndex` does, is rejected by
    `reflect.Value.Index` exactly when the ORIGINAL value is out of range -/
theorem index_conv_preserves_panic (k : IKind) (v : Int) (len : Nat)
    (hk : k ≠ .untyped) (hf : k.fits v) (hl : (len : Int) ≤ maxInt) :
    indexRun len (wrapInt v) = none ↔ ¬ (0 ≤ v ∧ v < len) := by
  have ⟨h1, h2⟩ := fits_range hk hf
  have hM : maxInt = 9223372036854775807 := rfl
  unfold indexRun
  by_cases hb : v ≤ 9223372036854775807
  · rw [wrapInt_small h1 hb]; split <;> simp_all
  · rw [wrapInt_big (by omega) h2]
    split
    · omega
    · simp; omega

theorem index_conv_value (k : IKind) (v : Int) (len : Nat)
    (hk : k ≠ .untyped) (hf : k.fits v) (hl : (len : Int) ≤ maxInt) (h : 0 ≤ v ∧ v < len) :
    indexRun len (wrapInt v) = some v.toNat := by
  have ⟨h1, _⟩ := fits_range hk hf
  have hM : maxInt = 9223372036854775807 := rfl
  rw [wrapInt_small h1 (by omega)]
  unfold indexRun
  simp [h]

/-- whole `a[i]` / `a[i] = x` on a slice, array or pointer to array with a variable index of any
    integer kind: element `i` if 0 <= i < len, else a run-time panic — never a compile error -/
theorem index_outcome_spec (ck : Bool) (c : Cont) (len : Nat) (w : Bool) (a : Arg)
    (hc : c = .slice ∨ c = .array ∨ c = .parray) (hv : a.const = false)
    (hk : a.kind ≠ .untyped) (hf : a.kind.fits a.val) (hl : (len : Int) ≤ maxInt) :
    indexOutcome ⟨true, ck⟩ c len w a = if 0 ≤ a.val ∧ a.val < len then .ok a.val.toNat else .panic := by
  have hconv : indexConv ⟨true, ck⟩ a = some (wrapInt a.val) := by
    simp [indexConv, indexToInt_typed ck a hk hv]
  unfold indexOutcome
  rw [hconv]
  by_cases h : 0 ≤ a.val ∧ a.val < len
  · have := index_conv_value a.kind a.val len hk hf hl h
    rcases hc with rfl | rfl | rfl <;> simp [this, h]
  · have := (index_conv_preserves_panic a.kind a.val len hk hf hl).2 h
    rcases hc with rfl | rfl | rfl <;> simp [this, h]

/-- a typed CONSTANT index (current code: `Comp.convert` checks representability, as the Go compiler
    does): a value that is not representable as `int` is a compile error; otherwise element `i` if
    0 <= i < len, else a run-time panic (Go rejects those too: the harness only demands "no value"). -/
theorem index_outcome_const_spec (c : Cont) (len : Nat) (w : Bool) (a : Arg)
    (hc : c = .slice ∨ c = .array ∨ c = .parray) (hv : a.const = true)
    (hk : a.kind ≠ .untyped) :
    indexOutcome ⟨true, true⟩ c len w a =
      if minInt ≤ a.val ∧ a.val ≤ maxInt then
        (if 0 ≤ a.val ∧ a.val < len then .ok a.val.toNat else .panic)
      else .cerr := by
  have hconv : indexConv ⟨true, true⟩ a = if minInt ≤ a.val ∧ a.val ≤ maxInt then some a.val else none := by
    simp [indexConv, indexToInt_const a hk hv]
  unfold indexOutcome
  rw [hconv]
  by_cases hr : minInt ≤ a.val ∧ a.val ≤ maxInt
  · simp only [hr, and_self, if_true]
    by_cases h : 0 ≤ a.val ∧ a.val < len
    · rcases hc with rfl | rfl | rfl <;> simp [indexRun, h]
    · rcases hc with rfl | rfl | rfl <;> simp [indexRun, h]
  · simp [hr]

/-- in particular a uint64 constant above MaxInt64 never reaches run time -/
theorem index_const_unrepresentable_rejected (c : Cont) (len : Nat) (w : Bool) (a : Arg)
    (hv : a.const = true) (hbig : maxInt < a.val) :
    indexOutcome ⟨true, true⟩ c len w a = .cerr := by
  have : indexConv ⟨true, true⟩ a = none := by
    unfold indexConv indexToInt
    have : ¬ (minInt ≤ a.val ∧ a.val ≤ maxInt) := by omega
    cases hk : a.kind <;> simp [hv, this]
  unfold indexOutcome
  rw [this]

/-! ## slice expressions -/

/-- a run-time bound: a variable of some integer kind holding a value of that kind -/
def VarArg (a : Arg) : Prop := a.const = false ∧ a.kind ≠ .untyped ∧ a.kind.fits a.val

def OVar (o : Option Arg) : Prop := ∀ a, o = some a → VarArg a

theorem sliceIndexConv_var {ck : Bool} {a : Arg} (h : VarArg a) :
    sliceIndexConv ⟨true, ck⟩ a = some (wrapInt a.val) := by
  obtain ⟨hc, hk, _⟩ := h
  simp [sliceIndexConv, indexConv, indexToInt_typed ck a hk hc, hc]

theorem optConv_var {ck : Bool} {o : Option Arg} (h : OVar o) :
    optConv ⟨true, ck⟩ o = some (o.map (fun a => wrapInt a.val)) := by
  cases o with
  | none => rfl
  | some a => simp [optConv, sliceIndexConv_var (h a rfl)]

/-- the mathematical value of an optional bound with its Go default -/
def boundVal (o : Option Arg) (dflt : Int) : Int := (o.map (·.val)).getD dflt

theorem bound_range {o : Option Arg} (h : OVar o) {d : Int} (hd0 : 0 ≤ d) (hd : d ≤ 9223372036854775807) :
    -9223372036854775808 ≤ boundVal o d ∧ boundVal o d ≤ 18446744073709551615 := by
  cases o with
  | none => simp [boundVal]; omega
  | some a =>
    obtain ⟨_, hk, hf⟩ := h a rfl
    simpa [boundVal] using fits_range hk hf

/-- value after conversion (default values are small and unchanged) -/
def boundWrap (o : Option Arg) (dflt : Int) : Int := (o.map (fun a => wrapInt a.val)).getD dflt

theorem boundWrap_eq {o : Option Arg} {d : Int} (hd0 : 0 ≤ d) (hd : d ≤ 9223372036854775807) :
    boundWrap o d = wrapInt (boundVal o d) := by
  cases o with
  | none => simp [boundWrap, boundVal]; rw [wrapInt_small (by omega) hd]
  | some a => simp [boundWrap, boundVal]

/-- **2-index slice expressions** `a[lo:hi]` with run-time bounds of any integer kinds, on slices,
    arrays, pointers to arrays and strings: panics iff !(0 <= lo <= hi <= cap) where omitted lo = 0,
    omitted hi = len, cap = cap(a) for slices and len(a) otherwise; else offset lo, length hi-lo,
    capacity cap-lo. -/
theorem slice_bounds_spec2 (ck : Bool) (c : Cont) (len cap : Nat) (lo hi : Option Arg)
    (hc : c ≠ .nilparray) (hlo : OVar lo) (hhi : OVar hi) (hlc : len ≤ cap)
    (hlen : (len : Int) ≤ maxInt) (hcap : (cap : Int) ≤ maxInt) :
    let L := boundVal lo 0
    let H := boundVal hi len
    let K : Int := capOf c len cap
    sliceOutcome ⟨true, ck⟩ ⟨c, len, cap, lo, hi, none, false⟩ =
      if 0 ≤ L ∧ L ≤ H ∧ H ≤ K then .ok ⟨L.toNat, (H - L).toNat, (K - L).toNat⟩ else .panic := by
  intro L H K
  have hM : maxInt = 9223372036854775807 := rfl
  have hK : K ≤ 9223372036854775807 := by
    show ((capOf c len cap : Nat) : Int) ≤ _
    cases c <;> simp [capOf] <;> omega
  have ⟨l1, l2⟩ := bound_range hlo (d := 0) (by omega) (by omega)
  have ⟨h1, h2⟩ := bound_range hhi (d := (len : Int)) (by omega) (by omega)
  have eL : boundWrap lo 0 = wrapInt L := boundWrap_eq (by omega) (by omega)
  have eH : boundWrap hi len = wrapInt H := boundWrap_eq (by omega) (by omega)
  have hrun : sliceRun c len cap false (lo.map (fun a => wrapInt a.val)) (hi.map (fun a => wrapInt a.val)) none
      = reflSlice (capOf c len cap) (wrapInt L) (wrapInt H) := by
    simp only [sliceRun, hc, if_false, Bool.false_eq_true]
    show reflSlice _ (boundWrap lo 0) (boundWrap hi len) = _
    rw [eL, eH]
  unfold sliceOutcome
  simp only [optConv_var hlo, optConv_var hhi]
  simp only [optConv, Bool.false_eq_true, false_and, if_false]
  rw [hrun]
  -- the decisive equivalence: wrapped bounds satisfy the test iff the original ones do
  have key : (wrapInt L < 0 ∨ wrapInt H < wrapInt L ∨ wrapInt H > K) ↔ ¬ (0 ≤ L ∧ L ≤ H ∧ H ≤ K) := by
    by_cases bl : L ≤ 9223372036854775807 <;> by_cases bh : H ≤ 9223372036854775807
    · rw [wrapInt_small l1 bl, wrapInt_small h1 bh]; omega
    · rw [wrapInt_small l1 bl, wrapInt_big (by omega) h2]; omega
    · rw [wrapInt_big (by omega) l2, wrapInt_small h1 bh]; omega
    · rw [wrapInt_big (by omega) l2, wrapInt_big (by omega) h2]; omega
  unfold reflSlice
  by_cases ok : 0 ≤ L ∧ L ≤ H ∧ H ≤ K
  · have hn : ¬ (wrapInt L < 0 ∨ wrapInt H < wrapInt L ∨ wrapInt H > K) := fun h => (key.1 h) ok
    rw [if_neg hn, if_pos ok]
    have wl : wrapInt L = L := wrapInt_small l1 (by omega)
    have wh : wrapInt H = H := wrapInt_small h1 (by omega)
    simp only [wl, wh]
    rfl
  · have hp : wrapInt L < 0 ∨ wrapInt H < wrapInt L ∨ wrapInt H > K := key.2 ok
    rw [if_pos hp, if_neg ok]
    -- not a constant string with constant bounds: the bounds are variables
    cases lo with
    | some a => have := (hlo a rfl).1; simp [allConst, this]
    | none =>
      cases hi with
      | some b => have := (hhi b rfl).1; simp [allConst, this]
      | none =>
        -- both omitted: a[:] never fails
        exfalso
        apply ok
        simp only [L, H, K, boundVal]
        cases c <;> simp [capOf] at * <;> omega

/-- **3-index slice expressions** `a[lo:hi:max]` (slices, arrays, pointers to arrays): panics iff
    !(0 <= lo <= hi <= max <= cap); else offset lo, length hi-lo, capacity max-lo. -/
theorem slice_bounds_spec3 (ck : Bool) (c : Cont) (len cap : Nat) (lo : Option Arg) (hi mx : Arg)
    (hc : c = .slice ∨ c = .array ∨ c = .parray) (hlo : OVar lo) (hhi : VarArg hi) (hmx : VarArg mx)
    (hlen : (len : Int) ≤ maxInt) (hcap : (cap : Int) ≤ maxInt) :
    let L := boundVal lo 0
    let K : Int := capOf c len cap
    sliceOutcome ⟨true, ck⟩ ⟨c, len, cap, lo, some hi, some mx, true⟩ =
      if 0 ≤ L ∧ L ≤ hi.val ∧ hi.val ≤ mx.val ∧ mx.val ≤ K
      then .ok ⟨L.toNat, (hi.val - L).toNat, (mx.val - L).toNat⟩ else .panic := by
  intro L K
  have hM : maxInt = 9223372036854775807 := rfl
  have hK : K ≤ 9223372036854775807 := by
    show ((capOf c len cap : Nat) : Int) ≤ _
    rcases hc with rfl | rfl | rfl <;> simp [capOf] <;> omega
  have ⟨l1, l2⟩ := bound_range hlo (d := 0) (by omega) (by omega)
  have ⟨h1, h2⟩ := fits_range hhi.2.1 hhi.2.2
  have ⟨m1, m2⟩ := fits_range hmx.2.1 hmx.2.2
  have eL : boundWrap lo 0 = wrapInt L := boundWrap_eq (by omega) (by omega)
  have hnn : c ≠ .nilparray := by rcases hc with rfl | rfl | rfl <;> decide
  have hns : ¬ (c = .str ∨ c = .cstr) := by rcases hc with rfl | rfl | rfl <;> decide
  have hncs : c ≠ .cstr := fun h => hns (Or.inr h)
  have hrun : sliceRun c len cap true (lo.map (fun a => wrapInt a.val)) (some (wrapInt hi.val)) (some (wrapInt mx.val))
      = reflSlice3 (capOf c len cap) (wrapInt L) (wrapInt hi.val) (wrapInt mx.val) := by
    simp only [sliceRun, hnn, if_false, if_true]
    show reflSlice3 _ (boundWrap lo 0) _ _ = _
    rw [eL]
    rfl
  unfold sliceOutcome
  simp only [optConv_var hlo]
  simp only [optConv, sliceIndexConv_var hhi, sliceIndexConv_var hmx, Option.map_some]
  simp only [Option.isNone_some, Bool.false_eq_true, or_self, and_false, if_false, hns]
  rw [hrun]
  have key : (wrapInt L < 0 ∨ wrapInt hi.val < wrapInt L ∨ wrapInt mx.val < wrapInt hi.val ∨ wrapInt mx.val > K) ↔
      ¬ (0 ≤ L ∧ L ≤ hi.val ∧ hi.val ≤ mx.val ∧ mx.val ≤ K) := by
    by_cases bl : L ≤ 9223372036854775807 <;> by_cases bh : hi.val ≤ 9223372036854775807 <;>
      by_cases bm : mx.val ≤ 9223372036854775807
    · rw [wrapInt_small l1 bl, wrapInt_small h1 bh, wrapInt_small m1 bm]; omega
    · rw [wrapInt_small l1 bl, wrapInt_small h1 bh, wrapInt_big (by omega) m2]; omega
    · rw [wrapInt_small l1 bl, wrapInt_big (by omega) h2, wrapInt_small m1 bm]; omega
    · rw [wrapInt_small l1 bl, wrapInt_big (by omega) h2, wrapInt_big (by omega) m2]; omega
    · rw [wrapInt_big (by omega) l2, wrapInt_small h1 bh, wrapInt_small m1 bm]; omega
    · rw [wrapInt_big (by omega) l2, wrapInt_small h1 bh, wrapInt_big (by omega) m2]; omega
    · rw [wrapInt_big (by omega) l2, wrapInt_big (by omega) h2, wrapInt_small m1 bm]; omega
    · rw [wrapInt_big (by omega) l2, wrapInt_big (by omega) h2, wrapInt_big (by omega) m2]; omega
  unfold reflSlice3
  by_cases ok : 0 ≤ L ∧ L ≤ hi.val ∧ hi.val ≤ mx.val ∧ mx.val ≤ K
  · have hn := fun h => (key.1 h) ok
    rw [if_neg hn, if_pos ok]
    have wl : wrapInt L = L := wrapInt_small l1 (by omega)
    have wh : wrapInt hi.val = hi.val := wrapInt_small h1 (by omega)
    have wm : wrapInt mx.val = mx.val := wrapInt_small m1 (by omega)
    simp only [wl, wh, wm]
  · have hp := key.2 ok
    rw [if_pos hp, if_neg ok]
    simp [hncs]

/-- slicing through a nil pointer to array panics whatever the bounds (as in Go) -/
theorem slice_nil_pointer_panics (ck : Bool) (len cap : Nat) (lo hi : Option Arg) (hlo : OVar lo) (hhi : OVar hi) :
    sliceOutcome ⟨true, ck⟩ ⟨.nilparray, len, cap, lo, hi, none, false⟩ = .panic := by
  unfold sliceOutcome
  simp only [optConv_var hlo, optConv_var hhi]
  simp [optConv, sliceRun]

/-- a negative constant bound is rejected at compile time -/
theorem slice_const_negative_rejected (conv : Conv) (c : Cont) (len cap : Nat) (a : Arg) (hi mx : Option Arg) (three : Bool)
    (hc : a.const = true) (hu : a.kind = .untyped) (hneg : a.val < 0) :
    sliceOutcome conv ⟨c, len, cap, some a, hi, mx, three⟩ = .cerr := by
  have : sliceIndexConv conv a = none := by
    obtain ⟨cv, ck⟩ := conv
    unfold sliceIndexConv indexConv indexToInt indexToIntStrict
    cases cv <;> simp [hu] <;> split <;> simp_all
  unfold sliceOutcome
  simp [optConv, this]

/-! ## composite literals -/

/-- Go's rule for the index of element `i` of an array/slice literal, as the specification words
    it: an explicit key is the index; otherwise the previous element's index plus one; the first
    element without a key has index 0. -/
def specIdxFrom (prev : Int) : List Elt → Nat → Int
  | [], _ => prev
  | e :: _, 0 => idxOf prev e
  | e :: es, i + 1 => specIdxFrom (idxOf prev e) es i

def specIdx (elts : List Elt) (i : Nat) : Int := specIdxFrom (-1) elts i

theorem runIdx_length (p : Int) (es : List Elt) : (runIdx p es).length = es.length := by
  induction es generalizing p with
  | nil => rfl
  | cons e es ih => simp [runIdx, ih]

theorem runIdx_get (p : Int) (es : List Elt) (i : Nat) (hi : i < es.length) :
    (runIdx p es)[i]? = some (specIdxFrom p es i) := by
  induction es generalizing p i with
  | nil => simp at hi
  | cons e es ih =>
    cases i with
    | zero => simp [runIdx, specIdxFrom]
    | succ i =>
      simp only [runIdx, specIdxFrom, List.getElem?_cons_succ]
      exact ih _ i (by simpa using hi)

/-- **composite literal indices** (soundness): when `compositeLitElements` accepts a literal,
    element `i` is stored at Go's index, no index is used twice, every index is a non-negative `int`
    below the array length (arrays), and `size` is the largest index plus one (0 for `{}`). -/
theorem complit_indices (arrLen : Option Nat) (elts : List Elt) (size : Int) (keys : List Int)
    (h : litElements arrLen elts = .ok (size, keys)) :
    keys.length = elts.length ∧
    (∀ i, i < elts.length → keys[i]? = some (specIdx elts i)) ∧
    keys.Nodup ∧
    (∀ k ∈ keys, 0 ≤ k ∧ k < size ∧ k < maxInt) ∧
    (∀ n, arrLen = some n → ∀ k ∈ keys, k < (n : Int)) ∧
    (elts = [] → size = 0) ∧ (elts ≠ [] → size - 1 ∈ keys) := by
  unfold litElements at h
  cases hl : litLoop arrLen {} elts with
  | error e => simp [hl] at h
  | ok st =>
    simp only [hl] at h
    injection h with h
    injection h with hs hk
    subst hs; subst hk
    obtain ⟨inv, hkeys⟩ := litLoop_inv elts (litInv_init arrLen) hl
    have hkeys' : st.keys = runIdx (-1) elts := by simpa using hkeys
    have hlen : st.keys.length = elts.length := by rw [hkeys', runIdx_length]
    refine ⟨hlen, ?_, inv.nodup, ?_, inv.arr, ?_, ?_⟩
    · intro i hi
      rw [hkeys']
      exact runIdx_get (-1) elts i hi
    · intro k hk
      exact ⟨(inv.bound k hk).1, (inv.bound k hk).2, inv.repr k hk⟩
    · intro he
      apply inv.empty
      subst he
      simpa [runIdx] using hkeys'
    · intro he
      apply inv.maxIn
      intro hnil
      rw [hnil] at hlen
      cases elts with
      | nil => exact he rfl
      | cons _ _ => simp at hlen

/-- Go's validity of a literal, stated on the specification indices -/
def specValid (arrLen : Option Nat) (elts : List Elt) : Prop :=
  (∀ e ∈ elts, e ≠ .nonconst) ∧
  (∀ i, i < elts.length → 0 ≤ specIdx elts i ∧ specIdx elts i < maxInt) ∧
  (∀ n, arrLen = some n → ∀ i, i < elts.length → specIdx elts i < (n : Int)) ∧
  (∀ i j, i < j → j < elts.length → specIdx elts i ≠ specIdx elts j)

theorem litLoop_complete {arrLen : Option Nat} : ∀ (es : List Elt) (st : LitState),
    LitInv arrLen st →
    (∀ e ∈ es, e ≠ .nonconst) →
    (∀ i, i < es.length → 0 ≤ specIdxFrom st.lastkey es i ∧ specIdxFrom st.lastkey es i < maxInt) →
    (∀ n, arrLen = some n → ∀ i, i < es.length → specIdxFrom st.lastkey es i < (n : Int)) →
    (∀ i, i < es.length → specIdxFrom st.lastkey es i ∉ st.keys) →
    (∀ i j, i < j → j < es.length → specIdxFrom st.lastkey es i ≠ specIdxFrom st.lastkey es j) →
    ∃ st', litLoop arrLen st es = .ok st'
  | [], st, _, _, _, _, _, _ => ⟨st, rfl⟩
  | e :: es, st, inv, hnc, hr, ha, hnew, hd => by
    have h0 := hr 0 (by simp)
    simp only [specIdxFrom] at h0
    obtain ⟨st1, hs⟩ := litStep_complete inv (hnc e (by simp)) h0.1 h0.2
      (fun n hn => by have := ha n hn 0 (by simp); simpa [specIdxFrom] using this)
      (by have := hnew 0 (by simp); simpa [specIdxFrom] using this)
    obtain ⟨inv1, hk1, hl1⟩ := litStep_inv inv hs
    have ih := litLoop_complete es st1 inv1 (fun x hx => hnc x (by simp [hx]))
      (fun i hi => by
        have := hr (i + 1) (by simpa using hi)
        simpa [specIdxFrom, hl1] using this)
      (fun n hn i hi => by
        have := ha n hn (i + 1) (by simpa using hi)
        simpa [specIdxFrom, hl1] using this)
      (fun i hi => by
        rw [hk1, hl1]
        intro hm
        rcases List.mem_append.1 hm with hm | hm
        · have := hnew (i + 1) (by simpa using hi)
          exact this (by simpa [specIdxFrom] using hm)
        · have := hd 0 (i + 1) (by omega) (by simpa using hi)
          simp only [specIdxFrom] at this
          exact this (List.mem_singleton.1 hm).symm)
      (fun i j hij hj => by
        have := hd (i + 1) (j + 1) (by omega) (by simpa using hj)
        simpa [specIdxFrom, hl1] using this)
    obtain ⟨st2, h2⟩ := ih
    exact ⟨st2, by simp [litLoop, hs, h2]⟩

/-- **composite literal indices** (completeness): every literal valid by Go's rule is accepted -/
theorem complit_complete (arrLen : Option Nat) (elts : List Elt) (h : specValid arrLen elts) :
    ∃ size keys, litElements arrLen elts = .ok (size, keys) := by
  obtain ⟨h1, h2, h3, h4⟩ := h
  obtain ⟨st, hst⟩ := litLoop_complete (arrLen := arrLen) elts {} (litInv_init arrLen) h1
    (fun i hi => h2 i hi) (fun n hn i hi => h3 n hn i hi) (fun i _ => by simp) (fun i j hij hj => h4 i j hij hj)
  exact ⟨st.size, st.keys, by simp [litElements, hst]⟩

/-- duplicate constant keys are rejected -/
theorem complit_duplicate_rejected (arrLen : Option Nat) (elts : List Elt) (i j : Nat)
    (hij : i < j) (hj : j < elts.length) (hdup : specIdx elts i = specIdx elts j) :
    ∀ size keys, litElements arrLen elts ≠ .ok (size, keys) := by
  intro size keys h
  obtain ⟨hlen, hidx, hnd, _⟩ := complit_indices arrLen elts size keys h
  have hi := hidx i (by omega)
  have hj' := hidx j hj
  rw [hdup] at hi
  have hi2 : i < keys.length := by omega
  have hj2 : j < keys.length := by omega
  rw [List.getElem?_eq_getElem hi2] at hi
  rw [List.getElem?_eq_getElem hj2] at hj'
  have : keys[i] = keys[j] := by
    injection hi with hi; injection hj' with hj'; rw [hi, hj']
  exact (List.pairwise_iff_getElem.1 hnd) i j hi2 hj2 hij this

/-! ## per-kind arms (regenerated table) -/

/-- TABLE OBLIGATION over the arms regenerated from fast/index.go: every arm of `vectorIndex` and
    `mapIndex1` (constant and variable index/key) is sound and every element kind has exactly one -/
theorem index_table_sound : tableSound Gen.IndexArms.arms = true := by decide

/-- a sound arm returns the stored integer element unchanged, for every value of the element kind -/
theorem arm_read_identity (a : Arm) (v : Int) (hs : a.sound = true) (hv : a.kind.fitsInt v)
    (hint : a.kind.intInfo.isSome = true) : a.readInt v = some v := by
  obtain ⟨fn, kind, ret, acc, conv, uses⟩ := a
  simp only [Arm.sound, Bool.and_eq_true, Bool.or_eq_true, beq_iff_eq, bne_iff_ne] at hs
  obtain ⟨⟨⟨⟨_, hret⟩, hacc⟩, huse⟩, hconv⟩ := hs
  simp only at hret hacc huse hconv hv hint
  subst hret hacc huse
  simp only [Arm.readInt, and_self, if_true]
  cases ret <;> simp [EKind.intInfo] at hint <;>
    rcases hconv with (h | ⟨h, h2⟩) | ⟨h, h2⟩ <;>
    simp_all [accOf, accType, wrapTo, EKind.intInfo, EKind.fitsInt] <;> omega

/-- hence every integer arm of the real table is the identity on its kind -/
theorem table_read_identity (a : Arm) (ha : a ∈ Gen.IndexArms.arms) (v : Int)
    (hint : a.kind.intInfo.isSome = true) (hv : a.kind.fitsInt v) : a.readInt v = some v := by
  have := index_table_sound
  simp only [tableSound, Bool.and_eq_true, List.all_eq_true] at this
  exact arm_read_identity a v (this.1 a ha) hv hint

end Composite

/-! ## specification side: GoSpec.Heap -/

namespace GoSpec.Heap

/-- **append within capacity aliases**: the result shares array, offset and capacity with `s`; the
    new elements are written into the shared backing array right after `s` (so they are visible
    through every other slice of that array) and no other cell of the heap changes. -/
theorem append_alias_spec (grow : Nat → Nat → Nat) (h : Heap) (s : Slice) (vs : List Int)
    (hwf : WF h s) (hne : vs ≠ []) (hfit : s.len + vs.length ≤ s.cap) :
    let r := append grow h s vs
    r.2.arr = s.arr ∧ r.2.off = s.off ∧ r.2.cap = s.cap ∧ r.2.len = s.len + vs.length ∧
    r.1.length = h.length ∧
    (∀ j, j < vs.length → cell r.1 s.arr (s.off + s.len + j) = vs.getD j 0) ∧
    (∀ a i, ¬ (a = s.arr ∧ s.off + s.len ≤ i ∧ i < s.off + s.len + vs.length) → cell r.1 a i = cell h a i) := by
  intro r
  have hl : vs.length ≠ 0 := by cases vs <;> simp_all
  have hr : r = (setArr h s.arr (writeBlock (getArr h s.arr) (s.off + s.len) vs), { s with len := s.len + vs.length }) := by
    simp [r, append, hl, hfit]
  obtain ⟨_, hcap⟩ := hwf
  have hcap0 : s.cap ≠ 0 := by omega
  obtain ⟨harr, hin⟩ := hcap.resolve_left hcap0
  rw [hr]
  refine ⟨rfl, rfl, rfl, rfl, setArr_length _ _ _, ?_, ?_⟩
  · intro j hj
    simp only [cell, getArr_setArr, harr, and_self, if_true, writeBlock_getD]
    have : s.off + s.len + j < (getArr h s.arr).length := by omega
    simp [this, hj]
  · intro a i hn
    simp only [cell, getArr_setArr]
    by_cases ha : s.arr = a
    · subst ha
      simp only [harr, and_self, if_true, writeBlock_getD]
      by_cases hi : i < (getArr h s.arr).length
      · have : ¬ (s.off + s.len ≤ i ∧ i - (s.off + s.len) < vs.length) := by
          intro hc; apply hn; refine ⟨rfl, hc.1, ?_⟩; omega
        simp [hi, this]
      · simp only [hi, if_false]
        rw [List.getD_eq_getElem?_getD, List.getElem?_eq_none (by omega)]
        rfl
    · simp [ha]

/-- **append beyond capacity reallocates**: a fresh array is allocated, every existing array (hence
    every alias of the old backing array) is untouched, and the result holds the old elements
    followed by the new ones. -/
theorem append_realloc_spec (grow : Nat → Nat → Nat) (h : Heap) (s : Slice) (vs : List Int)
    (hlc : s.len ≤ s.cap) (hover : s.cap < s.len + vs.length) :
    let r := append grow h s vs
    r.2.arr = h.length ∧ r.2.off = 0 ∧ r.2.len = s.len + vs.length ∧ r.2.len ≤ r.2.cap ∧
    r.1.length = h.length + 1 ∧
    (∀ a, a < h.length → getArr r.1 a = getArr h a) ∧
    contents r.1 r.2 = contents h s ++ vs := by
  intro r
  have hl : vs.length ≠ 0 := by omega
  have hnf : ¬ s.len + vs.length ≤ s.cap := by omega
  have hclen : (contents h s).length = s.len := by simp [contents, readBlock_length]
  have hr : r = (h ++ [contents h s ++ vs ++ List.replicate (grow s.cap (s.len + vs.length) - (contents h s ++ vs).length) 0],
      ⟨h.length, 0, s.len + vs.length, Nat.max (grow s.cap (s.len + vs.length)) (contents h s ++ vs).length⟩) := by
    simp [r, append, hl, hnf]
  rw [hr]
  refine ⟨rfl, rfl, rfl, ?_, by simp, ?_, ?_⟩
  · simp only [List.length_append, hclen]; exact Nat.le_max_right _ _
  · intro a ha; exact getArr_append_left h _ a ha
  · simp only [contents, getArr_append_new]
    apply List.ext_getElem?
    intro k
    by_cases hk : k < s.len + vs.length
    · have hk2 : k < (readBlock (getArr h s.arr) s.off s.len ++ vs).length := by
        simp [readBlock_length]; exact hk
      simp only [readBlock, Nat.zero_add]
      rw [List.getElem?_map, List.getElem?_range hk]
      simp only [Option.map_some]
      rw [List.getD_eq_getElem?_getD, List.getElem?_append_left (by simpa [readBlock] using hk2)]
      cases hg : (List.map (fun k => (getArr h s.arr).getD (s.off + k) 0) (List.range s.len) ++ vs)[k]? with
      | none => rw [List.getElem?_eq_none_iff] at hg; simp [readBlock] at hk2; simp at hg; omega
      | some x => rfl
    · have h1 : (readBlock (contents h s ++ vs ++ List.replicate (grow s.cap (s.len + vs.length) - (contents h s ++ vs).length) 0) 0 (s.len + vs.length))[k]? = none := by
        rw [List.getElem?_eq_none_iff, readBlock_length]; omega
      have h2 : (readBlock (getArr h s.arr) s.off s.len ++ vs)[k]? = none := by
        rw [List.getElem?_eq_none_iff]; simp [readBlock_length]; omega
      simp only [contents] at h1
      rw [h1, h2]

/-- **copy is memmove**: `copy(dst, src)` returns min(len(dst), len(src)) and afterwards
    `dst[i]` = the value `src[i]` had BEFORE the call, for every i below that count, even when the
    two slices overlap in either direction; no other cell changes. -/
theorem copy_overlap_spec (h : Heap) (dst src : Slice) (hd : WF h dst) (hs : WF h src) :
    let r := copy h dst src
    r.2 = Nat.min dst.len src.len ∧
    r.1.length = h.length ∧
    (∀ i, i < r.2 → cell r.1 dst.arr (dst.off + i) = cell h src.arr (src.off + i)) ∧
    (∀ a i, ¬ (a = dst.arr ∧ dst.off ≤ i ∧ i < dst.off + r.2) → cell r.1 a i = cell h a i) := by
  intro r
  by_cases hn : Nat.min dst.len src.len = 0
  · have hr : r = (h, 0) := by simp [r, copy, hn]
    rw [hr]
    exact ⟨hn.symm, rfl, fun i hi => absurd hi (by simp), fun _ _ _ => rfl⟩
  · have hr : r = (setArr h dst.arr (writeBlock (getArr h dst.arr) dst.off
        (readBlock (getArr h src.arr) src.off (Nat.min dst.len src.len))), Nat.min dst.len src.len) := by
      simp [r, copy, hn]
    have hmin1 : Nat.min dst.len src.len ≤ dst.len := Nat.min_le_left _ _
    obtain ⟨hdl, hdc⟩ := hd
    have hdcap : dst.cap ≠ 0 := by omega
    obtain ⟨harr, hin⟩ := hdc.resolve_left hdcap
    rw [hr]
    refine ⟨rfl, setArr_length _ _ _, ?_, ?_⟩
    · intro i hi
      simp only at hi
      simp only [cell, getArr_setArr, harr, and_self, if_true, writeBlock_getD, readBlock_length]
      have h1 : dst.off + i < (getArr h dst.arr).length := by omega
      have h2 : dst.off ≤ dst.off + i ∧ dst.off + i - dst.off < Nat.min dst.len src.len := by
        constructor <;> omega
      simp only [h1, h2, and_self, if_true]
      rw [readBlock_getD _ _ _ _ (by omega)]
      congr 1
      omega
    · intro a i hni
      simp only at hni
      simp only [cell, getArr_setArr]
      by_cases ha : dst.arr = a
      · subst ha
        simp only [harr, and_self, if_true, writeBlock_getD, readBlock_length]
        by_cases hi : i < (getArr h dst.arr).length
        · have : ¬ (dst.off ≤ i ∧ i - dst.off < Nat.min dst.len src.len) := by
            intro hc; apply hni; refine ⟨rfl, hc.1, ?_⟩; omega
          simp [hi, this]
        · simp only [hi, if_false]
          rw [List.getD_eq_getElem?_getD, List.getElem?_eq_none (by omega)]
          rfl
      · simp [ha]

/-- **arrays are values**: after `a = b` both hold b's elements, and a later write to one of them
    does not change the other. -/
theorem array_assign_copies (h : Heap) (a b : Nat) (hab : a ≠ b) (ha : a < h.length) (hb : b < h.length) :
    let h1 := assignArr h a b
    getArr h1 a = getArr h b ∧ getArr h1 b = getArr h b ∧
    (∀ x, getArr (setArr h1 a x) b = getArr h b) ∧
    (∀ x, getArr (setArr h1 b x) a = getArr h b) := by
  intro h1
  have e1 : getArr h1 a = getArr h b := by simp [h1, assignArr, getArr_setArr, ha]
  have e2 : getArr h1 b = getArr h b := by simp [h1, assignArr, getArr_setArr, hab]
  refine ⟨e1, e2, ?_, ?_⟩
  · intro x; rw [getArr_setArr]; simp [hab, e2]
  · intro x; rw [getArr_setArr]; simp [Ne.symm hab, e1]

end GoSpec.Heap

/-! ## non-vacuity: concrete non-trivial instances of the hypotheses / statements -/

namespace Composite

-- a uint64 index above MaxInt64 fits its kind, is converted to a negative int and panics
example : IKind.uint64.fits 18446744073709551615 ∧ IKind.uint64 ≠ .untyped := by decide
example : wrapInt 18446744073709551615 = -1 ∧ indexRun 3 (wrapInt 18446744073709551615) = none := by decide
example : indexRun 3 (wrapInt 2) = some 2 := by decide
example : indexOutcome ⟨true, true⟩ .parray 3 true ⟨.uint8, false, 2⟩ = .ok 2 := by decide
example : indexOutcome ⟨true, true⟩ .slice 3 false ⟨.uint64, false, 9223372036854775809⟩ = .panic := by decide
-- the same value as a typed constant: rejected at compile time (wrapped and panicking before 457e90b)
example : indexOutcome ⟨true, true⟩ .slice 3 false ⟨.uint64, true, 9223372036854775809⟩ = .cerr := by decide
example : indexOutcome ⟨true, false⟩ .slice 3 false ⟨.uint64, true, 9223372036854775809⟩ = .panic := by decide
example : indexOutcome ⟨true, true⟩ .array 3 true ⟨.int64, true, -9223372036854775808⟩ = .panic := by decide
example : indexOutcome ⟨true, true⟩ .array 3 false ⟨.uint8, true, 2⟩ = .ok 2 := by decide
-- run-time bounds of mixed kinds
example : VarArg ⟨.uint8, false, 1⟩ ∧ VarArg ⟨.int64, false, 4⟩ := by unfold VarArg; decide
example : sliceOutcome ⟨true, true⟩ ⟨.slice, 2, 5, some ⟨.uint8, false, 1⟩, some ⟨.int64, false, 4⟩, none, false⟩ = .ok ⟨1, 3, 4⟩ := by decide
example : sliceOutcome ⟨true, true⟩ ⟨.slice, 2, 5, some ⟨.uint8, false, 3⟩, none, none, false⟩ = .panic := by decide
example : sliceOutcome ⟨true, true⟩ ⟨.array, 4, 4, some ⟨.int, false, 1⟩, some ⟨.uint16, false, 2⟩, some ⟨.uint64, false, 3⟩, true⟩ = .ok ⟨1, 1, 2⟩ := by decide
example : sliceOutcome ⟨true, true⟩ ⟨.str, 3, 3, none, some ⟨.uint64, false, 18446744073709551615⟩, none, false⟩ = .panic := by decide
example : sliceOutcome ⟨true, true⟩ ⟨.cstr, 3, 3, some ⟨.untyped, true, -1⟩, none, none, false⟩ = .cerr := by decide
example : sliceOutcome ⟨true, true⟩ ⟨.slice, 2, 5, some ⟨.uint64, true, 18446744073709551615⟩, none, none, false⟩ = .cerr := by decide
-- literals: keys, gaps, typed keys; duplicates and out-of-bounds rejected
example : litElements none [.keyed .untyped 2, .pos, .keyed .uint8 0, .pos] = .ok (4, [2, 3, 0, 1]) := by rfl
example : litValue none [.keyed .untyped 2, .pos, .keyed .uint8 0] [100, 101, 102] = .ok [102, 0, 100, 101] := by rfl
example : litElements none [.keyed .untyped 1, .keyed .untyped 0, .pos] = .error .dup := by rfl
example : litElements (some 2) [.pos, .pos, .pos] = .error .oob := by rfl
example : specIdx [.keyed .untyped 2, .pos, .keyed .uint8 0, .pos] 3 = 1 := by decide
-- the arm of uint16 truncating through uint8 is NOT sound, and reads wrongly
example : Arm.sound ⟨.vecVar, .uint16, .uint16, .uint, .uint8, true⟩ = false := by decide
example : Arm.readInt ⟨.vecVar, .uint16, .uint16, .uint, .uint8, true⟩ 65533 = some 253 := by decide
example : Arm.readInt ⟨.vecVar, .int8, .int8, .int, .int8, true⟩ (-127) = some (-127) := by decide

end Composite

namespace GoSpec.Heap

example : WF [[1, 2, 3, 0, 0]] ⟨0, 0, 3, 5⟩ := by unfold WF; decide
-- append within capacity writes into the shared array; beyond capacity it leaves it alone
example : append goGrow [[1, 2, 3, 0, 0]] ⟨0, 0, 3, 5⟩ [7] = ([[1, 2, 3, 7, 0]], ⟨0, 0, 4, 5⟩) := by decide
example : append goGrow [[1, 2, 3]] ⟨0, 0, 3, 3⟩ [7] = ([[1, 2, 3], [1, 2, 3, 7, 0, 0]], ⟨1, 0, 4, 6⟩) := by decide
-- overlapping append / copy have memmove semantics
example : (appendSlice goGrow [[0, 1, 2, 3, 4]] ⟨0, 0, 2, 5⟩ ⟨0, 1, 3, 4⟩).1 = [[0, 1, 1, 2, 3]] := by decide
example : copy [[1, 2, 3, 4, 5]] ⟨0, 1, 4, 4⟩ ⟨0, 0, 5, 5⟩ = ([[1, 1, 2, 3, 4]], 4) := by decide
example : copy [[1, 2, 3, 4, 5]] ⟨0, 0, 5, 5⟩ ⟨0, 2, 3, 3⟩ = ([[3, 4, 5, 4, 5]], 3) := by decide

end GoSpec.Heap
