import Proofs.UntypedConv
/-!
# C04 — untyped constant expressions are exact and agree with Go's constant arithmetic

Model: `Model/Untyped.lean` (gomacro's `BinaryExprUntyped`, `ShiftUntyped`, `UnaryExprUntyped`,
`real/imag/complex` on untyped constants, `Lit.Convert`, `BigInt/BigRat/BigFloat`, with the
repairs fixes/C04-*.diff).  Specification: `GoSpec/Const.lean` (exact `Int`/`Rat` arithmetic, kind
lattice, representability).  `abs` maps an `untyped.Lit` to the mathematical constant it denotes,
`Lit.wf` is the representation invariant "Lit.Kind agrees with Val.Kind()".

All theorems quantify over ALL values (arbitrary precision), all kinds and all operators.
PARTIAL items are named `..._partial`: for float/complex targets only acceptance (range) and the
pre-rounding value are characterised — the rounded float itself is outside the model.
-/
namespace Untyped
open GoSpec.Const

/-! ### binary operators -/

/-- Every binary operator (`+ - * / % & | ^ &^ << >> == != < <= > >= && ||`) of
    `Comp.BinaryExprUntyped`, on any two well-formed untyped constants, yields exactly the constant
    of the specification — same exact value, same untyped kind (`max` in `int < rune < float < complex`),
    same rejections (mixed classes, `%` on floats, division by zero, invalid shifts, `<` on complex …) —
    and re-establishes the representation invariant. -/
theorem untyped_binop_exact (op : BinOp) (x y : Lit) (hx : x.wf = true) (hy : y.wf = true) :
    (binaryExprUntyped op x y).map abs = binop op (abs x) (abs y) ∧
    ∀ z, binaryExprUntyped op x y = some z → z.wf = true :=
  ⟨binop_refines op x y hx hy, fun z h => binop_wf op x y z h⟩

example : binaryExprUntyped .quo ⟨.rune, .int 7⟩ ⟨.float, .flt 2⟩ = some ⟨.float, .flt (7 / 2)⟩ := by decide +kernel
example : binaryExprUntyped .add ⟨.string, .str "a"⟩ ⟨.int, .int 1⟩ = none := by decide +kernel

/-! ### whole expression trees -/

def absE : UExpr → Expr
  | .lit l => .lit (abs l)
  | .un op e => .un op (absE e)
  | .bin op a b => .bin op (absE a) (absE b)
  | .real e => .real (absE e)
  | .imag e => .imag (absE e)
  | .cmplx a b => .cmplx (absE a) (absE b)

/-- all literals of the tree satisfy the representation invariant (true for every literal the
    scanner produces: `BasicLit` pairs token.INT/CHAR/FLOAT/IMAG with Int/Int/Float/Complex values) -/
def UExpr.wf : UExpr → Prop
  | .lit l => l.wf = true
  | .un _ e => e.wf
  | .bin _ a b => a.wf ∧ b.wf
  | .real e => e.wf
  | .imag e => e.wf
  | .cmplx a b => a.wf ∧ b.wf

/-- Every untyped constant expression tree (any depth, any mix of operators, `real`, `imag`,
    `complex`) evaluates in the model to exactly the value and kind of the specification, or is
    rejected exactly when the specification rejects it. -/
theorem untyped_expr_exact (e : UExpr) (he : e.wf) :
    (eval e).map abs = GoSpec.Const.eval (absE e) ∧ ∀ z, eval e = some z → z.wf = true := by
  induction e with
  | lit l => exact ⟨rfl, fun z h => by simp [eval] at h; subst h; exact he⟩
  | un op e ih =>
    obtain ⟨ih1, ih2⟩ := ih he
    simp only [eval, GoSpec.Const.eval, absE]
    rw [← ih1]
    cases hv : eval e with
    | none => simp
    | some v =>
      have hw := ih2 v hv
      exact ⟨by simpa using unop_refines op v hw, fun z h => unop_wf op v hw z (by simpa using h)⟩
  | bin op a b iha ihb =>
    obtain ⟨ha1, ha2⟩ := iha he.1
    obtain ⟨hb1, hb2⟩ := ihb he.2
    simp only [eval, GoSpec.Const.eval, absE]
    rw [← ha1, ← hb1]
    cases hva : eval a with
    | none => simp
    | some va =>
      cases hvb : eval b with
      | none => simp
      | some vb =>
        exact ⟨by simpa using binop_refines op va vb (ha2 va hva) (hb2 vb hvb),
               fun z h => binop_wf op va vb z (by simpa using h)⟩
  | real e ih =>
    obtain ⟨ih1, ih2⟩ := ih he
    simp only [eval, GoSpec.Const.eval, absE]
    rw [← ih1]
    cases hv : eval e with
    | none => simp
    | some v =>
      exact ⟨by simpa using realImag_refines true v (ih2 v hv), fun z h => realImag_wf true v z (by simpa using h)⟩
  | imag e ih =>
    obtain ⟨ih1, ih2⟩ := ih he
    simp only [eval, GoSpec.Const.eval, absE]
    rw [← ih1]
    cases hv : eval e with
    | none => simp
    | some v =>
      exact ⟨by simpa using realImag_refines false v (ih2 v hv), fun z h => realImag_wf false v z (by simpa using h)⟩
  | cmplx a b iha ihb =>
    obtain ⟨ha1, ha2⟩ := iha he.1
    obtain ⟨hb1, hb2⟩ := ihb he.2
    simp only [eval, GoSpec.Const.eval, absE]
    rw [← ha1, ← hb1]
    cases hva : eval a with
    | none => simp
    | some va =>
      cases hvb : eval b with
      | none => simp
      | some vb =>
        exact ⟨by simpa using complex_refines va vb (ha2 va hva) (hb2 vb hvb),
               fun z h => complex_wf va vb z (ha2 va hva) (hb2 vb hvb) (by simpa using h)⟩

example : eval (.bin .sub (.bin .shl (.lit ⟨.int, .int 1⟩) (.lit ⟨.float, .flt 100⟩)) (.real (.lit ⟨.complex, .cplx (1/2) 3⟩)))
    = some ⟨.float, .flt (1267650600228229401496703205376 - 1 / 2)⟩ := by decide +kernel

/-! ### integer division -/

/-- `/` between two integer-kind constants (int or rune) truncates toward zero:
    `a = q*b + r` with `|r| < |b|` and `r` having the sign of `a`; the kind is the later of the two. -/
theorem untyped_int_quo_truncates (kx ky : UKind) (hkx : isIntKind kx = true) (hky : isIntKind ky = true)
    (a b : Int) (hb : b ≠ 0) :
    ∃ k q r, binaryExprUntyped .quo ⟨kx, .int a⟩ ⟨ky, .int b⟩ = some ⟨k, .int q⟩ ∧
      nkind k = NKind.max (nkind kx) (nkind ky) ∧
      a = q * b + r ∧ r.natAbs < b.natAbs ∧ (0 ≤ a → 0 ≤ r) ∧ (a ≤ 0 → r ≤ 0) := by
  have hr : (Int.tmod a b).natAbs < b.natAbs := by
    rw [Int.natAbs_tmod]; exact Nat.mod_lt _ (by omega)
  have hneg : a ≤ 0 → Int.tmod a b ≤ 0 := by
    intro ha
    have h1 := Int.tmod_nonneg b (a := -a) (by omega)
    rw [Int.neg_tmod] at h1; omega
  have hsum := (Int.tdiv_mul_add_tmod a b).symm
  have key : ∀ (kx ky k : UKind), isIntKind kx = true → isIntKind ky = true →
      k = (if kx ≠ .int then kx else if ky ≠ .int then ky else .int) →
      binaryExprUntyped .quo ⟨kx, .int a⟩ ⟨ky, .int b⟩ = some ⟨k, .int (Int.tdiv a b)⟩ ∧
      nkind k = NKind.max (nkind kx) (nkind ky) := by
    intro kx ky k h1 h2 hk
    subst hk
    cases kx <;> simp [isIntKind] at h1 <;> cases ky <;> simp [isIntKind] at h2 <;>
    simp [binaryExprUntyped, untypedClass, isIntKind, cBinaryOp, cmatch, hb, resultKind, makeKind, nkind, NKind.max, NKind.rank]
  obtain ⟨h1, h2⟩ := key kx ky _ hkx hky rfl
  exact ⟨_, Int.tdiv a b, Int.tmod a b, h1, h2, hsum, hr, Int.tmod_nonneg b, hneg⟩

example : binaryExprUntyped .quo ⟨.int, .int (-7)⟩ ⟨.rune, .int 2⟩ = some ⟨.rune, .int (-3)⟩ := by decide +kernel

/-! ### shifts -/

/-- `x << n` is `x·2^n`, `x >> n` is `⌊x / 2^n⌋` (for negative `x` too), for every left operand that is
    representable as an integer (of any kind: `1.0`, `8+0i`) and every count representable as `uint`
    (of any kind); the result is an integer constant, rune if the operand was a rune; any other
    operand/count is rejected. -/
theorem untyped_shift_exact (x y : Lit) (hx : x.wf = true) (hy : y.wf = true) :
    (∀ m n, (abs x).asInteger = some m → (abs y).asInteger = some n → 0 ≤ n → n < 2 ^ 64 →
      binaryExprUntyped .shl x y = some ⟨if x.kind = .rune then .rune else .int, .int (m * 2 ^ n.toNat)⟩ ∧
      ∃ z, binaryExprUntyped .shr x y = some ⟨if x.kind = .rune then .rune else .int, .int z⟩ ∧
           z * 2 ^ n.toNat ≤ m ∧ m < (z + 1) * 2 ^ n.toNat) ∧
    (((abs x).asInteger = none ∨ (abs y).asInteger = none ∨ (∃ n, (abs y).asInteger = some n ∧ (n < 0 ∨ 2 ^ 64 ≤ n))) →
      binaryExprUntyped .shl x y = none ∧ binaryExprUntyped .shr x y = none) := by
  rw [asInteger_abs x hx, asInteger_abs y hy]
  have hxn := shift_xn_eq x hx
  constructor
  · intro m n hm hn h0 h1
    have hin : inUint64 n = true := by simp [inUint64]; omega
    have hpos : (0 : Int) < 2 ^ n.toNat := Int.pow_pos (by decide)
    refine ⟨by simp [binaryExprUntyped, shiftUntyped, hxn, hm, hn, hin, cShift, Int.shiftLeft_eq], m / 2 ^ n.toNat, ?_, ?_, ?_⟩
    · simp [binaryExprUntyped, shiftUntyped, hxn, hm, hn, hin, cShift, Int.shiftRight_eq_div_pow, Int.natCast_pow]
    · exact Int.ediv_mul_le m (by omega)
    · exact Int.lt_ediv_add_one_mul_self m hpos
  · intro h
    rcases h with h | h | ⟨n, hn, h⟩
    · cases hyv : cToInt y.val <;> simp [binaryExprUntyped, shiftUntyped, hxn, h, hyv]
    · simp [binaryExprUntyped, shiftUntyped, h]
    · have hin : inUint64 n = false := by
        simp only [inUint64, Bool.and_eq_false_iff, decide_eq_false_iff_not]; omega
      simp [binaryExprUntyped, shiftUntyped, hn, hin]

example : binaryExprUntyped .shr ⟨.int, .int (-5)⟩ ⟨.float, .flt 1⟩ = some ⟨.int, .int (-3)⟩ := by decide +kernel
example : binaryExprUntyped .shl ⟨.float, .flt (3/2)⟩ ⟨.int, .int 1⟩ = none := by decide +kernel

/-! ### comparisons -/

theorem abs_bool_inv (z : Lit) (hz : z.wf = true) (b : Bool) (h : abs z = .bool b) : z = ⟨.bool, .bool b⟩ := by
  rcases Lit.wf_cases hz with ⟨b', rfl⟩ | ⟨s, rfl⟩ | ⟨n, rfl⟩ | ⟨n, rfl⟩ | ⟨q, rfl⟩ | ⟨a, c, rfl⟩ <;>
  simp [abs] at h ⊢
  exact h

/-- Comparisons of real numeric constants of any kinds (int, rune, float mixed) decide the order of
    the exact values and give an untyped boolean; `cmpOrd` spells out the six operators from
    "less" and "equal". Complex operands allow only `==`/`!=` (componentwise); booleans only `==`/`!=`;
    strings compare lexicographically — all contained in `untyped_binop_exact`. -/
theorem untyped_compare_spec (op : BinOp) (hop : op.isCompare = true) (x y : Lit) (hx : x.wf = true) (hy : y.wf = true)
    (kx ky : NKind) (vx vy : Cx) (hax : abs x = .num kx vx) (hay : abs y = .num ky vy)
    (hkx : kx ≠ .complex) (hky : ky ≠ .complex) :
    binaryExprUntyped op x y =
      some ⟨.bool, .bool (cmpOrd op (decide (vx.re < vy.re)) (decide (vx.re = vy.re)))⟩ := by
  have h := compare_refines op hop x y hx hy
  rw [hax, hay] at h
  have hb : binop op (Val.num kx vx) (Val.num ky vy) =
      some (.bool (cmpOrd op (decide (vx.re < vy.re)) (decide (vx.re = vy.re)))) := by
    cases op <;> simp [BinOp.isCompare] at hop <;> simp [binop, compareOp, hkx, hky]
  rw [hb] at h
  cases hz : binaryExprUntyped op x y with
  | none => simp [hz] at h
  | some z =>
    simp [hz] at h
    rw [abs_bool_inv z (binop_wf op x y z hz) _ h]

example : binaryExprUntyped .lss ⟨.rune, .int 97⟩ ⟨.float, .flt (195/2)⟩ = some ⟨.bool, .bool true⟩ := by decide +kernel

/-! ### complex quotient -/

/-- the quotient go/constant's formula produces is exact: multiplied back by the divisor it gives
    the dividend (all of ℚ[i], divisor ≠ 0) -/
theorem untyped_complex_quo_exact (a b c d e f : Rat)
    (h : cBinaryOp (.cplx a b) (.op .quo) (.cplx c d) = some (.cplx e f)) :
    Cx.mul ⟨e, f⟩ ⟨c, d⟩ = ⟨a, b⟩ := by
  simp only [cBinaryOp, cmatch] at h
  split at h
  · simp at h
  · rename_i hs
    simp only [Option.some.injEq, CVal.cplx.injEq] at h
    obtain ⟨rfl, rfl⟩ := h
    have := cx_div_mul_cancel a b c d hs
    rw [cx_div_formula a b c d hs] at this
    exact this

example : cBinaryOp (.cplx 1 2) (.op .quo) (.cplx 3 4) = some (.cplx (11/25) (2/25)) := by decide +kernel

/-! ### typed contexts -/

/-- `Lit.Convert` (extractNumber + "convert, convert back, compare") to an integer type of width
    8/16/32/64 accepts a constant iff it is representable: an integer value (whatever its kind:
    `65`, `'A'`, `65.0`, `65+0i`) with `min_T ≤ n ≤ max_T`; and then the typed value is `n`. -/
theorem convert_accepts_iff_representable (l : Lit) (hl : l.wf = true) (t : IntT) (ht : IntT.std t) :
    (convert l (.int t)).isSome = true ↔ representableInt t (abs l) := by
  rw [convert_int_eq l hl t ht]
  cases abs l with
  | bool b => simp [representableInt]
  | str s => simp [representableInt]
  | num k c =>
    simp only [representableInt]
    by_cases hc : c.im = 0 ∧ c.re.den = 1 ∧ t.min ≤ c.re.num ∧ c.re.num ≤ t.max <;> simp [hc]

/-- ... and the typed value of an accepted constant is that integer -/
theorem convert_int_value (l : Lit) (hl : l.wf = true) (t : IntT) (ht : IntT.std t) (v : TVal)
    (h : convert l (.int t) = some v) :
    ∃ k c, abs l = .num k c ∧ c.im = 0 ∧ c.re.den = 1 ∧ v = .int c.re.num := by
  rw [convert_int_eq l hl t ht] at h
  cases hv : abs l with
  | bool b => simp [hv] at h
  | str s => simp [hv] at h
  | num k c =>
    simp only [hv] at h
    by_cases hc : c.im = 0 ∧ c.re.den = 1 ∧ t.min ≤ c.re.num ∧ c.re.num ≤ t.max
    · simp [hc] at h
      exact ⟨k, c, rfl, hc.1, hc.2.1, h.symm⟩
    · simp [hc] at h

example : convert ⟨.float, .flt 9007199254740993⟩ (.int ⟨true, 64⟩) = some (.int 9007199254740993) := by decide +kernel
example : convert ⟨.int, .int 128⟩ (.int ⟨true, 8⟩) = none := by decide +kernel
example : convert ⟨.complex, .cplx 200 0⟩ (.int ⟨false, 8⟩) = some (.int 200) := by decide +kernel


/-- PARTIAL (range only; the rounded float32/float64 value is not modelled): `Lit.Convert` to
    float32 (`bits = 32`) / float64 accepts a constant iff it is real (any kind, complex with zero
    imaginary part included) and rounds to a finite value, `|q| < 2^emax - 2^(emax-p-1)`; the value
    handed to the rounding step is the exact constant.
    Missing for FULL: a model of round-to-nearest-even (`constant.Float32Val/Float64Val`) to state the
    resulting float; checked against compiled Go by the correspondence run only. -/
theorem convert_accepts_iff_representable_float_partial (l : Lit) (hl : l.wf = true) (bits : Nat) :
    ((convert l (.float bits)).isSome = true ↔ representableFloat bits (abs l)) ∧
    (∀ v, convert l (.float bits) = some v → ∃ k c, abs l = .num k c ∧ v = .float c.re) := by
  rw [convert_float_eq l hl bits]
  cases abs l with
  | bool b => simp [representableFloat]
  | str s => simp [representableFloat]
  | num k c =>
    simp only [representableFloat, roundsToFinite]
    by_cases hc : c.im = 0 ∧ Rat.abs' c.re < floatLimit bits
    · simp [hc]; exact ⟨k, c, ⟨rfl, rfl⟩, rfl⟩
    · simp [hc]

/-- PARTIAL (range only), complex64 (`bits = 64`) / complex128 targets: accepted iff numeric and both
    parts round to finite values of the part type -/
theorem convert_accepts_iff_representable_complex_partial (l : Lit) (hl : l.wf = true) (bits : Nat) :
    (convert l (.complex bits)).isSome = true ↔ representableComplex (bits / 2) (abs l) := by
  rw [convert_complex_eq l hl bits]
  cases abs l with
  | bool b => simp [representableComplex]
  | str s => simp [representableComplex]
  | num k c =>
    simp only [representableComplex, roundsToFinite]
    by_cases hc : Rat.abs' c.re < floatLimit (bits / 2) ∧ Rat.abs' c.im < floatLimit (bits / 2) <;> simp [hc]

example : convert ⟨.float, .flt 1⟩ (.float 32) = some (.float 1) := by decide +kernel
example : convert ⟨.int, .int (2 ^ 128)⟩ (.float 32) = none := by decide +kernel

/-! ### math/big targets -/

/-- The fast-path cascade of `BigInt/BigRat/BigFloat` (int64, uint64, float64 fast paths, then the raw
    bignum): whichever path fires, `*big.Int` holds the exact value iff the constant is an integer
    (else the conversion is refused), `*big.Rat` always holds the exact value, `*big.Float` holds the
    exact value whenever it is representable in binary (denominator a power of two) and is flagged
    rounded otherwise; complex constants are refused. -/
theorem big_cascade_exact (l : Lit) (hl : l.wf = true) :
    (toMathBig l .int = match abs l with
      | .num k v => if k ≠ .complex ∧ v.re.den = 1 then some (.int v.re.num) else none
      | _ => none) ∧
    (toMathBig l .rat = match abs l with
      | .num k v => if k ≠ .complex then some (.rat v.re) else none
      | _ => none) ∧
    (match abs l with
      | .num k v =>
        if k = .complex then toMathBig l .float = none
        else (toMathBig l .float = some (.floatExact v.re) ∧ (isPow2 v.re.den = false → False)) ∨
             (toMathBig l .float = some .floatRounded ∧ isPow2 v.re.den = false)
      | _ => toMathBig l .float = none) :=
  toMathBig_eq l hl

example : toMathBig ⟨.float, .flt (3/8)⟩ .float = some (.floatExact (3/8)) := by decide +kernel
example : toMathBig ⟨.float, .flt (1/3)⟩ .float = some .floatRounded := by decide +kernel
example : toMathBig ⟨.float, .flt (5/2)⟩ .int = none := by decide +kernel
example : toMathBig ⟨.int, .int (2 ^ 100)⟩ .rat = some (.rat (2 ^ 100)) := by decide +kernel

/-! ### shift by a typed constant count (`prepareShift`) -/

/-- PARTIAL (unsigned count types, Int/Rune operands): `x << T(c)` / `const k T = c; x << k` with an
    untyped constant `x` is the CONSTANT shift by the value of the typed count — the result is an
    untyped constant of any size (`1 << uint(70)`), exactly as for an untyped count — whenever `T(c)`
    is a valid typed constant (see `convert_accepts_iff_representable`), and an error otherwise.
    Missing for FULL: the code rejects counts of SIGNED types (`1 << int8(3)`: reflect.Value.Uint panics)
    and Float/Complex-kind operands (`1.0 << uint(3)`), which Go accepts: known findings
    `untyped-rejects-valid-sh[lr]Ts-*`, `untyped-rejects-valid-sh[lr]Tu-(float|complex)-*`. -/
theorem untyped_shift_typed_count_partial (op : BinOp) (hop : op = .shl ∨ op = .shr) (x count : Lit)
    (hx : x.wf = true) (t : IntT) (hs : t.signed = false) (hk : isIntKind x.kind = true) :
    (∀ n, convert count (.int t) = some (.int n) →
      (shiftTypedCount op x count t).map abs = binop op (abs x) (.num .int (Cx.ofInt n))) ∧
    (convert count (.int t) = none → shiftTypedCount op x count t = none) := by
  constructor
  · intro n hn
    have := shift_refines op hop x ⟨.int, .int n⟩ hx rfl
    have hb : binaryExprUntyped op x ⟨.int, .int n⟩ = shiftUntyped op x ⟨.int, .int n⟩ := by
      rcases hop with rfl | rfl <;> rfl
    simp only [shiftTypedCount, hn, hk, hs, if_true, Bool.false_eq_true, if_false]
    rw [← hb, this]
    simp [abs, nkind]
  · intro hn
    simp [shiftTypedCount, hn]

example : shiftTypedCount .shl ⟨.int, .int 1⟩ ⟨.int, .int 70⟩ ⟨false, 8⟩ = some ⟨.int, .int 1180591620717411303424⟩ := by
  decide +kernel
example : shiftTypedCount .shl ⟨.int, .int 1⟩ ⟨.int, .int 256⟩ ⟨false, 8⟩ = none := by decide +kernel

/-! ### repeated execution of a compiled math/big conversion (`makeMathBigFun`) -/

/-- However often the closure compiled for a conversion of an untyped constant to *big.Int/Rat/Float is
    executed, and whatever the program does in place to the objects it received before (`f`, e.g.
    `x.Add(x, x)`), the i-th execution returns a NEW object (pointer `|heap| + i`, so all distinct and
    distinct from every older object) holding exactly the constant `c`. -/
theorem big_conversion_fresh (c : BigRes) (f : BigRes → BigRes) (n : Nat) (h : BigHeap) :
    (runBigFun c f n h).2 = (List.range n).map (fun i => (h.cells.length + i, some c)) := by
  induction n generalizing h with
  | zero => simp [runBigFun]
  | succ n ih =>
    simp only [runBigFun, execBigFun]
    rw [ih]
    simp only [BigHeap.modify, BigHeap.get, List.length_modify, List.length_append, List.length_singleton]
    rw [List.range_succ_eq_map]
    simp [List.map_map, Function.comp_def, Nat.add_assoc, Nat.add_comm 1]


example : (runBigFun (.int 5) (fun _ => .int 10) 3 ⟨[]⟩).2 = [(0, some (.int 5)), (1, some (.int 5)), (2, some (.int 5))] := by
  decide +kernel

end Untyped
