import Model.Quasi
import Proofs.MacroExpand
/-!
# C21  Quote and quasiquote build the documented syntax trees

Theorems about `Model/Quasi.lean` (transcription of `classic/quasiquote.go`, `base/quasiquote.go` with
`fixes/C21-*.diff` applied).  `ev` - the interpreter evaluating unquoted code - and `rec` - the recursive
call - are arbitrary functions.  See notes/C21.md for what is PARTIAL (the fast interpreter's own staging
and freshness are covered by the differential run, not by a theorem).
-/
set_option linter.unusedSimpArgs false
set_option linter.unusedVariables false
namespace Quasi
open MacroExpand MacroExpand.Tree

/-! ## ~quote{X} is the tree of X -/

/-- two or more statements: the block itself -/
theorem quote_is_identity (c : Cat) (a : String) (s : Slot) (x y : Tree) (ks : List Tree) :
    quoteEval (.list .blockStmt c a s (x :: y :: ks)) = .list .blockStmt c a s (x :: y :: ks) := by
  simp [quoteEval, simplify]

/-- one statement: the statement, an expression statement gives the expression -/
theorem quote_single_expr (c : Cat) (a : String) (s : Slot) (y : Tree) :
    quoteEval (.list .blockStmt c a s [mkExprStmt y]) = y := by
  simp [quoteEval, simplify, mkExprStmt]

theorem quote_single_stmt (c : Cat) (a : String) (s : Slot) (k : Kind) (c' : Cat) (a' : String) (ss : List Slot)
    (ks : List Tree) (hk : k ≠ .exprStmt ∧ k ≠ .parenExpr ∧ k ≠ .declStmt) :
    quoteEval (.list .blockStmt c a s [.node k c' a' ss ks]) = .node k c' a' ss ks := by
  obtain ⟨h1, h2, h3⟩ := hk
  cases k <;> simp_all [quoteEval, simplify]

theorem quote_empty (c : Cat) (a : String) (s : Slot) : quoteEval (.list .blockStmt c a s []) = emptyStmt := by
  simp [quoteEval, simplify]

/-- quote never looks at the evaluator: it is a function of the template alone (no substitution) -/
theorem quote_is_closed (body : Tree) : ∀ ev ev' : Ev, (fun (_ : Ev) => quoteEval body) ev = (fun (_ : Ev) => quoteEval body) ev' :=
  fun _ _ => rfl

/-! ## the classic interpreter computes the substitution -/

theorem classic_qq_eq_subst (ev : Ev) (fuel depth : Nat) (t : Tree) : qq ev fuel depth t = subst ev fuel depth t := rfl

/-! ## unquote and splice at matching depth -/

theorem descend_single (f : Nat) (x : Tree) (h : innerUnquote x = none) :
    descend (f+1) x = (x, 1, [opOf x]) := by
  simp [descend, h]
  cases x <;> simp [opOf]

/-- `~unquote{E}` as element of a list at depth 1 is replaced by the value of `E` (converted for the list) -/
theorem unquote_inserts_value (ev : Ev) (rec : Nat → Tree → R Tree) (f : Nat) (es : Slot) (c : Cat) (ss : List Slot)
    (ks : List Tree) (h : innerUnquote (.node .unaryExpr c opUnquote ss ks) = none) :
    elemPart ev rec (f+1) 1 es (.node .unaryExpr c opUnquote ss ks) = (do
      let b ← bodyOf (.node .unaryExpr c opUnquote ss ks)
      let v ← ev b
      let v' ← conv es v
      pure [v']) := by
  have hu : unwrap false (.node .unaryExpr c opUnquote ss ks) = .node .unaryExpr c opUnquote ss ks := by
    rw [unwrap] <;> simp
  simp only [elemPart, hu, descend_single f _ h]
  simp [opOf, isUnquoteOp, opUnquote, opQuasiquote, opUnquoteSplice, dup]
  rfl

/-- `~unquote_splice{E}` as element of a list at depth 1 contributes the elements of the value of `E` -/
theorem splice_inserts_elements (ev : Ev) (rec : Nat → Tree → R Tree) (f : Nat) (es : Slot) (c : Cat) (ss : List Slot)
    (ks : List Tree) (h : innerUnquote (.node .unaryExpr c opUnquoteSplice ss ks) = none) :
    elemPart ev rec (f+1) 1 es (.node .unaryExpr c opUnquoteSplice ss ks) = (do
      let b ← bodyOf (.node .unaryExpr c opUnquoteSplice ss ks)
      let v ← ev b
      let vs ← elemsOf v
      vs.mapM (conv es)) := by
  have hu : unwrap false (.node .unaryExpr c opUnquoteSplice ss ks) = .node .unaryExpr c opUnquoteSplice ss ks := by
    rw [unwrap] <;> simp
  simp only [elemPart, hu, descend_single f _ h]
  simp [opOf, isUnquoteOp, opUnquote, opQuasiquote, opUnquoteSplice, dup]
  rfl

/-- **splice flattens**: in a list `pre ++ [~unquote_splice{E}] ++ post` the new list is the parts of
    `pre`, then the elements of the value of `E` one by one (not nested), then the parts of `post`. -/
theorem splice_flattens (ev : Ev) (rec : Nat → Tree → R Tree) (f : Nat) (k : Kind) (cl : Cat) (a : String) (es : Slot)
    (c : Cat) (ss : List Slot) (ks pre post : List Tree) (ps qs : List (List Tree)) (b v : Tree) (vs vs' : List Tree)
    (h : innerUnquote (.node .unaryExpr c opUnquoteSplice ss ks) = none)
    (hb : bodyOf (.node .unaryExpr c opUnquoteSplice ss ks) = .ok b) (hv : ev b = .ok v) (hvs : elemsOf v = .ok vs)
    (hconv : vs.mapM (conv es) = .ok vs')
    (hpre : pre.mapM (elemPart ev rec (f+1) 1 es) = .ok ps) (hpost : post.mapM (elemPart ev rec (f+1) 1 es) = .ok qs)
    (hne : cl ≠ .slice) :
    substList ev rec (f+1) 1 k cl a es (pre ++ .node .unaryExpr c opUnquoteSplice ss ks :: post)
      = .ok (.list k cl a es (ps.flatten ++ vs' ++ qs.flatten)) := by
  have hx := splice_inserts_elements ev rec f es c ss ks h
  simp only [hb, hv, hvs, hconv, bind, Except.bind] at hx
  simp [substList, List.mapM_append, List.mapM_cons, hpre, hpost, hx, bind, Except.bind, pure, Except.pure, hne]

/-- a nested `~quasiquote` raises the depth: its body is substituted at `d+1` and re-quoted -/
theorem quasiquote_raises_depth (ev : Ev) (rec : Nat → Tree → R Tree) (f d : Nat) (es : Slot) (c : Cat) (ss : List Slot)
    (ks : List Tree) :
    elemPart ev rec f d es (.node .unaryExpr c opQuasiquote ss ks) = (do
      let b ← bodyOf (.node .unaryExpr c opQuasiquote ss ks)
      let e ← rec (d+1) b
      let q ← makeQuote2 opQuasiquote e
      let q' ← conv es q
      pure [q']) := by
  have hu : unwrap false (.node .unaryExpr c opQuasiquote ss ks) = .node .unaryExpr c opQuasiquote ss ks := by
    rw [unwrap] <;> simp
  simp only [elemPart, hu]
  simp

/-- an unquote chain shorter than the depth is not evaluated: one level is peeled, the body is
    substituted at `d-1` and the operator is put back -/
theorem shallow_unquote_kept (ev : Ev) (rec : Nat → Tree → R Tree) (f d : Nat) (es : Slot) (c : Cat) (ss : List Slot)
    (ks : List Tree) (h : innerUnquote (.node .unaryExpr c opUnquote ss ks) = none) (hd : 1 < d) :
    elemPart ev rec (f+1) d es (.node .unaryExpr c opUnquote ss ks) = (do
      let b ← bodyOf (.node .unaryExpr c opUnquote ss ks)
      let e ← rec (d-1) b
      let q ← makeQuote2 opUnquote e
      let q' ← conv es q
      pure [q']) := by
  have hu : unwrap false (.node .unaryExpr c opUnquote ss ks) = .node .unaryExpr c opUnquote ss ks := by
    rw [unwrap] <;> simp
  simp only [elemPart, hu, descend_single f _ h]
  have h1 : ¬ (1 > d) := by omega
  simp [isUnquoteOp, opUnquote, opQuasiquote, opUnquoteSplice, h1, hd]

/-! ## non-vacuity -/
section examples
def x0 : Tree := .node .ident .expr "nx0" [] []
def uq (op : String) : Tree := mkQuoteForm op (mkBlock [mkExprStmt x0])
example : innerUnquote (uq opUnquoteSplice) = none := by
  simp [uq, innerUnquote, bodyOf, kidsOf, mkQuoteForm, mkBlock, mkExprStmt, x0, unwrap]
example : innerUnquote (uq opUnquote) = none := by
  simp [uq, innerUnquote, bodyOf, kidsOf, mkQuoteForm, mkBlock, mkExprStmt, x0, unwrap]
example : bodyOf (uq opUnquoteSplice) = .ok (mkBlock [mkExprStmt x0]) := by
  simp [uq, bodyOf, kidsOf, mkQuoteForm]
example : elemsOf (.list (.other "NodeSlice") .slice "-" .node [x0, x0]) = .ok [x0, x0] := rfl
example : quoteEval (mkBlock [mkExprStmt x0]) = x0 := by simp [quoteEval, simplify, mkBlock, mkExprStmt]
end examples

end Quasi
