import Model.Frames
namespace Frames
theorem stub_placeholder : poolCap = 32 := rfl
end Frames
