import Model.Frames
import Proofs.Frames
import Proofs.FramesRef
import Gen.C06Sites

/-! # C06 — function calls and closures behave as in Go regardless of frame recycling

Theorems about `Model/Frames.lean` (PoolMachine = `step true` = fast/compile.go as written,
FreshMachine = `step false` = no recycling), for EVERY sequence of operations from `init`. -/
namespace Frames

/-- frames reachable from a root: the frames of the running activations, the frames captured
    by function values, and everything reachable from those through `Outer` -/
inductive Reach (s : State) : Nat → Prop
  | act {a e} : a ∈ s.stack → e ∈ a → Reach s e
  | clos {c} : c ∈ s.clos → Reach s c
  | outer {e o} : Reach s e → (getF s.heap e).outer = some o → Reach s o

/-- `x` is on the `Outer` chain starting at `e` -/
inductive Up (h : List Frame) : Nat → Nat → Prop
  | refl (e) : Up h e e
  | step {e o x} : (getF h e).outer = some o → Up h o x → Up h e x

structure PoolInv (s : State) : Prop where
  /-- a frame in the pool is unreachable from every root -/
  unreachable : ∀ p ∈ s.pool, ¬ Reach s p
  /-- no live pointer `&env.Ints[i]` refers to the `Ints` array of a frame in the pool -/
  no_ptr : ∀ p ∈ s.pool, ∀ q ∈ s.ptrs, (getF s.heap p).ints ≠ some q.1
  nodup : s.pool.Nodup
  size : s.pool.length ≤ poolCap

theorem reach_live {s : State} (hi : Inv s) {x : Nat} (hr : Reach s x) :
    x ∈ s.stack.flatten ∨ (getF s.heap x).used = true := by
  induction hr with
  | act ha he => left; exact List.mem_flatten.2 ⟨_, ha, he⟩
  | clos hc => right; exact hi.clos_used _ hc
  | @outer e o _ ho ih =>
    rcases ih with h1 | h1
    · obtain ⟨a, ha, hea⟩ := List.mem_flatten.1 h1
      rcases act_closed (hi.acts a ha) hi.up_closed e o (Or.inl hea) ho with h2 | h2
      · left; exact List.mem_flatten.2 ⟨a, ha, h2⟩
      · right; exact h2
    · right; exact hi.up_closed e o h1 ho

theorem poolInv_of_inv {s : State} (hi : Inv s) : PoolInv s where
  unreachable := by
    intro p hp hr
    rcases reach_live hi hr with h1 | h1
    · exact (List.nodup_append.1 hi.nodup).2.2 p hp p h1 rfl
    · rw [hi.pool_unused p hp] at h1; cases h1
  no_ptr := by
    intro p hp q hq hints
    have := hi.ptr_addr q hq p hints
    rw [hi.pool_noaddr p hp] at this; cases this
  nodup := (List.nodup_append.1 hi.nodup).1
  size := hi.pool_len

/-- **pool_inv**: after every operation sequence of the PoolMachine a frame in the pool is
    unreachable from every root (call chain, closures, pointers to int slots), the pool has no
    duplicates and at most `poolCapacity` entries. -/
theorem pool_inv (ops : List Op) (s : State) (outs : List Slot)
    (h : runPool init ops = some (s, outs)) : PoolInv s :=
  poolInv_of_inv (inv_run true inv_init h)

/-- the same holds for the FreshMachine (trivially: its pool stays empty) -/
theorem fresh_pool_empty (ops : List Op) (s : State) (outs : List Slot)
    (h : runFresh init ops = some (s, outs)) : PoolInv s :=
  poolInv_of_inv (inv_run false inv_init h)

theorem up_used {s : State} (hi : Inv s) {c x : Nat} (hc : (getF s.heap c).used = true)
    (hu : Up s.heap c x) : (getF s.heap x).used = true := by
  induction hu with
  | refl => exact hc
  | step ho _ ih => exact ih (hi.up_closed _ _ hc ho)

/-- **marks_cover_captures**: creating a function value in the current frame marks every frame
    the closure can reach (the whole `Outer` chain), in the state right after the creation ... -/
theorem marks_cover_captures (ops : List Op) (s s' : State) (outs : List Slot) (r : Option Slot)
    (h : runPool init ops = some (s, outs)) (hstep : step true s .makeClosure = some (s', r))
    (c x : Nat) (hc : cur s = some c) (hx : Up s'.heap c x) :
    c ∈ s'.clos ∧ (getF s'.heap x).used = true := by
  have hi := inv_run true inv_init h
  have hi' : Inv s' := inv_step true hi hstep
  simp only [step, hc] at hstep
  simp at hstep
  obtain ⟨hs', _⟩ := hstep
  have hmem : c ∈ s'.clos := by rw [← hs']; simp
  exact ⟨hmem, up_used hi' (hi'.clos_used c hmem) hx⟩

/-- ... and in every later state: whatever a function value can reach stays marked, hence is
    never in the pool, hence is never handed out again by the allocator. -/
theorem captured_never_pooled (ops : List Op) (s : State) (outs : List Slot)
    (h : runPool init ops = some (s, outs)) (c x : Nat) (hc : c ∈ s.clos) (hx : Up s.heap c x) :
    (getF s.heap x).used = true ∧ x ∉ s.pool := by
  have hi := inv_run true inv_init h
  have hu := up_used hi (hi.clos_used c hc) hx
  refine ⟨hu, fun hp => ?_⟩
  rw [hi.pool_unused x hp] at hu; cases hu

/-- **addr_taken_not_reused**: the `Ints` array of a frame handed out by the allocator
    (call or block entry) is never an array that a live pointer refers to, and the new frame
    starts with `IntAddressTaken = false`. -/
theorem addr_taken_not_reused (ops : List Op) (s s' : State) (outs : List Slot) (r : Option Slot) (op : Op)
    (h : runPool init ops = some (s, outs))
    (hop : (∃ k nb ni, op = .call k nb ni) ∨ (∃ nb ni, op = .blockEnter nb ni))
    (hstep : step true s op = some (s', r)) (e : Nat) (he : cur s' = some e) :
    (getF s'.heap e).addr = false ∧ ∀ q ∈ s'.ptrs, (getF s'.heap e).ints ≠ some q.1 := by
  have hi := inv_run true inv_init h
  have hi' : Inv s' := inv_step true hi hstep
  have key : ∀ o nb ni, e = (alloc true s o nb ni).2 → getF s'.heap e = getF (alloc true s o nb ni).1.heap e →
      (getF s'.heap e).addr = false := by
    intro o nb ni he1 he2
    have hs := alloc_spec true s o nb ni (fun _ => hi.pool_lt)
    rw [he2, he1, hs.new_addr]
    rcases hs.pool with ⟨hp, _⟩ | ⟨he3, _, _⟩
    · exact hi.pool_noaddr _ (by rw [hp]; simp)
    · rw [getF_ge (by omega)]; rfl
  have haddr : (getF s'.heap e).addr = false := by
    rcases hop with ⟨k, nb, ni, rfl⟩ | ⟨nb, ni, rfl⟩
    · simp only [step] at hstep
      split at hstep
      · simp at hstep
      · rename_i c _
        simp at hstep
        obtain ⟨hs', _⟩ := hstep
        subst hs'
        simp [cur] at he
        exact key c nb ni he.symm rfl
    · simp only [step] at hstep
      split at hstep
      · rename_i c fs rest _
        simp at hstep
        obtain ⟨hs', _⟩ := hstep
        subst hs'
        simp [cur] at he
        exact key c nb ni he.symm rfl
      · simp at hstep
  refine ⟨haddr, fun q hq hints => ?_⟩
  have := hi'.ptr_addr q hq e hints
  rw [haddr] at this; cases this

/-- dropping `Ints` on release: a frame in the pool never has `IntAddressTaken` set, and a
    live pointer's array is attached to at most one frame, which then has the flag set. -/
theorem addr_taken_protected (ops : List Op) (s : State) (outs : List Slot)
    (h : runPool init ops = some (s, outs)) :
    (∀ p ∈ s.pool, (getF s.heap p).addr = false) ∧
    (∀ q ∈ s.ptrs, ∀ x y, (getF s.heap x).ints = some q.1 → (getF s.heap y).ints = some q.1 →
        x = y ∧ (getF s.heap x).addr = true) := by
  have hi := inv_run true inv_init h
  exact ⟨hi.pool_noaddr, fun q hq x y hx hy => ⟨hi.ints_inj x y q.1 hx hy, hi.ptr_addr q hq x hx⟩⟩

/-- `MarkUsedByClosure` may stop at the first marked frame: marks are closed under `Outer`
    in every reachable state of the PoolMachine. -/
theorem marks_upward_closed (ops : List Op) (s : State) (outs : List Slot)
    (h : runPool init ops = some (s, outs)) (x o : Nat)
    (hx : (getF s.heap x).used = true) (ho : (getF s.heap x).outer = some o) :
    (getF s.heap o).used = true :=
  (inv_run true inv_init h).up_closed x o hx ho

/-! ### the executable invariant evaluated by the monitor is implied by the invariant -/

theorem chain_reach {s : State} (fuel : Nat) (e x : Nat) (he : Reach s e)
    (hx : x ∈ chain s.heap fuel e) : Reach s x := by
  induction fuel generalizing e with
  | zero => simp [chain] at hx
  | succ n ih =>
    simp only [chain] at hx
    split at hx
    · simp at hx
    · rename_i fr hfr
      rcases List.mem_cons.1 hx with h1 | h1
      · subst h1; exact he
      · split at h1
        · rename_i o ho
          exact ih o (Reach.outer he (by rw [getF_of_getElem? hfr]; exact ho)) h1
        · simp at h1

theorem nodupB_of_nodup {l : List Nat} (h : l.Nodup) : nodupB l = true := by
  induction l with
  | nil => rfl
  | cons a t ih =>
    have := List.nodup_cons.1 h
    simp [nodupB, this.1, ih this.2]

/-- **monitor_inv_sound**: in every reachable state the check `poolInvB` printed by the monitor
    (`inv=1`) evaluates to true. -/
theorem monitor_inv_sound (ops : List Op) (s : State) (outs : List Slot)
    (h : runPool init ops = some (s, outs)) : poolInvB s = true := by
  have hi := inv_run true inv_init h
  have hp := poolInv_of_inv hi
  simp only [poolInvB, Bool.and_eq_true, decide_eq_true_eq, List.all_eq_true]
  refine ⟨⟨⟨hp.size, nodupB_of_nodup hp.nodup⟩, ?_⟩, ?_⟩
  · intro p hpp
    simp only [Bool.not_eq_true', List.contains_eq_mem, decide_eq_false_iff_not]
    intro hmem
    simp only [reachable, List.mem_flatMap] at hmem
    obtain ⟨e, he, hx⟩ := hmem
    have hre : Reach s e := by
      rcases List.mem_append.1 he with h1 | h1
      · obtain ⟨a, ha, hea⟩ := List.mem_flatten.1 h1
        exact Reach.act ha hea
      · exact Reach.clos h1
    exact hp.unreachable p hpp (chain_reach _ e p hre hx)
  · intro p hpp
    split
    · rename_i a ha
      simp only [Bool.not_eq_true', List.contains_eq_mem, decide_eq_false_iff_not, ptrArrs, List.mem_map]
      rintro ⟨q, hq, hqa⟩
      exact hp.no_ptr p hpp q hq (by rw [ha, hqa])
    · rfl

/-- a closure escapes, its frame is kept; a plain call is recycled; the next call reuses it -/
def demoOps : List Op :=
  [.makeClosure, .call 0 1 1, .write 0 true 0 7, .makeClosure, .ret,        -- frame 2 captured: not pooled
   .call 0 1 1, .write 0 true 0 5, .takeAddr 0 0, .ret,                     -- frame 3: address taken, pooled without Ints
   .call 1 2 1, .blockEnter 1 0, .write 1 true 0 9, .read 1 true 0, .readPtr 0, .jumpOut 1, .ret]

/-! ### refinement: behaviour is independent of recycling -/

/-- **pool_refines_fresh** (general form): whenever the FreshMachine (no recycling: Go's semantics
    of fresh variables per call / block) can run an operation sequence, so can the PoolMachine,
    it performs the same number of reads, and every read that returns a WRITTEN value in the
    FreshMachine returns the same value in the PoolMachine. -/
theorem pool_refines_fresh_reads (ops : List Op) (sf : State) (outs : List Slot)
    (hf : runFresh init ops = some (sf, outs)) :
    ∃ sp outsp, runPool init ops = some (sp, outsp) ∧ OutsRef outs outsp := by
  obtain ⟨sp, outsp, h1, _, h3⟩ := sim_run rel_init hf
  exact ⟨sp, outsp, h1, h3⟩

/-- **pool_refines_fresh**: if no read of the FreshMachine run hits a slot that was never written
    since its frame was allocated (the def-before-use discipline of compiled code), the
    PoolMachine returns exactly the same values: observable behaviour is independent of frame
    recycling, for every operation sequence. -/
theorem pool_refines_fresh (ops : List Op) (sf : State) (outs : List Slot)
    (hf : runFresh init ops = some (sf, outs)) (hdef : ∀ o ∈ outs, o ≠ none) :
    ∃ sp, runPool init ops = some (sp, outs) := by
  obtain ⟨sp, outsp, h1, _, h3⟩ := sim_run rel_init hf
  refine ⟨sp, ?_⟩
  show run true init ops = some (sp, outs)
  rw [h1, outsRef_eq h3 hdef]

/-! ### the creation/call protocol at every function-value site of fast/*.go

`Gen/C06Sites.lean` is regenerated from the source on every run (harness/c06extract.go): one row per
function literal that calls `newEnv4Func` (616: `funcGeneric`, `macroCreate`, `func0ret0`, and every
generated arm of `func0ret1`, `func1ret0`, `func1ret1`, `func2ret0`). -/

/-- the part of the protocol the safety theorems rest on: the creator `func(env *Env) xr.Value`
    runs `env.MarkUsedByClosure()` before building the closure (op `makeClosure`), and the wrapper
    starts with `env := newEnv4Func(env, ...)` on that captured env (op `call`). -/
def Gen.C06.Site.safe (s : Gen.C06.Site) : Bool := s.allocFirst && s.marks && s.outerParam

/-- **func_sites_mark_and_alloc**: every site follows the mark-then-allocate protocol. -/
theorem func_sites_mark_and_alloc : Gen.C06.sites.all Gen.C06.Site.safe = true := by decide +kernel

/-- **func_sites_release**: every wrapper that can be entered releases its frame with
    `env.freeEnv4Func()` and has no `return` before the release (op `ret` on every normal return).
    `reachable = false` is computed structurally by the extractor: the site sits in the `default:`
    clause of a `switch` on the parameter/result kind whose other clauses list every kind of
    `base/reflect.IsOptimizedKind` (parsed from the source), and `funcCreate` enters the funcXretY
    specialisations only for those kinds — dead code. -/
theorem func_sites_release : Gen.C06.sites.all (fun s => !s.reachable || s.frees) = true := by decide +kernel

/-- the extractor found the sites, and (all but a handful of dead default clauses) are reachable -/
theorem func_sites_found : 600 ≤ (Gen.C06.sites.filter (·.reachable)).length := by decide +kernel

/-! ### non-vacuity: concrete histories that exercise the hypotheses -/

/-- the hypotheses of pool_refines_fresh hold on a history with recycling, escape and pointers -/
example : ∃ sf, runFresh init demoOps = some (sf, [some 9, some 5]) ∧ ∀ o ∈ [some (9 : Int), some 5], o ≠ none := by
  refine ⟨_, rfl, ?_⟩
  decide

/-- and the def-before-use hypothesis is needed: a read before any write sees the stale content
    of the recycled frame in the PoolMachine, "never written" in the FreshMachine -/
def staleOps : List Op := [.makeClosure, .call 0 0 1, .write 0 true 0 7, .ret, .call 0 0 1, .read 0 true 0]

example : (runPool init staleOps).map (·.2) = some [some 7] ∧ (runFresh init staleOps).map (·.2) = some [none] := by
  decide


example : ∃ s outs, runPool init demoOps = some (s, outs) ∧ outs = [some 9, some 5] ∧ s.pool = [3] ∧ s.clos = [1, 2] := by
  refine ⟨_, _, rfl, ?_⟩
  decide

example : ∃ s outs, runPool init demoOps = some (s, outs) ∧ PoolInv s ∧ s.pool ≠ [] :=
  match h : runPool init demoOps with
  | some (s, outs) => ⟨s, outs, rfl, pool_inv _ _ _ h, by
      have : (runPool init demoOps).map (fun r => decide (r.1.pool ≠ [])) = some true := by decide
      rw [h] at this; simpa using this⟩
  | none => by
      have : (runPool init demoOps).isSome = true := by decide
      rw [h] at this; cases this

/-- marks_cover_captures applies: `makeClosure` inside a block inside a called function marks
    block frame, function frame and the captured outer frames -/
example : ∃ s outs s' r, runPool init [.makeClosure, .call 0 1 0, .blockEnter 1 0] = some (s, outs) ∧
    step true s .makeClosure = some (s', r) ∧ cur s = some 3 ∧ Up s'.heap 3 2 := by
  refine ⟨_, _, _, _, rfl, rfl, rfl, ?_⟩
  exact Up.step (o := 2) (by decide) (Up.refl 2)

/-- addr_taken_not_reused applies: frame 2 had its address taken, was pooled, and is handed out again -/
example : ∃ s outs s' r, runPool init [.makeClosure, .call 0 0 1, .takeAddr 0 0, .ret] = some (s, outs) ∧
    s.pool = [2] ∧ s.ptrs = [(0, 0)] ∧ step true s (.call 0 0 1) = some (s', r) ∧ cur s' = some 2 ∧
    (getF s'.heap 2).ints = some 1 := by
  refine ⟨_, _, _, _, rfl, ?_, ?_, rfl, ?_, ?_⟩ <;> decide

end Frames
