import Proofs.Ast2
import Gen.Ast2Table
/-!
# C22  The uniform syntax-tree wrapper round-trips every node losslessly

`Model/Ast2.lean` gives meaning to the table `Gen/Ast2Table.lean`, which is regenerated from
/repo/ast2 and from the go/ast package it imports on every run.

* general theorems (for every table entry satisfying the decidable shape predicate, every node,
  ALL field values): `rebuild_identity`, `rebuild_identity_field`, `size_consistent`,
  `children_spec`, `unwrap_wrap`, `unwrap_wrap_elem`;
* obligations on the regenerated table (kernel-checked by `decide`): `table_wellformed`,
  `table_wellformed_except`, `hard_defects_real`, `toast_total`, `toast_arms_consistent`,
  `convs_justified`, `convs_used_are_known`, `position_drops_known`, `derived_pairs_known`,
  `extractor_understood_everything`;
* their combination: `rebuild_identity_table`, `rebuild_identity_defective`.
-/
namespace Ast2

/-- a node is well typed when every child-list field holds a list (or the nil slice) -/
def Typed (sd : StructDef) (n : Node) : Prop :=
  ∀ fd ∈ sd.fields, fd.cls = .childList → listShaped (n fd.name)

theorem field?_some {sd : StructDef} {f : String} {fd : FieldDef} (h : sd.field? f = some fd) :
    fd ∈ sd.fields ∧ fd.name = f := by
  unfold StructDef.field? at h
  exact ⟨List.mem_of_find?_eq_some h, by simpa using List.find?_some h⟩

/-- `unwrap_wrap`: `To<T>(Get-wrapper of v) = v`, for every value including nil pointers that
    `ToAst` wraps into a non-nil wrapper. -/
theorem unwrap_wrap (c : Ctx) (gty via : String) (guarded : Bool) (v : Val) :
    (wrapVal c gty via guarded v).unwrap = v := unwrap_wrapVal c gty via guarded v

theorem unwrap_wrap_elem (c : Ctx) (ety via conv : String) (e : Elem) (hc : convOk ety conv = true) :
    unwrapElem ety conv (wrapElem c ety via e) = e := unwrapElem_wrapElem c ety via conv e hc

/-- Field-level round trip: for a wrapper of understood shape, every field satisfying the
    field obligation has, after `New()` + `Set(i, Get(i))` for all `i < Size()`, its original value
    (child lists up to nil slice = empty slice). -/
theorem rebuild_identity_field (c : Ctx) (sd : StructDef) (w : Wrapper) (n : Node)
    (hs : shapeOk sd w = true) (hd : DerivedOK w n) (ht : Typed sd n)
    (fd : FieldDef) (hg : fieldGood sd w fd = true) :
    Val.equiv (rebuild c sd w n fd.name) (n fd.name) := by
  unfold shapeOk at hs
  simp only [Bool.and_eq_true] at hs
  obtain ⟨_, hs⟩ := hs
  unfold fieldGood at hg
  unfold rebuild
  cases hk : w.kind with
  | fixed =>
    rw [hk] at hg
    simp only at hg ⊢
    exact Or.inl (rebuildFixed_field c sd w n fd hg hd)
  | list f gv sc ac =>
    rw [hk] at hg hs
    simp only [Bool.and_eq_true] at hs
    obtain ⟨hl, _⟩ := hs
    unfold listKindOk at hl
    rw [hk] at hl
    simp only [Bool.and_eq_true, beq_iff_eq] at hl
    obtain ⟨⟨⟨⟨hcl, _⟩, hsc⟩, hac⟩, _⟩ := hl
    simp only at hg ⊢
    by_cases hname : fd.name = f
    · rw [hname, Node.set_same]
      cases hf : sd.field? f with
      | none => rw [hf] at hcl; simp at hcl
      | some fd' =>
        rw [hf] at hcl
        obtain ⟨hm, hn⟩ := field?_some hf
        have hshape := ht fd' hm (by simpa using hcl)
        rw [hn] at hshape
        exact rebuildList_equiv c _ gv sc ac (n f) hshape hsc hac
    · rw [Node.set_other _ _ _ _ hname]
      have : (fd.name == f) = false := by simpa using hname
      rw [this] at hg
      simp only [Bool.false_or, Bool.and_eq_true] at hg
      exact Or.inl (newNode_copied w n fd.name hg.2)
  | slice ety gv sc ac =>
    rw [hk] at hg hs
    unfold listKindOk at hs
    rw [hk] at hs
    simp only [Bool.and_eq_true] at hs
    obtain ⟨⟨⟨⟨hcl, _⟩, hsc⟩, hac⟩, _⟩ := hs
    simp only at hg ⊢
    have hname : fd.name = "X" := by simpa using hg
    rw [hname, Node.set_same]
    cases hf : sd.field? "X" with
    | none => rw [hf] at hcl; simp at hcl
    | some fd' =>
      rw [hf] at hcl
      obtain ⟨hm, hn⟩ := field?_some hf
      have hshape := ht fd' hm (by simpa using hcl)
      rw [hn] at hshape
      exact rebuildList_equiv c ety gv sc ac (n "X") hshape hsc hac
  | opq why => rw [hk] at hs; simp at hs

/-- `rebuild_identity`: for every well-formed table entry and every node (all field values),
    wrapping, reading the children, creating the empty copy and storing the children back yields a
    node equal to the original on every field the property covers (operator/token, literal, flags,
    children; positions, comments and resolver data are exempt). -/
theorem rebuild_identity (c : Ctx) (sd : StructDef) (w : Wrapper) (hwf : wrapperWF sd w = true)
    (n : Node) (hd : DerivedOK w n) (ht : Typed sd n) :
    ∀ fd ∈ sd.fields, fd.cls.relevant = true → Val.equiv (rebuild c sd w n fd.name) (n fd.name) := by
  intro fd hfd hrel
  unfold wrapperWF at hwf
  simp only [Bool.and_eq_true, List.isEmpty_iff] at hwf
  obtain ⟨hs, hb⟩ := hwf
  unfold badFields at hb
  have := filter_map_nil hb fd hfd
  simp only [hrel, Bool.true_and, Bool.not_eq_eq_eq_not, Bool.not_false] at this
  exact rebuild_identity_field c sd w n hs hd ht fd this

/-- `size_consistent`: the children that can be read are exactly `Size()` many. -/
theorem size_consistent (c : Ctx) (sd : StructDef) (w : Wrapper) (n : Node) (hs : shapeOk sd w = true) :
    (children c sd w n).length = sizeOf w n := by
  unfold shapeOk at hs
  simp only [Bool.and_eq_true] at hs
  obtain ⟨_, hs⟩ := hs
  unfold children sizeOf
  cases hk : w.kind with
  | fixed =>
    rw [hk] at hs
    simp only [Bool.and_eq_true] at hs
    obtain ⟨hso, _⟩ := hs
    unfold sizeOk at hso
    simp only [Bool.and_eq_true, beq_iff_eq] at hso
    simp [hso.1.1.1.1.1]
  | list f gv sc ac => simp
  | slice ety gv sc ac => simp
  | opq why => rw [hk] at hs; simp at hs

/-- every index below `Size()` reads a child field of the struct, distinct indices read distinct
    fields, the child returned unwraps to the value of that field, and index `Size()` is rejected by
    both `Get` and `Set`. -/
theorem children_spec (c : Ctx) (sd : StructDef) (w : Wrapper) (n : Node)
    (hs : shapeOk sd w = true) (hk : w.kind = .fixed) :
    (∀ arm ∈ w.arms, ∃ f via g, arm.get = .read f via g ∧ (evalGet c sd arm.get n).unwrap = n f ∧
        ∃ fd ∈ sd.fields, fd.name = f ∧ (fd.cls = .child ∨ fd.cls = .childList)) ∧
    (w.arms.map (fun a => readField a.get)).Nodup ∧ w.oorGet = .bad ∧ w.oorSet = .bad := by
  unfold shapeOk at hs
  rw [hk] at hs
  simp only [Bool.and_eq_true] at hs
  obtain ⟨_, hso, _⟩ := hs
  unfold sizeOk at hso
  simp only [Bool.and_eq_true, beq_iff_eq, List.all_eq_true, decide_eq_true_eq] at hso
  obtain ⟨⟨⟨⟨⟨_, hshape⟩, hnd⟩, hcls⟩, hg⟩, hset⟩ := hso
  refine ⟨?_, hnd, hg, hset⟩
  intro arm harm
  have h1 := hshape arm harm
  have h2 := hcls arm harm
  unfold armShapeOk at h1
  cases hget : arm.get with
  | read f via g =>
    refine ⟨f, via, g, rfl, ?_, ?_⟩
    · simp [evalGet, unwrap_wrapVal]
    · rw [hget] at h2
      simp only [readField] at h2
      cases hf : sd.field? f with
      | none => rw [hf] at h2; simp at h2
      | some fd =>
        rw [hf] at h2
        obtain ⟨hm, hn⟩ := field?_some hf
        refine ⟨fd, hm, hn, ?_⟩
        simpa using h2
  | none_ => rw [hget] at h1; simp at h1
  | bad => rw [hget] at h1; simp at h1
  | opq why => rw [hget] at h1; simp at h1

/-! ## obligations on the regenerated table -/

def ctx : Ctx := { structs := Gen.structs, toAst := Gen.toAst }

/-- struct wrapped by a table entry (the one-field pseudo struct for bare slices) -/
def lookupSd (w : Wrapper) : StructDef :=
  if w.node == "" then sliceStruct else (ctx.struct? w.node).getD ⟨"?missing", [⟨"?", .opq, ""⟩], []⟩

/-- (wrapper, fields violating the field obligation, shape understood and consistent) for every
    table entry that is not well-formed -/
def tableReport : List (String × List String × Bool) :=
  Gen.wrappers.filterMap (fun w =>
    let sd := lookupSd w
    if wrapperWF sd w then none else some (w.name, badFields sd w, shapeOk sd w))

/-- Defects of the code under test that are recorded as findings (KNOWN_FINDINGS.txt):
    go/ast fields added after gomacro's parser fork (Go 1.18 type parameters, Go 1.21 GoVersion) and
    the unfinished `Package` wrapper (`// TODO` in ast2/ast_node.go). -/
def hardDefects : List (String × List String × Bool) :=
  [("File", ["GoVersion"], true), ("FuncType", ["TypeParams"], true),
   ("Package", ["Files"], false), ("TypeSpec", ["TypeParams"], true)]

/-- Defects with a small repair (fixes/C22-*.diff); absent from the table once repaired. -/
def fixableDefects : List (String × List String × Bool) :=
  [("BranchStmt", [], false), ("CompositeLit", ["Incomplete"], true),
   ("DeferStmt", [], false), ("GoStmt", [], false)]

def defectNames : List String := (hardDefects ++ fixableDefects).map (·.1)

theorem extractor_understood_everything : Gen.toAstUnderstood = true := by decide +kernel

/-- every table entry is well-formed, except exactly the recorded defects -/
theorem table_wellformed_except : ∀ r ∈ tableReport, r ∈ hardDefects ++ fixableDefects := by
  decide +kernel

/-- the recorded hard defects are real (witness of the negation on the current table) -/
theorem hard_defects_real : ∀ d ∈ hardDefects, d ∈ tableReport := by
  decide +kernel

/-- `table_wellformed`: every wrapper outside the recorded defects satisfies the shape predicate:
    every non-comment, non-position field is copied by `New()` or read by `Get(i)` and written back
    by the same `Set(i)` with the fitting converter, `i < Size()`; index `Size()` is rejected. -/
theorem table_wellformed : ∀ w ∈ Gen.wrappers, w.name ∉ defectNames → wrapperWF (lookupSd w) w = true := by
  have h : (Gen.wrappers.all (fun w => defectNames.contains w.name || wrapperWF (lookupSd w) w)) = true := by
    decide +kernel
  intro w hw hn
  have := List.all_eq_true.mp h w hw
  simp only [Bool.or_eq_true, List.contains_iff_mem] at this
  rcases this with h1 | h2
  · exact absurd h1 hn
  · exact h2

/-- the theorem instantiated with the regenerated table: every wrapper type outside the recorded
    defects round-trips every node -/
theorem rebuild_identity_table (w : Wrapper) (hw : w ∈ Gen.wrappers) (hn : w.name ∉ defectNames)
    (n : Node) (hd : DerivedOK w n) (ht : Typed (lookupSd w) n) :
    ∀ fd ∈ (lookupSd w).fields, fd.cls.relevant = true →
      Val.equiv (rebuild ctx (lookupSd w) w n fd.name) (n fd.name) :=
  rebuild_identity ctx (lookupSd w) w (table_wellformed w hw hn) n hd ht

/-- the defective wrappers with an understood shape still preserve every other field -/
theorem rebuild_identity_defective (w : Wrapper) (hs : shapeOk (lookupSd w) w = true)
    (n : Node) (hd : DerivedOK w n) (ht : Typed (lookupSd w) n) :
    ∀ fd ∈ (lookupSd w).fields, fd.cls.relevant = true → fd.name ∉ badFields (lookupSd w) w →
      Val.equiv (rebuild ctx (lookupSd w) w n fd.name) (n fd.name) := by
  intro fd hfd hrel hnb
  apply rebuild_identity_field ctx (lookupSd w) w n hs hd ht fd
  cases hg : fieldGood (lookupSd w) w fd with
  | true => rfl
  | false =>
    exfalso; apply hnb
    unfold badFields
    exact List.mem_map.mpr ⟨fd, List.mem_filter.mpr ⟨hfd, by simp [hrel, hg]⟩, rfl⟩

/-- `convs_justified`: the model's assumption about the converters (`convFor`: `To<T>` is the identity
    on what `Get` produces from a field of static type T) is checked against the regenerated case
    tables of ast2/unwrap.go for every (converter, type, wrapper) triple the table uses. -/
theorem convs_justified :
    ((usedConvs lookupSd Gen.wrappers).all (fun t =>
        !convOk t.2.1 t.1 || convJustified ctx Gen.wrappers Gen.convs t.1 t.2.1 t.2.2)) = true := by
  decide +kernel

/-- every converter the source uses in a `Set`/`Append` is the one the model expects for that type -/
theorem convs_used_are_known :
    ((usedConvs lookupSd Gen.wrappers).all (fun t => convOk t.2.1 t.1)) = true := by
  decide +kernel

/-- go/ast node structs without a `ToAst` arm -/
def missingArms : List String :=
  (Gen.structs.filter (fun sd => (toAstWrapper ctx sd.name).isNone)).map (·.name)

/-- `ToAst` is total on go/ast nodes except comments (exempt) and Go 1.18's IndexListExpr (finding) -/
theorem toast_total : missingArms = ["Comment", "CommentGroup", "IndexListExpr"] := by decide +kernel

/-- every `ToAst` arm builds the wrapper of exactly its node type (so `Node()`, which returns the
    wrapped pointer, inverts it), and each node type has at most one arm -/
theorem toast_arms_consistent :
    (Gen.toAst.all (fun a => Gen.wrappers.any (fun w => w.name == a.wrapper && w.node == a.ty)) &&
     (Gen.toAst.map (·.ty)).Nodup && (Gen.wrappers.map (·.name)).Nodup) = true := by decide +kernel

/-- positions not carried over by `New()` (exempt from the property; listed so that a new drop shows up) -/
def positionDrops : List String :=
  Gen.wrappers.flatMap (fun w => (droppedPositions (lookupSd w) w).map (fun f => w.name ++ "." ++ f))

theorem position_drops_known : ∀ p ∈ positionDrops,
    p ∈ ["File.FileStart", "File.FileEnd", "RangeStmt.Range", "ReturnStmt.Return", "StructType.Struct"] := by
  decide +kernel

/-- the only derived write of the table is go/ast's own invariant `Slice3 ↔ Max != nil` -/
theorem derived_pairs_known : ∀ w ∈ Gen.wrappers, ∀ p ∈ derivedPairs w, w.name = "SliceExpr" ∧ p = ("Slice3", "Max") := by
  decide +kernel

/-! ## non-vacuity -/

def sliceExprW : Wrapper := (Gen.wrappers.find? (·.name == "SliceExpr")).getD (Gen.wrappers.headD default)
  where default : Wrapper := ⟨"", "", .opq "", 0, false, [], false, [], .bad, .bad, []⟩

def sliceExprN : Node := fun f =>
  match f with
  | "X" => .ref 1 | "Lbrack" => .atom "7" | "Low" => .ref 2 | "Max" => .ref 3
  | "Slice3" => .atom "true" | "Rbrack" => .atom "9" | _ => .zero

/-- the hypotheses of `rebuild_identity_table` are satisfiable by a 3-index slice expression with
    a missing High bound, and the rebuilt node really carries the children and the derived flag -/
example : sliceExprW ∈ Gen.wrappers ∧ sliceExprW.name ∉ defectNames ∧
    wrapperWF (lookupSd sliceExprW) sliceExprW = true ∧
    derivedPairs sliceExprW = [("Slice3", "Max")] ∧ sliceExprN "Slice3" = flagOf (sliceExprN "Max") ∧
    rebuild ctx (lookupSd sliceExprW) sliceExprW sliceExprN "Max" = .ref 3 ∧
    rebuild ctx (lookupSd sliceExprW) sliceExprW sliceExprN "High" = .zero ∧
    rebuild ctx (lookupSd sliceExprW) sliceExprW sliceExprN "Slice3" = .atom "true" ∧
    (children ctx (lookupSd sliceExprW) sliceExprW sliceExprN).length = 4 := by decide +kernel

/-- the shape predicate is not vacuous: dropping a child from a `Set`, pointing a `Set` at the wrong
    field, using the wrong converter, or forgetting a flag in `New()` is rejected, and the model then
    really loses the value -/
def brokenSet : Wrapper := { sliceExprW with arms := sliceExprW.arms.take 3 ++ [⟨.read "Max" "ToAst" false, .writes []⟩] }
def brokenConv : Wrapper := { sliceExprW with arms := sliceExprW.arms.take 3 ++
  [⟨.read "Max" "ToAst" false, .writes [⟨"Max", .conv "ToStmt"⟩, ⟨"Slice3", .nonNil "ToExpr"⟩]⟩] }
def brokenNew : Wrapper := { sliceExprW with newCopies := [] }

example : wrapperWF (lookupSd sliceExprW) brokenSet = false ∧
    rebuild ctx (lookupSd sliceExprW) brokenSet sliceExprN "Max" = .zero ∧
    wrapperWF (lookupSd sliceExprW) brokenConv = false ∧
    rebuild ctx (lookupSd sliceExprW) brokenConv sliceExprN "Max" = poison ∧
    wrapperWF (lookupSd sliceExprW) brokenNew = true ∧       -- positions are exempt
    droppedPositions (lookupSd sliceExprW) brokenNew = ["Lbrack", "Rbrack"] := by decide +kernel

/-- a block with two statements and one with an explicit empty list: variable-length rebuild -/
example :
    let w := (Gen.wrappers.find? (·.name == "BlockStmt")).getD sliceExprW
    let n : Node := fun f => match f with | "List" => .list [.ref 1, .nil, .ref 2] | "Lbrace" => .atom "3" | _ => .zero
    let e : Node := fun f => match f with | "List" => .list [] | _ => .zero
    wrapperWF (lookupSd w) w = true ∧ rebuild ctx (lookupSd w) w n "List" = .list [.ref 1, .nil, .ref 2] ∧
    rebuild ctx (lookupSd w) w e "List" = .zero ∧ Val.equiv (rebuild ctx (lookupSd w) w e "List") (e "List") ∧
    sizeOf w n = 3 := by decide +kernel

end Ast2
