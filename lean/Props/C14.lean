import Model.Globals
namespace Globals
theorem placeholder_c14 : (run Cfg.fixed St.init []).2 = [] := rfl
end Globals
