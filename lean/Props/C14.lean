import Proofs.Globals
/-!
# C14  REPL-style evaluation, one top-level statement at a time, matches in-order Go

Theorems about `Model/Globals.lean` (transcription of the slot allocation of fast/declaration.go,
`Interp.prepareEnv` of fast/repl.go, the accessors of fast/var_*.go, fast/address.go), for ALL histories
of top-level actions.  `Cfg.fixed` is the code with fixes/C14-*.diff applied (what the correspondence
run executes); `Cfg.orig` the code before them (witnesses of the negation).
-/
namespace Globals

/-- the state after a history -/
def after (cfg : Cfg) (h : List Action) : St := (run cfg St.init h).1
/-- what the history printed -/
def outs (cfg : Cfg) (h : List Action) : List Out := (run cfg St.init h).2

theorem run_append (cfg : Cfg) (s : St) (h1 h2 : List Action) :
    run cfg s (h1 ++ h2) = ((run cfg (run cfg s h1).1 h2).1, (run cfg s h1).2 ++ (run cfg (run cfg s h1).1 h2).2) := by
  induction h1 generalizing s with
  | nil => simp [run]
  | cons a as ih => simp [run, ih]

theorem run_AInv (s : St) (h : List Action) (hs : AInv s) :
    AInv (run Cfg.fixed s h).1 ∧ (∀ o ∈ (run Cfg.fixed s h).2, o ≠ Out.ierr) ∧
    (s.e.taken = true → (run Cfg.fixed s h).1.e.gen = s.e.gen ∧ (run Cfg.fixed s h).1.e.taken = true) := by
  induction h generalizing s with
  | nil => simp [run, hs]
  | cons a as ih =>
    have h1 := step_AInv s a hs
    have h2 := ih (step Cfg.fixed s a).1 h1.1
    simp only [run]
    refine ⟨h2.1, ?_, ?_⟩
    · intro o ho
      simp only [List.mem_cons] at ho
      rcases ho with rfl | ho
      · exact h1.2.1
      · exact h2.2.1 o ho
    · intro ht
      have := h1.2.2 ht
      have h3 := h2.2.2 this.2
      exact ⟨by rw [h3.1, this.1], h3.2⟩

/-- **alloc_inv**: after every history the bind table is sound and both slot arrays are large enough
    for every bind (`len(env.Ints) >= IntBindNum`, `len(env.Vals) >= BindNum`). -/
theorem alloc_inv (h : List Action) : AInv (after Cfg.fixed h) :=
  (run_AInv St.init h AInv_init).1

/-- **slot_reuse_safe**: after every history (any mix of declarations, REdeclarations with the same or
    another type, complex128 needing two slots, boxing after an address was taken), two different live
    names never share storage: their `env.Ints` ranges are disjoint / their `env.Vals` indexes differ,
    and every range lies inside the allocated part of its array.  (Holds for `Cfg.orig` as well:
    what the original code gets wrong is the *dead* variable a pointer still refers to.) -/
theorem slot_reuse_safe (h : List Action) (n m : Nat) (b b' : Bind) (hne : n ≠ m)
    (hb : findBind (after Cfg.fixed h).c.binds n = some b) (hb' : findBind (after Cfg.fixed h).c.binds m = some b') :
    (b.cls = .intb → b.idx + b.ty.slots ≤ (after Cfg.fixed h).e.intsLen ∧ b.idx + b.ty.slots ≤ (after Cfg.fixed h).e.ints.size) ∧
    (b.cls = .varb → b.idx < (after Cfg.fixed h).e.vals.size) ∧
    (b.cls = b'.cls →
      (b.cls = .intb → b.idx + b.ty.slots ≤ b'.idx ∨ b'.idx + b'.ty.slots ≤ b.idx) ∧ (b.cls = .varb → b.idx ≠ b'.idx)) := by
  have hi := alloc_inv h
  refine ⟨fun hc => ?_, fun hc => ?_, fun hcc => hi.cinv.disj n m b b' hne hb hb' hcc⟩
  · have := hi.cinv.bInt n b hb hc
    exact ⟨Nat.le_trans this hi.lenI, Nat.le_trans this hi.fits⟩
  · exact Nat.lt_of_lt_of_le (hi.cinv.bVar n b hb hc) hi.lenV

/-- the newBind rule itself, for either version of the code: a redeclaration reuses the old index only
    inside the same array and only when the new variable needs no more slots than the old one -/
theorem slot_reuse_rule (cfg : Cfg) (c : Comp) (n : Nat) (t : Ty) (v : Nat) (hc : CInv c) :
    CInv (newBind cfg c n t v).1 := newBind_CInv cfg c n t v hc

/-- **no_internal_error**: on the repaired code no evaluation of any history ends in
    "internal error: attempt to reallocate Env.Ints[] after one of its addresses was taken". -/
theorem no_internal_error (h : List Action) : ∀ o ∈ outs Cfg.fixed h, o ≠ Out.ierr :=
  (run_AInv St.init h AInv_init).2.1

/-- **addr_stable**: once the address of an int-slot variable has been taken (`IntAddressTaken`), for
    EVERY later history the backing array of `env.Ints` keeps its allocation identity (it is never
    replaced), so a pointer `&env.Ints[i]` taken from it keeps addressing slot i of the live array:
    `*p` is `loadSlot`/`storeSlot` at index i, never `stale`. -/
theorem addr_stable (h1 h2 : List Action) (ht : (after Cfg.fixed h1).e.taken = true) :
    (after Cfg.fixed (h1 ++ h2)).e.gen = (after Cfg.fixed h1).e.gen ∧
    (after Cfg.fixed (h1 ++ h2)).e.taken = true ∧
    ∀ i k, load (after Cfg.fixed (h1 ++ h2)).e (.slot (after Cfg.fixed h1).e.gen i) k = loadSlot (after Cfg.fixed (h1 ++ h2)).e i k ∧
      ∀ v, store (after Cfg.fixed (h1 ++ h2)).e (.slot (after Cfg.fixed h1).e.gen i) k v = storeSlot (after Cfg.fixed (h1 ++ h2)).e i k v := by
  have hr := run_AInv (after Cfg.fixed h1) h2 (alloc_inv h1)
  have hg := hr.2.2 ht
  have happ : after Cfg.fixed (h1 ++ h2) = (run Cfg.fixed (after Cfg.fixed h1) h2).1 := by
    simp [after, run_append]
  rw [happ]
  refine ⟨hg.1, hg.2, fun i k => ?_⟩
  simp [load, store, hg.1]

/-- a slot pointer is created with the current generation and sets the flag: together with
    `addr_stable` every pointer in `ptab` stays current -/
theorem runAddr_sets_flag (s : St) (tb b : Bind) (p : Nat) (k : K) (hc : tb.cls = .intb) :
    (runAddr s tb b p k).1.e.taken = true := by
  unfold runAddr
  have h3 : (takeAddr s.e tb).taken = true := by simp [takeAddr, hc]
  split
  · exact h3
  · split
    · rename_i e4 he; rw [(newBox_frame he).2.1]; exact h3
    · exact h3

/-- **class_storage_agree**: on the repaired code every accessor compiled for a variable (plain and
    compound assignment with constant / variable / dereferenced right-hand side, including the
    `x /= ±2^n` shortcut, and reads) goes to the array recorded in the bind: the location used by
    `step` is `locOf` of the bind, whatever the operator and operand. -/
theorem class_storage_agree (k : K) (o : Op) (cv : SV) :
    (!Cfg.fixed.quoGuard && usesQuoPow2 k o cv) = false := by
  simp [Cfg.fixed]

/-- ... and the original code does not: `x /= 4` goes to env.Ints whatever the class (DESIGN F3). -/
theorem class_storage_disagree_orig : (!Cfg.orig.quoGuard && usesQuoPow2 .int .quo (.n 4)) = true := by
  decide

/-- the full statement of refinement: the observable outputs of every history equal those of the plain
    sequential store `Seq` (Go executing the statements in order in one block, a redeclaration being a
    fresh variable, a pointer being the identity of a variable). -/
def HistoryRefinesSequential (cfg : Cfg) : Prop :=
  ∀ h : List Action, (outs cfg h).map Out.obs = ((Seq.run Seq.init h).2).map Out.obs

/-! ## non-vacuity -/

/-- a history that takes an address, redeclares the variable with another type, and keeps using both -/
def sample : List Action :=
  [.decl 0 .int (some (.n 7)), .addr 0 0, .decl 0 .f64 (some (.n 4612811918334230528)), .rdp 0, .read 0,
   .wrp 0 .add (.c (.n 3)), .rdp 0, .read 0, .decl 1 .c128 none, .asg 1 .add (.c (.n2 1 2)), .read 1]

example : (after Cfg.fixed sample).e.taken = true := by decide
example : (outs Cfg.fixed sample).map Out.obs = ((Seq.run Seq.init sample).2).map Out.obs := by decide
/-- the original code violates refinement on this history (the pointer aliases the redeclared variable) -/
theorem refinement_fails_orig : ¬ HistoryRefinesSequential Cfg.orig := by
  intro h
  have := h sample
  revert this
  decide

end Globals
