import Proofs.Globals
import Gen.VarAccessors
/-!
# C14  REPL-style evaluation, one top-level statement at a time, matches in-order Go

Theorems about `Model/Globals.lean` (transcription of the slot allocation of fast/declaration.go,
`Interp.prepareEnv` of fast/repl.go, the accessors of fast/var_*.go, fast/address.go), for ALL histories
of top-level actions.  `Cfg.fixed` is the code with fixes/C14-*.diff applied (what the correspondence
run executes); `Cfg.orig` the code before them (witnesses of the negation).
-/
namespace Globals

/-- the state after a history -/
def after (cfg : Cfg) (h : List Action) : St := (run cfg St.init h).1
/-- what the history printed -/
def outs (cfg : Cfg) (h : List Action) : List Out := (run cfg St.init h).2

theorem run_append (cfg : Cfg) (s : St) (h1 h2 : List Action) :
    run cfg s (h1 ++ h2) = ((run cfg (run cfg s h1).1 h2).1, (run cfg s h1).2 ++ (run cfg (run cfg s h1).1 h2).2) := by
  induction h1 generalizing s with
  | nil => simp [run]
  | cons a as ih => simp [run, ih]

theorem run_AInv (s : St) (h : List Action) (hs : AInv s) :
    AInv (run Cfg.fixed s h).1 ∧ (∀ o ∈ (run Cfg.fixed s h).2, o ≠ Out.ierr) ∧
    (s.e.taken = true → (run Cfg.fixed s h).1.e.gen = s.e.gen ∧ (run Cfg.fixed s h).1.e.taken = true) := by
  induction h generalizing s with
  | nil => simp [run, hs]
  | cons a as ih =>
    have h1 := step_AInv s a hs
    have h2 := ih (step Cfg.fixed s a).1 h1.1
    simp only [run]
    refine ⟨h2.1, ?_, ?_⟩
    · intro o ho
      simp only [List.mem_cons] at ho
      rcases ho with rfl | ho
      · exact h1.2.1
      · exact h2.2.1 o ho
    · intro ht
      have := h1.2.2 ht
      have h3 := h2.2.2 this.2
      exact ⟨by rw [h3.1, this.1], h3.2⟩

/-- **alloc_inv**: after every history the bind table is sound and both slot arrays are large enough
    for every bind (`len(env.Ints) >= IntBindNum`, `len(env.Vals) >= BindNum`). -/
theorem alloc_inv (h : List Action) : AInv (after Cfg.fixed h) :=
  (run_AInv St.init h AInv_init).1

/-- **slot_reuse_safe**: after every history (any mix of declarations, REdeclarations with the same or
    another type, complex128 needing two slots, boxing after an address was taken), two different live
    names never share storage: their `env.Ints` ranges are disjoint / their `env.Vals` indexes differ,
    and every range lies inside the allocated part of its array.  (Holds for `Cfg.orig` as well:
    what the original code gets wrong is the *dead* variable a pointer still refers to.) -/
theorem slot_reuse_safe (h : List Action) (n m : Nat) (b b' : Bind) (hne : n ≠ m)
    (hb : findBind (after Cfg.fixed h).c.binds n = some b) (hb' : findBind (after Cfg.fixed h).c.binds m = some b') :
    (b.cls = .intb → b.idx + b.ty.slots ≤ (after Cfg.fixed h).e.intsLen ∧ b.idx + b.ty.slots ≤ (after Cfg.fixed h).e.ints.size) ∧
    (b.cls = .varb → b.idx < (after Cfg.fixed h).e.vals.size) ∧
    (b.cls = b'.cls →
      (b.cls = .intb → b.idx + b.ty.slots ≤ b'.idx ∨ b'.idx + b'.ty.slots ≤ b.idx) ∧ (b.cls = .varb → b.idx ≠ b'.idx)) := by
  have hi := alloc_inv h
  refine ⟨fun hc => ?_, fun hc => ?_, fun hcc => hi.cinv.disj n m b b' hne hb hb' hcc⟩
  · have := hi.cinv.bInt n b hb hc
    exact ⟨Nat.le_trans this hi.lenI, Nat.le_trans this hi.fits⟩
  · exact Nat.lt_of_lt_of_le (hi.cinv.bVar n b hb hc) hi.lenV

/-- the newBind rule itself, for either version of the code: a redeclaration reuses the old index only
    inside the same array and only when the new variable needs no more slots than the old one -/
theorem slot_reuse_rule (cfg : Cfg) (c : Comp) (n : Nat) (t : Ty) (v : Nat) (hc : CInv c) :
    CInv (newBind cfg c n t v).1 := newBind_CInv cfg c n t v hc

/-- **no_internal_error**: on the repaired code no evaluation of any history ends in
    "internal error: attempt to reallocate Env.Ints[] after one of its addresses was taken". -/
theorem no_internal_error (h : List Action) : ∀ o ∈ outs Cfg.fixed h, o ≠ Out.ierr :=
  (run_AInv St.init h AInv_init).2.1

/-- **addr_stable**: once the address of an int-slot variable has been taken (`IntAddressTaken`), for
    EVERY later history the backing array of `env.Ints` keeps its allocation identity (it is never
    replaced), so a pointer `&env.Ints[i]` taken from it keeps addressing slot i of the live array:
    `*p` is `loadSlot`/`storeSlot` at index i, never `stale`. -/
theorem addr_stable (h1 h2 : List Action) (ht : (after Cfg.fixed h1).e.taken = true) :
    (after Cfg.fixed (h1 ++ h2)).e.gen = (after Cfg.fixed h1).e.gen ∧
    (after Cfg.fixed (h1 ++ h2)).e.taken = true ∧
    ∀ i k, load (after Cfg.fixed (h1 ++ h2)).e (.slot (after Cfg.fixed h1).e.gen i) k = loadSlot (after Cfg.fixed (h1 ++ h2)).e i k ∧
      ∀ v, store (after Cfg.fixed (h1 ++ h2)).e (.slot (after Cfg.fixed h1).e.gen i) k v = storeSlot (after Cfg.fixed (h1 ++ h2)).e i k v := by
  have hr := run_AInv (after Cfg.fixed h1) h2 (alloc_inv h1)
  have hg := hr.2.2 ht
  have happ : after Cfg.fixed (h1 ++ h2) = (run Cfg.fixed (after Cfg.fixed h1) h2).1 := by
    simp [after, run_append]
  rw [happ]
  refine ⟨hg.1, hg.2, fun i k => ?_⟩
  simp [load, store, hg.1]

/-- a slot pointer is created with the current generation and sets the flag: together with
    `addr_stable` every pointer in `ptab` stays current -/
theorem runAddr_sets_flag (s : St) (tb b : Bind) (p : Nat) (k : K) (hc : tb.cls = .intb) :
    (runAddr s tb b p k).1.e.taken = true := by
  unfold runAddr
  have h3 : (takeAddr s.e tb).taken = true := by simp [takeAddr, hc]
  split
  · exact h3
  · split
    · rename_i e4 he; rw [(newBox_frame he).2.1]; exact h3
    · exact h3

/-- **class_storage_agree**: on the repaired code every accessor compiled for a variable (plain and
    compound assignment with constant / variable / dereferenced right-hand side, including the
    `x /= ±2^n` shortcut, and reads) goes to the array recorded in the bind: the location used by
    `step` is `locOf` of the bind, whatever the operator and operand. -/
theorem class_storage_agree (k : K) (o : Op) (cv : SV) :
    (!Cfg.fixed.quoGuard && usesQuoPow2 k o cv) = false := by
  simp [Cfg.fixed]

/-- ... and the original code does not: `x /= 4` goes to env.Ints whatever the class (DESIGN F3). -/
theorem class_storage_disagree_orig : (!Cfg.orig.quoGuard && usesQuoPow2 .int .quo (.n 4)) = true := by
  decide

/-- **accessor_table_guarded** (regenerated table): in the gomacro source under test, EVERY accessor
    function of fast/var_ops.go, var_shifts.go, var_set.go, var_set_value.go and `Var.Address` whose body
    indexes `env.Ints[index]` looks at the storage class of the variable (`intbinds` / `Desc.Class()`).
    `lean/Gen/VarAccessors.lean` is rewritten from the source on every run; before
    fixes/C14-varquopow2-boxed.diff the row of `varQuoPow2` is `usesInts = true, testsClass = false` and this
    obligation breaks. -/
theorem accessor_table_guarded :
    Gen.VarAccessors.table.all (fun a => !a.usesInts || a.testsClass) = true := by decide

/-- the table is not empty: it covers the compound-assignment, shift, set and address functions -/
theorem accessor_table_covers :
    20 ≤ Gen.VarAccessors.table.length ∧
    (Gen.VarAccessors.table.any (fun a => a.name == "var_ops.go:varQuoPow2" && a.usesInts)) = true ∧
    (Gen.VarAccessors.table.any (fun a => a.name == "address.go:Address" && a.usesInts)) = true := by decide

/-- the full statement of refinement: the observable outputs of every history equal those of the plain
    sequential store `Seq` (Go executing the statements in order in one block, a redeclaration being a
    fresh variable, a pointer being the identity of a variable). -/
def HistoryRefinesSequential (cfg : Cfg) : Prop :=
  ∀ h : List Action, (outs cfg h).map Out.obs = ((Seq.run Seq.init h).2).map Out.obs

/-! ## witnesses that the ORIGINAL code violates the theorems (replayed on the real code by
    corpus/C14/02-*, 05-*, 06-*: the Go oracle reports them with the keys `ptr-aliases-redeclared:*`
    and `ints-realloc-after-address`) -/

/-- a bind table after `var x int; p := &x` once `IntBindMax` is known (1024) -/
def cAddrTaken : Comp := ⟨[(pkey 0, ⟨.varb, .ptr .int, 0, 1⟩), (vkey 0, ⟨.intb, .sc .int, 0, 0⟩)], 1, 1, 1024⟩

/-- original code: `var x float64` reuses slot 0 although `&env.Ints[0]` escaped ... -/
theorem reuse_after_address_orig :
    (newBind Cfg.orig cAddrTaken (vkey 0) (.sc .f64) 2).2 = ⟨.intb, .sc .f64, 0, 2⟩ := by decide
/-- ... the repaired code allocates a new slot -/
theorem no_reuse_after_address_fixed :
    (newBind Cfg.fixed cAddrTaken (vkey 0) (.sc .f64) 2).2 = ⟨.intb, .sc .f64, 1, 2⟩ := by decide

/-- env.Ints full (IntBindNum = cap = 1024) and an address taken in the previous evaluation: the
    original compile does not know yet (`IntBindMax = 0`) and allocates slot 1024 ... -/
def cFull : Comp := ⟨[(vkey 0, ⟨.intb, .sc .int, 0, 0⟩)], 0, 1024, 0⟩
theorem overflow_orig : (newBind Cfg.orig cFull (vkey 1) (.sc .int) 1).1.intBindNum = 1025 := by decide
/-- ... and `prepareEnv` then fails for this and every later evaluation (IntBindNum never decreases) -/
theorem prepareEnv_bricked (c : Comp) (e : Env) (ht : e.taken = true) (h : e.ints.size < c.intBindNum) :
    (prepareEnv c e).2.2 = false ∧ (prepareEnv c e).1.intBindNum = c.intBindNum ∧
    (prepareEnv c e).2.1.ints.size = e.ints.size ∧ (prepareEnv c e).2.1.taken = true := by
  unfold prepareEnv
  have hf := prepareVals_frame c e
  simp only [hf]
  rw [if_pos h]
  simp [ht, hf]
/-- the repaired compile first learns `IntBindMax = cap` and boxes the variable -/
theorem updateIntBindMax_fixed (c : Comp) (e : Env) (h : e.taken = true) :
    (updateIntBindMax Cfg.fixed c e).intBindMax = e.ints.size := by
  simp [updateIntBindMax, Cfg.fixed, h]
theorem no_overflow_fixed :
    (newBind Cfg.fixed { cFull with intBindMax := 1024 } (vkey 1) (.sc .int) 1).2.cls = .varb := by decide
/-- complex128 one slot short of the capacity: original test `IntBindNum < IntBindMax` lets it in -/
theorem c128_overflow_orig :
    (newBind Cfg.orig ⟨[], 0, 1023, 1024⟩ (vkey 1) (.sc .c128) 1).1.intBindNum = 1025 := by decide
theorem c128_boxed_fixed :
    (newBind Cfg.fixed ⟨[], 0, 1023, 1024⟩ (vkey 1) (.sc .c128) 1).2.cls = .varb := by decide

/-! ## non-vacuity -/

example : AInv St.init := AInv_init
example : CInv (newBind Cfg.fixed (newBind Cfg.fixed St.init.c (vkey 0) (.sc .int) 0).1 (pkey 0) (.ptr .int) 1).1 :=
  newBind_CInv Cfg.fixed _ (pkey 0) (.ptr .int) 1 (newBind_CInv Cfg.fixed St.init.c (vkey 0) (.sc .int) 0 CInv_init)
example : (newBind Cfg.fixed (newBind Cfg.fixed St.init.c (vkey 0) (.sc .int) 0).1 (pkey 0) (.ptr .int) 1).1.binds = cAddrTaken.binds := by decide
example : (after Cfg.fixed []).e.taken = false := by decide

end Globals
