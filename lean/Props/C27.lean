import Model.FileSet
namespace FileSet
theorem stub_partial : nl [] = 0 := rfl
end FileSet
