import Proofs.ChunkLoop
import Proofs.ReaderFirst
import Gen.C27Cfg
/-!
# C27  Reported source positions are exact across chunks and line offsets

Property theorems about `Model/FileSet.lean` (the transcription of go/etoken over go/token, of the
scanner's line recording and of the chunk loop of fast/repl.go + fast/interpreter.go).

* `searchInts_correct`       binary search (as coded) = the unique partition point
* `position_shift`           fork position = standard position with `Line + lineOffset`, same file /
                             offset / column, invalid stays invalid, same cache update - for every set and Pos
* `fileset_lookup_total`     every Pos inside an added file maps to that file (any history, any cache
                             state); every other Pos maps to no file
* `fileset_reachable_wf`     every AddFile / AddLine / lookup history keeps the set well formed
* `scanner_position_exact`   a scanned text reports, for each of its bytes, the line/column obtained by
                             counting newlines (+ the starting line)
* `chunk_position_formula`   for EVERY configuration of the repairable places: reported line =
                             line in the chunk + everything `Globals.Line` accumulated before the parse
* `chunk_line_exact`         repaired loop: a byte of chunk k is reported at the line and column it has
                             in the concatenated input - for all chunk sequences (REPL loop)
* `chunk_line_exact_reader`  the same for the chunks after the first one of EvalReader/EvalFile
* `chunk_line_exact_reader_first`  the same for the first chunk of EvalReader/EvalFile (comments before
                             the first token are cut, the rest of its line is blanked)
* `chunk_line_exact_partial` unrepaired loop: the same, provided no earlier-or-same chunk has a newline
                             in the comments before its first token and no earlier chunk is Unicode-blank
* `orig_doublecount_witness` the unrepaired loop does report DESIGN F13's input one line too far
* `current_tree_cfg`         which configuration the tree under test has (regenerated table)
-/
namespace FileSet

/-! ## binary search -/

/-- `searchInts` returns `r - 1` where `r` is the partition point: all entries before `r` are `≤ x`,
    all entries from `r` on are `> x`; `r` is unique. -/
theorem searchInts_correct {a : List Nat} (hs : Sorted a) (x : Nat) :
    ∃ r : Nat, searchInts a x = (r : Int) - 1 ∧ PP a x r ∧ ∀ r', PP a x r' → r' = r :=
  ⟨searchIdx a x, rfl, searchIdx_PP hs x, fun _ h => h.unique (searchIdx_PP hs x)⟩

example : searchInts [0, 7, 12] 9 = 1 ∧ searchInts [0, 7, 12] 7 = 1 ∧ searchInts [0, 7, 12] 100 = 2 := by decide

/-! ## the fork against the standard library -/

theorem position_shift (s : FSet) (p : Int) :
    (s.positionFor p).2 = (s.stdPositionFor p).2 ∧
    (s.positionFor p).1.filename = (s.stdPositionFor p).1.filename ∧
    (s.positionFor p).1.offset = (s.stdPositionFor p).1.offset ∧
    (s.positionFor p).1.column = (s.stdPositionFor p).1.column ∧
    ((s.stdPositionFor p).1.isValid = false → (s.positionFor p).1 = (s.stdPositionFor p).1) ∧
    ((s.stdPositionFor p).1.isValid = true →
      ∃ i f, (s.fileOf p).1 = some i ∧ s.files[i]? = some f ∧
        (s.positionFor p).1.line = (s.stdPositionFor p).1.line + f.line) := by
  unfold FSet.positionFor FSet.stdPositionFor FSet.fileOf
  by_cases hp : p ≠ 0
  · simp only [hp, ne_eq, not_false_eq_true, if_true]
    have hfiles := file_files s p
    generalize s.file p = r at hfiles
    obtain ⟨a, s'⟩ := r
    simp only at hfiles
    cases a with
    | none => simp [Position.zero, Position.isValid]
    | some i =>
      simp only [hfiles]
      cases hf : s.files[i]? with
      | none => simp [Position.zero, Position.isValid]
      | some f =>
        simp only
        have hstd : f.stdPositionFor p = f.stdPosition p := by
          unfold File.stdPositionFor; rw [if_pos hp]
        unfold File.positionFor
        rw [hstd]
        cases hv : (f.stdPosition p).isValid with
        | true => simp [hv, hf]
        | false => simp [hv]
  · simp only [hp, if_false]
    simp [Position.zero, Position.isValid]

/-! ## lookup -/

theorem fileSlow_base (s : FSet) (p : Int) : (s.fileSlow p).2.base = s.base := by
  unfold FSet.fileSlow
  simp only
  split
  · split
    · split <;> rfl
    · rfl
  · rfl

theorem file_base (s : FSet) (p : Int) : (s.file p).2.base = s.base := by
  unfold FSet.file
  split
  · split
    · split
      · rfl
      · exact fileSlow_base s p
    · exact fileSlow_base s p
  · exact fileSlow_base s p

theorem fileOf_base (s : FSet) (p : Int) : (s.fileOf p).2.base = s.base := by
  unfold FSet.fileOf
  split
  · exact file_base s p
  · rfl

/-- the sets that any history of AddFile (with any base/size, panicking ones dropped), line-table
    updates and lookups can produce -/
inductive Reachable : FSet → Prop
  | empty : Reachable FSet.empty
  | add {s s' : FSet} {f : File} (name : String) (base size line : Int) :
      Reachable s → s.addFile name base size line = some (f, s') → Reachable s'
  | upd {s : FSet} (idx : Nat) (g : File) (hi : idx < s.files.length) :
      Reachable s → g.base = (s.files[idx]'hi).base → g.size = (s.files[idx]'hi).size → Reachable (s.setFile idx g)
  | look {s : FSet} (p : Int) : Reachable s → Reachable (s.fileOf p).2

theorem fileset_reachable_wf {s : FSet} (h : Reachable s) : s.WF ∧ 1 ≤ s.base := by
  induction h with
  | empty => exact ⟨FSet.WF.empty, Nat.le_refl _⟩
  | add name base size line _ hadd ih =>
    have := addFile_wf ih.1 ih.2 hadd
    exact ⟨this.1, this.2.1⟩
  | upd idx g hi _ hb hs ih => exact ⟨setFile_wf ih.1 hi hb hs, ih.2⟩
  | look p _ ih =>
    refine ⟨fileOf_wf ih.1 p, ?_⟩
    rw [fileOf_base]; exact ih.2

/-- every Pos inside an added file maps to that file, every other Pos to none - for every reachable
    set, independent of the `last` cache -/
theorem fileset_lookup_total {s : FSet} (h : Reachable s) (p : Int) :
    (∀ i (hi : i < s.files.length), inFile (s.files[i]'hi) p = true → (s.fileOf p).1 = some i) ∧
    ((∀ f ∈ s.files, inFile f p = false) → (s.fileOf p).1 = none) ∧
    (s.fileOf p).2.files = s.files :=
  ⟨fun _ hi hin => fileOf_complete (fileset_reachable_wf h).1 hi hin,
   fun hno => fileOf_none (fileset_reachable_wf h).1 hno,
   fileOf_files s p⟩

example : ∃ s f1 s1 f2, FSet.empty.addFile "a" (-1) 5 0 = some (f1, s1) ∧ s1.addFile "b" 10 3 7 = some (f2, s) ∧
    (s.fileOf 12).1 = some 1 ∧ (s.fileOf 8).1 = none ∧ (s.fileOf 6).1 = some 0 := by
  refine ⟨_, _, _, _, rfl, rfl, ?_⟩
  decide

/-! ## one scanned text -/

/-- after the scanner has run over `text`, the file reports every byte of it at the line (shifted
    by the starting line) and column obtained by counting newlines in `text` -/
theorem scanner_position_exact (name : String) (base : Nat) (hb : 1 ≤ base) (line : Int) (text : Bytes)
    (o : Nat) (ho : o < text.length) :
    ((File.mk name base text.length [0] line []).scan text).positionFor ((base : Int) + o) =
      ⟨name, o, ((lineCol text o).1 : Int) + line, ((lineCol text o).2 : Int)⟩ := by
  have hf := scanFrom_fields text (File.mk name base text.length [0] line []) 0
  have hl := scan_lineTable text (File.mk name base text.length [0] line []) rfl rfl
  have := file_position_exact hl (by exact hf.2.2.1) (by rw [show ((File.mk name base text.length [0] line []).scan text).base = base from hf.2.1]; exact hb) o ho
  rw [show ((File.mk name base text.length [0] line []).scan text).base = base from hf.2.1,
    show ((File.mk name base text.length [0] line []).scan text).name = name from hf.1,
    show ((File.mk name base text.length [0] line []).scan text).line = line from hf.2.2.2.1] at this
  exact this

example : ((File.mk "f" 1 6 [0] 10 []).scan [97, 10, 10, 98, 99, 10]).positionFor (1 + 4) = ⟨"f", 4, 13, 2⟩ := by decide

/-! ## the chunk loop -/

def init : LoopSt := ⟨0, FSet.empty, []⟩

theorem good_init : Good init := ⟨FSet.WF.empty, Nat.le_refl _⟩

theorem runChunks_repl (cfg : Cfg) (name : String) (cp : Bool) (st : LoopSt) (cs : List Chunk) :
    runChunks cfg .repl name cp st cs = cs.foldl (readStep cfg name cp) st := by
  cases cs <;> rfl

/-- `chunk_position_formula`: for every configuration, every chunk sequence and every byte of a chunk
    that reaches the parser. -/
theorem chunk_position_formula (cfg : Cfg) (name : String) (cp : Bool)
    (pre : List Chunk) (c : Chunk) (post : List Chunk)
    (hft : c.ft ≥ 0) (hr : reaches c.src = true) (o : Nat) (ho : o < c.src.length) :
    ∃ p, posOf (runChunks cfg .repl name cp init (pre ++ c :: post)) pre.length o = some p ∧
      ((runChunks cfg .repl name cp init (pre ++ c :: post)).fs.positionFor p).1 =
        ⟨name, o, ((lineCol c.src o).1 : Int) + (((pre.map (counted cfg)).sum + prefixInc cfg c : Nat) : Int),
          ((lineCol c.src o).2 : Int)⟩ := by
  rw [runChunks_repl]
  have := repl_position cfg name cp init good_init pre c post hft hr o ho
  simpa [init] using this

def inputOf (cs : List Chunk) : Bytes := (cs.map (·.src)).flatten

theorem startOf_mid (pre : List Chunk) (c : Chunk) (post : List Chunk) :
    startOf (pre ++ c :: post) pre.length = (inputOf pre).length := by
  unfold startOf inputOf
  rw [List.take_left' rfl, List.length_flatten, List.map_map]
  rfl

theorem inputOf_mid (pre : List Chunk) (c : Chunk) (post : List Chunk) :
    inputOf (pre ++ c :: post) = (pre.map (·.src)).flatten ++ c.src ++ inputOf post := by
  simp [inputOf, List.append_assoc]

theorem sum_counted {cfg : Cfg} {pre : List Chunk} (h : ∀ x ∈ pre, counted cfg x = nl x.src) :
    (pre.map (counted cfg)).sum = nl (inputOf pre) := by
  induction pre with
  | nil => rfl
  | cons x xs ih =>
    simp only [List.map_cons, List.sum_cons, inputOf, List.flatten_cons, nl_append]
    rw [h x (List.mem_cons_self ..)]
    have := ih (fun y hy => h y (List.mem_cons_of_mem _ hy))
    simp only [inputOf] at this
    omega

/-- exactness from the two facts the configuration must provide -/
theorem chunk_line_exact_of (cfg : Cfg) (name : String) (cp : Bool)
    (pre : List Chunk) (c : Chunk) (post : List Chunk)
    (hcount : ∀ x ∈ pre, counted cfg x = nl x.src) (hpre : prefixInc cfg c = 0)
    (hnl : ∀ x ∈ pre, x.src.getLast? = some 10)
    (hft : c.ft ≥ 0) (hr : reaches c.src = true) (o : Nat) (ho : o < c.src.length) :
    ∃ p, posOf (runChunks cfg .repl name cp init (pre ++ c :: post)) pre.length o = some p ∧
      ((runChunks cfg .repl name cp init (pre ++ c :: post)).fs.positionFor p).1 =
        ⟨name, o,
          ((lineCol (inputOf (pre ++ c :: post)) (startOf (pre ++ c :: post) pre.length + o)).1 : Int),
          ((lineCol (inputOf (pre ++ c :: post)) (startOf (pre ++ c :: post) pre.length + o)).2 : Int)⟩ := by
  obtain ⟨p, h1, h2⟩ := chunk_position_formula cfg name cp pre c post hft hr o ho
  refine ⟨p, h1, ?_⟩
  rw [h2, startOf_mid, inputOf_mid]
  have hnl' : ∀ x ∈ pre.map (·.src), x.getLast? = some 10 := by
    intro x hx
    obtain ⟨y, hy, rfl⟩ := List.mem_map.mp hx
    exact hnl y hy
  have := lineCol_concat (pre.map (·.src)) hnl' c.src (inputOf post) o (by omega)
  unfold inputOf at this ⊢
  rw [this, sum_counted hcount, hpre]
  simp only [inputOf, Nat.add_zero]
  congr 1

theorem pepCount_fixed (src : Bytes) : pepCount Cfg.fixed src = nl src := by
  unfold pepCount Cfg.fixed
  cases isBlank src <;> simp

theorem counted_fixed (c : Chunk) : counted Cfg.fixed c = nl c.src := by
  unfold counted pepCount Cfg.fixed
  by_cases h : c.ft < 0
  · simp [h]
  · simp only [h, if_false]
    cases isBlank c.src <;> simp

theorem prefixInc_fixed (c : Chunk) : prefixInc Cfg.fixed c = 0 := by
  simp [prefixInc, Cfg.fixed]

/-- `chunk_line_exact` (repaired loop, REPL entry): for every chunk sequence whose chunks are whole
    lines, a byte at offset `o` of a chunk that reaches the parser is reported with the file name,
    line and column it has in the concatenated input. -/
theorem chunk_line_exact (name : String) (cp : Bool)
    (pre : List Chunk) (c : Chunk) (post : List Chunk)
    (hnl : ∀ x ∈ pre, x.src.getLast? = some 10)
    (hft : c.ft ≥ 0) (hr : reaches c.src = true) (o : Nat) (ho : o < c.src.length) :
    ∃ p, posOf (runChunks Cfg.fixed .repl name cp init (pre ++ c :: post)) pre.length o = some p ∧
      ((runChunks Cfg.fixed .repl name cp init (pre ++ c :: post)).fs.positionFor p).1 =
        ⟨name, o,
          ((lineCol (inputOf (pre ++ c :: post)) (startOf (pre ++ c :: post) pre.length + o)).1 : Int),
          ((lineCol (inputOf (pre ++ c :: post)) (startOf (pre ++ c :: post) pre.length + o)).2 : Int)⟩ :=
  chunk_line_exact_of Cfg.fixed name cp pre c post (fun x _ => counted_fixed x) (prefixInc_fixed c) hnl hft hr o ho

/-- `chunk_line_exact_partial` (the loop as it is in the unrepaired tree): exact as long as no chunk
    up to and including the one in question has a newline in the comments before its first token,
    and no earlier chunk with a "token" is blank for `strings.TrimSpace`. -/
theorem chunk_line_exact_partial (name : String) (cp : Bool)
    (pre : List Chunk) (c : Chunk) (post : List Chunk)
    (hnoNl : ∀ x ∈ pre ++ [c], x.ft > 0 → nl (x.src.take x.ft.toNat) = 0)
    (hnoBlank : ∀ x ∈ pre, x.ft ≥ 0 → isBlank x.src = false)
    (hnl : ∀ x ∈ pre, x.src.getLast? = some 10)
    (hft : c.ft ≥ 0) (hr : reaches c.src = true) (o : Nat) (ho : o < c.src.length) :
    ∃ p, posOf (runChunks Cfg.orig .repl name cp init (pre ++ c :: post)) pre.length o = some p ∧
      ((runChunks Cfg.orig .repl name cp init (pre ++ c :: post)).fs.positionFor p).1 =
        ⟨name, o,
          ((lineCol (inputOf (pre ++ c :: post)) (startOf (pre ++ c :: post) pre.length + o)).1 : Int),
          ((lineCol (inputOf (pre ++ c :: post)) (startOf (pre ++ c :: post) pre.length + o)).2 : Int)⟩ := by
  apply chunk_line_exact_of Cfg.orig name cp pre c post ?_ ?_ hnl hft hr o ho
  · intro x hx
    unfold counted pepCount Cfg.orig
    by_cases h : x.ft < 0
    · simp [h]
    · simp only [h, if_false]
      have hb := hnoBlank x hx (by omega)
      by_cases h2 : x.ft > 0
      · have := hnoNl x (List.mem_append_left _ hx) h2
        simp [h2, this, hb]
      · simp [h2, hb]
  · unfold prefixInc Cfg.orig
    by_cases h2 : c.ft > 0
    · have := hnoNl c (List.mem_append_right _ (List.mem_singleton_self _)) h2
      simp [h2, this]
    · simp [h2]

/-- DESIGN F13: `x := 1\n/* a\n b */ y := undefinedz\n`: the unrepaired loop reports the identifier
    (offset 11 of the second chunk) on line 4, the repaired one on line 3 = its line in the input. -/
def f13 : List Chunk :=
  [⟨[120, 32, 58, 61, 32, 49, 10], 0⟩,
   ⟨[47, 42, 32, 97, 10, 32, 98, 32, 42, 47, 32, 121, 32, 58, 61, 32, 117, 110, 100, 101, 102, 105, 110, 101, 100, 122, 10], 11⟩]

def reportedLC (cfg : Cfg) (cs : List Chunk) (k o : Nat) : Option (Int × Int) :=
  let st := runChunks cfg .repl "repl.go" false init cs
  (posOf st k o).map fun p => ((st.fs.positionFor p).1.line, (st.fs.positionFor p).1.column)

theorem orig_doublecount_witness :
    reportedLC Cfg.orig f13 1 16 = some (4, 12) ∧ reportedLC Cfg.fixed f13 1 16 = some (3, 12) ∧
    lineCol (inputOf f13) (startOf f13 1 + 16) = (3, 12) := by
  decide

/-! ## EvalReader / EvalFile: the chunks after the hand-made first iteration -/

theorem readerFirst_spec (cfg : Cfg) (name : String) (cp : Bool) (st : LoopSt) (c : Chunk) (hg : Good st) :
    Good (readerFirst cfg name cp st c) ∧
    (∃ e, (readerFirst cfg name cp st c).parsed = st.parsed ++ [e]) ∧
    (cfg = Cfg.fixed → (readerFirst cfg name cp st c).line = nl c.src) := by
  unfold readerFirst
  by_cases h : c.ft > 0
  · simp only [h, if_true]
    have hg1 : Good { st with line := 0 + nl (List.take c.ft.toNat c.src) } := ⟨hg.wf, hg.base⟩
    obtain ⟨h1, _, h3, e, h4, _⟩ := parseEvalPrint_spec cfg name cp
      { st with line := 0 + nl (List.take c.ft.toNat c.src) }
      (List.replicate (c.ft.toNat - if cfg.firstBlank = true then bolOf c.src c.ft.toNat else c.ft.toNat) 32 ++
        List.drop c.ft.toNat c.src)
      (if cfg.firstBlank = true then bolOf c.src c.ft.toNat else c.ft.toNat) hg1
    refine ⟨h1, ⟨e, h4⟩, ?_⟩
    intro hc
    subst hc
    rw [h3, pepCount_fixed, nl_append, nl_replicate_32]
    have := nl_take_drop c.src c.ft.toNat
    simp only
    omega
  · simp only [h, if_false]
    have hg1 : Good { st with line := 0 } := ⟨hg.wf, hg.base⟩
    obtain ⟨h1, _, h3, e, h4, _⟩ := parseEvalPrint_spec cfg name cp { st with line := 0 } c.src 0 hg1
    refine ⟨h1, ⟨e, h4⟩, ?_⟩
    intro hc
    subst hc
    rw [h3, pepCount_fixed]
    simp

/-- `chunk_line_exact_reader` (repaired loop, EvalReader/EvalFile): every chunk after the first is
    reported at its true line and column in the whole input. -/
theorem chunk_line_exact_reader (name : String) (cp : Bool) (st0 : LoopSt) (hg : Good st0) (hp0 : st0.parsed = [])
    (c0 : Chunk) (pre : List Chunk) (c : Chunk) (post : List Chunk)
    (hnl0 : c0.src.getLast? = some 10) (hnl : ∀ x ∈ pre, x.src.getLast? = some 10)
    (hft : c.ft ≥ 0) (hr : reaches c.src = true) (o : Nat) (ho : o < c.src.length) :
    ∃ p, posOf (runChunks Cfg.fixed .reader name cp st0 (c0 :: pre ++ c :: post)) (1 + pre.length) o = some p ∧
      ((runChunks Cfg.fixed .reader name cp st0 (c0 :: pre ++ c :: post)).fs.positionFor p).1 =
        ⟨name, o,
          ((lineCol (inputOf ((c0 :: pre) ++ c :: post)) (startOf ((c0 :: pre) ++ c :: post) (c0 :: pre).length + o)).1 : Int),
          ((lineCol (inputOf ((c0 :: pre) ++ c :: post)) (startOf ((c0 :: pre) ++ c :: post) (c0 :: pre).length + o)).2 : Int)⟩ := by
  obtain ⟨g1, ⟨e, hp1⟩, hl1⟩ := readerFirst_spec Cfg.fixed name cp st0 c0 hg
  have hl1 := hl1 rfl
  have hrun : runChunks Cfg.fixed .reader name cp st0 (c0 :: pre ++ c :: post) =
      (pre ++ c :: post).foldl (readStep Cfg.fixed name cp) (readerFirst Cfg.fixed name cp st0 c0) := rfl
  rw [hrun]
  have := repl_position Cfg.fixed name cp _ g1 pre c post hft hr o ho
  simp only at this
  obtain ⟨p, h1, h2⟩ := this
  have hlen : (readerFirst Cfg.fixed name cp st0 c0).parsed.length = 1 := by rw [hp1, hp0]; simp
  rw [hlen] at h1
  refine ⟨p, h1, ?_⟩
  rw [h2, startOf_mid, inputOf_mid]
  have hnl' : ∀ x ∈ (c0 :: pre).map (·.src), x.getLast? = some 10 := by
    intro x hx
    obtain ⟨y, hy, rfl⟩ := List.mem_map.mp hx
    rcases List.mem_cons.mp hy with h | h
    · subst h; exact hnl0
    · exact hnl y h
  have := lineCol_concat ((c0 :: pre).map (·.src)) hnl' c.src (inputOf post) o (by omega)
  unfold inputOf at this ⊢
  rw [this, hl1, sum_counted (fun x _ => counted_fixed x), prefixInc_fixed]
  simp only [inputOf, Nat.add_zero, List.map_cons, List.flatten_cons, nl_append]
  congr 1

theorem lineCol_append_left (a b : Bytes) (o : Nat) (h : o ≤ a.length) : lineCol (a ++ b) o = lineCol a o := by
  rw [lineCol_eq, lineCol_eq, List.take_append_of_le_length h]

/-- `chunk_line_exact_reader_first` (repaired loop, EvalReader/EvalFile): every byte at or after the
    first token of the FIRST chunk is reported at its true line and column in the whole input,
    although the comments before the token never reach the parser. -/
theorem chunk_line_exact_reader_first (name : String) (cp : Bool) (st0 : LoopSt) (hg : Good st0) (hp0 : st0.parsed = [])
    (c0 : Chunk) (post : List Chunk) (hft : c0.ft.toNat ≤ c0.src.length)
    (hr : reaches (firstText Cfg.fixed c0).1 = true) (o : Nat) (ho1 : c0.ft.toNat ≤ o) (ho2 : o < c0.src.length) :
    ∃ p, posOf (runChunks Cfg.fixed .reader name cp st0 (c0 :: post)) 0 o = some p ∧
      ((runChunks Cfg.fixed .reader name cp st0 (c0 :: post)).fs.positionFor p).1 =
        ⟨name, o - (firstText Cfg.fixed c0).2,
          ((lineCol (inputOf (c0 :: post)) o).1 : Int), ((lineCol (inputOf (c0 :: post)) o).2 : Int)⟩ := by
  have hin : inputOf (c0 :: post) = c0.src ++ inputOf post := by simp [inputOf]
  rw [hin, lineCol_append_left _ _ _ (by omega)]
  by_cases h : c0.ft > 0
  · have hb := (bolOf_split c0.src c0.ft.toNat hft).1
    have htext : firstText Cfg.fixed c0 =
        (List.replicate (c0.ft.toNat - bolOf c0.src c0.ft.toNat) 32 ++ c0.src.drop c0.ft.toNat,
          bolOf c0.src c0.ft.toNat) := by
      simp [firstText, Cfg.fixed, h]
    have hline : firstLine c0 = nl (c0.src.take c0.ft.toNat) := by simp [firstLine, h]
    have hlen : (firstText Cfg.fixed c0).1.length = c0.src.length - bolOf c0.src c0.ft.toNat := by
      rw [htext]; simp; omega
    obtain ⟨p, h1, h2⟩ := reader_first_position Cfg.fixed name cp st0 hg hp0 c0 post hr
      (o - bolOf c0.src c0.ft.toNat) (by rw [hlen]; omega)
    rw [htext] at h1 h2
    simp only at h1 h2
    have ho : bolOf c0.src c0.ft.toNat + (o - bolOf c0.src c0.ft.toNat) = o := by omega
    rw [ho] at h1
    refine ⟨p, h1, ?_⟩
    rw [h2, htext, hline, lineCol_blank_prefix c0.src c0.ft.toNat o hft ho1 (by omega)]
    simp only
    congr 1
  · have htext : firstText Cfg.fixed c0 = (c0.src, 0) := by simp [firstText, h]
    have hline : firstLine c0 = 0 := by simp [firstLine, h]
    rw [htext] at hr
    obtain ⟨p, h1, h2⟩ := reader_first_position Cfg.fixed name cp st0 hg hp0 c0 post (by rw [htext]; exact hr)
      o (by rw [htext]; exact ho2)
    rw [htext] at h1 h2
    simp only [Nat.zero_add] at h1 h2
    refine ⟨p, h1, ?_⟩
    rw [h2, htext, hline]
    simp

/-! ## the tree under test -/

/-- Which configuration the tree under test has (Gen/C27Cfg.lean is regenerated from fast/repl.go and
    fast/interpreter.go on every run): it is one of the two the theorems above speak about. -/
theorem current_tree_cfg : Gen.C27.cfg = Cfg.fixed ∨ Gen.C27.cfg = Cfg.orig := by decide

end FileSet
