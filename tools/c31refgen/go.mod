module verif/tools/c31refgen

go 1.21
