#!/bin/sh
# usage: runh.sh REPO OUT [tier] [seed]
export GOFLAGS=-mod=mod GOPROXY=off GOSUMDB=off GOTOOLCHAIN=local VERIF_DIR=/scratch/v-C26 VERIF_REPO=$1
cd /scratch/v-C26/harness && cp $1/go.sum . && go mod edit -replace github.com/cosmos72/gomacro=$1 && go build -tags verif -o /scratch/v-C26/bin/harness-$2 . || exit 1
cd /scratch/v-C26 && ./bin/harness-$2 run -prop C26 -tier ${3:-quick} -seed ${4:-1} -out .work/c26-$2 -corpus /scratch/v-C26/corpus
python3 - <<PY
import json,collections
r=json.load(open('/scratch/v-C26/.work/c26-$2/report.json'))
print(r['evaluations'], r['distinct_nontrivial'], r['distribution'])
print(collections.Counter(v['key'] for v in r['violations']))
seen=set()
for v in r['violations']:
    if v['key'] not in seen:
        seen.add(v['key']); print(v['key'], '|', v['desc'][:400])
PY
